use asn1rs::prelude::*;

#[asn(transparent, tag(APPLICATION(9)))]

#[derive(Default, Debug, Clone, PartialEq, Hash)]
pub struct Tapp9(#[asn(integer(0..3))] pub u8);

impl Tapp9 {
    pub const fn value_min() -> u8 {
        0
    }

    pub const fn value_max() -> u8 {
        3
    }
}

impl Tapp9 {
    pub const fn new(value: u8) -> Self {
        Self(value)
    }
}

impl ::core::ops::Deref for Tapp9 {
    type Target = u8;

    fn deref(&self) -> &u8 {
        &self.0
    }
}

impl ::core::ops::DerefMut for Tapp9 {
    fn deref_mut(&mut self) -> &mut u8 {
        &mut self.0
    }
}

impl ::core::convert::From<u8> for Tapp9 {
    fn from(value: u8) -> Self {
        Self(value)
    }
}

impl ::core::convert::From<Tapp9> for u8 {
    fn from(value: Tapp9) -> Self {
        value.0
    }
}

#[asn(sequence)]

#[derive(Default, Debug, Clone, PartialEq, Hash)]
pub struct Tsq {
    #[asn(boolean)] pub z: bool,
}

impl Tsq {
}

#[asn(choice)]

#[derive(Debug, Clone, PartialEq, Hash)]
pub enum Tcho {
    #[asn(boolean, tag(4))] M(bool),
    #[asn(integer(0..7), tag(1))] N(u8),
}

impl Tcho {
    pub fn variants() -> [Self; 2] {
        [
        Tcho::M(Default::default()),
        Tcho::N(Default::default()),
        ]
    }

    pub fn value_index(&self) -> usize {
        match self {
            Tcho::M(_) => 0,
            Tcho::N(_) => 1,
        }
    }

    pub const fn n_min() -> u8 {
        0
    }

    pub const fn n_max() -> u8 {
        7
    }
}

impl Default for Tcho {
    fn default() -> Tcho {
        Tcho::M(Default::default())
    }
}

#[asn(choice, extensible_after(N))]

#[derive(Debug, Clone, PartialEq, Hash)]
pub enum Tchox {
    #[asn(boolean, tag(PRIVATE(1)))] M(bool),
    #[asn(integer(0..7), tag(PRIVATE(3)))] N(u8),
    #[asn(null, tag(APPLICATION(2)))] O(Null),
}

impl Tchox {
    pub fn variants() -> [Self; 3] {
        [
        Tchox::M(Default::default()),
        Tchox::N(Default::default()),
        Tchox::O(Default::default()),
        ]
    }

    pub fn value_index(&self) -> usize {
        match self {
            Tchox::M(_) => 0,
            Tchox::N(_) => 1,
            Tchox::O(_) => 2,
        }
    }

    pub const fn n_min() -> u8 {
        0
    }

    pub const fn n_max() -> u8 {
        7
    }
}

impl Default for Tchox {
    fn default() -> Tchox {
        Tchox::M(Default::default())
    }
}

#[asn(set)]

#[derive(Default, Debug, Clone, PartialEq, Hash)]
pub struct Tst {
    #[asn(boolean)] pub z: bool,
}

impl Tst {
}

#[asn(set)]

#[derive(Default, Debug, Clone, PartialEq, Hash)]
pub struct Ttp0 {
    #[asn(integer(0..7), tag(UNIVERSAL(30)))] pub x: u8,
}

impl Ttp0 {
    pub const fn x_min() -> u8 {
        0
    }

    pub const fn x_max() -> u8 {
        7
    }
}

#[asn(set)]

#[derive(Default, Debug, Clone, PartialEq, Hash)]
pub struct Ttp1 {
    #[asn(optional(integer(0..15)), tag(APPLICATION(1)))] pub a: Option<u8>,
}

impl Ttp1 {
    pub const fn a_min() -> u8 {
        0
    }

    pub const fn a_max() -> u8 {
        15
    }
}

#[asn(set)]

#[derive(Default, Debug, Clone, PartialEq, Hash)]
pub struct Ttp2 {
    #[asn(integer(0..31), tag(3))] pub c3: u8,
}

impl Ttp2 {
    pub const fn c3_min() -> u8 {
        0
    }

    pub const fn c3_max() -> u8 {
        31
    }
}

#[asn(set)]

#[derive(Default, Debug, Clone, PartialEq, Hash)]
pub struct Ttp3 {
    #[asn(optional(integer(0..63)), tag(0))] pub c0: Option<u8>,
}

impl Ttp3 {
    pub const fn c0_min() -> u8 {
        0
    }

    pub const fn c0_max() -> u8 {
        63
    }
}

#[asn(set)]

#[derive(Default, Debug, Clone, PartialEq, Hash)]
pub struct Ttp4 {
    #[asn(integer(0..127), tag(PRIVATE(2)))] pub p: u8,
}

impl Ttp4 {
    pub const fn p_min() -> u8 {
        0
    }

    pub const fn p_max() -> u8 {
        127
    }
}

#[asn(set)]

#[derive(Default, Debug, Clone, PartialEq, Hash)]
pub struct Ttp5 {
    #[asn(optional(boolean))] pub b: Option<bool>,
}

impl Ttp5 {
}

#[asn(set)]

#[derive(Default, Debug, Clone, PartialEq, Hash)]
pub struct Ttp6 {
    #[asn(integer(0..255))] pub i: u8,
}

impl Ttp6 {
    pub const fn i_min() -> u8 {
        0
    }

    pub const fn i_max() -> u8 {
        255
    }
}

#[asn(set)]

#[derive(Default, Debug, Clone, PartialEq, Hash)]
pub struct Ttp7 {
    #[asn(optional(complex(Tapp9, tag(APPLICATION(9)))))] pub ra: Option<Tapp9>,
}

impl Ttp7 {
}

#[asn(set)]

#[derive(Default, Debug, Clone, PartialEq, Hash)]
pub struct Ttp8 {
    #[asn(complex(Tsq, tag(UNIVERSAL(16))))] pub rs: Tsq,
}

impl Ttp8 {
}

#[asn(set)]

#[derive(Default, Debug, Clone, PartialEq, Hash)]
pub struct Ttp9 {
    #[asn(optional(complex(Tcho, tag(1))))] pub rc: Option<Tcho>,
}

impl Ttp9 {
}

#[asn(set)]

#[derive(Default, Debug, Clone, PartialEq, Hash)]
pub struct Ttp10 {
    #[asn(complex(Tst, tag(UNIVERSAL(17))))] pub rt: Tst,
}

impl Ttp10 {
}

#[asn(set)]

#[derive(Default, Debug, Clone, PartialEq, Hash)]
pub struct Ttp11 {
    #[asn(optional(sequence_of(size(0..3), boolean)))] pub so: Option<Vec<bool>>,
}

impl Ttp11 {
}

#[asn(set)]

#[derive(Default, Debug, Clone, PartialEq, Hash)]
pub struct Ttp12 {
    #[asn(set_of(size(0..2), boolean))] pub st: Vec<bool>,
}

impl Ttp12 {
}

#[asn(set)]

#[derive(Default, Debug, Clone, PartialEq, Hash)]
pub struct Ttp13 {
    #[asn(optional(complex(Tchox, tag(PRIVATE(1)))))] pub rx: Option<Tchox>,
}

impl Ttp13 {
}

#[asn(set)]

#[derive(Default, Debug, Clone, PartialEq, Hash)]
pub struct Ttp14 {
    #[asn(integer(0..1), tag(UNIVERSAL(2)))] pub u2: u8,
}

impl Ttp14 {
    pub const fn u2_min() -> u8 {
        0
    }

    pub const fn u2_max() -> u8 {
        1
    }
}

#[asn(sequence, tag(APPLICATION(5)))]

#[derive(Default, Debug, Clone, PartialEq, Hash)]
pub struct Ttp15Is {
    #[asn(integer(0..3))] pub v: u8,
}

impl Ttp15Is {
    pub const fn v_min() -> u8 {
        0
    }

    pub const fn v_max() -> u8 {
        3
    }
}

#[asn(set)]

#[derive(Default, Debug, Clone, PartialEq, Hash)]
pub struct Ttp15 {
    #[asn(optional(complex(Ttp15Is, tag(APPLICATION(5)))), tag(APPLICATION(5)))] pub is: Option<Ttp15Is>,
}

impl Ttp15 {
}

#[asn(set)]

#[derive(Default, Debug, Clone, PartialEq, Hash)]
pub struct Ttp0p1 {
    #[asn(integer(0..7), tag(UNIVERSAL(30)))] pub x: u8,
    #[asn(optional(integer(0..15)), tag(APPLICATION(1)))] pub a: Option<u8>,
}

impl Ttp0p1 {
    pub const fn x_min() -> u8 {
        0
    }

    pub const fn x_max() -> u8 {
        7
    }

    pub const fn a_min() -> u8 {
        0
    }

    pub const fn a_max() -> u8 {
        15
    }
}

#[asn(set)]

#[derive(Default, Debug, Clone, PartialEq, Hash)]
pub struct Ttp0p2 {
    #[asn(integer(0..7), tag(UNIVERSAL(30)))] pub x: u8,
    #[asn(integer(0..31), tag(3))] pub c3: u8,
}

impl Ttp0p2 {
    pub const fn x_min() -> u8 {
        0
    }

    pub const fn x_max() -> u8 {
        7
    }

    pub const fn c3_min() -> u8 {
        0
    }

    pub const fn c3_max() -> u8 {
        31
    }
}

#[asn(set)]

#[derive(Default, Debug, Clone, PartialEq, Hash)]
pub struct Ttp0p3 {
    #[asn(integer(0..7), tag(UNIVERSAL(30)))] pub x: u8,
    #[asn(optional(integer(0..63)), tag(0))] pub c0: Option<u8>,
}

impl Ttp0p3 {
    pub const fn x_min() -> u8 {
        0
    }

    pub const fn x_max() -> u8 {
        7
    }

    pub const fn c0_min() -> u8 {
        0
    }

    pub const fn c0_max() -> u8 {
        63
    }
}

#[asn(set)]

#[derive(Default, Debug, Clone, PartialEq, Hash)]
pub struct Ttp0p4 {
    #[asn(integer(0..7), tag(UNIVERSAL(30)))] pub x: u8,
    #[asn(integer(0..127), tag(PRIVATE(2)))] pub p: u8,
}

impl Ttp0p4 {
    pub const fn x_min() -> u8 {
        0
    }

    pub const fn x_max() -> u8 {
        7
    }

    pub const fn p_min() -> u8 {
        0
    }

    pub const fn p_max() -> u8 {
        127
    }
}

#[asn(set)]

#[derive(Default, Debug, Clone, PartialEq, Hash)]
pub struct Ttp0p5 {
    #[asn(integer(0..7), tag(UNIVERSAL(30)))] pub x: u8,
    #[asn(optional(boolean))] pub b: Option<bool>,
}

impl Ttp0p5 {
    pub const fn x_min() -> u8 {
        0
    }

    pub const fn x_max() -> u8 {
        7
    }
}

#[asn(set)]

#[derive(Default, Debug, Clone, PartialEq, Hash)]
pub struct Ttp0p6 {
    #[asn(integer(0..7), tag(UNIVERSAL(30)))] pub x: u8,
    #[asn(integer(0..255))] pub i: u8,
}

impl Ttp0p6 {
    pub const fn x_min() -> u8 {
        0
    }

    pub const fn x_max() -> u8 {
        7
    }

    pub const fn i_min() -> u8 {
        0
    }

    pub const fn i_max() -> u8 {
        255
    }
}

#[asn(set)]

#[derive(Default, Debug, Clone, PartialEq, Hash)]
pub struct Ttp0p7 {
    #[asn(integer(0..7), tag(UNIVERSAL(30)))] pub x: u8,
    #[asn(optional(complex(Tapp9, tag(APPLICATION(9)))))] pub ra: Option<Tapp9>,
}

impl Ttp0p7 {
    pub const fn x_min() -> u8 {
        0
    }

    pub const fn x_max() -> u8 {
        7
    }
}

#[asn(set)]

#[derive(Default, Debug, Clone, PartialEq, Hash)]
pub struct Ttp0p8 {
    #[asn(integer(0..7), tag(UNIVERSAL(30)))] pub x: u8,
    #[asn(complex(Tsq, tag(UNIVERSAL(16))))] pub rs: Tsq,
}

impl Ttp0p8 {
    pub const fn x_min() -> u8 {
        0
    }

    pub const fn x_max() -> u8 {
        7
    }
}

#[asn(set)]

#[derive(Default, Debug, Clone, PartialEq, Hash)]
pub struct Ttp0p9 {
    #[asn(integer(0..7), tag(UNIVERSAL(30)))] pub x: u8,
    #[asn(optional(complex(Tcho, tag(1))))] pub rc: Option<Tcho>,
}

impl Ttp0p9 {
    pub const fn x_min() -> u8 {
        0
    }

    pub const fn x_max() -> u8 {
        7
    }
}

#[asn(set)]

#[derive(Default, Debug, Clone, PartialEq, Hash)]
pub struct Ttp0p10 {
    #[asn(integer(0..7), tag(UNIVERSAL(30)))] pub x: u8,
    #[asn(complex(Tst, tag(UNIVERSAL(17))))] pub rt: Tst,
}

impl Ttp0p10 {
    pub const fn x_min() -> u8 {
        0
    }

    pub const fn x_max() -> u8 {
        7
    }
}

#[asn(set)]

#[derive(Default, Debug, Clone, PartialEq, Hash)]
pub struct Ttp0p11 {
    #[asn(integer(0..7), tag(UNIVERSAL(30)))] pub x: u8,
    #[asn(optional(sequence_of(size(0..3), boolean)))] pub so: Option<Vec<bool>>,
}

impl Ttp0p11 {
    pub const fn x_min() -> u8 {
        0
    }

    pub const fn x_max() -> u8 {
        7
    }
}

#[asn(set)]

#[derive(Default, Debug, Clone, PartialEq, Hash)]
pub struct Ttp0p12 {
    #[asn(integer(0..7), tag(UNIVERSAL(30)))] pub x: u8,
    #[asn(set_of(size(0..2), boolean))] pub st: Vec<bool>,
}

impl Ttp0p12 {
    pub const fn x_min() -> u8 {
        0
    }

    pub const fn x_max() -> u8 {
        7
    }
}

#[asn(set)]

#[derive(Default, Debug, Clone, PartialEq, Hash)]
pub struct Ttp0p13 {
    #[asn(integer(0..7), tag(UNIVERSAL(30)))] pub x: u8,
    #[asn(optional(complex(Tchox, tag(PRIVATE(1)))))] pub rx: Option<Tchox>,
}

impl Ttp0p13 {
    pub const fn x_min() -> u8 {
        0
    }

    pub const fn x_max() -> u8 {
        7
    }
}

#[asn(set)]

#[derive(Default, Debug, Clone, PartialEq, Hash)]
pub struct Ttp0p14 {
    #[asn(integer(0..7), tag(UNIVERSAL(30)))] pub x: u8,
    #[asn(integer(0..1), tag(UNIVERSAL(2)))] pub u2: u8,
}

impl Ttp0p14 {
    pub const fn x_min() -> u8 {
        0
    }

    pub const fn x_max() -> u8 {
        7
    }

    pub const fn u2_min() -> u8 {
        0
    }

    pub const fn u2_max() -> u8 {
        1
    }
}

#[asn(sequence, tag(APPLICATION(5)))]

#[derive(Default, Debug, Clone, PartialEq, Hash)]
pub struct Ttp0p15Is {
    #[asn(integer(0..3))] pub v: u8,
}

impl Ttp0p15Is {
    pub const fn v_min() -> u8 {
        0
    }

    pub const fn v_max() -> u8 {
        3
    }
}

#[asn(set)]

#[derive(Default, Debug, Clone, PartialEq, Hash)]
pub struct Ttp0p15 {
    #[asn(integer(0..7), tag(UNIVERSAL(30)))] pub x: u8,
    #[asn(optional(complex(Ttp0p15Is, tag(APPLICATION(5)))), tag(APPLICATION(5)))] pub is: Option<Ttp0p15Is>,
}

impl Ttp0p15 {
    pub const fn x_min() -> u8 {
        0
    }

    pub const fn x_max() -> u8 {
        7
    }
}

#[asn(set)]

#[derive(Default, Debug, Clone, PartialEq, Hash)]
pub struct Ttp1p0 {
    #[asn(optional(integer(0..15)), tag(APPLICATION(1)))] pub a: Option<u8>,
    #[asn(integer(0..7), tag(UNIVERSAL(30)))] pub x: u8,
}

impl Ttp1p0 {
    pub const fn a_min() -> u8 {
        0
    }

    pub const fn a_max() -> u8 {
        15
    }

    pub const fn x_min() -> u8 {
        0
    }

    pub const fn x_max() -> u8 {
        7
    }
}

#[asn(set)]

#[derive(Default, Debug, Clone, PartialEq, Hash)]
pub struct Ttp1p2 {
    #[asn(optional(integer(0..15)), tag(APPLICATION(1)))] pub a: Option<u8>,
    #[asn(integer(0..31), tag(3))] pub c3: u8,
}

impl Ttp1p2 {
    pub const fn a_min() -> u8 {
        0
    }

    pub const fn a_max() -> u8 {
        15
    }

    pub const fn c3_min() -> u8 {
        0
    }

    pub const fn c3_max() -> u8 {
        31
    }
}

#[asn(set)]

#[derive(Default, Debug, Clone, PartialEq, Hash)]
pub struct Ttp1p3 {
    #[asn(optional(integer(0..15)), tag(APPLICATION(1)))] pub a: Option<u8>,
    #[asn(optional(integer(0..63)), tag(0))] pub c0: Option<u8>,
}

impl Ttp1p3 {
    pub const fn a_min() -> u8 {
        0
    }

    pub const fn a_max() -> u8 {
        15
    }

    pub const fn c0_min() -> u8 {
        0
    }

    pub const fn c0_max() -> u8 {
        63
    }
}

#[asn(set)]

#[derive(Default, Debug, Clone, PartialEq, Hash)]
pub struct Ttp1p4 {
    #[asn(optional(integer(0..15)), tag(APPLICATION(1)))] pub a: Option<u8>,
    #[asn(integer(0..127), tag(PRIVATE(2)))] pub p: u8,
}

impl Ttp1p4 {
    pub const fn a_min() -> u8 {
        0
    }

    pub const fn a_max() -> u8 {
        15
    }

    pub const fn p_min() -> u8 {
        0
    }

    pub const fn p_max() -> u8 {
        127
    }
}

#[asn(set)]

#[derive(Default, Debug, Clone, PartialEq, Hash)]
pub struct Ttp1p5 {
    #[asn(optional(integer(0..15)), tag(APPLICATION(1)))] pub a: Option<u8>,
    #[asn(optional(boolean))] pub b: Option<bool>,
}

impl Ttp1p5 {
    pub const fn a_min() -> u8 {
        0
    }

    pub const fn a_max() -> u8 {
        15
    }
}

#[asn(set)]

#[derive(Default, Debug, Clone, PartialEq, Hash)]
pub struct Ttp1p6 {
    #[asn(optional(integer(0..15)), tag(APPLICATION(1)))] pub a: Option<u8>,
    #[asn(integer(0..255))] pub i: u8,
}

impl Ttp1p6 {
    pub const fn a_min() -> u8 {
        0
    }

    pub const fn a_max() -> u8 {
        15
    }

    pub const fn i_min() -> u8 {
        0
    }

    pub const fn i_max() -> u8 {
        255
    }
}

#[asn(set)]

#[derive(Default, Debug, Clone, PartialEq, Hash)]
pub struct Ttp1p7 {
    #[asn(optional(integer(0..15)), tag(APPLICATION(1)))] pub a: Option<u8>,
    #[asn(optional(complex(Tapp9, tag(APPLICATION(9)))))] pub ra: Option<Tapp9>,
}

impl Ttp1p7 {
    pub const fn a_min() -> u8 {
        0
    }

    pub const fn a_max() -> u8 {
        15
    }
}

#[asn(set)]

#[derive(Default, Debug, Clone, PartialEq, Hash)]
pub struct Ttp1p8 {
    #[asn(optional(integer(0..15)), tag(APPLICATION(1)))] pub a: Option<u8>,
    #[asn(complex(Tsq, tag(UNIVERSAL(16))))] pub rs: Tsq,
}

impl Ttp1p8 {
    pub const fn a_min() -> u8 {
        0
    }

    pub const fn a_max() -> u8 {
        15
    }
}

#[asn(set)]

#[derive(Default, Debug, Clone, PartialEq, Hash)]
pub struct Ttp1p9 {
    #[asn(optional(integer(0..15)), tag(APPLICATION(1)))] pub a: Option<u8>,
    #[asn(optional(complex(Tcho, tag(1))))] pub rc: Option<Tcho>,
}

impl Ttp1p9 {
    pub const fn a_min() -> u8 {
        0
    }

    pub const fn a_max() -> u8 {
        15
    }
}

#[asn(set)]

#[derive(Default, Debug, Clone, PartialEq, Hash)]
pub struct Ttp1p10 {
    #[asn(optional(integer(0..15)), tag(APPLICATION(1)))] pub a: Option<u8>,
    #[asn(complex(Tst, tag(UNIVERSAL(17))))] pub rt: Tst,
}

impl Ttp1p10 {
    pub const fn a_min() -> u8 {
        0
    }

    pub const fn a_max() -> u8 {
        15
    }
}

#[asn(set)]

#[derive(Default, Debug, Clone, PartialEq, Hash)]
pub struct Ttp1p11 {
    #[asn(optional(integer(0..15)), tag(APPLICATION(1)))] pub a: Option<u8>,
    #[asn(optional(sequence_of(size(0..3), boolean)))] pub so: Option<Vec<bool>>,
}

impl Ttp1p11 {
    pub const fn a_min() -> u8 {
        0
    }

    pub const fn a_max() -> u8 {
        15
    }
}

#[asn(set)]

#[derive(Default, Debug, Clone, PartialEq, Hash)]
pub struct Ttp1p12 {
    #[asn(optional(integer(0..15)), tag(APPLICATION(1)))] pub a: Option<u8>,
    #[asn(set_of(size(0..2), boolean))] pub st: Vec<bool>,
}

impl Ttp1p12 {
    pub const fn a_min() -> u8 {
        0
    }

    pub const fn a_max() -> u8 {
        15
    }
}

#[asn(set)]

#[derive(Default, Debug, Clone, PartialEq, Hash)]
pub struct Ttp1p13 {
    #[asn(optional(integer(0..15)), tag(APPLICATION(1)))] pub a: Option<u8>,
    #[asn(optional(complex(Tchox, tag(PRIVATE(1)))))] pub rx: Option<Tchox>,
}

impl Ttp1p13 {
    pub const fn a_min() -> u8 {
        0
    }

    pub const fn a_max() -> u8 {
        15
    }
}

#[asn(set)]

#[derive(Default, Debug, Clone, PartialEq, Hash)]
pub struct Ttp1p14 {
    #[asn(optional(integer(0..15)), tag(APPLICATION(1)))] pub a: Option<u8>,
    #[asn(integer(0..1), tag(UNIVERSAL(2)))] pub u2: u8,
}

impl Ttp1p14 {
    pub const fn a_min() -> u8 {
        0
    }

    pub const fn a_max() -> u8 {
        15
    }

    pub const fn u2_min() -> u8 {
        0
    }

    pub const fn u2_max() -> u8 {
        1
    }
}

#[asn(sequence, tag(APPLICATION(5)))]

#[derive(Default, Debug, Clone, PartialEq, Hash)]
pub struct Ttp1p15Is {
    #[asn(integer(0..3))] pub v: u8,
}

impl Ttp1p15Is {
    pub const fn v_min() -> u8 {
        0
    }

    pub const fn v_max() -> u8 {
        3
    }
}

#[asn(set)]

#[derive(Default, Debug, Clone, PartialEq, Hash)]
pub struct Ttp1p15 {
    #[asn(optional(integer(0..15)), tag(APPLICATION(1)))] pub a: Option<u8>,
    #[asn(optional(complex(Ttp1p15Is, tag(APPLICATION(5)))), tag(APPLICATION(5)))] pub is: Option<Ttp1p15Is>,
}

impl Ttp1p15 {
    pub const fn a_min() -> u8 {
        0
    }

    pub const fn a_max() -> u8 {
        15
    }
}

#[asn(set)]

#[derive(Default, Debug, Clone, PartialEq, Hash)]
pub struct Ttp2p0 {
    #[asn(integer(0..31), tag(3))] pub c3: u8,
    #[asn(integer(0..7), tag(UNIVERSAL(30)))] pub x: u8,
}

impl Ttp2p0 {
    pub const fn c3_min() -> u8 {
        0
    }

    pub const fn c3_max() -> u8 {
        31
    }

    pub const fn x_min() -> u8 {
        0
    }

    pub const fn x_max() -> u8 {
        7
    }
}

#[asn(set)]

#[derive(Default, Debug, Clone, PartialEq, Hash)]
pub struct Ttp2p1 {
    #[asn(integer(0..31), tag(3))] pub c3: u8,
    #[asn(optional(integer(0..15)), tag(APPLICATION(1)))] pub a: Option<u8>,
}

impl Ttp2p1 {
    pub const fn c3_min() -> u8 {
        0
    }

    pub const fn c3_max() -> u8 {
        31
    }

    pub const fn a_min() -> u8 {
        0
    }

    pub const fn a_max() -> u8 {
        15
    }
}

#[asn(set)]

#[derive(Default, Debug, Clone, PartialEq, Hash)]
pub struct Ttp2p3 {
    #[asn(integer(0..31), tag(3))] pub c3: u8,
    #[asn(optional(integer(0..63)), tag(0))] pub c0: Option<u8>,
}

impl Ttp2p3 {
    pub const fn c3_min() -> u8 {
        0
    }

    pub const fn c3_max() -> u8 {
        31
    }

    pub const fn c0_min() -> u8 {
        0
    }

    pub const fn c0_max() -> u8 {
        63
    }
}

#[asn(set)]

#[derive(Default, Debug, Clone, PartialEq, Hash)]
pub struct Ttp2p4 {
    #[asn(integer(0..31), tag(3))] pub c3: u8,
    #[asn(integer(0..127), tag(PRIVATE(2)))] pub p: u8,
}

impl Ttp2p4 {
    pub const fn c3_min() -> u8 {
        0
    }

    pub const fn c3_max() -> u8 {
        31
    }

    pub const fn p_min() -> u8 {
        0
    }

    pub const fn p_max() -> u8 {
        127
    }
}

#[asn(set)]

#[derive(Default, Debug, Clone, PartialEq, Hash)]
pub struct Ttp2p5 {
    #[asn(integer(0..31), tag(3))] pub c3: u8,
    #[asn(optional(boolean))] pub b: Option<bool>,
}

impl Ttp2p5 {
    pub const fn c3_min() -> u8 {
        0
    }

    pub const fn c3_max() -> u8 {
        31
    }
}

#[asn(set)]

#[derive(Default, Debug, Clone, PartialEq, Hash)]
pub struct Ttp2p6 {
    #[asn(integer(0..31), tag(3))] pub c3: u8,
    #[asn(integer(0..255))] pub i: u8,
}

impl Ttp2p6 {
    pub const fn c3_min() -> u8 {
        0
    }

    pub const fn c3_max() -> u8 {
        31
    }

    pub const fn i_min() -> u8 {
        0
    }

    pub const fn i_max() -> u8 {
        255
    }
}

#[asn(set)]

#[derive(Default, Debug, Clone, PartialEq, Hash)]
pub struct Ttp2p7 {
    #[asn(integer(0..31), tag(3))] pub c3: u8,
    #[asn(optional(complex(Tapp9, tag(APPLICATION(9)))))] pub ra: Option<Tapp9>,
}

impl Ttp2p7 {
    pub const fn c3_min() -> u8 {
        0
    }

    pub const fn c3_max() -> u8 {
        31
    }
}

#[asn(set)]

#[derive(Default, Debug, Clone, PartialEq, Hash)]
pub struct Ttp2p8 {
    #[asn(integer(0..31), tag(3))] pub c3: u8,
    #[asn(complex(Tsq, tag(UNIVERSAL(16))))] pub rs: Tsq,
}

impl Ttp2p8 {
    pub const fn c3_min() -> u8 {
        0
    }

    pub const fn c3_max() -> u8 {
        31
    }
}

#[asn(set)]

#[derive(Default, Debug, Clone, PartialEq, Hash)]
pub struct Ttp2p9 {
    #[asn(integer(0..31), tag(3))] pub c3: u8,
    #[asn(optional(complex(Tcho, tag(1))))] pub rc: Option<Tcho>,
}

impl Ttp2p9 {
    pub const fn c3_min() -> u8 {
        0
    }

    pub const fn c3_max() -> u8 {
        31
    }
}

#[asn(set)]

#[derive(Default, Debug, Clone, PartialEq, Hash)]
pub struct Ttp2p10 {
    #[asn(integer(0..31), tag(3))] pub c3: u8,
    #[asn(complex(Tst, tag(UNIVERSAL(17))))] pub rt: Tst,
}

impl Ttp2p10 {
    pub const fn c3_min() -> u8 {
        0
    }

    pub const fn c3_max() -> u8 {
        31
    }
}

#[asn(set)]

#[derive(Default, Debug, Clone, PartialEq, Hash)]
pub struct Ttp2p11 {
    #[asn(integer(0..31), tag(3))] pub c3: u8,
    #[asn(optional(sequence_of(size(0..3), boolean)))] pub so: Option<Vec<bool>>,
}

impl Ttp2p11 {
    pub const fn c3_min() -> u8 {
        0
    }

    pub const fn c3_max() -> u8 {
        31
    }
}

#[asn(set)]

#[derive(Default, Debug, Clone, PartialEq, Hash)]
pub struct Ttp2p12 {
    #[asn(integer(0..31), tag(3))] pub c3: u8,
    #[asn(set_of(size(0..2), boolean))] pub st: Vec<bool>,
}

impl Ttp2p12 {
    pub const fn c3_min() -> u8 {
        0
    }

    pub const fn c3_max() -> u8 {
        31
    }
}

#[asn(set)]

#[derive(Default, Debug, Clone, PartialEq, Hash)]
pub struct Ttp2p13 {
    #[asn(integer(0..31), tag(3))] pub c3: u8,
    #[asn(optional(complex(Tchox, tag(PRIVATE(1)))))] pub rx: Option<Tchox>,
}

impl Ttp2p13 {
    pub const fn c3_min() -> u8 {
        0
    }

    pub const fn c3_max() -> u8 {
        31
    }
}

#[asn(set)]

#[derive(Default, Debug, Clone, PartialEq, Hash)]
pub struct Ttp2p14 {
    #[asn(integer(0..31), tag(3))] pub c3: u8,
    #[asn(integer(0..1), tag(UNIVERSAL(2)))] pub u2: u8,
}

impl Ttp2p14 {
    pub const fn c3_min() -> u8 {
        0
    }

    pub const fn c3_max() -> u8 {
        31
    }

    pub const fn u2_min() -> u8 {
        0
    }

    pub const fn u2_max() -> u8 {
        1
    }
}

#[asn(sequence, tag(APPLICATION(5)))]

#[derive(Default, Debug, Clone, PartialEq, Hash)]
pub struct Ttp2p15Is {
    #[asn(integer(0..3))] pub v: u8,
}

impl Ttp2p15Is {
    pub const fn v_min() -> u8 {
        0
    }

    pub const fn v_max() -> u8 {
        3
    }
}

#[asn(set)]

#[derive(Default, Debug, Clone, PartialEq, Hash)]
pub struct Ttp2p15 {
    #[asn(integer(0..31), tag(3))] pub c3: u8,
    #[asn(optional(complex(Ttp2p15Is, tag(APPLICATION(5)))), tag(APPLICATION(5)))] pub is: Option<Ttp2p15Is>,
}

impl Ttp2p15 {
    pub const fn c3_min() -> u8 {
        0
    }

    pub const fn c3_max() -> u8 {
        31
    }
}

#[asn(set)]

#[derive(Default, Debug, Clone, PartialEq, Hash)]
pub struct Ttp3p0 {
    #[asn(optional(integer(0..63)), tag(0))] pub c0: Option<u8>,
    #[asn(integer(0..7), tag(UNIVERSAL(30)))] pub x: u8,
}

impl Ttp3p0 {
    pub const fn c0_min() -> u8 {
        0
    }

    pub const fn c0_max() -> u8 {
        63
    }

    pub const fn x_min() -> u8 {
        0
    }

    pub const fn x_max() -> u8 {
        7
    }
}

#[asn(set)]

#[derive(Default, Debug, Clone, PartialEq, Hash)]
pub struct Ttp3p1 {
    #[asn(optional(integer(0..63)), tag(0))] pub c0: Option<u8>,
    #[asn(optional(integer(0..15)), tag(APPLICATION(1)))] pub a: Option<u8>,
}

impl Ttp3p1 {
    pub const fn c0_min() -> u8 {
        0
    }

    pub const fn c0_max() -> u8 {
        63
    }

    pub const fn a_min() -> u8 {
        0
    }

    pub const fn a_max() -> u8 {
        15
    }
}

#[asn(set)]

#[derive(Default, Debug, Clone, PartialEq, Hash)]
pub struct Ttp3p2 {
    #[asn(optional(integer(0..63)), tag(0))] pub c0: Option<u8>,
    #[asn(integer(0..31), tag(3))] pub c3: u8,
}

impl Ttp3p2 {
    pub const fn c0_min() -> u8 {
        0
    }

    pub const fn c0_max() -> u8 {
        63
    }

    pub const fn c3_min() -> u8 {
        0
    }

    pub const fn c3_max() -> u8 {
        31
    }
}

#[asn(set)]

#[derive(Default, Debug, Clone, PartialEq, Hash)]
pub struct Ttp3p4 {
    #[asn(optional(integer(0..63)), tag(0))] pub c0: Option<u8>,
    #[asn(integer(0..127), tag(PRIVATE(2)))] pub p: u8,
}

impl Ttp3p4 {
    pub const fn c0_min() -> u8 {
        0
    }

    pub const fn c0_max() -> u8 {
        63
    }

    pub const fn p_min() -> u8 {
        0
    }

    pub const fn p_max() -> u8 {
        127
    }
}

#[asn(set)]

#[derive(Default, Debug, Clone, PartialEq, Hash)]
pub struct Ttp3p5 {
    #[asn(optional(integer(0..63)), tag(0))] pub c0: Option<u8>,
    #[asn(optional(boolean))] pub b: Option<bool>,
}

impl Ttp3p5 {
    pub const fn c0_min() -> u8 {
        0
    }

    pub const fn c0_max() -> u8 {
        63
    }
}

#[asn(set)]

#[derive(Default, Debug, Clone, PartialEq, Hash)]
pub struct Ttp3p6 {
    #[asn(optional(integer(0..63)), tag(0))] pub c0: Option<u8>,
    #[asn(integer(0..255))] pub i: u8,
}

impl Ttp3p6 {
    pub const fn c0_min() -> u8 {
        0
    }

    pub const fn c0_max() -> u8 {
        63
    }

    pub const fn i_min() -> u8 {
        0
    }

    pub const fn i_max() -> u8 {
        255
    }
}

#[asn(set)]

#[derive(Default, Debug, Clone, PartialEq, Hash)]
pub struct Ttp3p7 {
    #[asn(optional(integer(0..63)), tag(0))] pub c0: Option<u8>,
    #[asn(optional(complex(Tapp9, tag(APPLICATION(9)))))] pub ra: Option<Tapp9>,
}

impl Ttp3p7 {
    pub const fn c0_min() -> u8 {
        0
    }

    pub const fn c0_max() -> u8 {
        63
    }
}

#[asn(set)]

#[derive(Default, Debug, Clone, PartialEq, Hash)]
pub struct Ttp3p8 {
    #[asn(optional(integer(0..63)), tag(0))] pub c0: Option<u8>,
    #[asn(complex(Tsq, tag(UNIVERSAL(16))))] pub rs: Tsq,
}

impl Ttp3p8 {
    pub const fn c0_min() -> u8 {
        0
    }

    pub const fn c0_max() -> u8 {
        63
    }
}

#[asn(set)]

#[derive(Default, Debug, Clone, PartialEq, Hash)]
pub struct Ttp3p9 {
    #[asn(optional(integer(0..63)), tag(0))] pub c0: Option<u8>,
    #[asn(optional(complex(Tcho, tag(1))))] pub rc: Option<Tcho>,
}

impl Ttp3p9 {
    pub const fn c0_min() -> u8 {
        0
    }

    pub const fn c0_max() -> u8 {
        63
    }
}

#[asn(set)]

#[derive(Default, Debug, Clone, PartialEq, Hash)]
pub struct Ttp3p10 {
    #[asn(optional(integer(0..63)), tag(0))] pub c0: Option<u8>,
    #[asn(complex(Tst, tag(UNIVERSAL(17))))] pub rt: Tst,
}

impl Ttp3p10 {
    pub const fn c0_min() -> u8 {
        0
    }

    pub const fn c0_max() -> u8 {
        63
    }
}

#[asn(set)]

#[derive(Default, Debug, Clone, PartialEq, Hash)]
pub struct Ttp3p11 {
    #[asn(optional(integer(0..63)), tag(0))] pub c0: Option<u8>,
    #[asn(optional(sequence_of(size(0..3), boolean)))] pub so: Option<Vec<bool>>,
}

impl Ttp3p11 {
    pub const fn c0_min() -> u8 {
        0
    }

    pub const fn c0_max() -> u8 {
        63
    }
}

#[asn(set)]

#[derive(Default, Debug, Clone, PartialEq, Hash)]
pub struct Ttp3p12 {
    #[asn(optional(integer(0..63)), tag(0))] pub c0: Option<u8>,
    #[asn(set_of(size(0..2), boolean))] pub st: Vec<bool>,
}

impl Ttp3p12 {
    pub const fn c0_min() -> u8 {
        0
    }

    pub const fn c0_max() -> u8 {
        63
    }
}

#[asn(set)]

#[derive(Default, Debug, Clone, PartialEq, Hash)]
pub struct Ttp3p13 {
    #[asn(optional(integer(0..63)), tag(0))] pub c0: Option<u8>,
    #[asn(optional(complex(Tchox, tag(PRIVATE(1)))))] pub rx: Option<Tchox>,
}

impl Ttp3p13 {
    pub const fn c0_min() -> u8 {
        0
    }

    pub const fn c0_max() -> u8 {
        63
    }
}

#[asn(set)]

#[derive(Default, Debug, Clone, PartialEq, Hash)]
pub struct Ttp3p14 {
    #[asn(optional(integer(0..63)), tag(0))] pub c0: Option<u8>,
    #[asn(integer(0..1), tag(UNIVERSAL(2)))] pub u2: u8,
}

impl Ttp3p14 {
    pub const fn c0_min() -> u8 {
        0
    }

    pub const fn c0_max() -> u8 {
        63
    }

    pub const fn u2_min() -> u8 {
        0
    }

    pub const fn u2_max() -> u8 {
        1
    }
}

#[asn(sequence, tag(APPLICATION(5)))]

#[derive(Default, Debug, Clone, PartialEq, Hash)]
pub struct Ttp3p15Is {
    #[asn(integer(0..3))] pub v: u8,
}

impl Ttp3p15Is {
    pub const fn v_min() -> u8 {
        0
    }

    pub const fn v_max() -> u8 {
        3
    }
}

#[asn(set)]

#[derive(Default, Debug, Clone, PartialEq, Hash)]
pub struct Ttp3p15 {
    #[asn(optional(integer(0..63)), tag(0))] pub c0: Option<u8>,
    #[asn(optional(complex(Ttp3p15Is, tag(APPLICATION(5)))), tag(APPLICATION(5)))] pub is: Option<Ttp3p15Is>,
}

impl Ttp3p15 {
    pub const fn c0_min() -> u8 {
        0
    }

    pub const fn c0_max() -> u8 {
        63
    }
}

#[asn(set)]

#[derive(Default, Debug, Clone, PartialEq, Hash)]
pub struct Ttp4p0 {
    #[asn(integer(0..127), tag(PRIVATE(2)))] pub p: u8,
    #[asn(integer(0..7), tag(UNIVERSAL(30)))] pub x: u8,
}

impl Ttp4p0 {
    pub const fn p_min() -> u8 {
        0
    }

    pub const fn p_max() -> u8 {
        127
    }

    pub const fn x_min() -> u8 {
        0
    }

    pub const fn x_max() -> u8 {
        7
    }
}

#[asn(set)]

#[derive(Default, Debug, Clone, PartialEq, Hash)]
pub struct Ttp4p1 {
    #[asn(integer(0..127), tag(PRIVATE(2)))] pub p: u8,
    #[asn(optional(integer(0..15)), tag(APPLICATION(1)))] pub a: Option<u8>,
}

impl Ttp4p1 {
    pub const fn p_min() -> u8 {
        0
    }

    pub const fn p_max() -> u8 {
        127
    }

    pub const fn a_min() -> u8 {
        0
    }

    pub const fn a_max() -> u8 {
        15
    }
}

#[asn(set)]

#[derive(Default, Debug, Clone, PartialEq, Hash)]
pub struct Ttp4p2 {
    #[asn(integer(0..127), tag(PRIVATE(2)))] pub p: u8,
    #[asn(integer(0..31), tag(3))] pub c3: u8,
}

impl Ttp4p2 {
    pub const fn p_min() -> u8 {
        0
    }

    pub const fn p_max() -> u8 {
        127
    }

    pub const fn c3_min() -> u8 {
        0
    }

    pub const fn c3_max() -> u8 {
        31
    }
}

#[asn(set)]

#[derive(Default, Debug, Clone, PartialEq, Hash)]
pub struct Ttp4p3 {
    #[asn(integer(0..127), tag(PRIVATE(2)))] pub p: u8,
    #[asn(optional(integer(0..63)), tag(0))] pub c0: Option<u8>,
}

impl Ttp4p3 {
    pub const fn p_min() -> u8 {
        0
    }

    pub const fn p_max() -> u8 {
        127
    }

    pub const fn c0_min() -> u8 {
        0
    }

    pub const fn c0_max() -> u8 {
        63
    }
}

#[asn(set)]

#[derive(Default, Debug, Clone, PartialEq, Hash)]
pub struct Ttp4p5 {
    #[asn(integer(0..127), tag(PRIVATE(2)))] pub p: u8,
    #[asn(optional(boolean))] pub b: Option<bool>,
}

impl Ttp4p5 {
    pub const fn p_min() -> u8 {
        0
    }

    pub const fn p_max() -> u8 {
        127
    }
}

#[asn(set)]

#[derive(Default, Debug, Clone, PartialEq, Hash)]
pub struct Ttp4p6 {
    #[asn(integer(0..127), tag(PRIVATE(2)))] pub p: u8,
    #[asn(integer(0..255))] pub i: u8,
}

impl Ttp4p6 {
    pub const fn p_min() -> u8 {
        0
    }

    pub const fn p_max() -> u8 {
        127
    }

    pub const fn i_min() -> u8 {
        0
    }

    pub const fn i_max() -> u8 {
        255
    }
}

#[asn(set)]

#[derive(Default, Debug, Clone, PartialEq, Hash)]
pub struct Ttp4p7 {
    #[asn(integer(0..127), tag(PRIVATE(2)))] pub p: u8,
    #[asn(optional(complex(Tapp9, tag(APPLICATION(9)))))] pub ra: Option<Tapp9>,
}

impl Ttp4p7 {
    pub const fn p_min() -> u8 {
        0
    }

    pub const fn p_max() -> u8 {
        127
    }
}

#[asn(set)]

#[derive(Default, Debug, Clone, PartialEq, Hash)]
pub struct Ttp4p8 {
    #[asn(integer(0..127), tag(PRIVATE(2)))] pub p: u8,
    #[asn(complex(Tsq, tag(UNIVERSAL(16))))] pub rs: Tsq,
}

impl Ttp4p8 {
    pub const fn p_min() -> u8 {
        0
    }

    pub const fn p_max() -> u8 {
        127
    }
}

#[asn(set)]

#[derive(Default, Debug, Clone, PartialEq, Hash)]
pub struct Ttp4p9 {
    #[asn(integer(0..127), tag(PRIVATE(2)))] pub p: u8,
    #[asn(optional(complex(Tcho, tag(1))))] pub rc: Option<Tcho>,
}

impl Ttp4p9 {
    pub const fn p_min() -> u8 {
        0
    }

    pub const fn p_max() -> u8 {
        127
    }
}

#[asn(set)]

#[derive(Default, Debug, Clone, PartialEq, Hash)]
pub struct Ttp4p10 {
    #[asn(integer(0..127), tag(PRIVATE(2)))] pub p: u8,
    #[asn(complex(Tst, tag(UNIVERSAL(17))))] pub rt: Tst,
}

impl Ttp4p10 {
    pub const fn p_min() -> u8 {
        0
    }

    pub const fn p_max() -> u8 {
        127
    }
}

#[asn(set)]

#[derive(Default, Debug, Clone, PartialEq, Hash)]
pub struct Ttp4p11 {
    #[asn(integer(0..127), tag(PRIVATE(2)))] pub p: u8,
    #[asn(optional(sequence_of(size(0..3), boolean)))] pub so: Option<Vec<bool>>,
}

impl Ttp4p11 {
    pub const fn p_min() -> u8 {
        0
    }

    pub const fn p_max() -> u8 {
        127
    }
}

#[asn(set)]

#[derive(Default, Debug, Clone, PartialEq, Hash)]
pub struct Ttp4p12 {
    #[asn(integer(0..127), tag(PRIVATE(2)))] pub p: u8,
    #[asn(set_of(size(0..2), boolean))] pub st: Vec<bool>,
}

impl Ttp4p12 {
    pub const fn p_min() -> u8 {
        0
    }

    pub const fn p_max() -> u8 {
        127
    }
}

#[asn(set)]

#[derive(Default, Debug, Clone, PartialEq, Hash)]
pub struct Ttp4p13 {
    #[asn(integer(0..127), tag(PRIVATE(2)))] pub p: u8,
    #[asn(optional(complex(Tchox, tag(PRIVATE(1)))))] pub rx: Option<Tchox>,
}

impl Ttp4p13 {
    pub const fn p_min() -> u8 {
        0
    }

    pub const fn p_max() -> u8 {
        127
    }
}

#[asn(set)]

#[derive(Default, Debug, Clone, PartialEq, Hash)]
pub struct Ttp4p14 {
    #[asn(integer(0..127), tag(PRIVATE(2)))] pub p: u8,
    #[asn(integer(0..1), tag(UNIVERSAL(2)))] pub u2: u8,
}

impl Ttp4p14 {
    pub const fn p_min() -> u8 {
        0
    }

    pub const fn p_max() -> u8 {
        127
    }

    pub const fn u2_min() -> u8 {
        0
    }

    pub const fn u2_max() -> u8 {
        1
    }
}

#[asn(sequence, tag(APPLICATION(5)))]

#[derive(Default, Debug, Clone, PartialEq, Hash)]
pub struct Ttp4p15Is {
    #[asn(integer(0..3))] pub v: u8,
}

impl Ttp4p15Is {
    pub const fn v_min() -> u8 {
        0
    }

    pub const fn v_max() -> u8 {
        3
    }
}

#[asn(set)]

#[derive(Default, Debug, Clone, PartialEq, Hash)]
pub struct Ttp4p15 {
    #[asn(integer(0..127), tag(PRIVATE(2)))] pub p: u8,
    #[asn(optional(complex(Ttp4p15Is, tag(APPLICATION(5)))), tag(APPLICATION(5)))] pub is: Option<Ttp4p15Is>,
}

impl Ttp4p15 {
    pub const fn p_min() -> u8 {
        0
    }

    pub const fn p_max() -> u8 {
        127
    }
}

#[asn(set)]

#[derive(Default, Debug, Clone, PartialEq, Hash)]
pub struct Ttp5p0 {
    #[asn(optional(boolean))] pub b: Option<bool>,
    #[asn(integer(0..7), tag(UNIVERSAL(30)))] pub x: u8,
}

impl Ttp5p0 {
    pub const fn x_min() -> u8 {
        0
    }

    pub const fn x_max() -> u8 {
        7
    }
}

#[asn(set)]

#[derive(Default, Debug, Clone, PartialEq, Hash)]
pub struct Ttp5p1 {
    #[asn(optional(boolean))] pub b: Option<bool>,
    #[asn(optional(integer(0..15)), tag(APPLICATION(1)))] pub a: Option<u8>,
}

impl Ttp5p1 {
    pub const fn a_min() -> u8 {
        0
    }

    pub const fn a_max() -> u8 {
        15
    }
}

#[asn(set)]

#[derive(Default, Debug, Clone, PartialEq, Hash)]
pub struct Ttp5p2 {
    #[asn(optional(boolean))] pub b: Option<bool>,
    #[asn(integer(0..31), tag(3))] pub c3: u8,
}

impl Ttp5p2 {
    pub const fn c3_min() -> u8 {
        0
    }

    pub const fn c3_max() -> u8 {
        31
    }
}

#[asn(set)]

#[derive(Default, Debug, Clone, PartialEq, Hash)]
pub struct Ttp5p3 {
    #[asn(optional(boolean))] pub b: Option<bool>,
    #[asn(optional(integer(0..63)), tag(0))] pub c0: Option<u8>,
}

impl Ttp5p3 {
    pub const fn c0_min() -> u8 {
        0
    }

    pub const fn c0_max() -> u8 {
        63
    }
}

#[asn(set)]

#[derive(Default, Debug, Clone, PartialEq, Hash)]
pub struct Ttp5p4 {
    #[asn(optional(boolean))] pub b: Option<bool>,
    #[asn(integer(0..127), tag(PRIVATE(2)))] pub p: u8,
}

impl Ttp5p4 {
    pub const fn p_min() -> u8 {
        0
    }

    pub const fn p_max() -> u8 {
        127
    }
}

#[asn(set)]

#[derive(Default, Debug, Clone, PartialEq, Hash)]
pub struct Ttp5p6 {
    #[asn(optional(boolean))] pub b: Option<bool>,
    #[asn(integer(0..255))] pub i: u8,
}

impl Ttp5p6 {
    pub const fn i_min() -> u8 {
        0
    }

    pub const fn i_max() -> u8 {
        255
    }
}

#[asn(set)]

#[derive(Default, Debug, Clone, PartialEq, Hash)]
pub struct Ttp5p7 {
    #[asn(optional(boolean))] pub b: Option<bool>,
    #[asn(optional(complex(Tapp9, tag(APPLICATION(9)))))] pub ra: Option<Tapp9>,
}

impl Ttp5p7 {
}

#[asn(set)]

#[derive(Default, Debug, Clone, PartialEq, Hash)]
pub struct Ttp5p8 {
    #[asn(optional(boolean))] pub b: Option<bool>,
    #[asn(complex(Tsq, tag(UNIVERSAL(16))))] pub rs: Tsq,
}

impl Ttp5p8 {
}

#[asn(set)]

#[derive(Default, Debug, Clone, PartialEq, Hash)]
pub struct Ttp5p9 {
    #[asn(optional(boolean))] pub b: Option<bool>,
    #[asn(optional(complex(Tcho, tag(1))))] pub rc: Option<Tcho>,
}

impl Ttp5p9 {
}

#[asn(set)]

#[derive(Default, Debug, Clone, PartialEq, Hash)]
pub struct Ttp5p10 {
    #[asn(optional(boolean))] pub b: Option<bool>,
    #[asn(complex(Tst, tag(UNIVERSAL(17))))] pub rt: Tst,
}

impl Ttp5p10 {
}

#[asn(set)]

#[derive(Default, Debug, Clone, PartialEq, Hash)]
pub struct Ttp5p11 {
    #[asn(optional(boolean))] pub b: Option<bool>,
    #[asn(optional(sequence_of(size(0..3), boolean)))] pub so: Option<Vec<bool>>,
}

impl Ttp5p11 {
}

#[asn(set)]

#[derive(Default, Debug, Clone, PartialEq, Hash)]
pub struct Ttp5p12 {
    #[asn(optional(boolean))] pub b: Option<bool>,
    #[asn(set_of(size(0..2), boolean))] pub st: Vec<bool>,
}

impl Ttp5p12 {
}

#[asn(set)]

#[derive(Default, Debug, Clone, PartialEq, Hash)]
pub struct Ttp5p13 {
    #[asn(optional(boolean))] pub b: Option<bool>,
    #[asn(optional(complex(Tchox, tag(PRIVATE(1)))))] pub rx: Option<Tchox>,
}

impl Ttp5p13 {
}

#[asn(set)]

#[derive(Default, Debug, Clone, PartialEq, Hash)]
pub struct Ttp5p14 {
    #[asn(optional(boolean))] pub b: Option<bool>,
    #[asn(integer(0..1), tag(UNIVERSAL(2)))] pub u2: u8,
}

impl Ttp5p14 {
    pub const fn u2_min() -> u8 {
        0
    }

    pub const fn u2_max() -> u8 {
        1
    }
}

#[asn(sequence, tag(APPLICATION(5)))]

#[derive(Default, Debug, Clone, PartialEq, Hash)]
pub struct Ttp5p15Is {
    #[asn(integer(0..3))] pub v: u8,
}

impl Ttp5p15Is {
    pub const fn v_min() -> u8 {
        0
    }

    pub const fn v_max() -> u8 {
        3
    }
}

#[asn(set)]

#[derive(Default, Debug, Clone, PartialEq, Hash)]
pub struct Ttp5p15 {
    #[asn(optional(boolean))] pub b: Option<bool>,
    #[asn(optional(complex(Ttp5p15Is, tag(APPLICATION(5)))), tag(APPLICATION(5)))] pub is: Option<Ttp5p15Is>,
}

impl Ttp5p15 {
}

#[asn(set)]

#[derive(Default, Debug, Clone, PartialEq, Hash)]
pub struct Ttp6p0 {
    #[asn(integer(0..255))] pub i: u8,
    #[asn(integer(0..7), tag(UNIVERSAL(30)))] pub x: u8,
}

impl Ttp6p0 {
    pub const fn i_min() -> u8 {
        0
    }

    pub const fn i_max() -> u8 {
        255
    }

    pub const fn x_min() -> u8 {
        0
    }

    pub const fn x_max() -> u8 {
        7
    }
}

#[asn(set)]

#[derive(Default, Debug, Clone, PartialEq, Hash)]
pub struct Ttp6p1 {
    #[asn(integer(0..255))] pub i: u8,
    #[asn(optional(integer(0..15)), tag(APPLICATION(1)))] pub a: Option<u8>,
}

impl Ttp6p1 {
    pub const fn i_min() -> u8 {
        0
    }

    pub const fn i_max() -> u8 {
        255
    }

    pub const fn a_min() -> u8 {
        0
    }

    pub const fn a_max() -> u8 {
        15
    }
}

#[asn(set)]

#[derive(Default, Debug, Clone, PartialEq, Hash)]
pub struct Ttp6p2 {
    #[asn(integer(0..255))] pub i: u8,
    #[asn(integer(0..31), tag(3))] pub c3: u8,
}

impl Ttp6p2 {
    pub const fn i_min() -> u8 {
        0
    }

    pub const fn i_max() -> u8 {
        255
    }

    pub const fn c3_min() -> u8 {
        0
    }

    pub const fn c3_max() -> u8 {
        31
    }
}

#[asn(set)]

#[derive(Default, Debug, Clone, PartialEq, Hash)]
pub struct Ttp6p3 {
    #[asn(integer(0..255))] pub i: u8,
    #[asn(optional(integer(0..63)), tag(0))] pub c0: Option<u8>,
}

impl Ttp6p3 {
    pub const fn i_min() -> u8 {
        0
    }

    pub const fn i_max() -> u8 {
        255
    }

    pub const fn c0_min() -> u8 {
        0
    }

    pub const fn c0_max() -> u8 {
        63
    }
}

#[asn(set)]

#[derive(Default, Debug, Clone, PartialEq, Hash)]
pub struct Ttp6p4 {
    #[asn(integer(0..255))] pub i: u8,
    #[asn(integer(0..127), tag(PRIVATE(2)))] pub p: u8,
}

impl Ttp6p4 {
    pub const fn i_min() -> u8 {
        0
    }

    pub const fn i_max() -> u8 {
        255
    }

    pub const fn p_min() -> u8 {
        0
    }

    pub const fn p_max() -> u8 {
        127
    }
}

#[asn(set)]

#[derive(Default, Debug, Clone, PartialEq, Hash)]
pub struct Ttp6p5 {
    #[asn(integer(0..255))] pub i: u8,
    #[asn(optional(boolean))] pub b: Option<bool>,
}

impl Ttp6p5 {
    pub const fn i_min() -> u8 {
        0
    }

    pub const fn i_max() -> u8 {
        255
    }
}

#[asn(set)]

#[derive(Default, Debug, Clone, PartialEq, Hash)]
pub struct Ttp6p7 {
    #[asn(integer(0..255))] pub i: u8,
    #[asn(optional(complex(Tapp9, tag(APPLICATION(9)))))] pub ra: Option<Tapp9>,
}

impl Ttp6p7 {
    pub const fn i_min() -> u8 {
        0
    }

    pub const fn i_max() -> u8 {
        255
    }
}

#[asn(set)]

#[derive(Default, Debug, Clone, PartialEq, Hash)]
pub struct Ttp6p8 {
    #[asn(integer(0..255))] pub i: u8,
    #[asn(complex(Tsq, tag(UNIVERSAL(16))))] pub rs: Tsq,
}

impl Ttp6p8 {
    pub const fn i_min() -> u8 {
        0
    }

    pub const fn i_max() -> u8 {
        255
    }
}

#[asn(set)]

#[derive(Default, Debug, Clone, PartialEq, Hash)]
pub struct Ttp6p9 {
    #[asn(integer(0..255))] pub i: u8,
    #[asn(optional(complex(Tcho, tag(1))))] pub rc: Option<Tcho>,
}

impl Ttp6p9 {
    pub const fn i_min() -> u8 {
        0
    }

    pub const fn i_max() -> u8 {
        255
    }
}

#[asn(set)]

#[derive(Default, Debug, Clone, PartialEq, Hash)]
pub struct Ttp6p10 {
    #[asn(integer(0..255))] pub i: u8,
    #[asn(complex(Tst, tag(UNIVERSAL(17))))] pub rt: Tst,
}

impl Ttp6p10 {
    pub const fn i_min() -> u8 {
        0
    }

    pub const fn i_max() -> u8 {
        255
    }
}

#[asn(set)]

#[derive(Default, Debug, Clone, PartialEq, Hash)]
pub struct Ttp6p11 {
    #[asn(integer(0..255))] pub i: u8,
    #[asn(optional(sequence_of(size(0..3), boolean)))] pub so: Option<Vec<bool>>,
}

impl Ttp6p11 {
    pub const fn i_min() -> u8 {
        0
    }

    pub const fn i_max() -> u8 {
        255
    }
}

#[asn(set)]

#[derive(Default, Debug, Clone, PartialEq, Hash)]
pub struct Ttp6p12 {
    #[asn(integer(0..255))] pub i: u8,
    #[asn(set_of(size(0..2), boolean))] pub st: Vec<bool>,
}

impl Ttp6p12 {
    pub const fn i_min() -> u8 {
        0
    }

    pub const fn i_max() -> u8 {
        255
    }
}

#[asn(set)]

#[derive(Default, Debug, Clone, PartialEq, Hash)]
pub struct Ttp6p13 {
    #[asn(integer(0..255))] pub i: u8,
    #[asn(optional(complex(Tchox, tag(PRIVATE(1)))))] pub rx: Option<Tchox>,
}

impl Ttp6p13 {
    pub const fn i_min() -> u8 {
        0
    }

    pub const fn i_max() -> u8 {
        255
    }
}

#[asn(set)]

#[derive(Default, Debug, Clone, PartialEq, Hash)]
pub struct Ttp6p14 {
    #[asn(integer(0..255))] pub i: u8,
    #[asn(integer(0..1), tag(UNIVERSAL(2)))] pub u2: u8,
}

impl Ttp6p14 {
    pub const fn i_min() -> u8 {
        0
    }

    pub const fn i_max() -> u8 {
        255
    }

    pub const fn u2_min() -> u8 {
        0
    }

    pub const fn u2_max() -> u8 {
        1
    }
}
// ---- harness conversions (generated by the zoo build script from the items above) ----
impl FromValue for Tapp9 { fn from_value(v: &Value) -> Self { Tapp9(FromValue::from_value(v)) } }
impl ToValue for Tapp9 { fn to_value(&self) -> Value { self.0.to_value() } }
impl FromValue for Tsq {
    fn from_value(v: &Value) -> Self {
        let s = match v { Value::Seq(s) => s, other => panic!("Tsq: expected Seq, got {other:?}") };
        assert_eq!(s.len(), 1, "Tsq: component count");
        let _ = s;
        Tsq {
            z: FromValue::from_value(s[0].as_ref().expect("component z of Tsq must be present")),
        }
    }
}
impl ToValue for Tsq {
    fn to_value(&self) -> Value {
        Value::Seq(vec![
            Some(self.z.to_value()),
        ])
    }
}
impl FromValue for Tcho {
    fn from_value(v: &Value) -> Self {
        let (i, inner) = match v { Value::Choice(i, inner) => (*i, &**inner), other => panic!("Tcho: expected Choice, got {other:?}") };
        match i {
            0 => Tcho::M(FromValue::from_value(inner)),
            1 => Tcho::N(FromValue::from_value(inner)),
            _ => panic!("Tcho: alternative index {i} out of range"),
        }
    }
}
impl ToValue for Tcho {
    fn to_value(&self) -> Value {
        match self {
            Tcho::M(x) => Value::Choice(0, Box::new(x.to_value())),
            Tcho::N(x) => Value::Choice(1, Box::new(x.to_value())),
        }
    }
}
impl FromValue for Tchox {
    fn from_value(v: &Value) -> Self {
        let (i, inner) = match v { Value::Choice(i, inner) => (*i, &**inner), other => panic!("Tchox: expected Choice, got {other:?}") };
        match i {
            0 => Tchox::M(FromValue::from_value(inner)),
            1 => Tchox::N(FromValue::from_value(inner)),
            2 => Tchox::O(FromValue::from_value(inner)),
            _ => panic!("Tchox: alternative index {i} out of range"),
        }
    }
}
impl ToValue for Tchox {
    fn to_value(&self) -> Value {
        match self {
            Tchox::M(x) => Value::Choice(0, Box::new(x.to_value())),
            Tchox::N(x) => Value::Choice(1, Box::new(x.to_value())),
            Tchox::O(x) => Value::Choice(2, Box::new(x.to_value())),
        }
    }
}
impl FromValue for Tst {
    fn from_value(v: &Value) -> Self {
        let s = match v { Value::Seq(s) => s, other => panic!("Tst: expected Seq, got {other:?}") };
        assert_eq!(s.len(), 1, "Tst: component count");
        let _ = s;
        Tst {
            z: FromValue::from_value(s[0].as_ref().expect("component z of Tst must be present")),
        }
    }
}
impl ToValue for Tst {
    fn to_value(&self) -> Value {
        Value::Seq(vec![
            Some(self.z.to_value()),
        ])
    }
}
impl FromValue for Ttp0 {
    fn from_value(v: &Value) -> Self {
        let s = match v { Value::Seq(s) => s, other => panic!("Ttp0: expected Seq, got {other:?}") };
        assert_eq!(s.len(), 1, "Ttp0: component count");
        let _ = s;
        Ttp0 {
            x: FromValue::from_value(s[0].as_ref().expect("component x of Ttp0 must be present")),
        }
    }
}
impl ToValue for Ttp0 {
    fn to_value(&self) -> Value {
        Value::Seq(vec![
            Some(self.x.to_value()),
        ])
    }
}
impl FromValue for Ttp1 {
    fn from_value(v: &Value) -> Self {
        let s = match v { Value::Seq(s) => s, other => panic!("Ttp1: expected Seq, got {other:?}") };
        assert_eq!(s.len(), 1, "Ttp1: component count");
        let _ = s;
        Ttp1 {
            a: s[0].as_ref().map(FromValue::from_value),
        }
    }
}
impl ToValue for Ttp1 {
    fn to_value(&self) -> Value {
        Value::Seq(vec![
            self.a.as_ref().map(|x| x.to_value()),
        ])
    }
}
impl FromValue for Ttp2 {
    fn from_value(v: &Value) -> Self {
        let s = match v { Value::Seq(s) => s, other => panic!("Ttp2: expected Seq, got {other:?}") };
        assert_eq!(s.len(), 1, "Ttp2: component count");
        let _ = s;
        Ttp2 {
            c3: FromValue::from_value(s[0].as_ref().expect("component c3 of Ttp2 must be present")),
        }
    }
}
impl ToValue for Ttp2 {
    fn to_value(&self) -> Value {
        Value::Seq(vec![
            Some(self.c3.to_value()),
        ])
    }
}
impl FromValue for Ttp3 {
    fn from_value(v: &Value) -> Self {
        let s = match v { Value::Seq(s) => s, other => panic!("Ttp3: expected Seq, got {other:?}") };
        assert_eq!(s.len(), 1, "Ttp3: component count");
        let _ = s;
        Ttp3 {
            c0: s[0].as_ref().map(FromValue::from_value),
        }
    }
}
impl ToValue for Ttp3 {
    fn to_value(&self) -> Value {
        Value::Seq(vec![
            self.c0.as_ref().map(|x| x.to_value()),
        ])
    }
}
impl FromValue for Ttp4 {
    fn from_value(v: &Value) -> Self {
        let s = match v { Value::Seq(s) => s, other => panic!("Ttp4: expected Seq, got {other:?}") };
        assert_eq!(s.len(), 1, "Ttp4: component count");
        let _ = s;
        Ttp4 {
            p: FromValue::from_value(s[0].as_ref().expect("component p of Ttp4 must be present")),
        }
    }
}
impl ToValue for Ttp4 {
    fn to_value(&self) -> Value {
        Value::Seq(vec![
            Some(self.p.to_value()),
        ])
    }
}
impl FromValue for Ttp5 {
    fn from_value(v: &Value) -> Self {
        let s = match v { Value::Seq(s) => s, other => panic!("Ttp5: expected Seq, got {other:?}") };
        assert_eq!(s.len(), 1, "Ttp5: component count");
        let _ = s;
        Ttp5 {
            b: s[0].as_ref().map(FromValue::from_value),
        }
    }
}
impl ToValue for Ttp5 {
    fn to_value(&self) -> Value {
        Value::Seq(vec![
            self.b.as_ref().map(|x| x.to_value()),
        ])
    }
}
impl FromValue for Ttp6 {
    fn from_value(v: &Value) -> Self {
        let s = match v { Value::Seq(s) => s, other => panic!("Ttp6: expected Seq, got {other:?}") };
        assert_eq!(s.len(), 1, "Ttp6: component count");
        let _ = s;
        Ttp6 {
            i: FromValue::from_value(s[0].as_ref().expect("component i of Ttp6 must be present")),
        }
    }
}
impl ToValue for Ttp6 {
    fn to_value(&self) -> Value {
        Value::Seq(vec![
            Some(self.i.to_value()),
        ])
    }
}
impl FromValue for Ttp7 {
    fn from_value(v: &Value) -> Self {
        let s = match v { Value::Seq(s) => s, other => panic!("Ttp7: expected Seq, got {other:?}") };
        assert_eq!(s.len(), 1, "Ttp7: component count");
        let _ = s;
        Ttp7 {
            ra: s[0].as_ref().map(FromValue::from_value),
        }
    }
}
impl ToValue for Ttp7 {
    fn to_value(&self) -> Value {
        Value::Seq(vec![
            self.ra.as_ref().map(|x| x.to_value()),
        ])
    }
}
impl FromValue for Ttp8 {
    fn from_value(v: &Value) -> Self {
        let s = match v { Value::Seq(s) => s, other => panic!("Ttp8: expected Seq, got {other:?}") };
        assert_eq!(s.len(), 1, "Ttp8: component count");
        let _ = s;
        Ttp8 {
            rs: FromValue::from_value(s[0].as_ref().expect("component rs of Ttp8 must be present")),
        }
    }
}
impl ToValue for Ttp8 {
    fn to_value(&self) -> Value {
        Value::Seq(vec![
            Some(self.rs.to_value()),
        ])
    }
}
impl FromValue for Ttp9 {
    fn from_value(v: &Value) -> Self {
        let s = match v { Value::Seq(s) => s, other => panic!("Ttp9: expected Seq, got {other:?}") };
        assert_eq!(s.len(), 1, "Ttp9: component count");
        let _ = s;
        Ttp9 {
            rc: s[0].as_ref().map(FromValue::from_value),
        }
    }
}
impl ToValue for Ttp9 {
    fn to_value(&self) -> Value {
        Value::Seq(vec![
            self.rc.as_ref().map(|x| x.to_value()),
        ])
    }
}
impl FromValue for Ttp10 {
    fn from_value(v: &Value) -> Self {
        let s = match v { Value::Seq(s) => s, other => panic!("Ttp10: expected Seq, got {other:?}") };
        assert_eq!(s.len(), 1, "Ttp10: component count");
        let _ = s;
        Ttp10 {
            rt: FromValue::from_value(s[0].as_ref().expect("component rt of Ttp10 must be present")),
        }
    }
}
impl ToValue for Ttp10 {
    fn to_value(&self) -> Value {
        Value::Seq(vec![
            Some(self.rt.to_value()),
        ])
    }
}
impl FromValue for Ttp11 {
    fn from_value(v: &Value) -> Self {
        let s = match v { Value::Seq(s) => s, other => panic!("Ttp11: expected Seq, got {other:?}") };
        assert_eq!(s.len(), 1, "Ttp11: component count");
        let _ = s;
        Ttp11 {
            so: s[0].as_ref().map(FromValue::from_value),
        }
    }
}
impl ToValue for Ttp11 {
    fn to_value(&self) -> Value {
        Value::Seq(vec![
            self.so.as_ref().map(|x| x.to_value()),
        ])
    }
}
impl FromValue for Ttp12 {
    fn from_value(v: &Value) -> Self {
        let s = match v { Value::Seq(s) => s, other => panic!("Ttp12: expected Seq, got {other:?}") };
        assert_eq!(s.len(), 1, "Ttp12: component count");
        let _ = s;
        Ttp12 {
            st: FromValue::from_value(s[0].as_ref().expect("component st of Ttp12 must be present")),
        }
    }
}
impl ToValue for Ttp12 {
    fn to_value(&self) -> Value {
        Value::Seq(vec![
            Some(self.st.to_value()),
        ])
    }
}
impl FromValue for Ttp13 {
    fn from_value(v: &Value) -> Self {
        let s = match v { Value::Seq(s) => s, other => panic!("Ttp13: expected Seq, got {other:?}") };
        assert_eq!(s.len(), 1, "Ttp13: component count");
        let _ = s;
        Ttp13 {
            rx: s[0].as_ref().map(FromValue::from_value),
        }
    }
}
impl ToValue for Ttp13 {
    fn to_value(&self) -> Value {
        Value::Seq(vec![
            self.rx.as_ref().map(|x| x.to_value()),
        ])
    }
}
impl FromValue for Ttp14 {
    fn from_value(v: &Value) -> Self {
        let s = match v { Value::Seq(s) => s, other => panic!("Ttp14: expected Seq, got {other:?}") };
        assert_eq!(s.len(), 1, "Ttp14: component count");
        let _ = s;
        Ttp14 {
            u2: FromValue::from_value(s[0].as_ref().expect("component u2 of Ttp14 must be present")),
        }
    }
}
impl ToValue for Ttp14 {
    fn to_value(&self) -> Value {
        Value::Seq(vec![
            Some(self.u2.to_value()),
        ])
    }
}
impl FromValue for Ttp15Is {
    fn from_value(v: &Value) -> Self {
        let s = match v { Value::Seq(s) => s, other => panic!("Ttp15Is: expected Seq, got {other:?}") };
        assert_eq!(s.len(), 1, "Ttp15Is: component count");
        let _ = s;
        Ttp15Is {
            v: FromValue::from_value(s[0].as_ref().expect("component v of Ttp15Is must be present")),
        }
    }
}
impl ToValue for Ttp15Is {
    fn to_value(&self) -> Value {
        Value::Seq(vec![
            Some(self.v.to_value()),
        ])
    }
}
impl FromValue for Ttp15 {
    fn from_value(v: &Value) -> Self {
        let s = match v { Value::Seq(s) => s, other => panic!("Ttp15: expected Seq, got {other:?}") };
        assert_eq!(s.len(), 1, "Ttp15: component count");
        let _ = s;
        Ttp15 {
            is: s[0].as_ref().map(FromValue::from_value),
        }
    }
}
impl ToValue for Ttp15 {
    fn to_value(&self) -> Value {
        Value::Seq(vec![
            self.is.as_ref().map(|x| x.to_value()),
        ])
    }
}
impl FromValue for Ttp0p1 {
    fn from_value(v: &Value) -> Self {
        let s = match v { Value::Seq(s) => s, other => panic!("Ttp0p1: expected Seq, got {other:?}") };
        assert_eq!(s.len(), 2, "Ttp0p1: component count");
        let _ = s;
        Ttp0p1 {
            x: FromValue::from_value(s[0].as_ref().expect("component x of Ttp0p1 must be present")),
            a: s[1].as_ref().map(FromValue::from_value),
        }
    }
}
impl ToValue for Ttp0p1 {
    fn to_value(&self) -> Value {
        Value::Seq(vec![
            Some(self.x.to_value()),
            self.a.as_ref().map(|x| x.to_value()),
        ])
    }
}
impl FromValue for Ttp0p2 {
    fn from_value(v: &Value) -> Self {
        let s = match v { Value::Seq(s) => s, other => panic!("Ttp0p2: expected Seq, got {other:?}") };
        assert_eq!(s.len(), 2, "Ttp0p2: component count");
        let _ = s;
        Ttp0p2 {
            x: FromValue::from_value(s[0].as_ref().expect("component x of Ttp0p2 must be present")),
            c3: FromValue::from_value(s[1].as_ref().expect("component c3 of Ttp0p2 must be present")),
        }
    }
}
impl ToValue for Ttp0p2 {
    fn to_value(&self) -> Value {
        Value::Seq(vec![
            Some(self.x.to_value()),
            Some(self.c3.to_value()),
        ])
    }
}
impl FromValue for Ttp0p3 {
    fn from_value(v: &Value) -> Self {
        let s = match v { Value::Seq(s) => s, other => panic!("Ttp0p3: expected Seq, got {other:?}") };
        assert_eq!(s.len(), 2, "Ttp0p3: component count");
        let _ = s;
        Ttp0p3 {
            x: FromValue::from_value(s[0].as_ref().expect("component x of Ttp0p3 must be present")),
            c0: s[1].as_ref().map(FromValue::from_value),
        }
    }
}
impl ToValue for Ttp0p3 {
    fn to_value(&self) -> Value {
        Value::Seq(vec![
            Some(self.x.to_value()),
            self.c0.as_ref().map(|x| x.to_value()),
        ])
    }
}
impl FromValue for Ttp0p4 {
    fn from_value(v: &Value) -> Self {
        let s = match v { Value::Seq(s) => s, other => panic!("Ttp0p4: expected Seq, got {other:?}") };
        assert_eq!(s.len(), 2, "Ttp0p4: component count");
        let _ = s;
        Ttp0p4 {
            x: FromValue::from_value(s[0].as_ref().expect("component x of Ttp0p4 must be present")),
            p: FromValue::from_value(s[1].as_ref().expect("component p of Ttp0p4 must be present")),
        }
    }
}
impl ToValue for Ttp0p4 {
    fn to_value(&self) -> Value {
        Value::Seq(vec![
            Some(self.x.to_value()),
            Some(self.p.to_value()),
        ])
    }
}
impl FromValue for Ttp0p5 {
    fn from_value(v: &Value) -> Self {
        let s = match v { Value::Seq(s) => s, other => panic!("Ttp0p5: expected Seq, got {other:?}") };
        assert_eq!(s.len(), 2, "Ttp0p5: component count");
        let _ = s;
        Ttp0p5 {
            x: FromValue::from_value(s[0].as_ref().expect("component x of Ttp0p5 must be present")),
            b: s[1].as_ref().map(FromValue::from_value),
        }
    }
}
impl ToValue for Ttp0p5 {
    fn to_value(&self) -> Value {
        Value::Seq(vec![
            Some(self.x.to_value()),
            self.b.as_ref().map(|x| x.to_value()),
        ])
    }
}
impl FromValue for Ttp0p6 {
    fn from_value(v: &Value) -> Self {
        let s = match v { Value::Seq(s) => s, other => panic!("Ttp0p6: expected Seq, got {other:?}") };
        assert_eq!(s.len(), 2, "Ttp0p6: component count");
        let _ = s;
        Ttp0p6 {
            x: FromValue::from_value(s[0].as_ref().expect("component x of Ttp0p6 must be present")),
            i: FromValue::from_value(s[1].as_ref().expect("component i of Ttp0p6 must be present")),
        }
    }
}
impl ToValue for Ttp0p6 {
    fn to_value(&self) -> Value {
        Value::Seq(vec![
            Some(self.x.to_value()),
            Some(self.i.to_value()),
        ])
    }
}
impl FromValue for Ttp0p7 {
    fn from_value(v: &Value) -> Self {
        let s = match v { Value::Seq(s) => s, other => panic!("Ttp0p7: expected Seq, got {other:?}") };
        assert_eq!(s.len(), 2, "Ttp0p7: component count");
        let _ = s;
        Ttp0p7 {
            x: FromValue::from_value(s[0].as_ref().expect("component x of Ttp0p7 must be present")),
            ra: s[1].as_ref().map(FromValue::from_value),
        }
    }
}
impl ToValue for Ttp0p7 {
    fn to_value(&self) -> Value {
        Value::Seq(vec![
            Some(self.x.to_value()),
            self.ra.as_ref().map(|x| x.to_value()),
        ])
    }
}
impl FromValue for Ttp0p8 {
    fn from_value(v: &Value) -> Self {
        let s = match v { Value::Seq(s) => s, other => panic!("Ttp0p8: expected Seq, got {other:?}") };
        assert_eq!(s.len(), 2, "Ttp0p8: component count");
        let _ = s;
        Ttp0p8 {
            x: FromValue::from_value(s[0].as_ref().expect("component x of Ttp0p8 must be present")),
            rs: FromValue::from_value(s[1].as_ref().expect("component rs of Ttp0p8 must be present")),
        }
    }
}
impl ToValue for Ttp0p8 {
    fn to_value(&self) -> Value {
        Value::Seq(vec![
            Some(self.x.to_value()),
            Some(self.rs.to_value()),
        ])
    }
}
impl FromValue for Ttp0p9 {
    fn from_value(v: &Value) -> Self {
        let s = match v { Value::Seq(s) => s, other => panic!("Ttp0p9: expected Seq, got {other:?}") };
        assert_eq!(s.len(), 2, "Ttp0p9: component count");
        let _ = s;
        Ttp0p9 {
            x: FromValue::from_value(s[0].as_ref().expect("component x of Ttp0p9 must be present")),
            rc: s[1].as_ref().map(FromValue::from_value),
        }
    }
}
impl ToValue for Ttp0p9 {
    fn to_value(&self) -> Value {
        Value::Seq(vec![
            Some(self.x.to_value()),
            self.rc.as_ref().map(|x| x.to_value()),
        ])
    }
}
impl FromValue for Ttp0p10 {
    fn from_value(v: &Value) -> Self {
        let s = match v { Value::Seq(s) => s, other => panic!("Ttp0p10: expected Seq, got {other:?}") };
        assert_eq!(s.len(), 2, "Ttp0p10: component count");
        let _ = s;
        Ttp0p10 {
            x: FromValue::from_value(s[0].as_ref().expect("component x of Ttp0p10 must be present")),
            rt: FromValue::from_value(s[1].as_ref().expect("component rt of Ttp0p10 must be present")),
        }
    }
}
impl ToValue for Ttp0p10 {
    fn to_value(&self) -> Value {
        Value::Seq(vec![
            Some(self.x.to_value()),
            Some(self.rt.to_value()),
        ])
    }
}
impl FromValue for Ttp0p11 {
    fn from_value(v: &Value) -> Self {
        let s = match v { Value::Seq(s) => s, other => panic!("Ttp0p11: expected Seq, got {other:?}") };
        assert_eq!(s.len(), 2, "Ttp0p11: component count");
        let _ = s;
        Ttp0p11 {
            x: FromValue::from_value(s[0].as_ref().expect("component x of Ttp0p11 must be present")),
            so: s[1].as_ref().map(FromValue::from_value),
        }
    }
}
impl ToValue for Ttp0p11 {
    fn to_value(&self) -> Value {
        Value::Seq(vec![
            Some(self.x.to_value()),
            self.so.as_ref().map(|x| x.to_value()),
        ])
    }
}
impl FromValue for Ttp0p12 {
    fn from_value(v: &Value) -> Self {
        let s = match v { Value::Seq(s) => s, other => panic!("Ttp0p12: expected Seq, got {other:?}") };
        assert_eq!(s.len(), 2, "Ttp0p12: component count");
        let _ = s;
        Ttp0p12 {
            x: FromValue::from_value(s[0].as_ref().expect("component x of Ttp0p12 must be present")),
            st: FromValue::from_value(s[1].as_ref().expect("component st of Ttp0p12 must be present")),
        }
    }
}
impl ToValue for Ttp0p12 {
    fn to_value(&self) -> Value {
        Value::Seq(vec![
            Some(self.x.to_value()),
            Some(self.st.to_value()),
        ])
    }
}
impl FromValue for Ttp0p13 {
    fn from_value(v: &Value) -> Self {
        let s = match v { Value::Seq(s) => s, other => panic!("Ttp0p13: expected Seq, got {other:?}") };
        assert_eq!(s.len(), 2, "Ttp0p13: component count");
        let _ = s;
        Ttp0p13 {
            x: FromValue::from_value(s[0].as_ref().expect("component x of Ttp0p13 must be present")),
            rx: s[1].as_ref().map(FromValue::from_value),
        }
    }
}
impl ToValue for Ttp0p13 {
    fn to_value(&self) -> Value {
        Value::Seq(vec![
            Some(self.x.to_value()),
            self.rx.as_ref().map(|x| x.to_value()),
        ])
    }
}
impl FromValue for Ttp0p14 {
    fn from_value(v: &Value) -> Self {
        let s = match v { Value::Seq(s) => s, other => panic!("Ttp0p14: expected Seq, got {other:?}") };
        assert_eq!(s.len(), 2, "Ttp0p14: component count");
        let _ = s;
        Ttp0p14 {
            x: FromValue::from_value(s[0].as_ref().expect("component x of Ttp0p14 must be present")),
            u2: FromValue::from_value(s[1].as_ref().expect("component u2 of Ttp0p14 must be present")),
        }
    }
}
impl ToValue for Ttp0p14 {
    fn to_value(&self) -> Value {
        Value::Seq(vec![
            Some(self.x.to_value()),
            Some(self.u2.to_value()),
        ])
    }
}
impl FromValue for Ttp0p15Is {
    fn from_value(v: &Value) -> Self {
        let s = match v { Value::Seq(s) => s, other => panic!("Ttp0p15Is: expected Seq, got {other:?}") };
        assert_eq!(s.len(), 1, "Ttp0p15Is: component count");
        let _ = s;
        Ttp0p15Is {
            v: FromValue::from_value(s[0].as_ref().expect("component v of Ttp0p15Is must be present")),
        }
    }
}
impl ToValue for Ttp0p15Is {
    fn to_value(&self) -> Value {
        Value::Seq(vec![
            Some(self.v.to_value()),
        ])
    }
}
impl FromValue for Ttp0p15 {
    fn from_value(v: &Value) -> Self {
        let s = match v { Value::Seq(s) => s, other => panic!("Ttp0p15: expected Seq, got {other:?}") };
        assert_eq!(s.len(), 2, "Ttp0p15: component count");
        let _ = s;
        Ttp0p15 {
            x: FromValue::from_value(s[0].as_ref().expect("component x of Ttp0p15 must be present")),
            is: s[1].as_ref().map(FromValue::from_value),
        }
    }
}
impl ToValue for Ttp0p15 {
    fn to_value(&self) -> Value {
        Value::Seq(vec![
            Some(self.x.to_value()),
            self.is.as_ref().map(|x| x.to_value()),
        ])
    }
}
impl FromValue for Ttp1p0 {
    fn from_value(v: &Value) -> Self {
        let s = match v { Value::Seq(s) => s, other => panic!("Ttp1p0: expected Seq, got {other:?}") };
        assert_eq!(s.len(), 2, "Ttp1p0: component count");
        let _ = s;
        Ttp1p0 {
            a: s[0].as_ref().map(FromValue::from_value),
            x: FromValue::from_value(s[1].as_ref().expect("component x of Ttp1p0 must be present")),
        }
    }
}
impl ToValue for Ttp1p0 {
    fn to_value(&self) -> Value {
        Value::Seq(vec![
            self.a.as_ref().map(|x| x.to_value()),
            Some(self.x.to_value()),
        ])
    }
}
impl FromValue for Ttp1p2 {
    fn from_value(v: &Value) -> Self {
        let s = match v { Value::Seq(s) => s, other => panic!("Ttp1p2: expected Seq, got {other:?}") };
        assert_eq!(s.len(), 2, "Ttp1p2: component count");
        let _ = s;
        Ttp1p2 {
            a: s[0].as_ref().map(FromValue::from_value),
            c3: FromValue::from_value(s[1].as_ref().expect("component c3 of Ttp1p2 must be present")),
        }
    }
}
impl ToValue for Ttp1p2 {
    fn to_value(&self) -> Value {
        Value::Seq(vec![
            self.a.as_ref().map(|x| x.to_value()),
            Some(self.c3.to_value()),
        ])
    }
}
impl FromValue for Ttp1p3 {
    fn from_value(v: &Value) -> Self {
        let s = match v { Value::Seq(s) => s, other => panic!("Ttp1p3: expected Seq, got {other:?}") };
        assert_eq!(s.len(), 2, "Ttp1p3: component count");
        let _ = s;
        Ttp1p3 {
            a: s[0].as_ref().map(FromValue::from_value),
            c0: s[1].as_ref().map(FromValue::from_value),
        }
    }
}
impl ToValue for Ttp1p3 {
    fn to_value(&self) -> Value {
        Value::Seq(vec![
            self.a.as_ref().map(|x| x.to_value()),
            self.c0.as_ref().map(|x| x.to_value()),
        ])
    }
}
impl FromValue for Ttp1p4 {
    fn from_value(v: &Value) -> Self {
        let s = match v { Value::Seq(s) => s, other => panic!("Ttp1p4: expected Seq, got {other:?}") };
        assert_eq!(s.len(), 2, "Ttp1p4: component count");
        let _ = s;
        Ttp1p4 {
            a: s[0].as_ref().map(FromValue::from_value),
            p: FromValue::from_value(s[1].as_ref().expect("component p of Ttp1p4 must be present")),
        }
    }
}
impl ToValue for Ttp1p4 {
    fn to_value(&self) -> Value {
        Value::Seq(vec![
            self.a.as_ref().map(|x| x.to_value()),
            Some(self.p.to_value()),
        ])
    }
}
impl FromValue for Ttp1p5 {
    fn from_value(v: &Value) -> Self {
        let s = match v { Value::Seq(s) => s, other => panic!("Ttp1p5: expected Seq, got {other:?}") };
        assert_eq!(s.len(), 2, "Ttp1p5: component count");
        let _ = s;
        Ttp1p5 {
            a: s[0].as_ref().map(FromValue::from_value),
            b: s[1].as_ref().map(FromValue::from_value),
        }
    }
}
impl ToValue for Ttp1p5 {
    fn to_value(&self) -> Value {
        Value::Seq(vec![
            self.a.as_ref().map(|x| x.to_value()),
            self.b.as_ref().map(|x| x.to_value()),
        ])
    }
}
impl FromValue for Ttp1p6 {
    fn from_value(v: &Value) -> Self {
        let s = match v { Value::Seq(s) => s, other => panic!("Ttp1p6: expected Seq, got {other:?}") };
        assert_eq!(s.len(), 2, "Ttp1p6: component count");
        let _ = s;
        Ttp1p6 {
            a: s[0].as_ref().map(FromValue::from_value),
            i: FromValue::from_value(s[1].as_ref().expect("component i of Ttp1p6 must be present")),
        }
    }
}
impl ToValue for Ttp1p6 {
    fn to_value(&self) -> Value {
        Value::Seq(vec![
            self.a.as_ref().map(|x| x.to_value()),
            Some(self.i.to_value()),
        ])
    }
}
impl FromValue for Ttp1p7 {
    fn from_value(v: &Value) -> Self {
        let s = match v { Value::Seq(s) => s, other => panic!("Ttp1p7: expected Seq, got {other:?}") };
        assert_eq!(s.len(), 2, "Ttp1p7: component count");
        let _ = s;
        Ttp1p7 {
            a: s[0].as_ref().map(FromValue::from_value),
            ra: s[1].as_ref().map(FromValue::from_value),
        }
    }
}
impl ToValue for Ttp1p7 {
    fn to_value(&self) -> Value {
        Value::Seq(vec![
            self.a.as_ref().map(|x| x.to_value()),
            self.ra.as_ref().map(|x| x.to_value()),
        ])
    }
}
impl FromValue for Ttp1p8 {
    fn from_value(v: &Value) -> Self {
        let s = match v { Value::Seq(s) => s, other => panic!("Ttp1p8: expected Seq, got {other:?}") };
        assert_eq!(s.len(), 2, "Ttp1p8: component count");
        let _ = s;
        Ttp1p8 {
            a: s[0].as_ref().map(FromValue::from_value),
            rs: FromValue::from_value(s[1].as_ref().expect("component rs of Ttp1p8 must be present")),
        }
    }
}
impl ToValue for Ttp1p8 {
    fn to_value(&self) -> Value {
        Value::Seq(vec![
            self.a.as_ref().map(|x| x.to_value()),
            Some(self.rs.to_value()),
        ])
    }
}
impl FromValue for Ttp1p9 {
    fn from_value(v: &Value) -> Self {
        let s = match v { Value::Seq(s) => s, other => panic!("Ttp1p9: expected Seq, got {other:?}") };
        assert_eq!(s.len(), 2, "Ttp1p9: component count");
        let _ = s;
        Ttp1p9 {
            a: s[0].as_ref().map(FromValue::from_value),
            rc: s[1].as_ref().map(FromValue::from_value),
        }
    }
}
impl ToValue for Ttp1p9 {
    fn to_value(&self) -> Value {
        Value::Seq(vec![
            self.a.as_ref().map(|x| x.to_value()),
            self.rc.as_ref().map(|x| x.to_value()),
        ])
    }
}
impl FromValue for Ttp1p10 {
    fn from_value(v: &Value) -> Self {
        let s = match v { Value::Seq(s) => s, other => panic!("Ttp1p10: expected Seq, got {other:?}") };
        assert_eq!(s.len(), 2, "Ttp1p10: component count");
        let _ = s;
        Ttp1p10 {
            a: s[0].as_ref().map(FromValue::from_value),
            rt: FromValue::from_value(s[1].as_ref().expect("component rt of Ttp1p10 must be present")),
        }
    }
}
impl ToValue for Ttp1p10 {
    fn to_value(&self) -> Value {
        Value::Seq(vec![
            self.a.as_ref().map(|x| x.to_value()),
            Some(self.rt.to_value()),
        ])
    }
}
impl FromValue for Ttp1p11 {
    fn from_value(v: &Value) -> Self {
        let s = match v { Value::Seq(s) => s, other => panic!("Ttp1p11: expected Seq, got {other:?}") };
        assert_eq!(s.len(), 2, "Ttp1p11: component count");
        let _ = s;
        Ttp1p11 {
            a: s[0].as_ref().map(FromValue::from_value),
            so: s[1].as_ref().map(FromValue::from_value),
        }
    }
}
impl ToValue for Ttp1p11 {
    fn to_value(&self) -> Value {
        Value::Seq(vec![
            self.a.as_ref().map(|x| x.to_value()),
            self.so.as_ref().map(|x| x.to_value()),
        ])
    }
}
impl FromValue for Ttp1p12 {
    fn from_value(v: &Value) -> Self {
        let s = match v { Value::Seq(s) => s, other => panic!("Ttp1p12: expected Seq, got {other:?}") };
        assert_eq!(s.len(), 2, "Ttp1p12: component count");
        let _ = s;
        Ttp1p12 {
            a: s[0].as_ref().map(FromValue::from_value),
            st: FromValue::from_value(s[1].as_ref().expect("component st of Ttp1p12 must be present")),
        }
    }
}
impl ToValue for Ttp1p12 {
    fn to_value(&self) -> Value {
        Value::Seq(vec![
            self.a.as_ref().map(|x| x.to_value()),
            Some(self.st.to_value()),
        ])
    }
}
impl FromValue for Ttp1p13 {
    fn from_value(v: &Value) -> Self {
        let s = match v { Value::Seq(s) => s, other => panic!("Ttp1p13: expected Seq, got {other:?}") };
        assert_eq!(s.len(), 2, "Ttp1p13: component count");
        let _ = s;
        Ttp1p13 {
            a: s[0].as_ref().map(FromValue::from_value),
            rx: s[1].as_ref().map(FromValue::from_value),
        }
    }
}
impl ToValue for Ttp1p13 {
    fn to_value(&self) -> Value {
        Value::Seq(vec![
            self.a.as_ref().map(|x| x.to_value()),
            self.rx.as_ref().map(|x| x.to_value()),
        ])
    }
}
impl FromValue for Ttp1p14 {
    fn from_value(v: &Value) -> Self {
        let s = match v { Value::Seq(s) => s, other => panic!("Ttp1p14: expected Seq, got {other:?}") };
        assert_eq!(s.len(), 2, "Ttp1p14: component count");
        let _ = s;
        Ttp1p14 {
            a: s[0].as_ref().map(FromValue::from_value),
            u2: FromValue::from_value(s[1].as_ref().expect("component u2 of Ttp1p14 must be present")),
        }
    }
}
impl ToValue for Ttp1p14 {
    fn to_value(&self) -> Value {
        Value::Seq(vec![
            self.a.as_ref().map(|x| x.to_value()),
            Some(self.u2.to_value()),
        ])
    }
}
impl FromValue for Ttp1p15Is {
    fn from_value(v: &Value) -> Self {
        let s = match v { Value::Seq(s) => s, other => panic!("Ttp1p15Is: expected Seq, got {other:?}") };
        assert_eq!(s.len(), 1, "Ttp1p15Is: component count");
        let _ = s;
        Ttp1p15Is {
            v: FromValue::from_value(s[0].as_ref().expect("component v of Ttp1p15Is must be present")),
        }
    }
}
impl ToValue for Ttp1p15Is {
    fn to_value(&self) -> Value {
        Value::Seq(vec![
            Some(self.v.to_value()),
        ])
    }
}
impl FromValue for Ttp1p15 {
    fn from_value(v: &Value) -> Self {
        let s = match v { Value::Seq(s) => s, other => panic!("Ttp1p15: expected Seq, got {other:?}") };
        assert_eq!(s.len(), 2, "Ttp1p15: component count");
        let _ = s;
        Ttp1p15 {
            a: s[0].as_ref().map(FromValue::from_value),
            is: s[1].as_ref().map(FromValue::from_value),
        }
    }
}
impl ToValue for Ttp1p15 {
    fn to_value(&self) -> Value {
        Value::Seq(vec![
            self.a.as_ref().map(|x| x.to_value()),
            self.is.as_ref().map(|x| x.to_value()),
        ])
    }
}
impl FromValue for Ttp2p0 {
    fn from_value(v: &Value) -> Self {
        let s = match v { Value::Seq(s) => s, other => panic!("Ttp2p0: expected Seq, got {other:?}") };
        assert_eq!(s.len(), 2, "Ttp2p0: component count");
        let _ = s;
        Ttp2p0 {
            c3: FromValue::from_value(s[0].as_ref().expect("component c3 of Ttp2p0 must be present")),
            x: FromValue::from_value(s[1].as_ref().expect("component x of Ttp2p0 must be present")),
        }
    }
}
impl ToValue for Ttp2p0 {
    fn to_value(&self) -> Value {
        Value::Seq(vec![
            Some(self.c3.to_value()),
            Some(self.x.to_value()),
        ])
    }
}
impl FromValue for Ttp2p1 {
    fn from_value(v: &Value) -> Self {
        let s = match v { Value::Seq(s) => s, other => panic!("Ttp2p1: expected Seq, got {other:?}") };
        assert_eq!(s.len(), 2, "Ttp2p1: component count");
        let _ = s;
        Ttp2p1 {
            c3: FromValue::from_value(s[0].as_ref().expect("component c3 of Ttp2p1 must be present")),
            a: s[1].as_ref().map(FromValue::from_value),
        }
    }
}
impl ToValue for Ttp2p1 {
    fn to_value(&self) -> Value {
        Value::Seq(vec![
            Some(self.c3.to_value()),
            self.a.as_ref().map(|x| x.to_value()),
        ])
    }
}
impl FromValue for Ttp2p3 {
    fn from_value(v: &Value) -> Self {
        let s = match v { Value::Seq(s) => s, other => panic!("Ttp2p3: expected Seq, got {other:?}") };
        assert_eq!(s.len(), 2, "Ttp2p3: component count");
        let _ = s;
        Ttp2p3 {
            c3: FromValue::from_value(s[0].as_ref().expect("component c3 of Ttp2p3 must be present")),
            c0: s[1].as_ref().map(FromValue::from_value),
        }
    }
}
impl ToValue for Ttp2p3 {
    fn to_value(&self) -> Value {
        Value::Seq(vec![
            Some(self.c3.to_value()),
            self.c0.as_ref().map(|x| x.to_value()),
        ])
    }
}
impl FromValue for Ttp2p4 {
    fn from_value(v: &Value) -> Self {
        let s = match v { Value::Seq(s) => s, other => panic!("Ttp2p4: expected Seq, got {other:?}") };
        assert_eq!(s.len(), 2, "Ttp2p4: component count");
        let _ = s;
        Ttp2p4 {
            c3: FromValue::from_value(s[0].as_ref().expect("component c3 of Ttp2p4 must be present")),
            p: FromValue::from_value(s[1].as_ref().expect("component p of Ttp2p4 must be present")),
        }
    }
}
impl ToValue for Ttp2p4 {
    fn to_value(&self) -> Value {
        Value::Seq(vec![
            Some(self.c3.to_value()),
            Some(self.p.to_value()),
        ])
    }
}
impl FromValue for Ttp2p5 {
    fn from_value(v: &Value) -> Self {
        let s = match v { Value::Seq(s) => s, other => panic!("Ttp2p5: expected Seq, got {other:?}") };
        assert_eq!(s.len(), 2, "Ttp2p5: component count");
        let _ = s;
        Ttp2p5 {
            c3: FromValue::from_value(s[0].as_ref().expect("component c3 of Ttp2p5 must be present")),
            b: s[1].as_ref().map(FromValue::from_value),
        }
    }
}
impl ToValue for Ttp2p5 {
    fn to_value(&self) -> Value {
        Value::Seq(vec![
            Some(self.c3.to_value()),
            self.b.as_ref().map(|x| x.to_value()),
        ])
    }
}
impl FromValue for Ttp2p6 {
    fn from_value(v: &Value) -> Self {
        let s = match v { Value::Seq(s) => s, other => panic!("Ttp2p6: expected Seq, got {other:?}") };
        assert_eq!(s.len(), 2, "Ttp2p6: component count");
        let _ = s;
        Ttp2p6 {
            c3: FromValue::from_value(s[0].as_ref().expect("component c3 of Ttp2p6 must be present")),
            i: FromValue::from_value(s[1].as_ref().expect("component i of Ttp2p6 must be present")),
        }
    }
}
impl ToValue for Ttp2p6 {
    fn to_value(&self) -> Value {
        Value::Seq(vec![
            Some(self.c3.to_value()),
            Some(self.i.to_value()),
        ])
    }
}
impl FromValue for Ttp2p7 {
    fn from_value(v: &Value) -> Self {
        let s = match v { Value::Seq(s) => s, other => panic!("Ttp2p7: expected Seq, got {other:?}") };
        assert_eq!(s.len(), 2, "Ttp2p7: component count");
        let _ = s;
        Ttp2p7 {
            c3: FromValue::from_value(s[0].as_ref().expect("component c3 of Ttp2p7 must be present")),
            ra: s[1].as_ref().map(FromValue::from_value),
        }
    }
}
impl ToValue for Ttp2p7 {
    fn to_value(&self) -> Value {
        Value::Seq(vec![
            Some(self.c3.to_value()),
            self.ra.as_ref().map(|x| x.to_value()),
        ])
    }
}
impl FromValue for Ttp2p8 {
    fn from_value(v: &Value) -> Self {
        let s = match v { Value::Seq(s) => s, other => panic!("Ttp2p8: expected Seq, got {other:?}") };
        assert_eq!(s.len(), 2, "Ttp2p8: component count");
        let _ = s;
        Ttp2p8 {
            c3: FromValue::from_value(s[0].as_ref().expect("component c3 of Ttp2p8 must be present")),
            rs: FromValue::from_value(s[1].as_ref().expect("component rs of Ttp2p8 must be present")),
        }
    }
}
impl ToValue for Ttp2p8 {
    fn to_value(&self) -> Value {
        Value::Seq(vec![
            Some(self.c3.to_value()),
            Some(self.rs.to_value()),
        ])
    }
}
impl FromValue for Ttp2p9 {
    fn from_value(v: &Value) -> Self {
        let s = match v { Value::Seq(s) => s, other => panic!("Ttp2p9: expected Seq, got {other:?}") };
        assert_eq!(s.len(), 2, "Ttp2p9: component count");
        let _ = s;
        Ttp2p9 {
            c3: FromValue::from_value(s[0].as_ref().expect("component c3 of Ttp2p9 must be present")),
            rc: s[1].as_ref().map(FromValue::from_value),
        }
    }
}
impl ToValue for Ttp2p9 {
    fn to_value(&self) -> Value {
        Value::Seq(vec![
            Some(self.c3.to_value()),
            self.rc.as_ref().map(|x| x.to_value()),
        ])
    }
}
impl FromValue for Ttp2p10 {
    fn from_value(v: &Value) -> Self {
        let s = match v { Value::Seq(s) => s, other => panic!("Ttp2p10: expected Seq, got {other:?}") };
        assert_eq!(s.len(), 2, "Ttp2p10: component count");
        let _ = s;
        Ttp2p10 {
            c3: FromValue::from_value(s[0].as_ref().expect("component c3 of Ttp2p10 must be present")),
            rt: FromValue::from_value(s[1].as_ref().expect("component rt of Ttp2p10 must be present")),
        }
    }
}
impl ToValue for Ttp2p10 {
    fn to_value(&self) -> Value {
        Value::Seq(vec![
            Some(self.c3.to_value()),
            Some(self.rt.to_value()),
        ])
    }
}
impl FromValue for Ttp2p11 {
    fn from_value(v: &Value) -> Self {
        let s = match v { Value::Seq(s) => s, other => panic!("Ttp2p11: expected Seq, got {other:?}") };
        assert_eq!(s.len(), 2, "Ttp2p11: component count");
        let _ = s;
        Ttp2p11 {
            c3: FromValue::from_value(s[0].as_ref().expect("component c3 of Ttp2p11 must be present")),
            so: s[1].as_ref().map(FromValue::from_value),
        }
    }
}
impl ToValue for Ttp2p11 {
    fn to_value(&self) -> Value {
        Value::Seq(vec![
            Some(self.c3.to_value()),
            self.so.as_ref().map(|x| x.to_value()),
        ])
    }
}
impl FromValue for Ttp2p12 {
    fn from_value(v: &Value) -> Self {
        let s = match v { Value::Seq(s) => s, other => panic!("Ttp2p12: expected Seq, got {other:?}") };
        assert_eq!(s.len(), 2, "Ttp2p12: component count");
        let _ = s;
        Ttp2p12 {
            c3: FromValue::from_value(s[0].as_ref().expect("component c3 of Ttp2p12 must be present")),
            st: FromValue::from_value(s[1].as_ref().expect("component st of Ttp2p12 must be present")),
        }
    }
}
impl ToValue for Ttp2p12 {
    fn to_value(&self) -> Value {
        Value::Seq(vec![
            Some(self.c3.to_value()),
            Some(self.st.to_value()),
        ])
    }
}
impl FromValue for Ttp2p13 {
    fn from_value(v: &Value) -> Self {
        let s = match v { Value::Seq(s) => s, other => panic!("Ttp2p13: expected Seq, got {other:?}") };
        assert_eq!(s.len(), 2, "Ttp2p13: component count");
        let _ = s;
        Ttp2p13 {
            c3: FromValue::from_value(s[0].as_ref().expect("component c3 of Ttp2p13 must be present")),
            rx: s[1].as_ref().map(FromValue::from_value),
        }
    }
}
impl ToValue for Ttp2p13 {
    fn to_value(&self) -> Value {
        Value::Seq(vec![
            Some(self.c3.to_value()),
            self.rx.as_ref().map(|x| x.to_value()),
        ])
    }
}
impl FromValue for Ttp2p14 {
    fn from_value(v: &Value) -> Self {
        let s = match v { Value::Seq(s) => s, other => panic!("Ttp2p14: expected Seq, got {other:?}") };
        assert_eq!(s.len(), 2, "Ttp2p14: component count");
        let _ = s;
        Ttp2p14 {
            c3: FromValue::from_value(s[0].as_ref().expect("component c3 of Ttp2p14 must be present")),
            u2: FromValue::from_value(s[1].as_ref().expect("component u2 of Ttp2p14 must be present")),
        }
    }
}
impl ToValue for Ttp2p14 {
    fn to_value(&self) -> Value {
        Value::Seq(vec![
            Some(self.c3.to_value()),
            Some(self.u2.to_value()),
        ])
    }
}
impl FromValue for Ttp2p15Is {
    fn from_value(v: &Value) -> Self {
        let s = match v { Value::Seq(s) => s, other => panic!("Ttp2p15Is: expected Seq, got {other:?}") };
        assert_eq!(s.len(), 1, "Ttp2p15Is: component count");
        let _ = s;
        Ttp2p15Is {
            v: FromValue::from_value(s[0].as_ref().expect("component v of Ttp2p15Is must be present")),
        }
    }
}
impl ToValue for Ttp2p15Is {
    fn to_value(&self) -> Value {
        Value::Seq(vec![
            Some(self.v.to_value()),
        ])
    }
}
impl FromValue for Ttp2p15 {
    fn from_value(v: &Value) -> Self {
        let s = match v { Value::Seq(s) => s, other => panic!("Ttp2p15: expected Seq, got {other:?}") };
        assert_eq!(s.len(), 2, "Ttp2p15: component count");
        let _ = s;
        Ttp2p15 {
            c3: FromValue::from_value(s[0].as_ref().expect("component c3 of Ttp2p15 must be present")),
            is: s[1].as_ref().map(FromValue::from_value),
        }
    }
}
impl ToValue for Ttp2p15 {
    fn to_value(&self) -> Value {
        Value::Seq(vec![
            Some(self.c3.to_value()),
            self.is.as_ref().map(|x| x.to_value()),
        ])
    }
}
impl FromValue for Ttp3p0 {
    fn from_value(v: &Value) -> Self {
        let s = match v { Value::Seq(s) => s, other => panic!("Ttp3p0: expected Seq, got {other:?}") };
        assert_eq!(s.len(), 2, "Ttp3p0: component count");
        let _ = s;
        Ttp3p0 {
            c0: s[0].as_ref().map(FromValue::from_value),
            x: FromValue::from_value(s[1].as_ref().expect("component x of Ttp3p0 must be present")),
        }
    }
}
impl ToValue for Ttp3p0 {
    fn to_value(&self) -> Value {
        Value::Seq(vec![
            self.c0.as_ref().map(|x| x.to_value()),
            Some(self.x.to_value()),
        ])
    }
}
impl FromValue for Ttp3p1 {
    fn from_value(v: &Value) -> Self {
        let s = match v { Value::Seq(s) => s, other => panic!("Ttp3p1: expected Seq, got {other:?}") };
        assert_eq!(s.len(), 2, "Ttp3p1: component count");
        let _ = s;
        Ttp3p1 {
            c0: s[0].as_ref().map(FromValue::from_value),
            a: s[1].as_ref().map(FromValue::from_value),
        }
    }
}
impl ToValue for Ttp3p1 {
    fn to_value(&self) -> Value {
        Value::Seq(vec![
            self.c0.as_ref().map(|x| x.to_value()),
            self.a.as_ref().map(|x| x.to_value()),
        ])
    }
}
impl FromValue for Ttp3p2 {
    fn from_value(v: &Value) -> Self {
        let s = match v { Value::Seq(s) => s, other => panic!("Ttp3p2: expected Seq, got {other:?}") };
        assert_eq!(s.len(), 2, "Ttp3p2: component count");
        let _ = s;
        Ttp3p2 {
            c0: s[0].as_ref().map(FromValue::from_value),
            c3: FromValue::from_value(s[1].as_ref().expect("component c3 of Ttp3p2 must be present")),
        }
    }
}
impl ToValue for Ttp3p2 {
    fn to_value(&self) -> Value {
        Value::Seq(vec![
            self.c0.as_ref().map(|x| x.to_value()),
            Some(self.c3.to_value()),
        ])
    }
}
impl FromValue for Ttp3p4 {
    fn from_value(v: &Value) -> Self {
        let s = match v { Value::Seq(s) => s, other => panic!("Ttp3p4: expected Seq, got {other:?}") };
        assert_eq!(s.len(), 2, "Ttp3p4: component count");
        let _ = s;
        Ttp3p4 {
            c0: s[0].as_ref().map(FromValue::from_value),
            p: FromValue::from_value(s[1].as_ref().expect("component p of Ttp3p4 must be present")),
        }
    }
}
impl ToValue for Ttp3p4 {
    fn to_value(&self) -> Value {
        Value::Seq(vec![
            self.c0.as_ref().map(|x| x.to_value()),
            Some(self.p.to_value()),
        ])
    }
}
impl FromValue for Ttp3p5 {
    fn from_value(v: &Value) -> Self {
        let s = match v { Value::Seq(s) => s, other => panic!("Ttp3p5: expected Seq, got {other:?}") };
        assert_eq!(s.len(), 2, "Ttp3p5: component count");
        let _ = s;
        Ttp3p5 {
            c0: s[0].as_ref().map(FromValue::from_value),
            b: s[1].as_ref().map(FromValue::from_value),
        }
    }
}
impl ToValue for Ttp3p5 {
    fn to_value(&self) -> Value {
        Value::Seq(vec![
            self.c0.as_ref().map(|x| x.to_value()),
            self.b.as_ref().map(|x| x.to_value()),
        ])
    }
}
impl FromValue for Ttp3p6 {
    fn from_value(v: &Value) -> Self {
        let s = match v { Value::Seq(s) => s, other => panic!("Ttp3p6: expected Seq, got {other:?}") };
        assert_eq!(s.len(), 2, "Ttp3p6: component count");
        let _ = s;
        Ttp3p6 {
            c0: s[0].as_ref().map(FromValue::from_value),
            i: FromValue::from_value(s[1].as_ref().expect("component i of Ttp3p6 must be present")),
        }
    }
}
impl ToValue for Ttp3p6 {
    fn to_value(&self) -> Value {
        Value::Seq(vec![
            self.c0.as_ref().map(|x| x.to_value()),
            Some(self.i.to_value()),
        ])
    }
}
impl FromValue for Ttp3p7 {
    fn from_value(v: &Value) -> Self {
        let s = match v { Value::Seq(s) => s, other => panic!("Ttp3p7: expected Seq, got {other:?}") };
        assert_eq!(s.len(), 2, "Ttp3p7: component count");
        let _ = s;
        Ttp3p7 {
            c0: s[0].as_ref().map(FromValue::from_value),
            ra: s[1].as_ref().map(FromValue::from_value),
        }
    }
}
impl ToValue for Ttp3p7 {
    fn to_value(&self) -> Value {
        Value::Seq(vec![
            self.c0.as_ref().map(|x| x.to_value()),
            self.ra.as_ref().map(|x| x.to_value()),
        ])
    }
}
impl FromValue for Ttp3p8 {
    fn from_value(v: &Value) -> Self {
        let s = match v { Value::Seq(s) => s, other => panic!("Ttp3p8: expected Seq, got {other:?}") };
        assert_eq!(s.len(), 2, "Ttp3p8: component count");
        let _ = s;
        Ttp3p8 {
            c0: s[0].as_ref().map(FromValue::from_value),
            rs: FromValue::from_value(s[1].as_ref().expect("component rs of Ttp3p8 must be present")),
        }
    }
}
impl ToValue for Ttp3p8 {
    fn to_value(&self) -> Value {
        Value::Seq(vec![
            self.c0.as_ref().map(|x| x.to_value()),
            Some(self.rs.to_value()),
        ])
    }
}
impl FromValue for Ttp3p9 {
    fn from_value(v: &Value) -> Self {
        let s = match v { Value::Seq(s) => s, other => panic!("Ttp3p9: expected Seq, got {other:?}") };
        assert_eq!(s.len(), 2, "Ttp3p9: component count");
        let _ = s;
        Ttp3p9 {
            c0: s[0].as_ref().map(FromValue::from_value),
            rc: s[1].as_ref().map(FromValue::from_value),
        }
    }
}
impl ToValue for Ttp3p9 {
    fn to_value(&self) -> Value {
        Value::Seq(vec![
            self.c0.as_ref().map(|x| x.to_value()),
            self.rc.as_ref().map(|x| x.to_value()),
        ])
    }
}
impl FromValue for Ttp3p10 {
    fn from_value(v: &Value) -> Self {
        let s = match v { Value::Seq(s) => s, other => panic!("Ttp3p10: expected Seq, got {other:?}") };
        assert_eq!(s.len(), 2, "Ttp3p10: component count");
        let _ = s;
        Ttp3p10 {
            c0: s[0].as_ref().map(FromValue::from_value),
            rt: FromValue::from_value(s[1].as_ref().expect("component rt of Ttp3p10 must be present")),
        }
    }
}
impl ToValue for Ttp3p10 {
    fn to_value(&self) -> Value {
        Value::Seq(vec![
            self.c0.as_ref().map(|x| x.to_value()),
            Some(self.rt.to_value()),
        ])
    }
}
impl FromValue for Ttp3p11 {
    fn from_value(v: &Value) -> Self {
        let s = match v { Value::Seq(s) => s, other => panic!("Ttp3p11: expected Seq, got {other:?}") };
        assert_eq!(s.len(), 2, "Ttp3p11: component count");
        let _ = s;
        Ttp3p11 {
            c0: s[0].as_ref().map(FromValue::from_value),
            so: s[1].as_ref().map(FromValue::from_value),
        }
    }
}
impl ToValue for Ttp3p11 {
    fn to_value(&self) -> Value {
        Value::Seq(vec![
            self.c0.as_ref().map(|x| x.to_value()),
            self.so.as_ref().map(|x| x.to_value()),
        ])
    }
}
impl FromValue for Ttp3p12 {
    fn from_value(v: &Value) -> Self {
        let s = match v { Value::Seq(s) => s, other => panic!("Ttp3p12: expected Seq, got {other:?}") };
        assert_eq!(s.len(), 2, "Ttp3p12: component count");
        let _ = s;
        Ttp3p12 {
            c0: s[0].as_ref().map(FromValue::from_value),
            st: FromValue::from_value(s[1].as_ref().expect("component st of Ttp3p12 must be present")),
        }
    }
}
impl ToValue for Ttp3p12 {
    fn to_value(&self) -> Value {
        Value::Seq(vec![
            self.c0.as_ref().map(|x| x.to_value()),
            Some(self.st.to_value()),
        ])
    }
}
impl FromValue for Ttp3p13 {
    fn from_value(v: &Value) -> Self {
        let s = match v { Value::Seq(s) => s, other => panic!("Ttp3p13: expected Seq, got {other:?}") };
        assert_eq!(s.len(), 2, "Ttp3p13: component count");
        let _ = s;
        Ttp3p13 {
            c0: s[0].as_ref().map(FromValue::from_value),
            rx: s[1].as_ref().map(FromValue::from_value),
        }
    }
}
impl ToValue for Ttp3p13 {
    fn to_value(&self) -> Value {
        Value::Seq(vec![
            self.c0.as_ref().map(|x| x.to_value()),
            self.rx.as_ref().map(|x| x.to_value()),
        ])
    }
}
impl FromValue for Ttp3p14 {
    fn from_value(v: &Value) -> Self {
        let s = match v { Value::Seq(s) => s, other => panic!("Ttp3p14: expected Seq, got {other:?}") };
        assert_eq!(s.len(), 2, "Ttp3p14: component count");
        let _ = s;
        Ttp3p14 {
            c0: s[0].as_ref().map(FromValue::from_value),
            u2: FromValue::from_value(s[1].as_ref().expect("component u2 of Ttp3p14 must be present")),
        }
    }
}
impl ToValue for Ttp3p14 {
    fn to_value(&self) -> Value {
        Value::Seq(vec![
            self.c0.as_ref().map(|x| x.to_value()),
            Some(self.u2.to_value()),
        ])
    }
}
impl FromValue for Ttp3p15Is {
    fn from_value(v: &Value) -> Self {
        let s = match v { Value::Seq(s) => s, other => panic!("Ttp3p15Is: expected Seq, got {other:?}") };
        assert_eq!(s.len(), 1, "Ttp3p15Is: component count");
        let _ = s;
        Ttp3p15Is {
            v: FromValue::from_value(s[0].as_ref().expect("component v of Ttp3p15Is must be present")),
        }
    }
}
impl ToValue for Ttp3p15Is {
    fn to_value(&self) -> Value {
        Value::Seq(vec![
            Some(self.v.to_value()),
        ])
    }
}
impl FromValue for Ttp3p15 {
    fn from_value(v: &Value) -> Self {
        let s = match v { Value::Seq(s) => s, other => panic!("Ttp3p15: expected Seq, got {other:?}") };
        assert_eq!(s.len(), 2, "Ttp3p15: component count");
        let _ = s;
        Ttp3p15 {
            c0: s[0].as_ref().map(FromValue::from_value),
            is: s[1].as_ref().map(FromValue::from_value),
        }
    }
}
impl ToValue for Ttp3p15 {
    fn to_value(&self) -> Value {
        Value::Seq(vec![
            self.c0.as_ref().map(|x| x.to_value()),
            self.is.as_ref().map(|x| x.to_value()),
        ])
    }
}
impl FromValue for Ttp4p0 {
    fn from_value(v: &Value) -> Self {
        let s = match v { Value::Seq(s) => s, other => panic!("Ttp4p0: expected Seq, got {other:?}") };
        assert_eq!(s.len(), 2, "Ttp4p0: component count");
        let _ = s;
        Ttp4p0 {
            p: FromValue::from_value(s[0].as_ref().expect("component p of Ttp4p0 must be present")),
            x: FromValue::from_value(s[1].as_ref().expect("component x of Ttp4p0 must be present")),
        }
    }
}
impl ToValue for Ttp4p0 {
    fn to_value(&self) -> Value {
        Value::Seq(vec![
            Some(self.p.to_value()),
            Some(self.x.to_value()),
        ])
    }
}
impl FromValue for Ttp4p1 {
    fn from_value(v: &Value) -> Self {
        let s = match v { Value::Seq(s) => s, other => panic!("Ttp4p1: expected Seq, got {other:?}") };
        assert_eq!(s.len(), 2, "Ttp4p1: component count");
        let _ = s;
        Ttp4p1 {
            p: FromValue::from_value(s[0].as_ref().expect("component p of Ttp4p1 must be present")),
            a: s[1].as_ref().map(FromValue::from_value),
        }
    }
}
impl ToValue for Ttp4p1 {
    fn to_value(&self) -> Value {
        Value::Seq(vec![
            Some(self.p.to_value()),
            self.a.as_ref().map(|x| x.to_value()),
        ])
    }
}
impl FromValue for Ttp4p2 {
    fn from_value(v: &Value) -> Self {
        let s = match v { Value::Seq(s) => s, other => panic!("Ttp4p2: expected Seq, got {other:?}") };
        assert_eq!(s.len(), 2, "Ttp4p2: component count");
        let _ = s;
        Ttp4p2 {
            p: FromValue::from_value(s[0].as_ref().expect("component p of Ttp4p2 must be present")),
            c3: FromValue::from_value(s[1].as_ref().expect("component c3 of Ttp4p2 must be present")),
        }
    }
}
impl ToValue for Ttp4p2 {
    fn to_value(&self) -> Value {
        Value::Seq(vec![
            Some(self.p.to_value()),
            Some(self.c3.to_value()),
        ])
    }
}
impl FromValue for Ttp4p3 {
    fn from_value(v: &Value) -> Self {
        let s = match v { Value::Seq(s) => s, other => panic!("Ttp4p3: expected Seq, got {other:?}") };
        assert_eq!(s.len(), 2, "Ttp4p3: component count");
        let _ = s;
        Ttp4p3 {
            p: FromValue::from_value(s[0].as_ref().expect("component p of Ttp4p3 must be present")),
            c0: s[1].as_ref().map(FromValue::from_value),
        }
    }
}
impl ToValue for Ttp4p3 {
    fn to_value(&self) -> Value {
        Value::Seq(vec![
            Some(self.p.to_value()),
            self.c0.as_ref().map(|x| x.to_value()),
        ])
    }
}
impl FromValue for Ttp4p5 {
    fn from_value(v: &Value) -> Self {
        let s = match v { Value::Seq(s) => s, other => panic!("Ttp4p5: expected Seq, got {other:?}") };
        assert_eq!(s.len(), 2, "Ttp4p5: component count");
        let _ = s;
        Ttp4p5 {
            p: FromValue::from_value(s[0].as_ref().expect("component p of Ttp4p5 must be present")),
            b: s[1].as_ref().map(FromValue::from_value),
        }
    }
}
impl ToValue for Ttp4p5 {
    fn to_value(&self) -> Value {
        Value::Seq(vec![
            Some(self.p.to_value()),
            self.b.as_ref().map(|x| x.to_value()),
        ])
    }
}
impl FromValue for Ttp4p6 {
    fn from_value(v: &Value) -> Self {
        let s = match v { Value::Seq(s) => s, other => panic!("Ttp4p6: expected Seq, got {other:?}") };
        assert_eq!(s.len(), 2, "Ttp4p6: component count");
        let _ = s;
        Ttp4p6 {
            p: FromValue::from_value(s[0].as_ref().expect("component p of Ttp4p6 must be present")),
            i: FromValue::from_value(s[1].as_ref().expect("component i of Ttp4p6 must be present")),
        }
    }
}
impl ToValue for Ttp4p6 {
    fn to_value(&self) -> Value {
        Value::Seq(vec![
            Some(self.p.to_value()),
            Some(self.i.to_value()),
        ])
    }
}
impl FromValue for Ttp4p7 {
    fn from_value(v: &Value) -> Self {
        let s = match v { Value::Seq(s) => s, other => panic!("Ttp4p7: expected Seq, got {other:?}") };
        assert_eq!(s.len(), 2, "Ttp4p7: component count");
        let _ = s;
        Ttp4p7 {
            p: FromValue::from_value(s[0].as_ref().expect("component p of Ttp4p7 must be present")),
            ra: s[1].as_ref().map(FromValue::from_value),
        }
    }
}
impl ToValue for Ttp4p7 {
    fn to_value(&self) -> Value {
        Value::Seq(vec![
            Some(self.p.to_value()),
            self.ra.as_ref().map(|x| x.to_value()),
        ])
    }
}
impl FromValue for Ttp4p8 {
    fn from_value(v: &Value) -> Self {
        let s = match v { Value::Seq(s) => s, other => panic!("Ttp4p8: expected Seq, got {other:?}") };
        assert_eq!(s.len(), 2, "Ttp4p8: component count");
        let _ = s;
        Ttp4p8 {
            p: FromValue::from_value(s[0].as_ref().expect("component p of Ttp4p8 must be present")),
            rs: FromValue::from_value(s[1].as_ref().expect("component rs of Ttp4p8 must be present")),
        }
    }
}
impl ToValue for Ttp4p8 {
    fn to_value(&self) -> Value {
        Value::Seq(vec![
            Some(self.p.to_value()),
            Some(self.rs.to_value()),
        ])
    }
}
impl FromValue for Ttp4p9 {
    fn from_value(v: &Value) -> Self {
        let s = match v { Value::Seq(s) => s, other => panic!("Ttp4p9: expected Seq, got {other:?}") };
        assert_eq!(s.len(), 2, "Ttp4p9: component count");
        let _ = s;
        Ttp4p9 {
            p: FromValue::from_value(s[0].as_ref().expect("component p of Ttp4p9 must be present")),
            rc: s[1].as_ref().map(FromValue::from_value),
        }
    }
}
impl ToValue for Ttp4p9 {
    fn to_value(&self) -> Value {
        Value::Seq(vec![
            Some(self.p.to_value()),
            self.rc.as_ref().map(|x| x.to_value()),
        ])
    }
}
impl FromValue for Ttp4p10 {
    fn from_value(v: &Value) -> Self {
        let s = match v { Value::Seq(s) => s, other => panic!("Ttp4p10: expected Seq, got {other:?}") };
        assert_eq!(s.len(), 2, "Ttp4p10: component count");
        let _ = s;
        Ttp4p10 {
            p: FromValue::from_value(s[0].as_ref().expect("component p of Ttp4p10 must be present")),
            rt: FromValue::from_value(s[1].as_ref().expect("component rt of Ttp4p10 must be present")),
        }
    }
}
impl ToValue for Ttp4p10 {
    fn to_value(&self) -> Value {
        Value::Seq(vec![
            Some(self.p.to_value()),
            Some(self.rt.to_value()),
        ])
    }
}
impl FromValue for Ttp4p11 {
    fn from_value(v: &Value) -> Self {
        let s = match v { Value::Seq(s) => s, other => panic!("Ttp4p11: expected Seq, got {other:?}") };
        assert_eq!(s.len(), 2, "Ttp4p11: component count");
        let _ = s;
        Ttp4p11 {
            p: FromValue::from_value(s[0].as_ref().expect("component p of Ttp4p11 must be present")),
            so: s[1].as_ref().map(FromValue::from_value),
        }
    }
}
impl ToValue for Ttp4p11 {
    fn to_value(&self) -> Value {
        Value::Seq(vec![
            Some(self.p.to_value()),
            self.so.as_ref().map(|x| x.to_value()),
        ])
    }
}
impl FromValue for Ttp4p12 {
    fn from_value(v: &Value) -> Self {
        let s = match v { Value::Seq(s) => s, other => panic!("Ttp4p12: expected Seq, got {other:?}") };
        assert_eq!(s.len(), 2, "Ttp4p12: component count");
        let _ = s;
        Ttp4p12 {
            p: FromValue::from_value(s[0].as_ref().expect("component p of Ttp4p12 must be present")),
            st: FromValue::from_value(s[1].as_ref().expect("component st of Ttp4p12 must be present")),
        }
    }
}
impl ToValue for Ttp4p12 {
    fn to_value(&self) -> Value {
        Value::Seq(vec![
            Some(self.p.to_value()),
            Some(self.st.to_value()),
        ])
    }
}
impl FromValue for Ttp4p13 {
    fn from_value(v: &Value) -> Self {
        let s = match v { Value::Seq(s) => s, other => panic!("Ttp4p13: expected Seq, got {other:?}") };
        assert_eq!(s.len(), 2, "Ttp4p13: component count");
        let _ = s;
        Ttp4p13 {
            p: FromValue::from_value(s[0].as_ref().expect("component p of Ttp4p13 must be present")),
            rx: s[1].as_ref().map(FromValue::from_value),
        }
    }
}
impl ToValue for Ttp4p13 {
    fn to_value(&self) -> Value {
        Value::Seq(vec![
            Some(self.p.to_value()),
            self.rx.as_ref().map(|x| x.to_value()),
        ])
    }
}
impl FromValue for Ttp4p14 {
    fn from_value(v: &Value) -> Self {
        let s = match v { Value::Seq(s) => s, other => panic!("Ttp4p14: expected Seq, got {other:?}") };
        assert_eq!(s.len(), 2, "Ttp4p14: component count");
        let _ = s;
        Ttp4p14 {
            p: FromValue::from_value(s[0].as_ref().expect("component p of Ttp4p14 must be present")),
            u2: FromValue::from_value(s[1].as_ref().expect("component u2 of Ttp4p14 must be present")),
        }
    }
}
impl ToValue for Ttp4p14 {
    fn to_value(&self) -> Value {
        Value::Seq(vec![
            Some(self.p.to_value()),
            Some(self.u2.to_value()),
        ])
    }
}
impl FromValue for Ttp4p15Is {
    fn from_value(v: &Value) -> Self {
        let s = match v { Value::Seq(s) => s, other => panic!("Ttp4p15Is: expected Seq, got {other:?}") };
        assert_eq!(s.len(), 1, "Ttp4p15Is: component count");
        let _ = s;
        Ttp4p15Is {
            v: FromValue::from_value(s[0].as_ref().expect("component v of Ttp4p15Is must be present")),
        }
    }
}
impl ToValue for Ttp4p15Is {
    fn to_value(&self) -> Value {
        Value::Seq(vec![
            Some(self.v.to_value()),
        ])
    }
}
impl FromValue for Ttp4p15 {
    fn from_value(v: &Value) -> Self {
        let s = match v { Value::Seq(s) => s, other => panic!("Ttp4p15: expected Seq, got {other:?}") };
        assert_eq!(s.len(), 2, "Ttp4p15: component count");
        let _ = s;
        Ttp4p15 {
            p: FromValue::from_value(s[0].as_ref().expect("component p of Ttp4p15 must be present")),
            is: s[1].as_ref().map(FromValue::from_value),
        }
    }
}
impl ToValue for Ttp4p15 {
    fn to_value(&self) -> Value {
        Value::Seq(vec![
            Some(self.p.to_value()),
            self.is.as_ref().map(|x| x.to_value()),
        ])
    }
}
impl FromValue for Ttp5p0 {
    fn from_value(v: &Value) -> Self {
        let s = match v { Value::Seq(s) => s, other => panic!("Ttp5p0: expected Seq, got {other:?}") };
        assert_eq!(s.len(), 2, "Ttp5p0: component count");
        let _ = s;
        Ttp5p0 {
            b: s[0].as_ref().map(FromValue::from_value),
            x: FromValue::from_value(s[1].as_ref().expect("component x of Ttp5p0 must be present")),
        }
    }
}
impl ToValue for Ttp5p0 {
    fn to_value(&self) -> Value {
        Value::Seq(vec![
            self.b.as_ref().map(|x| x.to_value()),
            Some(self.x.to_value()),
        ])
    }
}
impl FromValue for Ttp5p1 {
    fn from_value(v: &Value) -> Self {
        let s = match v { Value::Seq(s) => s, other => panic!("Ttp5p1: expected Seq, got {other:?}") };
        assert_eq!(s.len(), 2, "Ttp5p1: component count");
        let _ = s;
        Ttp5p1 {
            b: s[0].as_ref().map(FromValue::from_value),
            a: s[1].as_ref().map(FromValue::from_value),
        }
    }
}
impl ToValue for Ttp5p1 {
    fn to_value(&self) -> Value {
        Value::Seq(vec![
            self.b.as_ref().map(|x| x.to_value()),
            self.a.as_ref().map(|x| x.to_value()),
        ])
    }
}
impl FromValue for Ttp5p2 {
    fn from_value(v: &Value) -> Self {
        let s = match v { Value::Seq(s) => s, other => panic!("Ttp5p2: expected Seq, got {other:?}") };
        assert_eq!(s.len(), 2, "Ttp5p2: component count");
        let _ = s;
        Ttp5p2 {
            b: s[0].as_ref().map(FromValue::from_value),
            c3: FromValue::from_value(s[1].as_ref().expect("component c3 of Ttp5p2 must be present")),
        }
    }
}
impl ToValue for Ttp5p2 {
    fn to_value(&self) -> Value {
        Value::Seq(vec![
            self.b.as_ref().map(|x| x.to_value()),
            Some(self.c3.to_value()),
        ])
    }
}
impl FromValue for Ttp5p3 {
    fn from_value(v: &Value) -> Self {
        let s = match v { Value::Seq(s) => s, other => panic!("Ttp5p3: expected Seq, got {other:?}") };
        assert_eq!(s.len(), 2, "Ttp5p3: component count");
        let _ = s;
        Ttp5p3 {
            b: s[0].as_ref().map(FromValue::from_value),
            c0: s[1].as_ref().map(FromValue::from_value),
        }
    }
}
impl ToValue for Ttp5p3 {
    fn to_value(&self) -> Value {
        Value::Seq(vec![
            self.b.as_ref().map(|x| x.to_value()),
            self.c0.as_ref().map(|x| x.to_value()),
        ])
    }
}
impl FromValue for Ttp5p4 {
    fn from_value(v: &Value) -> Self {
        let s = match v { Value::Seq(s) => s, other => panic!("Ttp5p4: expected Seq, got {other:?}") };
        assert_eq!(s.len(), 2, "Ttp5p4: component count");
        let _ = s;
        Ttp5p4 {
            b: s[0].as_ref().map(FromValue::from_value),
            p: FromValue::from_value(s[1].as_ref().expect("component p of Ttp5p4 must be present")),
        }
    }
}
impl ToValue for Ttp5p4 {
    fn to_value(&self) -> Value {
        Value::Seq(vec![
            self.b.as_ref().map(|x| x.to_value()),
            Some(self.p.to_value()),
        ])
    }
}
impl FromValue for Ttp5p6 {
    fn from_value(v: &Value) -> Self {
        let s = match v { Value::Seq(s) => s, other => panic!("Ttp5p6: expected Seq, got {other:?}") };
        assert_eq!(s.len(), 2, "Ttp5p6: component count");
        let _ = s;
        Ttp5p6 {
            b: s[0].as_ref().map(FromValue::from_value),
            i: FromValue::from_value(s[1].as_ref().expect("component i of Ttp5p6 must be present")),
        }
    }
}
impl ToValue for Ttp5p6 {
    fn to_value(&self) -> Value {
        Value::Seq(vec![
            self.b.as_ref().map(|x| x.to_value()),
            Some(self.i.to_value()),
        ])
    }
}
impl FromValue for Ttp5p7 {
    fn from_value(v: &Value) -> Self {
        let s = match v { Value::Seq(s) => s, other => panic!("Ttp5p7: expected Seq, got {other:?}") };
        assert_eq!(s.len(), 2, "Ttp5p7: component count");
        let _ = s;
        Ttp5p7 {
            b: s[0].as_ref().map(FromValue::from_value),
            ra: s[1].as_ref().map(FromValue::from_value),
        }
    }
}
impl ToValue for Ttp5p7 {
    fn to_value(&self) -> Value {
        Value::Seq(vec![
            self.b.as_ref().map(|x| x.to_value()),
            self.ra.as_ref().map(|x| x.to_value()),
        ])
    }
}
impl FromValue for Ttp5p8 {
    fn from_value(v: &Value) -> Self {
        let s = match v { Value::Seq(s) => s, other => panic!("Ttp5p8: expected Seq, got {other:?}") };
        assert_eq!(s.len(), 2, "Ttp5p8: component count");
        let _ = s;
        Ttp5p8 {
            b: s[0].as_ref().map(FromValue::from_value),
            rs: FromValue::from_value(s[1].as_ref().expect("component rs of Ttp5p8 must be present")),
        }
    }
}
impl ToValue for Ttp5p8 {
    fn to_value(&self) -> Value {
        Value::Seq(vec![
            self.b.as_ref().map(|x| x.to_value()),
            Some(self.rs.to_value()),
        ])
    }
}
impl FromValue for Ttp5p9 {
    fn from_value(v: &Value) -> Self {
        let s = match v { Value::Seq(s) => s, other => panic!("Ttp5p9: expected Seq, got {other:?}") };
        assert_eq!(s.len(), 2, "Ttp5p9: component count");
        let _ = s;
        Ttp5p9 {
            b: s[0].as_ref().map(FromValue::from_value),
            rc: s[1].as_ref().map(FromValue::from_value),
        }
    }
}
impl ToValue for Ttp5p9 {
    fn to_value(&self) -> Value {
        Value::Seq(vec![
            self.b.as_ref().map(|x| x.to_value()),
            self.rc.as_ref().map(|x| x.to_value()),
        ])
    }
}
impl FromValue for Ttp5p10 {
    fn from_value(v: &Value) -> Self {
        let s = match v { Value::Seq(s) => s, other => panic!("Ttp5p10: expected Seq, got {other:?}") };
        assert_eq!(s.len(), 2, "Ttp5p10: component count");
        let _ = s;
        Ttp5p10 {
            b: s[0].as_ref().map(FromValue::from_value),
            rt: FromValue::from_value(s[1].as_ref().expect("component rt of Ttp5p10 must be present")),
        }
    }
}
impl ToValue for Ttp5p10 {
    fn to_value(&self) -> Value {
        Value::Seq(vec![
            self.b.as_ref().map(|x| x.to_value()),
            Some(self.rt.to_value()),
        ])
    }
}
impl FromValue for Ttp5p11 {
    fn from_value(v: &Value) -> Self {
        let s = match v { Value::Seq(s) => s, other => panic!("Ttp5p11: expected Seq, got {other:?}") };
        assert_eq!(s.len(), 2, "Ttp5p11: component count");
        let _ = s;
        Ttp5p11 {
            b: s[0].as_ref().map(FromValue::from_value),
            so: s[1].as_ref().map(FromValue::from_value),
        }
    }
}
impl ToValue for Ttp5p11 {
    fn to_value(&self) -> Value {
        Value::Seq(vec![
            self.b.as_ref().map(|x| x.to_value()),
            self.so.as_ref().map(|x| x.to_value()),
        ])
    }
}
impl FromValue for Ttp5p12 {
    fn from_value(v: &Value) -> Self {
        let s = match v { Value::Seq(s) => s, other => panic!("Ttp5p12: expected Seq, got {other:?}") };
        assert_eq!(s.len(), 2, "Ttp5p12: component count");
        let _ = s;
        Ttp5p12 {
            b: s[0].as_ref().map(FromValue::from_value),
            st: FromValue::from_value(s[1].as_ref().expect("component st of Ttp5p12 must be present")),
        }
    }
}
impl ToValue for Ttp5p12 {
    fn to_value(&self) -> Value {
        Value::Seq(vec![
            self.b.as_ref().map(|x| x.to_value()),
            Some(self.st.to_value()),
        ])
    }
}
impl FromValue for Ttp5p13 {
    fn from_value(v: &Value) -> Self {
        let s = match v { Value::Seq(s) => s, other => panic!("Ttp5p13: expected Seq, got {other:?}") };
        assert_eq!(s.len(), 2, "Ttp5p13: component count");
        let _ = s;
        Ttp5p13 {
            b: s[0].as_ref().map(FromValue::from_value),
            rx: s[1].as_ref().map(FromValue::from_value),
        }
    }
}
impl ToValue for Ttp5p13 {
    fn to_value(&self) -> Value {
        Value::Seq(vec![
            self.b.as_ref().map(|x| x.to_value()),
            self.rx.as_ref().map(|x| x.to_value()),
        ])
    }
}
impl FromValue for Ttp5p14 {
    fn from_value(v: &Value) -> Self {
        let s = match v { Value::Seq(s) => s, other => panic!("Ttp5p14: expected Seq, got {other:?}") };
        assert_eq!(s.len(), 2, "Ttp5p14: component count");
        let _ = s;
        Ttp5p14 {
            b: s[0].as_ref().map(FromValue::from_value),
            u2: FromValue::from_value(s[1].as_ref().expect("component u2 of Ttp5p14 must be present")),
        }
    }
}
impl ToValue for Ttp5p14 {
    fn to_value(&self) -> Value {
        Value::Seq(vec![
            self.b.as_ref().map(|x| x.to_value()),
            Some(self.u2.to_value()),
        ])
    }
}
impl FromValue for Ttp5p15Is {
    fn from_value(v: &Value) -> Self {
        let s = match v { Value::Seq(s) => s, other => panic!("Ttp5p15Is: expected Seq, got {other:?}") };
        assert_eq!(s.len(), 1, "Ttp5p15Is: component count");
        let _ = s;
        Ttp5p15Is {
            v: FromValue::from_value(s[0].as_ref().expect("component v of Ttp5p15Is must be present")),
        }
    }
}
impl ToValue for Ttp5p15Is {
    fn to_value(&self) -> Value {
        Value::Seq(vec![
            Some(self.v.to_value()),
        ])
    }
}
impl FromValue for Ttp5p15 {
    fn from_value(v: &Value) -> Self {
        let s = match v { Value::Seq(s) => s, other => panic!("Ttp5p15: expected Seq, got {other:?}") };
        assert_eq!(s.len(), 2, "Ttp5p15: component count");
        let _ = s;
        Ttp5p15 {
            b: s[0].as_ref().map(FromValue::from_value),
            is: s[1].as_ref().map(FromValue::from_value),
        }
    }
}
impl ToValue for Ttp5p15 {
    fn to_value(&self) -> Value {
        Value::Seq(vec![
            self.b.as_ref().map(|x| x.to_value()),
            self.is.as_ref().map(|x| x.to_value()),
        ])
    }
}
impl FromValue for Ttp6p0 {
    fn from_value(v: &Value) -> Self {
        let s = match v { Value::Seq(s) => s, other => panic!("Ttp6p0: expected Seq, got {other:?}") };
        assert_eq!(s.len(), 2, "Ttp6p0: component count");
        let _ = s;
        Ttp6p0 {
            i: FromValue::from_value(s[0].as_ref().expect("component i of Ttp6p0 must be present")),
            x: FromValue::from_value(s[1].as_ref().expect("component x of Ttp6p0 must be present")),
        }
    }
}
impl ToValue for Ttp6p0 {
    fn to_value(&self) -> Value {
        Value::Seq(vec![
            Some(self.i.to_value()),
            Some(self.x.to_value()),
        ])
    }
}
impl FromValue for Ttp6p1 {
    fn from_value(v: &Value) -> Self {
        let s = match v { Value::Seq(s) => s, other => panic!("Ttp6p1: expected Seq, got {other:?}") };
        assert_eq!(s.len(), 2, "Ttp6p1: component count");
        let _ = s;
        Ttp6p1 {
            i: FromValue::from_value(s[0].as_ref().expect("component i of Ttp6p1 must be present")),
            a: s[1].as_ref().map(FromValue::from_value),
        }
    }
}
impl ToValue for Ttp6p1 {
    fn to_value(&self) -> Value {
        Value::Seq(vec![
            Some(self.i.to_value()),
            self.a.as_ref().map(|x| x.to_value()),
        ])
    }
}
impl FromValue for Ttp6p2 {
    fn from_value(v: &Value) -> Self {
        let s = match v { Value::Seq(s) => s, other => panic!("Ttp6p2: expected Seq, got {other:?}") };
        assert_eq!(s.len(), 2, "Ttp6p2: component count");
        let _ = s;
        Ttp6p2 {
            i: FromValue::from_value(s[0].as_ref().expect("component i of Ttp6p2 must be present")),
            c3: FromValue::from_value(s[1].as_ref().expect("component c3 of Ttp6p2 must be present")),
        }
    }
}
impl ToValue for Ttp6p2 {
    fn to_value(&self) -> Value {
        Value::Seq(vec![
            Some(self.i.to_value()),
            Some(self.c3.to_value()),
        ])
    }
}
impl FromValue for Ttp6p3 {
    fn from_value(v: &Value) -> Self {
        let s = match v { Value::Seq(s) => s, other => panic!("Ttp6p3: expected Seq, got {other:?}") };
        assert_eq!(s.len(), 2, "Ttp6p3: component count");
        let _ = s;
        Ttp6p3 {
            i: FromValue::from_value(s[0].as_ref().expect("component i of Ttp6p3 must be present")),
            c0: s[1].as_ref().map(FromValue::from_value),
        }
    }
}
impl ToValue for Ttp6p3 {
    fn to_value(&self) -> Value {
        Value::Seq(vec![
            Some(self.i.to_value()),
            self.c0.as_ref().map(|x| x.to_value()),
        ])
    }
}
impl FromValue for Ttp6p4 {
    fn from_value(v: &Value) -> Self {
        let s = match v { Value::Seq(s) => s, other => panic!("Ttp6p4: expected Seq, got {other:?}") };
        assert_eq!(s.len(), 2, "Ttp6p4: component count");
        let _ = s;
        Ttp6p4 {
            i: FromValue::from_value(s[0].as_ref().expect("component i of Ttp6p4 must be present")),
            p: FromValue::from_value(s[1].as_ref().expect("component p of Ttp6p4 must be present")),
        }
    }
}
impl ToValue for Ttp6p4 {
    fn to_value(&self) -> Value {
        Value::Seq(vec![
            Some(self.i.to_value()),
            Some(self.p.to_value()),
        ])
    }
}
impl FromValue for Ttp6p5 {
    fn from_value(v: &Value) -> Self {
        let s = match v { Value::Seq(s) => s, other => panic!("Ttp6p5: expected Seq, got {other:?}") };
        assert_eq!(s.len(), 2, "Ttp6p5: component count");
        let _ = s;
        Ttp6p5 {
            i: FromValue::from_value(s[0].as_ref().expect("component i of Ttp6p5 must be present")),
            b: s[1].as_ref().map(FromValue::from_value),
        }
    }
}
impl ToValue for Ttp6p5 {
    fn to_value(&self) -> Value {
        Value::Seq(vec![
            Some(self.i.to_value()),
            self.b.as_ref().map(|x| x.to_value()),
        ])
    }
}
impl FromValue for Ttp6p7 {
    fn from_value(v: &Value) -> Self {
        let s = match v { Value::Seq(s) => s, other => panic!("Ttp6p7: expected Seq, got {other:?}") };
        assert_eq!(s.len(), 2, "Ttp6p7: component count");
        let _ = s;
        Ttp6p7 {
            i: FromValue::from_value(s[0].as_ref().expect("component i of Ttp6p7 must be present")),
            ra: s[1].as_ref().map(FromValue::from_value),
        }
    }
}
impl ToValue for Ttp6p7 {
    fn to_value(&self) -> Value {
        Value::Seq(vec![
            Some(self.i.to_value()),
            self.ra.as_ref().map(|x| x.to_value()),
        ])
    }
}
impl FromValue for Ttp6p8 {
    fn from_value(v: &Value) -> Self {
        let s = match v { Value::Seq(s) => s, other => panic!("Ttp6p8: expected Seq, got {other:?}") };
        assert_eq!(s.len(), 2, "Ttp6p8: component count");
        let _ = s;
        Ttp6p8 {
            i: FromValue::from_value(s[0].as_ref().expect("component i of Ttp6p8 must be present")),
            rs: FromValue::from_value(s[1].as_ref().expect("component rs of Ttp6p8 must be present")),
        }
    }
}
impl ToValue for Ttp6p8 {
    fn to_value(&self) -> Value {
        Value::Seq(vec![
            Some(self.i.to_value()),
            Some(self.rs.to_value()),
        ])
    }
}
impl FromValue for Ttp6p9 {
    fn from_value(v: &Value) -> Self {
        let s = match v { Value::Seq(s) => s, other => panic!("Ttp6p9: expected Seq, got {other:?}") };
        assert_eq!(s.len(), 2, "Ttp6p9: component count");
        let _ = s;
        Ttp6p9 {
            i: FromValue::from_value(s[0].as_ref().expect("component i of Ttp6p9 must be present")),
            rc: s[1].as_ref().map(FromValue::from_value),
        }
    }
}
impl ToValue for Ttp6p9 {
    fn to_value(&self) -> Value {
        Value::Seq(vec![
            Some(self.i.to_value()),
            self.rc.as_ref().map(|x| x.to_value()),
        ])
    }
}
impl FromValue for Ttp6p10 {
    fn from_value(v: &Value) -> Self {
        let s = match v { Value::Seq(s) => s, other => panic!("Ttp6p10: expected Seq, got {other:?}") };
        assert_eq!(s.len(), 2, "Ttp6p10: component count");
        let _ = s;
        Ttp6p10 {
            i: FromValue::from_value(s[0].as_ref().expect("component i of Ttp6p10 must be present")),
            rt: FromValue::from_value(s[1].as_ref().expect("component rt of Ttp6p10 must be present")),
        }
    }
}
impl ToValue for Ttp6p10 {
    fn to_value(&self) -> Value {
        Value::Seq(vec![
            Some(self.i.to_value()),
            Some(self.rt.to_value()),
        ])
    }
}
impl FromValue for Ttp6p11 {
    fn from_value(v: &Value) -> Self {
        let s = match v { Value::Seq(s) => s, other => panic!("Ttp6p11: expected Seq, got {other:?}") };
        assert_eq!(s.len(), 2, "Ttp6p11: component count");
        let _ = s;
        Ttp6p11 {
            i: FromValue::from_value(s[0].as_ref().expect("component i of Ttp6p11 must be present")),
            so: s[1].as_ref().map(FromValue::from_value),
        }
    }
}
impl ToValue for Ttp6p11 {
    fn to_value(&self) -> Value {
        Value::Seq(vec![
            Some(self.i.to_value()),
            self.so.as_ref().map(|x| x.to_value()),
        ])
    }
}
impl FromValue for Ttp6p12 {
    fn from_value(v: &Value) -> Self {
        let s = match v { Value::Seq(s) => s, other => panic!("Ttp6p12: expected Seq, got {other:?}") };
        assert_eq!(s.len(), 2, "Ttp6p12: component count");
        let _ = s;
        Ttp6p12 {
            i: FromValue::from_value(s[0].as_ref().expect("component i of Ttp6p12 must be present")),
            st: FromValue::from_value(s[1].as_ref().expect("component st of Ttp6p12 must be present")),
        }
    }
}
impl ToValue for Ttp6p12 {
    fn to_value(&self) -> Value {
        Value::Seq(vec![
            Some(self.i.to_value()),
            Some(self.st.to_value()),
        ])
    }
}
impl FromValue for Ttp6p13 {
    fn from_value(v: &Value) -> Self {
        let s = match v { Value::Seq(s) => s, other => panic!("Ttp6p13: expected Seq, got {other:?}") };
        assert_eq!(s.len(), 2, "Ttp6p13: component count");
        let _ = s;
        Ttp6p13 {
            i: FromValue::from_value(s[0].as_ref().expect("component i of Ttp6p13 must be present")),
            rx: s[1].as_ref().map(FromValue::from_value),
        }
    }
}
impl ToValue for Ttp6p13 {
    fn to_value(&self) -> Value {
        Value::Seq(vec![
            Some(self.i.to_value()),
            self.rx.as_ref().map(|x| x.to_value()),
        ])
    }
}
impl FromValue for Ttp6p14 {
    fn from_value(v: &Value) -> Self {
        let s = match v { Value::Seq(s) => s, other => panic!("Ttp6p14: expected Seq, got {other:?}") };
        assert_eq!(s.len(), 2, "Ttp6p14: component count");
        let _ = s;
        Ttp6p14 {
            i: FromValue::from_value(s[0].as_ref().expect("component i of Ttp6p14 must be present")),
            u2: FromValue::from_value(s[1].as_ref().expect("component u2 of Ttp6p14 must be present")),
        }
    }
}
impl ToValue for Ttp6p14 {
    fn to_value(&self) -> Value {
        Value::Seq(vec![
            Some(self.i.to_value()),
            Some(self.u2.to_value()),
        ])
    }
}

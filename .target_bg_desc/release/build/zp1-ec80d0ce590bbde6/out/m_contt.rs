use asn1rs::prelude::*;

#[asn(sequence, extensible_after(b))]

#[derive(Default, Debug, Clone, PartialEq, Hash)]
pub struct Tinner {
    #[asn(integer(0..7))] pub a: u8,
    #[asn(optional(boolean))] pub b: Option<bool>,
}

impl Tinner {
    pub const fn a_min() -> u8 {
        0
    }

    pub const fn a_max() -> u8 {
        7
    }
}

#[asn(enumerated)]

#[derive(Debug, Clone, PartialEq, Hash, Copy, PartialOrd, Eq, Default)]
pub enum Tenum3 {
    #[default] E0,
    E1,
    E2,
}

impl Tenum3 {
    pub fn variant(index: usize) -> Option<Self> {
        match index {
            0 => Some(Tenum3::E0),
            1 => Some(Tenum3::E1),
            2 => Some(Tenum3::E2),
            _ => None,
        }
    }

    pub const fn variants() -> [Self; 3] {
        [
        Tenum3::E0,
        Tenum3::E1,
        Tenum3::E2,
        ]
    }

    pub fn value_index(self) -> usize {
        match self {
            Tenum3::E0 => 0,
            Tenum3::E1 => 1,
            Tenum3::E2 => 2,
        }
    }
}

#[asn(transparent)]

#[derive(Default, Debug, Clone, PartialEq, Hash)]
pub struct Tsoboolany(#[asn(sequence_of(boolean))] pub Vec<bool>);

impl Tsoboolany {
}

impl Tsoboolany {
    pub const fn new(value: Vec<bool>) -> Self {
        Self(value)
    }
}

impl ::core::ops::Deref for Tsoboolany {
    type Target = Vec<bool>;

    fn deref(&self) -> &Vec<bool> {
        &self.0
    }
}

impl ::core::ops::DerefMut for Tsoboolany {
    fn deref_mut(&mut self) -> &mut Vec<bool> {
        &mut self.0
    }
}

impl ::core::convert::From<Vec<bool>> for Tsoboolany {
    fn from(value: Vec<bool>) -> Self {
        Self(value)
    }
}

impl ::core::convert::From<Tsoboolany> for Vec<bool> {
    fn from(value: Tsoboolany) -> Self {
        value.0
    }
}

#[asn(transparent)]

#[derive(Default, Debug, Clone, PartialEq, Hash)]
pub struct Tsoboolr0to3(#[asn(sequence_of(size(0..3), boolean))] pub Vec<bool>);

impl Tsoboolr0to3 {
}

impl Tsoboolr0to3 {
    pub const fn new(value: Vec<bool>) -> Self {
        Self(value)
    }
}

impl ::core::ops::Deref for Tsoboolr0to3 {
    type Target = Vec<bool>;

    fn deref(&self) -> &Vec<bool> {
        &self.0
    }
}

impl ::core::ops::DerefMut for Tsoboolr0to3 {
    fn deref_mut(&mut self) -> &mut Vec<bool> {
        &mut self.0
    }
}

impl ::core::convert::From<Vec<bool>> for Tsoboolr0to3 {
    fn from(value: Vec<bool>) -> Self {
        Self(value)
    }
}

impl ::core::convert::From<Tsoboolr0to3> for Vec<bool> {
    fn from(value: Tsoboolr0to3) -> Self {
        value.0
    }
}

#[asn(transparent)]

#[derive(Default, Debug, Clone, PartialEq, Hash)]
pub struct Tsoboolf2(#[asn(sequence_of(size(2), boolean))] pub Vec<bool>);

impl Tsoboolf2 {
}

impl Tsoboolf2 {
    pub const fn new(value: Vec<bool>) -> Self {
        Self(value)
    }
}

impl ::core::ops::Deref for Tsoboolf2 {
    type Target = Vec<bool>;

    fn deref(&self) -> &Vec<bool> {
        &self.0
    }
}

impl ::core::ops::DerefMut for Tsoboolf2 {
    fn deref_mut(&mut self) -> &mut Vec<bool> {
        &mut self.0
    }
}

impl ::core::convert::From<Vec<bool>> for Tsoboolf2 {
    fn from(value: Vec<bool>) -> Self {
        Self(value)
    }
}

impl ::core::convert::From<Tsoboolf2> for Vec<bool> {
    fn from(value: Tsoboolf2) -> Self {
        value.0
    }
}

#[asn(transparent)]

#[derive(Default, Debug, Clone, PartialEq, Hash)]
pub struct Tsoboolr1to2x(#[asn(sequence_of(size(1..2,...), boolean))] pub Vec<bool>);

impl Tsoboolr1to2x {
}

impl Tsoboolr1to2x {
    pub const fn new(value: Vec<bool>) -> Self {
        Self(value)
    }
}

impl ::core::ops::Deref for Tsoboolr1to2x {
    type Target = Vec<bool>;

    fn deref(&self) -> &Vec<bool> {
        &self.0
    }
}

impl ::core::ops::DerefMut for Tsoboolr1to2x {
    fn deref_mut(&mut self) -> &mut Vec<bool> {
        &mut self.0
    }
}

impl ::core::convert::From<Vec<bool>> for Tsoboolr1to2x {
    fn from(value: Vec<bool>) -> Self {
        Self(value)
    }
}

impl ::core::convert::From<Tsoboolr1to2x> for Vec<bool> {
    fn from(value: Tsoboolr1to2x) -> Self {
        value.0
    }
}

#[asn(transparent)]

#[derive(Default, Debug, Clone, PartialEq, Hash)]
pub struct Tsonullany(#[asn(sequence_of(null))] pub Vec<Null>);

impl Tsonullany {
}

impl Tsonullany {
    pub const fn new(value: Vec<Null>) -> Self {
        Self(value)
    }
}

impl ::core::ops::Deref for Tsonullany {
    type Target = Vec<Null>;

    fn deref(&self) -> &Vec<Null> {
        &self.0
    }
}

impl ::core::ops::DerefMut for Tsonullany {
    fn deref_mut(&mut self) -> &mut Vec<Null> {
        &mut self.0
    }
}

impl ::core::convert::From<Vec<Null>> for Tsonullany {
    fn from(value: Vec<Null>) -> Self {
        Self(value)
    }
}

impl ::core::convert::From<Tsonullany> for Vec<Null> {
    fn from(value: Tsonullany) -> Self {
        value.0
    }
}

#[asn(transparent)]

#[derive(Default, Debug, Clone, PartialEq, Hash)]
pub struct Tsonullr0to3(#[asn(sequence_of(size(0..3), null))] pub Vec<Null>);

impl Tsonullr0to3 {
}

impl Tsonullr0to3 {
    pub const fn new(value: Vec<Null>) -> Self {
        Self(value)
    }
}

impl ::core::ops::Deref for Tsonullr0to3 {
    type Target = Vec<Null>;

    fn deref(&self) -> &Vec<Null> {
        &self.0
    }
}

impl ::core::ops::DerefMut for Tsonullr0to3 {
    fn deref_mut(&mut self) -> &mut Vec<Null> {
        &mut self.0
    }
}

impl ::core::convert::From<Vec<Null>> for Tsonullr0to3 {
    fn from(value: Vec<Null>) -> Self {
        Self(value)
    }
}

impl ::core::convert::From<Tsonullr0to3> for Vec<Null> {
    fn from(value: Tsonullr0to3) -> Self {
        value.0
    }
}

#[asn(transparent)]

#[derive(Default, Debug, Clone, PartialEq, Hash)]
pub struct Tsonullf2(#[asn(sequence_of(size(2), null))] pub Vec<Null>);

impl Tsonullf2 {
}

impl Tsonullf2 {
    pub const fn new(value: Vec<Null>) -> Self {
        Self(value)
    }
}

impl ::core::ops::Deref for Tsonullf2 {
    type Target = Vec<Null>;

    fn deref(&self) -> &Vec<Null> {
        &self.0
    }
}

impl ::core::ops::DerefMut for Tsonullf2 {
    fn deref_mut(&mut self) -> &mut Vec<Null> {
        &mut self.0
    }
}

impl ::core::convert::From<Vec<Null>> for Tsonullf2 {
    fn from(value: Vec<Null>) -> Self {
        Self(value)
    }
}

impl ::core::convert::From<Tsonullf2> for Vec<Null> {
    fn from(value: Tsonullf2) -> Self {
        value.0
    }
}

#[asn(transparent)]

#[derive(Default, Debug, Clone, PartialEq, Hash)]
pub struct Tsonullr1to2x(#[asn(sequence_of(size(1..2,...), null))] pub Vec<Null>);

impl Tsonullr1to2x {
}

impl Tsonullr1to2x {
    pub const fn new(value: Vec<Null>) -> Self {
        Self(value)
    }
}

impl ::core::ops::Deref for Tsonullr1to2x {
    type Target = Vec<Null>;

    fn deref(&self) -> &Vec<Null> {
        &self.0
    }
}

impl ::core::ops::DerefMut for Tsonullr1to2x {
    fn deref_mut(&mut self) -> &mut Vec<Null> {
        &mut self.0
    }
}

impl ::core::convert::From<Vec<Null>> for Tsonullr1to2x {
    fn from(value: Vec<Null>) -> Self {
        Self(value)
    }
}

impl ::core::convert::From<Tsonullr1to2x> for Vec<Null> {
    fn from(value: Tsonullr1to2x) -> Self {
        value.0
    }
}

#[asn(transparent)]

#[derive(Default, Debug, Clone, PartialEq, Hash)]
pub struct Tsoi3any(#[asn(sequence_of(integer(0..7)))] pub Vec<u8>);

impl Tsoi3any {
    pub const fn value_min() -> u8 {
        0
    }

    pub const fn value_max() -> u8 {
        7
    }
}

impl Tsoi3any {
    pub const fn new(value: Vec<u8>) -> Self {
        Self(value)
    }
}

impl ::core::ops::Deref for Tsoi3any {
    type Target = Vec<u8>;

    fn deref(&self) -> &Vec<u8> {
        &self.0
    }
}

impl ::core::ops::DerefMut for Tsoi3any {
    fn deref_mut(&mut self) -> &mut Vec<u8> {
        &mut self.0
    }
}

impl ::core::convert::From<Vec<u8>> for Tsoi3any {
    fn from(value: Vec<u8>) -> Self {
        Self(value)
    }
}

impl ::core::convert::From<Tsoi3any> for Vec<u8> {
    fn from(value: Tsoi3any) -> Self {
        value.0
    }
}

#[asn(transparent)]

#[derive(Default, Debug, Clone, PartialEq, Hash)]
pub struct Tsoi3r0to3(#[asn(sequence_of(size(0..3), integer(0..7)))] pub Vec<u8>);

impl Tsoi3r0to3 {
    pub const fn value_min() -> u8 {
        0
    }

    pub const fn value_max() -> u8 {
        7
    }
}

impl Tsoi3r0to3 {
    pub const fn new(value: Vec<u8>) -> Self {
        Self(value)
    }
}

impl ::core::ops::Deref for Tsoi3r0to3 {
    type Target = Vec<u8>;

    fn deref(&self) -> &Vec<u8> {
        &self.0
    }
}

impl ::core::ops::DerefMut for Tsoi3r0to3 {
    fn deref_mut(&mut self) -> &mut Vec<u8> {
        &mut self.0
    }
}

impl ::core::convert::From<Vec<u8>> for Tsoi3r0to3 {
    fn from(value: Vec<u8>) -> Self {
        Self(value)
    }
}

impl ::core::convert::From<Tsoi3r0to3> for Vec<u8> {
    fn from(value: Tsoi3r0to3) -> Self {
        value.0
    }
}

#[asn(transparent)]

#[derive(Default, Debug, Clone, PartialEq, Hash)]
pub struct Tsoi3f2(#[asn(sequence_of(size(2), integer(0..7)))] pub Vec<u8>);

impl Tsoi3f2 {
    pub const fn value_min() -> u8 {
        0
    }

    pub const fn value_max() -> u8 {
        7
    }
}

impl Tsoi3f2 {
    pub const fn new(value: Vec<u8>) -> Self {
        Self(value)
    }
}

impl ::core::ops::Deref for Tsoi3f2 {
    type Target = Vec<u8>;

    fn deref(&self) -> &Vec<u8> {
        &self.0
    }
}

impl ::core::ops::DerefMut for Tsoi3f2 {
    fn deref_mut(&mut self) -> &mut Vec<u8> {
        &mut self.0
    }
}

impl ::core::convert::From<Vec<u8>> for Tsoi3f2 {
    fn from(value: Vec<u8>) -> Self {
        Self(value)
    }
}

impl ::core::convert::From<Tsoi3f2> for Vec<u8> {
    fn from(value: Tsoi3f2) -> Self {
        value.0
    }
}

#[asn(transparent)]

#[derive(Default, Debug, Clone, PartialEq, Hash)]
pub struct Tsoi3r1to2x(#[asn(sequence_of(size(1..2,...), integer(0..7)))] pub Vec<u8>);

impl Tsoi3r1to2x {
    pub const fn value_min() -> u8 {
        0
    }

    pub const fn value_max() -> u8 {
        7
    }
}

impl Tsoi3r1to2x {
    pub const fn new(value: Vec<u8>) -> Self {
        Self(value)
    }
}

impl ::core::ops::Deref for Tsoi3r1to2x {
    type Target = Vec<u8>;

    fn deref(&self) -> &Vec<u8> {
        &self.0
    }
}

impl ::core::ops::DerefMut for Tsoi3r1to2x {
    fn deref_mut(&mut self) -> &mut Vec<u8> {
        &mut self.0
    }
}

impl ::core::convert::From<Vec<u8>> for Tsoi3r1to2x {
    fn from(value: Vec<u8>) -> Self {
        Self(value)
    }
}

impl ::core::convert::From<Tsoi3r1to2x> for Vec<u8> {
    fn from(value: Tsoi3r1to2x) -> Self {
        value.0
    }
}

#[asn(transparent)]

#[derive(Default, Debug, Clone, PartialEq, Hash)]
pub struct Tsoiunany(#[asn(sequence_of(integer(min..max)))] pub Vec<u64>);

impl Tsoiunany {
    pub const fn value_min() -> u64 {
        0
    }

    pub const fn value_max() -> u64 {
        9_223_372_036_854_775_807
    }
}

impl Tsoiunany {
    pub const fn new(value: Vec<u64>) -> Self {
        Self(value)
    }
}

impl ::core::ops::Deref for Tsoiunany {
    type Target = Vec<u64>;

    fn deref(&self) -> &Vec<u64> {
        &self.0
    }
}

impl ::core::ops::DerefMut for Tsoiunany {
    fn deref_mut(&mut self) -> &mut Vec<u64> {
        &mut self.0
    }
}

impl ::core::convert::From<Vec<u64>> for Tsoiunany {
    fn from(value: Vec<u64>) -> Self {
        Self(value)
    }
}

impl ::core::convert::From<Tsoiunany> for Vec<u64> {
    fn from(value: Tsoiunany) -> Self {
        value.0
    }
}

#[asn(transparent)]

#[derive(Default, Debug, Clone, PartialEq, Hash)]
pub struct Tsoiunr0to3(#[asn(sequence_of(size(0..3), integer(min..max)))] pub Vec<u64>);

impl Tsoiunr0to3 {
    pub const fn value_min() -> u64 {
        0
    }

    pub const fn value_max() -> u64 {
        9_223_372_036_854_775_807
    }
}

impl Tsoiunr0to3 {
    pub const fn new(value: Vec<u64>) -> Self {
        Self(value)
    }
}

impl ::core::ops::Deref for Tsoiunr0to3 {
    type Target = Vec<u64>;

    fn deref(&self) -> &Vec<u64> {
        &self.0
    }
}

impl ::core::ops::DerefMut for Tsoiunr0to3 {
    fn deref_mut(&mut self) -> &mut Vec<u64> {
        &mut self.0
    }
}

impl ::core::convert::From<Vec<u64>> for Tsoiunr0to3 {
    fn from(value: Vec<u64>) -> Self {
        Self(value)
    }
}

impl ::core::convert::From<Tsoiunr0to3> for Vec<u64> {
    fn from(value: Tsoiunr0to3) -> Self {
        value.0
    }
}

#[asn(transparent)]

#[derive(Default, Debug, Clone, PartialEq, Hash)]
pub struct Tsoiunf2(#[asn(sequence_of(size(2), integer(min..max)))] pub Vec<u64>);

impl Tsoiunf2 {
    pub const fn value_min() -> u64 {
        0
    }

    pub const fn value_max() -> u64 {
        9_223_372_036_854_775_807
    }
}

impl Tsoiunf2 {
    pub const fn new(value: Vec<u64>) -> Self {
        Self(value)
    }
}

impl ::core::ops::Deref for Tsoiunf2 {
    type Target = Vec<u64>;

    fn deref(&self) -> &Vec<u64> {
        &self.0
    }
}

impl ::core::ops::DerefMut for Tsoiunf2 {
    fn deref_mut(&mut self) -> &mut Vec<u64> {
        &mut self.0
    }
}

impl ::core::convert::From<Vec<u64>> for Tsoiunf2 {
    fn from(value: Vec<u64>) -> Self {
        Self(value)
    }
}

impl ::core::convert::From<Tsoiunf2> for Vec<u64> {
    fn from(value: Tsoiunf2) -> Self {
        value.0
    }
}

#[asn(transparent)]

#[derive(Default, Debug, Clone, PartialEq, Hash)]
pub struct Tsoiunr1to2x(#[asn(sequence_of(size(1..2,...), integer(min..max)))] pub Vec<u64>);

impl Tsoiunr1to2x {
    pub const fn value_min() -> u64 {
        0
    }

    pub const fn value_max() -> u64 {
        9_223_372_036_854_775_807
    }
}

impl Tsoiunr1to2x {
    pub const fn new(value: Vec<u64>) -> Self {
        Self(value)
    }
}

impl ::core::ops::Deref for Tsoiunr1to2x {
    type Target = Vec<u64>;

    fn deref(&self) -> &Vec<u64> {
        &self.0
    }
}

impl ::core::ops::DerefMut for Tsoiunr1to2x {
    fn deref_mut(&mut self) -> &mut Vec<u64> {
        &mut self.0
    }
}

impl ::core::convert::From<Vec<u64>> for Tsoiunr1to2x {
    fn from(value: Vec<u64>) -> Self {
        Self(value)
    }
}

impl ::core::convert::From<Tsoiunr1to2x> for Vec<u64> {
    fn from(value: Tsoiunr1to2x) -> Self {
        value.0
    }
}

#[asn(transparent)]

#[derive(Default, Debug, Clone, PartialEq, Hash)]
pub struct Tsoixtany(#[asn(sequence_of(integer(0..7,...)))] pub Vec<u64>);

impl Tsoixtany {
    pub const fn value_min() -> u64 {
        0
    }

    pub const fn value_max() -> u64 {
        7
    }
}

impl Tsoixtany {
    pub const fn new(value: Vec<u64>) -> Self {
        Self(value)
    }
}

impl ::core::ops::Deref for Tsoixtany {
    type Target = Vec<u64>;

    fn deref(&self) -> &Vec<u64> {
        &self.0
    }
}

impl ::core::ops::DerefMut for Tsoixtany {
    fn deref_mut(&mut self) -> &mut Vec<u64> {
        &mut self.0
    }
}

impl ::core::convert::From<Vec<u64>> for Tsoixtany {
    fn from(value: Vec<u64>) -> Self {
        Self(value)
    }
}

impl ::core::convert::From<Tsoixtany> for Vec<u64> {
    fn from(value: Tsoixtany) -> Self {
        value.0
    }
}

#[asn(transparent)]

#[derive(Default, Debug, Clone, PartialEq, Hash)]
pub struct Tsoixtr0to3(#[asn(sequence_of(size(0..3), integer(0..7,...)))] pub Vec<u64>);

impl Tsoixtr0to3 {
    pub const fn value_min() -> u64 {
        0
    }

    pub const fn value_max() -> u64 {
        7
    }
}

impl Tsoixtr0to3 {
    pub const fn new(value: Vec<u64>) -> Self {
        Self(value)
    }
}

impl ::core::ops::Deref for Tsoixtr0to3 {
    type Target = Vec<u64>;

    fn deref(&self) -> &Vec<u64> {
        &self.0
    }
}

impl ::core::ops::DerefMut for Tsoixtr0to3 {
    fn deref_mut(&mut self) -> &mut Vec<u64> {
        &mut self.0
    }
}

impl ::core::convert::From<Vec<u64>> for Tsoixtr0to3 {
    fn from(value: Vec<u64>) -> Self {
        Self(value)
    }
}

impl ::core::convert::From<Tsoixtr0to3> for Vec<u64> {
    fn from(value: Tsoixtr0to3) -> Self {
        value.0
    }
}

#[asn(transparent)]

#[derive(Default, Debug, Clone, PartialEq, Hash)]
pub struct Tsoixtf2(#[asn(sequence_of(size(2), integer(0..7,...)))] pub Vec<u64>);

impl Tsoixtf2 {
    pub const fn value_min() -> u64 {
        0
    }

    pub const fn value_max() -> u64 {
        7
    }
}

impl Tsoixtf2 {
    pub const fn new(value: Vec<u64>) -> Self {
        Self(value)
    }
}

impl ::core::ops::Deref for Tsoixtf2 {
    type Target = Vec<u64>;

    fn deref(&self) -> &Vec<u64> {
        &self.0
    }
}

impl ::core::ops::DerefMut for Tsoixtf2 {
    fn deref_mut(&mut self) -> &mut Vec<u64> {
        &mut self.0
    }
}

impl ::core::convert::From<Vec<u64>> for Tsoixtf2 {
    fn from(value: Vec<u64>) -> Self {
        Self(value)
    }
}

impl ::core::convert::From<Tsoixtf2> for Vec<u64> {
    fn from(value: Tsoixtf2) -> Self {
        value.0
    }
}

#[asn(transparent)]

#[derive(Default, Debug, Clone, PartialEq, Hash)]
pub struct Tsoixtr1to2x(#[asn(sequence_of(size(1..2,...), integer(0..7,...)))] pub Vec<u64>);

impl Tsoixtr1to2x {
    pub const fn value_min() -> u64 {
        0
    }

    pub const fn value_max() -> u64 {
        7
    }
}

impl Tsoixtr1to2x {
    pub const fn new(value: Vec<u64>) -> Self {
        Self(value)
    }
}

impl ::core::ops::Deref for Tsoixtr1to2x {
    type Target = Vec<u64>;

    fn deref(&self) -> &Vec<u64> {
        &self.0
    }
}

impl ::core::ops::DerefMut for Tsoixtr1to2x {
    fn deref_mut(&mut self) -> &mut Vec<u64> {
        &mut self.0
    }
}

impl ::core::convert::From<Vec<u64>> for Tsoixtr1to2x {
    fn from(value: Vec<u64>) -> Self {
        Self(value)
    }
}

impl ::core::convert::From<Tsoixtr1to2x> for Vec<u64> {
    fn from(value: Tsoixtr1to2x) -> Self {
        value.0
    }
}

#[asn(transparent)]

#[derive(Default, Debug, Clone, PartialEq, Hash)]
pub struct Tsoenany(#[asn(sequence_of(complex(Tenum3, tag(UNIVERSAL(10)))))] pub Vec<Tenum3>);

impl Tsoenany {
}

impl Tsoenany {
    pub const fn new(value: Vec<Tenum3>) -> Self {
        Self(value)
    }
}

impl ::core::ops::Deref for Tsoenany {
    type Target = Vec<Tenum3>;

    fn deref(&self) -> &Vec<Tenum3> {
        &self.0
    }
}

impl ::core::ops::DerefMut for Tsoenany {
    fn deref_mut(&mut self) -> &mut Vec<Tenum3> {
        &mut self.0
    }
}

impl ::core::convert::From<Vec<Tenum3>> for Tsoenany {
    fn from(value: Vec<Tenum3>) -> Self {
        Self(value)
    }
}

impl ::core::convert::From<Tsoenany> for Vec<Tenum3> {
    fn from(value: Tsoenany) -> Self {
        value.0
    }
}

#[asn(transparent)]

#[derive(Default, Debug, Clone, PartialEq, Hash)]
pub struct Tsoenr0to3(#[asn(sequence_of(size(0..3), complex(Tenum3, tag(UNIVERSAL(10)))))] pub Vec<Tenum3>);

impl Tsoenr0to3 {
}

impl Tsoenr0to3 {
    pub const fn new(value: Vec<Tenum3>) -> Self {
        Self(value)
    }
}

impl ::core::ops::Deref for Tsoenr0to3 {
    type Target = Vec<Tenum3>;

    fn deref(&self) -> &Vec<Tenum3> {
        &self.0
    }
}

impl ::core::ops::DerefMut for Tsoenr0to3 {
    fn deref_mut(&mut self) -> &mut Vec<Tenum3> {
        &mut self.0
    }
}

impl ::core::convert::From<Vec<Tenum3>> for Tsoenr0to3 {
    fn from(value: Vec<Tenum3>) -> Self {
        Self(value)
    }
}

impl ::core::convert::From<Tsoenr0to3> for Vec<Tenum3> {
    fn from(value: Tsoenr0to3) -> Self {
        value.0
    }
}

#[asn(transparent)]

#[derive(Default, Debug, Clone, PartialEq, Hash)]
pub struct Tsoenf2(#[asn(sequence_of(size(2), complex(Tenum3, tag(UNIVERSAL(10)))))] pub Vec<Tenum3>);

impl Tsoenf2 {
}

impl Tsoenf2 {
    pub const fn new(value: Vec<Tenum3>) -> Self {
        Self(value)
    }
}

impl ::core::ops::Deref for Tsoenf2 {
    type Target = Vec<Tenum3>;

    fn deref(&self) -> &Vec<Tenum3> {
        &self.0
    }
}

impl ::core::ops::DerefMut for Tsoenf2 {
    fn deref_mut(&mut self) -> &mut Vec<Tenum3> {
        &mut self.0
    }
}

impl ::core::convert::From<Vec<Tenum3>> for Tsoenf2 {
    fn from(value: Vec<Tenum3>) -> Self {
        Self(value)
    }
}

impl ::core::convert::From<Tsoenf2> for Vec<Tenum3> {
    fn from(value: Tsoenf2) -> Self {
        value.0
    }
}

#[asn(transparent)]

#[derive(Default, Debug, Clone, PartialEq, Hash)]
pub struct Tsoenr1to2x(#[asn(sequence_of(size(1..2,...), complex(Tenum3, tag(UNIVERSAL(10)))))] pub Vec<Tenum3>);

impl Tsoenr1to2x {
}

impl Tsoenr1to2x {
    pub const fn new(value: Vec<Tenum3>) -> Self {
        Self(value)
    }
}

impl ::core::ops::Deref for Tsoenr1to2x {
    type Target = Vec<Tenum3>;

    fn deref(&self) -> &Vec<Tenum3> {
        &self.0
    }
}

impl ::core::ops::DerefMut for Tsoenr1to2x {
    fn deref_mut(&mut self) -> &mut Vec<Tenum3> {
        &mut self.0
    }
}

impl ::core::convert::From<Vec<Tenum3>> for Tsoenr1to2x {
    fn from(value: Vec<Tenum3>) -> Self {
        Self(value)
    }
}

impl ::core::convert::From<Tsoenr1to2x> for Vec<Tenum3> {
    fn from(value: Tsoenr1to2x) -> Self {
        value.0
    }
}

#[asn(transparent)]

#[derive(Default, Debug, Clone, PartialEq, Hash)]
pub struct Tsooctany(#[asn(sequence_of(octet_string(size(0..2))))] pub Vec<Vec<u8>>);

impl Tsooctany {
}

impl Tsooctany {
    pub const fn new(value: Vec<Vec<u8>>) -> Self {
        Self(value)
    }
}

impl ::core::ops::Deref for Tsooctany {
    type Target = Vec<Vec<u8>>;

    fn deref(&self) -> &Vec<Vec<u8>> {
        &self.0
    }
}

impl ::core::ops::DerefMut for Tsooctany {
    fn deref_mut(&mut self) -> &mut Vec<Vec<u8>> {
        &mut self.0
    }
}

impl ::core::convert::From<Vec<Vec<u8>>> for Tsooctany {
    fn from(value: Vec<Vec<u8>>) -> Self {
        Self(value)
    }
}

impl ::core::convert::From<Tsooctany> for Vec<Vec<u8>> {
    fn from(value: Tsooctany) -> Self {
        value.0
    }
}

#[asn(transparent)]

#[derive(Default, Debug, Clone, PartialEq, Hash)]
pub struct Tsooctr0to3(#[asn(sequence_of(size(0..3), octet_string(size(0..2))))] pub Vec<Vec<u8>>);

impl Tsooctr0to3 {
}

impl Tsooctr0to3 {
    pub const fn new(value: Vec<Vec<u8>>) -> Self {
        Self(value)
    }
}

impl ::core::ops::Deref for Tsooctr0to3 {
    type Target = Vec<Vec<u8>>;

    fn deref(&self) -> &Vec<Vec<u8>> {
        &self.0
    }
}

impl ::core::ops::DerefMut for Tsooctr0to3 {
    fn deref_mut(&mut self) -> &mut Vec<Vec<u8>> {
        &mut self.0
    }
}

impl ::core::convert::From<Vec<Vec<u8>>> for Tsooctr0to3 {
    fn from(value: Vec<Vec<u8>>) -> Self {
        Self(value)
    }
}

impl ::core::convert::From<Tsooctr0to3> for Vec<Vec<u8>> {
    fn from(value: Tsooctr0to3) -> Self {
        value.0
    }
}

#[asn(transparent)]

#[derive(Default, Debug, Clone, PartialEq, Hash)]
pub struct Tsooctf2(#[asn(sequence_of(size(2), octet_string(size(0..2))))] pub Vec<Vec<u8>>);

impl Tsooctf2 {
}

impl Tsooctf2 {
    pub const fn new(value: Vec<Vec<u8>>) -> Self {
        Self(value)
    }
}

impl ::core::ops::Deref for Tsooctf2 {
    type Target = Vec<Vec<u8>>;

    fn deref(&self) -> &Vec<Vec<u8>> {
        &self.0
    }
}

impl ::core::ops::DerefMut for Tsooctf2 {
    fn deref_mut(&mut self) -> &mut Vec<Vec<u8>> {
        &mut self.0
    }
}

impl ::core::convert::From<Vec<Vec<u8>>> for Tsooctf2 {
    fn from(value: Vec<Vec<u8>>) -> Self {
        Self(value)
    }
}

impl ::core::convert::From<Tsooctf2> for Vec<Vec<u8>> {
    fn from(value: Tsooctf2) -> Self {
        value.0
    }
}

#[asn(transparent)]

#[derive(Default, Debug, Clone, PartialEq, Hash)]
pub struct Tsooctr1to2x(#[asn(sequence_of(size(1..2,...), octet_string(size(0..2))))] pub Vec<Vec<u8>>);

impl Tsooctr1to2x {
}

impl Tsooctr1to2x {
    pub const fn new(value: Vec<Vec<u8>>) -> Self {
        Self(value)
    }
}

impl ::core::ops::Deref for Tsooctr1to2x {
    type Target = Vec<Vec<u8>>;

    fn deref(&self) -> &Vec<Vec<u8>> {
        &self.0
    }
}

impl ::core::ops::DerefMut for Tsooctr1to2x {
    fn deref_mut(&mut self) -> &mut Vec<Vec<u8>> {
        &mut self.0
    }
}

impl ::core::convert::From<Vec<Vec<u8>>> for Tsooctr1to2x {
    fn from(value: Vec<Vec<u8>>) -> Self {
        Self(value)
    }
}

impl ::core::convert::From<Tsooctr1to2x> for Vec<Vec<u8>> {
    fn from(value: Tsooctr1to2x) -> Self {
        value.0
    }
}

#[asn(transparent)]

#[derive(Default, Debug, Clone, PartialEq, Hash)]
pub struct Tsobitany(#[asn(sequence_of(bit_string(size(3))))] pub Vec<BitVec>);

impl Tsobitany {
}

impl Tsobitany {
    pub const fn new(value: Vec<BitVec>) -> Self {
        Self(value)
    }
}

impl ::core::ops::Deref for Tsobitany {
    type Target = Vec<BitVec>;

    fn deref(&self) -> &Vec<BitVec> {
        &self.0
    }
}

impl ::core::ops::DerefMut for Tsobitany {
    fn deref_mut(&mut self) -> &mut Vec<BitVec> {
        &mut self.0
    }
}

impl ::core::convert::From<Vec<BitVec>> for Tsobitany {
    fn from(value: Vec<BitVec>) -> Self {
        Self(value)
    }
}

impl ::core::convert::From<Tsobitany> for Vec<BitVec> {
    fn from(value: Tsobitany) -> Self {
        value.0
    }
}

#[asn(transparent)]

#[derive(Default, Debug, Clone, PartialEq, Hash)]
pub struct Tsobitr0to3(#[asn(sequence_of(size(0..3), bit_string(size(3))))] pub Vec<BitVec>);

impl Tsobitr0to3 {
}

impl Tsobitr0to3 {
    pub const fn new(value: Vec<BitVec>) -> Self {
        Self(value)
    }
}

impl ::core::ops::Deref for Tsobitr0to3 {
    type Target = Vec<BitVec>;

    fn deref(&self) -> &Vec<BitVec> {
        &self.0
    }
}

impl ::core::ops::DerefMut for Tsobitr0to3 {
    fn deref_mut(&mut self) -> &mut Vec<BitVec> {
        &mut self.0
    }
}

impl ::core::convert::From<Vec<BitVec>> for Tsobitr0to3 {
    fn from(value: Vec<BitVec>) -> Self {
        Self(value)
    }
}

impl ::core::convert::From<Tsobitr0to3> for Vec<BitVec> {
    fn from(value: Tsobitr0to3) -> Self {
        value.0
    }
}

#[asn(transparent)]

#[derive(Default, Debug, Clone, PartialEq, Hash)]
pub struct Tsobitf2(#[asn(sequence_of(size(2), bit_string(size(3))))] pub Vec<BitVec>);

impl Tsobitf2 {
}

impl Tsobitf2 {
    pub const fn new(value: Vec<BitVec>) -> Self {
        Self(value)
    }
}

impl ::core::ops::Deref for Tsobitf2 {
    type Target = Vec<BitVec>;

    fn deref(&self) -> &Vec<BitVec> {
        &self.0
    }
}

impl ::core::ops::DerefMut for Tsobitf2 {
    fn deref_mut(&mut self) -> &mut Vec<BitVec> {
        &mut self.0
    }
}

impl ::core::convert::From<Vec<BitVec>> for Tsobitf2 {
    fn from(value: Vec<BitVec>) -> Self {
        Self(value)
    }
}

impl ::core::convert::From<Tsobitf2> for Vec<BitVec> {
    fn from(value: Tsobitf2) -> Self {
        value.0
    }
}

#[asn(transparent)]

#[derive(Default, Debug, Clone, PartialEq, Hash)]
pub struct Tsobitr1to2x(#[asn(sequence_of(size(1..2,...), bit_string(size(3))))] pub Vec<BitVec>);

impl Tsobitr1to2x {
}

impl Tsobitr1to2x {
    pub const fn new(value: Vec<BitVec>) -> Self {
        Self(value)
    }
}

impl ::core::ops::Deref for Tsobitr1to2x {
    type Target = Vec<BitVec>;

    fn deref(&self) -> &Vec<BitVec> {
        &self.0
    }
}

impl ::core::ops::DerefMut for Tsobitr1to2x {
    fn deref_mut(&mut self) -> &mut Vec<BitVec> {
        &mut self.0
    }
}

impl ::core::convert::From<Vec<BitVec>> for Tsobitr1to2x {
    fn from(value: Vec<BitVec>) -> Self {
        Self(value)
    }
}

impl ::core::convert::From<Tsobitr1to2x> for Vec<BitVec> {
    fn from(value: Tsobitr1to2x) -> Self {
        value.0
    }
}

#[asn(transparent)]

#[derive(Default, Debug, Clone, PartialEq, Hash)]
pub struct Tsoia5any(#[asn(sequence_of(ia5string(size(0..2))))] pub Vec<String>);

impl Tsoia5any {
}

impl Tsoia5any {
    pub const fn new(value: Vec<String>) -> Self {
        Self(value)
    }
}

impl ::core::ops::Deref for Tsoia5any {
    type Target = Vec<String>;

    fn deref(&self) -> &Vec<String> {
        &self.0
    }
}

impl ::core::ops::DerefMut for Tsoia5any {
    fn deref_mut(&mut self) -> &mut Vec<String> {
        &mut self.0
    }
}

impl ::core::convert::From<Vec<String>> for Tsoia5any {
    fn from(value: Vec<String>) -> Self {
        Self(value)
    }
}

impl ::core::convert::From<Tsoia5any> for Vec<String> {
    fn from(value: Tsoia5any) -> Self {
        value.0
    }
}

#[asn(transparent)]

#[derive(Default, Debug, Clone, PartialEq, Hash)]
pub struct Tsoia5r0to3(#[asn(sequence_of(size(0..3), ia5string(size(0..2))))] pub Vec<String>);

impl Tsoia5r0to3 {
}

impl Tsoia5r0to3 {
    pub const fn new(value: Vec<String>) -> Self {
        Self(value)
    }
}

impl ::core::ops::Deref for Tsoia5r0to3 {
    type Target = Vec<String>;

    fn deref(&self) -> &Vec<String> {
        &self.0
    }
}

impl ::core::ops::DerefMut for Tsoia5r0to3 {
    fn deref_mut(&mut self) -> &mut Vec<String> {
        &mut self.0
    }
}

impl ::core::convert::From<Vec<String>> for Tsoia5r0to3 {
    fn from(value: Vec<String>) -> Self {
        Self(value)
    }
}

impl ::core::convert::From<Tsoia5r0to3> for Vec<String> {
    fn from(value: Tsoia5r0to3) -> Self {
        value.0
    }
}

#[asn(transparent)]

#[derive(Default, Debug, Clone, PartialEq, Hash)]
pub struct Tsoia5f2(#[asn(sequence_of(size(2), ia5string(size(0..2))))] pub Vec<String>);

impl Tsoia5f2 {
}

impl Tsoia5f2 {
    pub const fn new(value: Vec<String>) -> Self {
        Self(value)
    }
}

impl ::core::ops::Deref for Tsoia5f2 {
    type Target = Vec<String>;

    fn deref(&self) -> &Vec<String> {
        &self.0
    }
}

impl ::core::ops::DerefMut for Tsoia5f2 {
    fn deref_mut(&mut self) -> &mut Vec<String> {
        &mut self.0
    }
}

impl ::core::convert::From<Vec<String>> for Tsoia5f2 {
    fn from(value: Vec<String>) -> Self {
        Self(value)
    }
}

impl ::core::convert::From<Tsoia5f2> for Vec<String> {
    fn from(value: Tsoia5f2) -> Self {
        value.0
    }
}

#[asn(transparent)]

#[derive(Default, Debug, Clone, PartialEq, Hash)]
pub struct Tsoia5r1to2x(#[asn(sequence_of(size(1..2,...), ia5string(size(0..2))))] pub Vec<String>);

impl Tsoia5r1to2x {
}

impl Tsoia5r1to2x {
    pub const fn new(value: Vec<String>) -> Self {
        Self(value)
    }
}

impl ::core::ops::Deref for Tsoia5r1to2x {
    type Target = Vec<String>;

    fn deref(&self) -> &Vec<String> {
        &self.0
    }
}

impl ::core::ops::DerefMut for Tsoia5r1to2x {
    fn deref_mut(&mut self) -> &mut Vec<String> {
        &mut self.0
    }
}

impl ::core::convert::From<Vec<String>> for Tsoia5r1to2x {
    fn from(value: Vec<String>) -> Self {
        Self(value)
    }
}

impl ::core::convert::From<Tsoia5r1to2x> for Vec<String> {
    fn from(value: Tsoia5r1to2x) -> Self {
        value.0
    }
}

#[asn(transparent)]

#[derive(Default, Debug, Clone, PartialEq, Hash)]
pub struct Tsoutfany(#[asn(sequence_of(utf8string))] pub Vec<String>);

impl Tsoutfany {
}

impl Tsoutfany {
    pub const fn new(value: Vec<String>) -> Self {
        Self(value)
    }
}

impl ::core::ops::Deref for Tsoutfany {
    type Target = Vec<String>;

    fn deref(&self) -> &Vec<String> {
        &self.0
    }
}

impl ::core::ops::DerefMut for Tsoutfany {
    fn deref_mut(&mut self) -> &mut Vec<String> {
        &mut self.0
    }
}

impl ::core::convert::From<Vec<String>> for Tsoutfany {
    fn from(value: Vec<String>) -> Self {
        Self(value)
    }
}

impl ::core::convert::From<Tsoutfany> for Vec<String> {
    fn from(value: Tsoutfany) -> Self {
        value.0
    }
}

#[asn(transparent)]

#[derive(Default, Debug, Clone, PartialEq, Hash)]
pub struct Tsoutfr0to3(#[asn(sequence_of(size(0..3), utf8string))] pub Vec<String>);

impl Tsoutfr0to3 {
}

impl Tsoutfr0to3 {
    pub const fn new(value: Vec<String>) -> Self {
        Self(value)
    }
}

impl ::core::ops::Deref for Tsoutfr0to3 {
    type Target = Vec<String>;

    fn deref(&self) -> &Vec<String> {
        &self.0
    }
}

impl ::core::ops::DerefMut for Tsoutfr0to3 {
    fn deref_mut(&mut self) -> &mut Vec<String> {
        &mut self.0
    }
}

impl ::core::convert::From<Vec<String>> for Tsoutfr0to3 {
    fn from(value: Vec<String>) -> Self {
        Self(value)
    }
}

impl ::core::convert::From<Tsoutfr0to3> for Vec<String> {
    fn from(value: Tsoutfr0to3) -> Self {
        value.0
    }
}

#[asn(transparent)]

#[derive(Default, Debug, Clone, PartialEq, Hash)]
pub struct Tsoutff2(#[asn(sequence_of(size(2), utf8string))] pub Vec<String>);

impl Tsoutff2 {
}

impl Tsoutff2 {
    pub const fn new(value: Vec<String>) -> Self {
        Self(value)
    }
}

impl ::core::ops::Deref for Tsoutff2 {
    type Target = Vec<String>;

    fn deref(&self) -> &Vec<String> {
        &self.0
    }
}

impl ::core::ops::DerefMut for Tsoutff2 {
    fn deref_mut(&mut self) -> &mut Vec<String> {
        &mut self.0
    }
}

impl ::core::convert::From<Vec<String>> for Tsoutff2 {
    fn from(value: Vec<String>) -> Self {
        Self(value)
    }
}

impl ::core::convert::From<Tsoutff2> for Vec<String> {
    fn from(value: Tsoutff2) -> Self {
        value.0
    }
}

#[asn(transparent)]

#[derive(Default, Debug, Clone, PartialEq, Hash)]
pub struct Tsoutfr1to2x(#[asn(sequence_of(size(1..2,...), utf8string))] pub Vec<String>);

impl Tsoutfr1to2x {
}

impl Tsoutfr1to2x {
    pub const fn new(value: Vec<String>) -> Self {
        Self(value)
    }
}

impl ::core::ops::Deref for Tsoutfr1to2x {
    type Target = Vec<String>;

    fn deref(&self) -> &Vec<String> {
        &self.0
    }
}

impl ::core::ops::DerefMut for Tsoutfr1to2x {
    fn deref_mut(&mut self) -> &mut Vec<String> {
        &mut self.0
    }
}

impl ::core::convert::From<Vec<String>> for Tsoutfr1to2x {
    fn from(value: Vec<String>) -> Self {
        Self(value)
    }
}

impl ::core::convert::From<Tsoutfr1to2x> for Vec<String> {
    fn from(value: Tsoutfr1to2x) -> Self {
        value.0
    }
}

#[asn(transparent)]

#[derive(Default, Debug, Clone, PartialEq, Hash)]
pub struct Tsonumany(#[asn(sequence_of(numericstring(size(2))))] pub Vec<String>);

impl Tsonumany {
}

impl Tsonumany {
    pub const fn new(value: Vec<String>) -> Self {
        Self(value)
    }
}

impl ::core::ops::Deref for Tsonumany {
    type Target = Vec<String>;

    fn deref(&self) -> &Vec<String> {
        &self.0
    }
}

impl ::core::ops::DerefMut for Tsonumany {
    fn deref_mut(&mut self) -> &mut Vec<String> {
        &mut self.0
    }
}

impl ::core::convert::From<Vec<String>> for Tsonumany {
    fn from(value: Vec<String>) -> Self {
        Self(value)
    }
}

impl ::core::convert::From<Tsonumany> for Vec<String> {
    fn from(value: Tsonumany) -> Self {
        value.0
    }
}

#[asn(transparent)]

#[derive(Default, Debug, Clone, PartialEq, Hash)]
pub struct Tsonumr0to3(#[asn(sequence_of(size(0..3), numericstring(size(2))))] pub Vec<String>);

impl Tsonumr0to3 {
}

impl Tsonumr0to3 {
    pub const fn new(value: Vec<String>) -> Self {
        Self(value)
    }
}

impl ::core::ops::Deref for Tsonumr0to3 {
    type Target = Vec<String>;

    fn deref(&self) -> &Vec<String> {
        &self.0
    }
}

impl ::core::ops::DerefMut for Tsonumr0to3 {
    fn deref_mut(&mut self) -> &mut Vec<String> {
        &mut self.0
    }
}

impl ::core::convert::From<Vec<String>> for Tsonumr0to3 {
    fn from(value: Vec<String>) -> Self {
        Self(value)
    }
}

impl ::core::convert::From<Tsonumr0to3> for Vec<String> {
    fn from(value: Tsonumr0to3) -> Self {
        value.0
    }
}

#[asn(transparent)]

#[derive(Default, Debug, Clone, PartialEq, Hash)]
pub struct Tsonumf2(#[asn(sequence_of(size(2), numericstring(size(2))))] pub Vec<String>);

impl Tsonumf2 {
}

impl Tsonumf2 {
    pub const fn new(value: Vec<String>) -> Self {
        Self(value)
    }
}

impl ::core::ops::Deref for Tsonumf2 {
    type Target = Vec<String>;

    fn deref(&self) -> &Vec<String> {
        &self.0
    }
}

impl ::core::ops::DerefMut for Tsonumf2 {
    fn deref_mut(&mut self) -> &mut Vec<String> {
        &mut self.0
    }
}

impl ::core::convert::From<Vec<String>> for Tsonumf2 {
    fn from(value: Vec<String>) -> Self {
        Self(value)
    }
}

impl ::core::convert::From<Tsonumf2> for Vec<String> {
    fn from(value: Tsonumf2) -> Self {
        value.0
    }
}

#[asn(transparent)]

#[derive(Default, Debug, Clone, PartialEq, Hash)]
pub struct Tsonumr1to2x(#[asn(sequence_of(size(1..2,...), numericstring(size(2))))] pub Vec<String>);

impl Tsonumr1to2x {
}

impl Tsonumr1to2x {
    pub const fn new(value: Vec<String>) -> Self {
        Self(value)
    }
}

impl ::core::ops::Deref for Tsonumr1to2x {
    type Target = Vec<String>;

    fn deref(&self) -> &Vec<String> {
        &self.0
    }
}

impl ::core::ops::DerefMut for Tsonumr1to2x {
    fn deref_mut(&mut self) -> &mut Vec<String> {
        &mut self.0
    }
}

impl ::core::convert::From<Vec<String>> for Tsonumr1to2x {
    fn from(value: Vec<String>) -> Self {
        Self(value)
    }
}

impl ::core::convert::From<Tsonumr1to2x> for Vec<String> {
    fn from(value: Tsonumr1to2x) -> Self {
        value.0
    }
}

#[asn(transparent)]

#[derive(Default, Debug, Clone, PartialEq, Hash)]
pub struct Tsoseqany(#[asn(sequence_of(complex(Tinner, tag(UNIVERSAL(16)))))] pub Vec<Tinner>);

impl Tsoseqany {
}

impl Tsoseqany {
    pub const fn new(value: Vec<Tinner>) -> Self {
        Self(value)
    }
}

impl ::core::ops::Deref for Tsoseqany {
    type Target = Vec<Tinner>;

    fn deref(&self) -> &Vec<Tinner> {
        &self.0
    }
}

impl ::core::ops::DerefMut for Tsoseqany {
    fn deref_mut(&mut self) -> &mut Vec<Tinner> {
        &mut self.0
    }
}

impl ::core::convert::From<Vec<Tinner>> for Tsoseqany {
    fn from(value: Vec<Tinner>) -> Self {
        Self(value)
    }
}

impl ::core::convert::From<Tsoseqany> for Vec<Tinner> {
    fn from(value: Tsoseqany) -> Self {
        value.0
    }
}

#[asn(transparent)]

#[derive(Default, Debug, Clone, PartialEq, Hash)]
pub struct Tsoseqr0to3(#[asn(sequence_of(size(0..3), complex(Tinner, tag(UNIVERSAL(16)))))] pub Vec<Tinner>);

impl Tsoseqr0to3 {
}

impl Tsoseqr0to3 {
    pub const fn new(value: Vec<Tinner>) -> Self {
        Self(value)
    }
}

impl ::core::ops::Deref for Tsoseqr0to3 {
    type Target = Vec<Tinner>;

    fn deref(&self) -> &Vec<Tinner> {
        &self.0
    }
}

impl ::core::ops::DerefMut for Tsoseqr0to3 {
    fn deref_mut(&mut self) -> &mut Vec<Tinner> {
        &mut self.0
    }
}

impl ::core::convert::From<Vec<Tinner>> for Tsoseqr0to3 {
    fn from(value: Vec<Tinner>) -> Self {
        Self(value)
    }
}

impl ::core::convert::From<Tsoseqr0to3> for Vec<Tinner> {
    fn from(value: Tsoseqr0to3) -> Self {
        value.0
    }
}

#[asn(transparent)]

#[derive(Default, Debug, Clone, PartialEq, Hash)]
pub struct Tsoseqf2(#[asn(sequence_of(size(2), complex(Tinner, tag(UNIVERSAL(16)))))] pub Vec<Tinner>);

impl Tsoseqf2 {
}

impl Tsoseqf2 {
    pub const fn new(value: Vec<Tinner>) -> Self {
        Self(value)
    }
}

impl ::core::ops::Deref for Tsoseqf2 {
    type Target = Vec<Tinner>;

    fn deref(&self) -> &Vec<Tinner> {
        &self.0
    }
}

impl ::core::ops::DerefMut for Tsoseqf2 {
    fn deref_mut(&mut self) -> &mut Vec<Tinner> {
        &mut self.0
    }
}

impl ::core::convert::From<Vec<Tinner>> for Tsoseqf2 {
    fn from(value: Vec<Tinner>) -> Self {
        Self(value)
    }
}

impl ::core::convert::From<Tsoseqf2> for Vec<Tinner> {
    fn from(value: Tsoseqf2) -> Self {
        value.0
    }
}

#[asn(transparent)]

#[derive(Default, Debug, Clone, PartialEq, Hash)]
pub struct Tsoseqr1to2x(#[asn(sequence_of(size(1..2,...), complex(Tinner, tag(UNIVERSAL(16)))))] pub Vec<Tinner>);

impl Tsoseqr1to2x {
}

impl Tsoseqr1to2x {
    pub const fn new(value: Vec<Tinner>) -> Self {
        Self(value)
    }
}

impl ::core::ops::Deref for Tsoseqr1to2x {
    type Target = Vec<Tinner>;

    fn deref(&self) -> &Vec<Tinner> {
        &self.0
    }
}

impl ::core::ops::DerefMut for Tsoseqr1to2x {
    fn deref_mut(&mut self) -> &mut Vec<Tinner> {
        &mut self.0
    }
}

impl ::core::convert::From<Vec<Tinner>> for Tsoseqr1to2x {
    fn from(value: Vec<Tinner>) -> Self {
        Self(value)
    }
}

impl ::core::convert::From<Tsoseqr1to2x> for Vec<Tinner> {
    fn from(value: Tsoseqr1to2x) -> Self {
        value.0
    }
}

#[asn(choice)]

#[derive(Debug, Clone, PartialEq, Hash)]
pub enum Tch1 {
    #[asn(integer(0..7))] A0(u8),
}

impl Tch1 {
    pub fn variants() -> [Self; 1] {
        [
        Tch1::A0(Default::default()),
        ]
    }

    pub fn value_index(&self) -> usize {
        match self {
            Tch1::A0(_) => 0,
        }
    }

    pub const fn a0_min() -> u8 {
        0
    }

    pub const fn a0_max() -> u8 {
        7
    }
}

impl Default for Tch1 {
    fn default() -> Tch1 {
        Tch1::A0(Default::default())
    }
}

#[asn(choice, extensible_after(A0))]

#[derive(Debug, Clone, PartialEq, Hash)]
pub enum Tch1x0 {
    #[asn(integer(0..7))] A0(u8),
}

impl Tch1x0 {
    pub fn variants() -> [Self; 1] {
        [
        Tch1x0::A0(Default::default()),
        ]
    }

    pub fn value_index(&self) -> usize {
        match self {
            Tch1x0::A0(_) => 0,
        }
    }

    pub const fn a0_min() -> u8 {
        0
    }

    pub const fn a0_max() -> u8 {
        7
    }
}

impl Default for Tch1x0 {
    fn default() -> Tch1x0 {
        Tch1x0::A0(Default::default())
    }
}

#[asn(choice, extensible_after(A0))]

#[derive(Debug, Clone, PartialEq, Hash)]
pub enum Tch1x1 {
    #[asn(integer(0..7))] A0(u8),
    #[asn(integer(0..255))] X0(u8),
}

impl Tch1x1 {
    pub fn variants() -> [Self; 2] {
        [
        Tch1x1::A0(Default::default()),
        Tch1x1::X0(Default::default()),
        ]
    }

    pub fn value_index(&self) -> usize {
        match self {
            Tch1x1::A0(_) => 0,
            Tch1x1::X0(_) => 1,
        }
    }

    pub const fn a0_min() -> u8 {
        0
    }

    pub const fn a0_max() -> u8 {
        7
    }

    pub const fn x0_min() -> u8 {
        0
    }

    pub const fn x0_max() -> u8 {
        255
    }
}

impl Default for Tch1x1 {
    fn default() -> Tch1x1 {
        Tch1x1::A0(Default::default())
    }
}

#[asn(choice, extensible_after(A0))]

#[derive(Debug, Clone, PartialEq, Hash)]
pub enum Tch1x2 {
    #[asn(integer(0..7))] A0(u8),
    #[asn(integer(0..255))] X0(u8),
    #[asn(octet_string(size(0..3)))] X1(Vec<u8>),
}

impl Tch1x2 {
    pub fn variants() -> [Self; 3] {
        [
        Tch1x2::A0(Default::default()),
        Tch1x2::X0(Default::default()),
        Tch1x2::X1(Default::default()),
        ]
    }

    pub fn value_index(&self) -> usize {
        match self {
            Tch1x2::A0(_) => 0,
            Tch1x2::X0(_) => 1,
            Tch1x2::X1(_) => 2,
        }
    }

    pub const fn a0_min() -> u8 {
        0
    }

    pub const fn a0_max() -> u8 {
        7
    }

    pub const fn x0_min() -> u8 {
        0
    }

    pub const fn x0_max() -> u8 {
        255
    }
}

impl Default for Tch1x2 {
    fn default() -> Tch1x2 {
        Tch1x2::A0(Default::default())
    }
}

#[asn(choice)]

#[derive(Debug, Clone, PartialEq, Hash)]
pub enum Tch2 {
    #[asn(integer(0..7))] A0(u8),
    #[asn(boolean)] A1(bool),
}

impl Tch2 {
    pub fn variants() -> [Self; 2] {
        [
        Tch2::A0(Default::default()),
        Tch2::A1(Default::default()),
        ]
    }

    pub fn value_index(&self) -> usize {
        match self {
            Tch2::A0(_) => 0,
            Tch2::A1(_) => 1,
        }
    }

    pub const fn a0_min() -> u8 {
        0
    }

    pub const fn a0_max() -> u8 {
        7
    }
}

impl Default for Tch2 {
    fn default() -> Tch2 {
        Tch2::A0(Default::default())
    }
}

#[asn(choice, extensible_after(A1))]

#[derive(Debug, Clone, PartialEq, Hash)]
pub enum Tch2x0 {
    #[asn(integer(0..7))] A0(u8),
    #[asn(boolean)] A1(bool),
}

impl Tch2x0 {
    pub fn variants() -> [Self; 2] {
        [
        Tch2x0::A0(Default::default()),
        Tch2x0::A1(Default::default()),
        ]
    }

    pub fn value_index(&self) -> usize {
        match self {
            Tch2x0::A0(_) => 0,
            Tch2x0::A1(_) => 1,
        }
    }

    pub const fn a0_min() -> u8 {
        0
    }

    pub const fn a0_max() -> u8 {
        7
    }
}

impl Default for Tch2x0 {
    fn default() -> Tch2x0 {
        Tch2x0::A0(Default::default())
    }
}

#[asn(choice, extensible_after(A1))]

#[derive(Debug, Clone, PartialEq, Hash)]
pub enum Tch2x1 {
    #[asn(integer(0..7))] A0(u8),
    #[asn(boolean)] A1(bool),
    #[asn(integer(0..255))] X0(u8),
}

impl Tch2x1 {
    pub fn variants() -> [Self; 3] {
        [
        Tch2x1::A0(Default::default()),
        Tch2x1::A1(Default::default()),
        Tch2x1::X0(Default::default()),
        ]
    }

    pub fn value_index(&self) -> usize {
        match self {
            Tch2x1::A0(_) => 0,
            Tch2x1::A1(_) => 1,
            Tch2x1::X0(_) => 2,
        }
    }

    pub const fn a0_min() -> u8 {
        0
    }

    pub const fn a0_max() -> u8 {
        7
    }

    pub const fn x0_min() -> u8 {
        0
    }

    pub const fn x0_max() -> u8 {
        255
    }
}

impl Default for Tch2x1 {
    fn default() -> Tch2x1 {
        Tch2x1::A0(Default::default())
    }
}

#[asn(choice, extensible_after(A1))]

#[derive(Debug, Clone, PartialEq, Hash)]
pub enum Tch2x2 {
    #[asn(integer(0..7))] A0(u8),
    #[asn(boolean)] A1(bool),
    #[asn(integer(0..255))] X0(u8),
    #[asn(octet_string(size(0..3)))] X1(Vec<u8>),
}

impl Tch2x2 {
    pub fn variants() -> [Self; 4] {
        [
        Tch2x2::A0(Default::default()),
        Tch2x2::A1(Default::default()),
        Tch2x2::X0(Default::default()),
        Tch2x2::X1(Default::default()),
        ]
    }

    pub fn value_index(&self) -> usize {
        match self {
            Tch2x2::A0(_) => 0,
            Tch2x2::A1(_) => 1,
            Tch2x2::X0(_) => 2,
            Tch2x2::X1(_) => 3,
        }
    }

    pub const fn a0_min() -> u8 {
        0
    }

    pub const fn a0_max() -> u8 {
        7
    }

    pub const fn x0_min() -> u8 {
        0
    }

    pub const fn x0_max() -> u8 {
        255
    }
}

impl Default for Tch2x2 {
    fn default() -> Tch2x2 {
        Tch2x2::A0(Default::default())
    }
}

#[asn(choice)]

#[derive(Debug, Clone, PartialEq, Hash)]
pub enum Tch3 {
    #[asn(integer(0..7))] A0(u8),
    #[asn(boolean)] A1(bool),
    #[asn(integer(0..7))] A2(u8),
}

impl Tch3 {
    pub fn variants() -> [Self; 3] {
        [
        Tch3::A0(Default::default()),
        Tch3::A1(Default::default()),
        Tch3::A2(Default::default()),
        ]
    }

    pub fn value_index(&self) -> usize {
        match self {
            Tch3::A0(_) => 0,
            Tch3::A1(_) => 1,
            Tch3::A2(_) => 2,
        }
    }

    pub const fn a0_min() -> u8 {
        0
    }

    pub const fn a0_max() -> u8 {
        7
    }

    pub const fn a2_min() -> u8 {
        0
    }

    pub const fn a2_max() -> u8 {
        7
    }
}

impl Default for Tch3 {
    fn default() -> Tch3 {
        Tch3::A0(Default::default())
    }
}

#[asn(choice, extensible_after(A2))]

#[derive(Debug, Clone, PartialEq, Hash)]
pub enum Tch3x0 {
    #[asn(integer(0..7))] A0(u8),
    #[asn(boolean)] A1(bool),
    #[asn(integer(0..7))] A2(u8),
}

impl Tch3x0 {
    pub fn variants() -> [Self; 3] {
        [
        Tch3x0::A0(Default::default()),
        Tch3x0::A1(Default::default()),
        Tch3x0::A2(Default::default()),
        ]
    }

    pub fn value_index(&self) -> usize {
        match self {
            Tch3x0::A0(_) => 0,
            Tch3x0::A1(_) => 1,
            Tch3x0::A2(_) => 2,
        }
    }

    pub const fn a0_min() -> u8 {
        0
    }

    pub const fn a0_max() -> u8 {
        7
    }

    pub const fn a2_min() -> u8 {
        0
    }

    pub const fn a2_max() -> u8 {
        7
    }
}

impl Default for Tch3x0 {
    fn default() -> Tch3x0 {
        Tch3x0::A0(Default::default())
    }
}

#[asn(choice, extensible_after(A2))]

#[derive(Debug, Clone, PartialEq, Hash)]
pub enum Tch3x1 {
    #[asn(integer(0..7))] A0(u8),
    #[asn(boolean)] A1(bool),
    #[asn(integer(0..7))] A2(u8),
    #[asn(integer(0..255))] X0(u8),
}

impl Tch3x1 {
    pub fn variants() -> [Self; 4] {
        [
        Tch3x1::A0(Default::default()),
        Tch3x1::A1(Default::default()),
        Tch3x1::A2(Default::default()),
        Tch3x1::X0(Default::default()),
        ]
    }

    pub fn value_index(&self) -> usize {
        match self {
            Tch3x1::A0(_) => 0,
            Tch3x1::A1(_) => 1,
            Tch3x1::A2(_) => 2,
            Tch3x1::X0(_) => 3,
        }
    }

    pub const fn a0_min() -> u8 {
        0
    }

    pub const fn a0_max() -> u8 {
        7
    }

    pub const fn a2_min() -> u8 {
        0
    }

    pub const fn a2_max() -> u8 {
        7
    }

    pub const fn x0_min() -> u8 {
        0
    }

    pub const fn x0_max() -> u8 {
        255
    }
}

impl Default for Tch3x1 {
    fn default() -> Tch3x1 {
        Tch3x1::A0(Default::default())
    }
}

#[asn(choice, extensible_after(A2))]

#[derive(Debug, Clone, PartialEq, Hash)]
pub enum Tch3x2 {
    #[asn(integer(0..7))] A0(u8),
    #[asn(boolean)] A1(bool),
    #[asn(integer(0..7))] A2(u8),
    #[asn(integer(0..255))] X0(u8),
    #[asn(octet_string(size(0..3)))] X1(Vec<u8>),
}

impl Tch3x2 {
    pub fn variants() -> [Self; 5] {
        [
        Tch3x2::A0(Default::default()),
        Tch3x2::A1(Default::default()),
        Tch3x2::A2(Default::default()),
        Tch3x2::X0(Default::default()),
        Tch3x2::X1(Default::default()),
        ]
    }

    pub fn value_index(&self) -> usize {
        match self {
            Tch3x2::A0(_) => 0,
            Tch3x2::A1(_) => 1,
            Tch3x2::A2(_) => 2,
            Tch3x2::X0(_) => 3,
            Tch3x2::X1(_) => 4,
        }
    }

    pub const fn a0_min() -> u8 {
        0
    }

    pub const fn a0_max() -> u8 {
        7
    }

    pub const fn a2_min() -> u8 {
        0
    }

    pub const fn a2_max() -> u8 {
        7
    }

    pub const fn x0_min() -> u8 {
        0
    }

    pub const fn x0_max() -> u8 {
        255
    }
}

impl Default for Tch3x2 {
    fn default() -> Tch3x2 {
        Tch3x2::A0(Default::default())
    }
}

#[asn(choice)]

#[derive(Debug, Clone, PartialEq, Hash)]
pub enum Tch4 {
    #[asn(integer(0..7))] A0(u8),
    #[asn(boolean)] A1(bool),
    #[asn(integer(0..7))] A2(u8),
    #[asn(boolean)] A3(bool),
}

impl Tch4 {
    pub fn variants() -> [Self; 4] {
        [
        Tch4::A0(Default::default()),
        Tch4::A1(Default::default()),
        Tch4::A2(Default::default()),
        Tch4::A3(Default::default()),
        ]
    }

    pub fn value_index(&self) -> usize {
        match self {
            Tch4::A0(_) => 0,
            Tch4::A1(_) => 1,
            Tch4::A2(_) => 2,
            Tch4::A3(_) => 3,
        }
    }

    pub const fn a0_min() -> u8 {
        0
    }

    pub const fn a0_max() -> u8 {
        7
    }

    pub const fn a2_min() -> u8 {
        0
    }

    pub const fn a2_max() -> u8 {
        7
    }
}

impl Default for Tch4 {
    fn default() -> Tch4 {
        Tch4::A0(Default::default())
    }
}

#[asn(choice, extensible_after(A3))]

#[derive(Debug, Clone, PartialEq, Hash)]
pub enum Tch4x0 {
    #[asn(integer(0..7))] A0(u8),
    #[asn(boolean)] A1(bool),
    #[asn(integer(0..7))] A2(u8),
    #[asn(boolean)] A3(bool),
}

impl Tch4x0 {
    pub fn variants() -> [Self; 4] {
        [
        Tch4x0::A0(Default::default()),
        Tch4x0::A1(Default::default()),
        Tch4x0::A2(Default::default()),
        Tch4x0::A3(Default::default()),
        ]
    }

    pub fn value_index(&self) -> usize {
        match self {
            Tch4x0::A0(_) => 0,
            Tch4x0::A1(_) => 1,
            Tch4x0::A2(_) => 2,
            Tch4x0::A3(_) => 3,
        }
    }

    pub const fn a0_min() -> u8 {
        0
    }

    pub const fn a0_max() -> u8 {
        7
    }

    pub const fn a2_min() -> u8 {
        0
    }

    pub const fn a2_max() -> u8 {
        7
    }
}

impl Default for Tch4x0 {
    fn default() -> Tch4x0 {
        Tch4x0::A0(Default::default())
    }
}

#[asn(choice, extensible_after(A3))]

#[derive(Debug, Clone, PartialEq, Hash)]
pub enum Tch4x1 {
    #[asn(integer(0..7))] A0(u8),
    #[asn(boolean)] A1(bool),
    #[asn(integer(0..7))] A2(u8),
    #[asn(boolean)] A3(bool),
    #[asn(integer(0..255))] X0(u8),
}

impl Tch4x1 {
    pub fn variants() -> [Self; 5] {
        [
        Tch4x1::A0(Default::default()),
        Tch4x1::A1(Default::default()),
        Tch4x1::A2(Default::default()),
        Tch4x1::A3(Default::default()),
        Tch4x1::X0(Default::default()),
        ]
    }

    pub fn value_index(&self) -> usize {
        match self {
            Tch4x1::A0(_) => 0,
            Tch4x1::A1(_) => 1,
            Tch4x1::A2(_) => 2,
            Tch4x1::A3(_) => 3,
            Tch4x1::X0(_) => 4,
        }
    }

    pub const fn a0_min() -> u8 {
        0
    }

    pub const fn a0_max() -> u8 {
        7
    }

    pub const fn a2_min() -> u8 {
        0
    }

    pub const fn a2_max() -> u8 {
        7
    }

    pub const fn x0_min() -> u8 {
        0
    }

    pub const fn x0_max() -> u8 {
        255
    }
}

impl Default for Tch4x1 {
    fn default() -> Tch4x1 {
        Tch4x1::A0(Default::default())
    }
}

#[asn(choice, extensible_after(A3))]

#[derive(Debug, Clone, PartialEq, Hash)]
pub enum Tch4x2 {
    #[asn(integer(0..7))] A0(u8),
    #[asn(boolean)] A1(bool),
    #[asn(integer(0..7))] A2(u8),
    #[asn(boolean)] A3(bool),
    #[asn(integer(0..255))] X0(u8),
    #[asn(octet_string(size(0..3)))] X1(Vec<u8>),
}

impl Tch4x2 {
    pub fn variants() -> [Self; 6] {
        [
        Tch4x2::A0(Default::default()),
        Tch4x2::A1(Default::default()),
        Tch4x2::A2(Default::default()),
        Tch4x2::A3(Default::default()),
        Tch4x2::X0(Default::default()),
        Tch4x2::X1(Default::default()),
        ]
    }

    pub fn value_index(&self) -> usize {
        match self {
            Tch4x2::A0(_) => 0,
            Tch4x2::A1(_) => 1,
            Tch4x2::A2(_) => 2,
            Tch4x2::A3(_) => 3,
            Tch4x2::X0(_) => 4,
            Tch4x2::X1(_) => 5,
        }
    }

    pub const fn a0_min() -> u8 {
        0
    }

    pub const fn a0_max() -> u8 {
        7
    }

    pub const fn a2_min() -> u8 {
        0
    }

    pub const fn a2_max() -> u8 {
        7
    }

    pub const fn x0_min() -> u8 {
        0
    }

    pub const fn x0_max() -> u8 {
        255
    }
}

impl Default for Tch4x2 {
    fn default() -> Tch4x2 {
        Tch4x2::A0(Default::default())
    }
}

#[asn(choice)]

#[derive(Debug, Clone, PartialEq, Hash)]
pub enum Tch5 {
    #[asn(integer(0..7))] A0(u8),
    #[asn(boolean)] A1(bool),
    #[asn(integer(0..7))] A2(u8),
    #[asn(boolean)] A3(bool),
    #[asn(integer(0..7))] A4(u8),
}

impl Tch5 {
    pub fn variants() -> [Self; 5] {
        [
        Tch5::A0(Default::default()),
        Tch5::A1(Default::default()),
        Tch5::A2(Default::default()),
        Tch5::A3(Default::default()),
        Tch5::A4(Default::default()),
        ]
    }

    pub fn value_index(&self) -> usize {
        match self {
            Tch5::A0(_) => 0,
            Tch5::A1(_) => 1,
            Tch5::A2(_) => 2,
            Tch5::A3(_) => 3,
            Tch5::A4(_) => 4,
        }
    }

    pub const fn a0_min() -> u8 {
        0
    }

    pub const fn a0_max() -> u8 {
        7
    }

    pub const fn a2_min() -> u8 {
        0
    }

    pub const fn a2_max() -> u8 {
        7
    }

    pub const fn a4_min() -> u8 {
        0
    }

    pub const fn a4_max() -> u8 {
        7
    }
}

impl Default for Tch5 {
    fn default() -> Tch5 {
        Tch5::A0(Default::default())
    }
}

#[asn(choice, extensible_after(A4))]

#[derive(Debug, Clone, PartialEq, Hash)]
pub enum Tch5x0 {
    #[asn(integer(0..7))] A0(u8),
    #[asn(boolean)] A1(bool),
    #[asn(integer(0..7))] A2(u8),
    #[asn(boolean)] A3(bool),
    #[asn(integer(0..7))] A4(u8),
}

impl Tch5x0 {
    pub fn variants() -> [Self; 5] {
        [
        Tch5x0::A0(Default::default()),
        Tch5x0::A1(Default::default()),
        Tch5x0::A2(Default::default()),
        Tch5x0::A3(Default::default()),
        Tch5x0::A4(Default::default()),
        ]
    }

    pub fn value_index(&self) -> usize {
        match self {
            Tch5x0::A0(_) => 0,
            Tch5x0::A1(_) => 1,
            Tch5x0::A2(_) => 2,
            Tch5x0::A3(_) => 3,
            Tch5x0::A4(_) => 4,
        }
    }

    pub const fn a0_min() -> u8 {
        0
    }

    pub const fn a0_max() -> u8 {
        7
    }

    pub const fn a2_min() -> u8 {
        0
    }

    pub const fn a2_max() -> u8 {
        7
    }

    pub const fn a4_min() -> u8 {
        0
    }

    pub const fn a4_max() -> u8 {
        7
    }
}

impl Default for Tch5x0 {
    fn default() -> Tch5x0 {
        Tch5x0::A0(Default::default())
    }
}

#[asn(choice, extensible_after(A4))]

#[derive(Debug, Clone, PartialEq, Hash)]
pub enum Tch5x1 {
    #[asn(integer(0..7))] A0(u8),
    #[asn(boolean)] A1(bool),
    #[asn(integer(0..7))] A2(u8),
    #[asn(boolean)] A3(bool),
    #[asn(integer(0..7))] A4(u8),
    #[asn(integer(0..255))] X0(u8),
}

impl Tch5x1 {
    pub fn variants() -> [Self; 6] {
        [
        Tch5x1::A0(Default::default()),
        Tch5x1::A1(Default::default()),
        Tch5x1::A2(Default::default()),
        Tch5x1::A3(Default::default()),
        Tch5x1::A4(Default::default()),
        Tch5x1::X0(Default::default()),
        ]
    }

    pub fn value_index(&self) -> usize {
        match self {
            Tch5x1::A0(_) => 0,
            Tch5x1::A1(_) => 1,
            Tch5x1::A2(_) => 2,
            Tch5x1::A3(_) => 3,
            Tch5x1::A4(_) => 4,
            Tch5x1::X0(_) => 5,
        }
    }

    pub const fn a0_min() -> u8 {
        0
    }

    pub const fn a0_max() -> u8 {
        7
    }

    pub const fn a2_min() -> u8 {
        0
    }

    pub const fn a2_max() -> u8 {
        7
    }

    pub const fn a4_min() -> u8 {
        0
    }

    pub const fn a4_max() -> u8 {
        7
    }

    pub const fn x0_min() -> u8 {
        0
    }

    pub const fn x0_max() -> u8 {
        255
    }
}

impl Default for Tch5x1 {
    fn default() -> Tch5x1 {
        Tch5x1::A0(Default::default())
    }
}

#[asn(choice, extensible_after(A4))]

#[derive(Debug, Clone, PartialEq, Hash)]
pub enum Tch5x2 {
    #[asn(integer(0..7))] A0(u8),
    #[asn(boolean)] A1(bool),
    #[asn(integer(0..7))] A2(u8),
    #[asn(boolean)] A3(bool),
    #[asn(integer(0..7))] A4(u8),
    #[asn(integer(0..255))] X0(u8),
    #[asn(octet_string(size(0..3)))] X1(Vec<u8>),
}

impl Tch5x2 {
    pub fn variants() -> [Self; 7] {
        [
        Tch5x2::A0(Default::default()),
        Tch5x2::A1(Default::default()),
        Tch5x2::A2(Default::default()),
        Tch5x2::A3(Default::default()),
        Tch5x2::A4(Default::default()),
        Tch5x2::X0(Default::default()),
        Tch5x2::X1(Default::default()),
        ]
    }

    pub fn value_index(&self) -> usize {
        match self {
            Tch5x2::A0(_) => 0,
            Tch5x2::A1(_) => 1,
            Tch5x2::A2(_) => 2,
            Tch5x2::A3(_) => 3,
            Tch5x2::A4(_) => 4,
            Tch5x2::X0(_) => 5,
            Tch5x2::X1(_) => 6,
        }
    }

    pub const fn a0_min() -> u8 {
        0
    }

    pub const fn a0_max() -> u8 {
        7
    }

    pub const fn a2_min() -> u8 {
        0
    }

    pub const fn a2_max() -> u8 {
        7
    }

    pub const fn a4_min() -> u8 {
        0
    }

    pub const fn a4_max() -> u8 {
        7
    }

    pub const fn x0_min() -> u8 {
        0
    }

    pub const fn x0_max() -> u8 {
        255
    }
}

impl Default for Tch5x2 {
    fn default() -> Tch5x2 {
        Tch5x2::A0(Default::default())
    }
}

#[asn(choice)]

#[derive(Debug, Clone, PartialEq, Hash)]
pub enum Tch8 {
    #[asn(integer(0..7))] A0(u8),
    #[asn(boolean)] A1(bool),
    #[asn(integer(0..7))] A2(u8),
    #[asn(boolean)] A3(bool),
    #[asn(integer(0..7))] A4(u8),
    #[asn(boolean)] A5(bool),
    #[asn(integer(0..7))] A6(u8),
    #[asn(boolean)] A7(bool),
}

impl Tch8 {
    pub fn variants() -> [Self; 8] {
        [
        Tch8::A0(Default::default()),
        Tch8::A1(Default::default()),
        Tch8::A2(Default::default()),
        Tch8::A3(Default::default()),
        Tch8::A4(Default::default()),
        Tch8::A5(Default::default()),
        Tch8::A6(Default::default()),
        Tch8::A7(Default::default()),
        ]
    }

    pub fn value_index(&self) -> usize {
        match self {
            Tch8::A0(_) => 0,
            Tch8::A1(_) => 1,
            Tch8::A2(_) => 2,
            Tch8::A3(_) => 3,
            Tch8::A4(_) => 4,
            Tch8::A5(_) => 5,
            Tch8::A6(_) => 6,
            Tch8::A7(_) => 7,
        }
    }

    pub const fn a0_min() -> u8 {
        0
    }

    pub const fn a0_max() -> u8 {
        7
    }

    pub const fn a2_min() -> u8 {
        0
    }

    pub const fn a2_max() -> u8 {
        7
    }

    pub const fn a4_min() -> u8 {
        0
    }

    pub const fn a4_max() -> u8 {
        7
    }

    pub const fn a6_min() -> u8 {
        0
    }

    pub const fn a6_max() -> u8 {
        7
    }
}

impl Default for Tch8 {
    fn default() -> Tch8 {
        Tch8::A0(Default::default())
    }
}

#[asn(choice, extensible_after(A7))]

#[derive(Debug, Clone, PartialEq, Hash)]
pub enum Tch8x0 {
    #[asn(integer(0..7))] A0(u8),
    #[asn(boolean)] A1(bool),
    #[asn(integer(0..7))] A2(u8),
    #[asn(boolean)] A3(bool),
    #[asn(integer(0..7))] A4(u8),
    #[asn(boolean)] A5(bool),
    #[asn(integer(0..7))] A6(u8),
    #[asn(boolean)] A7(bool),
}

impl Tch8x0 {
    pub fn variants() -> [Self; 8] {
        [
        Tch8x0::A0(Default::default()),
        Tch8x0::A1(Default::default()),
        Tch8x0::A2(Default::default()),
        Tch8x0::A3(Default::default()),
        Tch8x0::A4(Default::default()),
        Tch8x0::A5(Default::default()),
        Tch8x0::A6(Default::default()),
        Tch8x0::A7(Default::default()),
        ]
    }

    pub fn value_index(&self) -> usize {
        match self {
            Tch8x0::A0(_) => 0,
            Tch8x0::A1(_) => 1,
            Tch8x0::A2(_) => 2,
            Tch8x0::A3(_) => 3,
            Tch8x0::A4(_) => 4,
            Tch8x0::A5(_) => 5,
            Tch8x0::A6(_) => 6,
            Tch8x0::A7(_) => 7,
        }
    }

    pub const fn a0_min() -> u8 {
        0
    }

    pub const fn a0_max() -> u8 {
        7
    }

    pub const fn a2_min() -> u8 {
        0
    }

    pub const fn a2_max() -> u8 {
        7
    }

    pub const fn a4_min() -> u8 {
        0
    }

    pub const fn a4_max() -> u8 {
        7
    }

    pub const fn a6_min() -> u8 {
        0
    }

    pub const fn a6_max() -> u8 {
        7
    }
}

impl Default for Tch8x0 {
    fn default() -> Tch8x0 {
        Tch8x0::A0(Default::default())
    }
}

#[asn(choice, extensible_after(A7))]

#[derive(Debug, Clone, PartialEq, Hash)]
pub enum Tch8x1 {
    #[asn(integer(0..7))] A0(u8),
    #[asn(boolean)] A1(bool),
    #[asn(integer(0..7))] A2(u8),
    #[asn(boolean)] A3(bool),
    #[asn(integer(0..7))] A4(u8),
    #[asn(boolean)] A5(bool),
    #[asn(integer(0..7))] A6(u8),
    #[asn(boolean)] A7(bool),
    #[asn(integer(0..255))] X0(u8),
}

impl Tch8x1 {
    pub fn variants() -> [Self; 9] {
        [
        Tch8x1::A0(Default::default()),
        Tch8x1::A1(Default::default()),
        Tch8x1::A2(Default::default()),
        Tch8x1::A3(Default::default()),
        Tch8x1::A4(Default::default()),
        Tch8x1::A5(Default::default()),
        Tch8x1::A6(Default::default()),
        Tch8x1::A7(Default::default()),
        Tch8x1::X0(Default::default()),
        ]
    }

    pub fn value_index(&self) -> usize {
        match self {
            Tch8x1::A0(_) => 0,
            Tch8x1::A1(_) => 1,
            Tch8x1::A2(_) => 2,
            Tch8x1::A3(_) => 3,
            Tch8x1::A4(_) => 4,
            Tch8x1::A5(_) => 5,
            Tch8x1::A6(_) => 6,
            Tch8x1::A7(_) => 7,
            Tch8x1::X0(_) => 8,
        }
    }

    pub const fn a0_min() -> u8 {
        0
    }

    pub const fn a0_max() -> u8 {
        7
    }

    pub const fn a2_min() -> u8 {
        0
    }

    pub const fn a2_max() -> u8 {
        7
    }

    pub const fn a4_min() -> u8 {
        0
    }

    pub const fn a4_max() -> u8 {
        7
    }

    pub const fn a6_min() -> u8 {
        0
    }

    pub const fn a6_max() -> u8 {
        7
    }

    pub const fn x0_min() -> u8 {
        0
    }

    pub const fn x0_max() -> u8 {
        255
    }
}

impl Default for Tch8x1 {
    fn default() -> Tch8x1 {
        Tch8x1::A0(Default::default())
    }
}

#[asn(choice, extensible_after(A7))]

#[derive(Debug, Clone, PartialEq, Hash)]
pub enum Tch8x2 {
    #[asn(integer(0..7))] A0(u8),
    #[asn(boolean)] A1(bool),
    #[asn(integer(0..7))] A2(u8),
    #[asn(boolean)] A3(bool),
    #[asn(integer(0..7))] A4(u8),
    #[asn(boolean)] A5(bool),
    #[asn(integer(0..7))] A6(u8),
    #[asn(boolean)] A7(bool),
    #[asn(integer(0..255))] X0(u8),
    #[asn(octet_string(size(0..3)))] X1(Vec<u8>),
}

impl Tch8x2 {
    pub fn variants() -> [Self; 10] {
        [
        Tch8x2::A0(Default::default()),
        Tch8x2::A1(Default::default()),
        Tch8x2::A2(Default::default()),
        Tch8x2::A3(Default::default()),
        Tch8x2::A4(Default::default()),
        Tch8x2::A5(Default::default()),
        Tch8x2::A6(Default::default()),
        Tch8x2::A7(Default::default()),
        Tch8x2::X0(Default::default()),
        Tch8x2::X1(Default::default()),
        ]
    }

    pub fn value_index(&self) -> usize {
        match self {
            Tch8x2::A0(_) => 0,
            Tch8x2::A1(_) => 1,
            Tch8x2::A2(_) => 2,
            Tch8x2::A3(_) => 3,
            Tch8x2::A4(_) => 4,
            Tch8x2::A5(_) => 5,
            Tch8x2::A6(_) => 6,
            Tch8x2::A7(_) => 7,
            Tch8x2::X0(_) => 8,
            Tch8x2::X1(_) => 9,
        }
    }

    pub const fn a0_min() -> u8 {
        0
    }

    pub const fn a0_max() -> u8 {
        7
    }

    pub const fn a2_min() -> u8 {
        0
    }

    pub const fn a2_max() -> u8 {
        7
    }

    pub const fn a4_min() -> u8 {
        0
    }

    pub const fn a4_max() -> u8 {
        7
    }

    pub const fn a6_min() -> u8 {
        0
    }

    pub const fn a6_max() -> u8 {
        7
    }

    pub const fn x0_min() -> u8 {
        0
    }

    pub const fn x0_max() -> u8 {
        255
    }
}

impl Default for Tch8x2 {
    fn default() -> Tch8x2 {
        Tch8x2::A0(Default::default())
    }
}

#[asn(choice)]

#[derive(Debug, Clone, PartialEq, Hash)]
pub enum Tch9 {
    #[asn(integer(0..7))] A0(u8),
    #[asn(boolean)] A1(bool),
    #[asn(integer(0..7))] A2(u8),
    #[asn(boolean)] A3(bool),
    #[asn(integer(0..7))] A4(u8),
    #[asn(boolean)] A5(bool),
    #[asn(integer(0..7))] A6(u8),
    #[asn(boolean)] A7(bool),
    #[asn(integer(0..7))] A8(u8),
}

impl Tch9 {
    pub fn variants() -> [Self; 9] {
        [
        Tch9::A0(Default::default()),
        Tch9::A1(Default::default()),
        Tch9::A2(Default::default()),
        Tch9::A3(Default::default()),
        Tch9::A4(Default::default()),
        Tch9::A5(Default::default()),
        Tch9::A6(Default::default()),
        Tch9::A7(Default::default()),
        Tch9::A8(Default::default()),
        ]
    }

    pub fn value_index(&self) -> usize {
        match self {
            Tch9::A0(_) => 0,
            Tch9::A1(_) => 1,
            Tch9::A2(_) => 2,
            Tch9::A3(_) => 3,
            Tch9::A4(_) => 4,
            Tch9::A5(_) => 5,
            Tch9::A6(_) => 6,
            Tch9::A7(_) => 7,
            Tch9::A8(_) => 8,
        }
    }

    pub const fn a0_min() -> u8 {
        0
    }

    pub const fn a0_max() -> u8 {
        7
    }

    pub const fn a2_min() -> u8 {
        0
    }

    pub const fn a2_max() -> u8 {
        7
    }

    pub const fn a4_min() -> u8 {
        0
    }

    pub const fn a4_max() -> u8 {
        7
    }

    pub const fn a6_min() -> u8 {
        0
    }

    pub const fn a6_max() -> u8 {
        7
    }

    pub const fn a8_min() -> u8 {
        0
    }

    pub const fn a8_max() -> u8 {
        7
    }
}

impl Default for Tch9 {
    fn default() -> Tch9 {
        Tch9::A0(Default::default())
    }
}

#[asn(choice, extensible_after(A8))]

#[derive(Debug, Clone, PartialEq, Hash)]
pub enum Tch9x0 {
    #[asn(integer(0..7))] A0(u8),
    #[asn(boolean)] A1(bool),
    #[asn(integer(0..7))] A2(u8),
    #[asn(boolean)] A3(bool),
    #[asn(integer(0..7))] A4(u8),
    #[asn(boolean)] A5(bool),
    #[asn(integer(0..7))] A6(u8),
    #[asn(boolean)] A7(bool),
    #[asn(integer(0..7))] A8(u8),
}

impl Tch9x0 {
    pub fn variants() -> [Self; 9] {
        [
        Tch9x0::A0(Default::default()),
        Tch9x0::A1(Default::default()),
        Tch9x0::A2(Default::default()),
        Tch9x0::A3(Default::default()),
        Tch9x0::A4(Default::default()),
        Tch9x0::A5(Default::default()),
        Tch9x0::A6(Default::default()),
        Tch9x0::A7(Default::default()),
        Tch9x0::A8(Default::default()),
        ]
    }

    pub fn value_index(&self) -> usize {
        match self {
            Tch9x0::A0(_) => 0,
            Tch9x0::A1(_) => 1,
            Tch9x0::A2(_) => 2,
            Tch9x0::A3(_) => 3,
            Tch9x0::A4(_) => 4,
            Tch9x0::A5(_) => 5,
            Tch9x0::A6(_) => 6,
            Tch9x0::A7(_) => 7,
            Tch9x0::A8(_) => 8,
        }
    }

    pub const fn a0_min() -> u8 {
        0
    }

    pub const fn a0_max() -> u8 {
        7
    }

    pub const fn a2_min() -> u8 {
        0
    }

    pub const fn a2_max() -> u8 {
        7
    }

    pub const fn a4_min() -> u8 {
        0
    }

    pub const fn a4_max() -> u8 {
        7
    }

    pub const fn a6_min() -> u8 {
        0
    }

    pub const fn a6_max() -> u8 {
        7
    }

    pub const fn a8_min() -> u8 {
        0
    }

    pub const fn a8_max() -> u8 {
        7
    }
}

impl Default for Tch9x0 {
    fn default() -> Tch9x0 {
        Tch9x0::A0(Default::default())
    }
}

#[asn(choice, extensible_after(A8))]

#[derive(Debug, Clone, PartialEq, Hash)]
pub enum Tch9x1 {
    #[asn(integer(0..7))] A0(u8),
    #[asn(boolean)] A1(bool),
    #[asn(integer(0..7))] A2(u8),
    #[asn(boolean)] A3(bool),
    #[asn(integer(0..7))] A4(u8),
    #[asn(boolean)] A5(bool),
    #[asn(integer(0..7))] A6(u8),
    #[asn(boolean)] A7(bool),
    #[asn(integer(0..7))] A8(u8),
    #[asn(integer(0..255))] X0(u8),
}

impl Tch9x1 {
    pub fn variants() -> [Self; 10] {
        [
        Tch9x1::A0(Default::default()),
        Tch9x1::A1(Default::default()),
        Tch9x1::A2(Default::default()),
        Tch9x1::A3(Default::default()),
        Tch9x1::A4(Default::default()),
        Tch9x1::A5(Default::default()),
        Tch9x1::A6(Default::default()),
        Tch9x1::A7(Default::default()),
        Tch9x1::A8(Default::default()),
        Tch9x1::X0(Default::default()),
        ]
    }

    pub fn value_index(&self) -> usize {
        match self {
            Tch9x1::A0(_) => 0,
            Tch9x1::A1(_) => 1,
            Tch9x1::A2(_) => 2,
            Tch9x1::A3(_) => 3,
            Tch9x1::A4(_) => 4,
            Tch9x1::A5(_) => 5,
            Tch9x1::A6(_) => 6,
            Tch9x1::A7(_) => 7,
            Tch9x1::A8(_) => 8,
            Tch9x1::X0(_) => 9,
        }
    }

    pub const fn a0_min() -> u8 {
        0
    }

    pub const fn a0_max() -> u8 {
        7
    }

    pub const fn a2_min() -> u8 {
        0
    }

    pub const fn a2_max() -> u8 {
        7
    }

    pub const fn a4_min() -> u8 {
        0
    }

    pub const fn a4_max() -> u8 {
        7
    }

    pub const fn a6_min() -> u8 {
        0
    }

    pub const fn a6_max() -> u8 {
        7
    }

    pub const fn a8_min() -> u8 {
        0
    }

    pub const fn a8_max() -> u8 {
        7
    }

    pub const fn x0_min() -> u8 {
        0
    }

    pub const fn x0_max() -> u8 {
        255
    }
}

impl Default for Tch9x1 {
    fn default() -> Tch9x1 {
        Tch9x1::A0(Default::default())
    }
}

#[asn(choice, extensible_after(A8))]

#[derive(Debug, Clone, PartialEq, Hash)]
pub enum Tch9x2 {
    #[asn(integer(0..7))] A0(u8),
    #[asn(boolean)] A1(bool),
    #[asn(integer(0..7))] A2(u8),
    #[asn(boolean)] A3(bool),
    #[asn(integer(0..7))] A4(u8),
    #[asn(boolean)] A5(bool),
    #[asn(integer(0..7))] A6(u8),
    #[asn(boolean)] A7(bool),
    #[asn(integer(0..7))] A8(u8),
    #[asn(integer(0..255))] X0(u8),
    #[asn(octet_string(size(0..3)))] X1(Vec<u8>),
}

impl Tch9x2 {
    pub fn variants() -> [Self; 11] {
        [
        Tch9x2::A0(Default::default()),
        Tch9x2::A1(Default::default()),
        Tch9x2::A2(Default::default()),
        Tch9x2::A3(Default::default()),
        Tch9x2::A4(Default::default()),
        Tch9x2::A5(Default::default()),
        Tch9x2::A6(Default::default()),
        Tch9x2::A7(Default::default()),
        Tch9x2::A8(Default::default()),
        Tch9x2::X0(Default::default()),
        Tch9x2::X1(Default::default()),
        ]
    }

    pub fn value_index(&self) -> usize {
        match self {
            Tch9x2::A0(_) => 0,
            Tch9x2::A1(_) => 1,
            Tch9x2::A2(_) => 2,
            Tch9x2::A3(_) => 3,
            Tch9x2::A4(_) => 4,
            Tch9x2::A5(_) => 5,
            Tch9x2::A6(_) => 6,
            Tch9x2::A7(_) => 7,
            Tch9x2::A8(_) => 8,
            Tch9x2::X0(_) => 9,
            Tch9x2::X1(_) => 10,
        }
    }

    pub const fn a0_min() -> u8 {
        0
    }

    pub const fn a0_max() -> u8 {
        7
    }

    pub const fn a2_min() -> u8 {
        0
    }

    pub const fn a2_max() -> u8 {
        7
    }

    pub const fn a4_min() -> u8 {
        0
    }

    pub const fn a4_max() -> u8 {
        7
    }

    pub const fn a6_min() -> u8 {
        0
    }

    pub const fn a6_max() -> u8 {
        7
    }

    pub const fn a8_min() -> u8 {
        0
    }

    pub const fn a8_max() -> u8 {
        7
    }

    pub const fn x0_min() -> u8 {
        0
    }

    pub const fn x0_max() -> u8 {
        255
    }
}

impl Default for Tch9x2 {
    fn default() -> Tch9x2 {
        Tch9x2::A0(Default::default())
    }
}
// ---- harness conversions (generated by the zoo build script from the items above) ----
impl FromValue for Tinner {
    fn from_value(v: &Value) -> Self {
        let s = match v { Value::Seq(s) => s, other => panic!("Tinner: expected Seq, got {other:?}") };
        assert_eq!(s.len(), 2, "Tinner: component count");
        let _ = s;
        Tinner {
            a: FromValue::from_value(s[0].as_ref().expect("component a of Tinner must be present")),
            b: s[1].as_ref().map(FromValue::from_value),
        }
    }
}
impl ToValue for Tinner {
    fn to_value(&self) -> Value {
        Value::Seq(vec![
            Some(self.a.to_value()),
            self.b.as_ref().map(|x| x.to_value()),
        ])
    }
}
impl FromValue for Tenum3 {
    fn from_value(v: &Value) -> Self {
        match v {
            Value::Enum(0) => Tenum3::E0,
            Value::Enum(1) => Tenum3::E1,
            Value::Enum(2) => Tenum3::E2,
            other => panic!("Tenum3: bad enum value {other:?}"),
        }
    }
}
impl ToValue for Tenum3 {
    fn to_value(&self) -> Value {
        match self {
            Tenum3::E0 => Value::Enum(0),
            Tenum3::E1 => Value::Enum(1),
            Tenum3::E2 => Value::Enum(2),
        }
    }
}
impl FromValue for Tsoboolany { fn from_value(v: &Value) -> Self { Tsoboolany(FromValue::from_value(v)) } }
impl ToValue for Tsoboolany { fn to_value(&self) -> Value { self.0.to_value() } }
impl FromValue for Tsoboolr0to3 { fn from_value(v: &Value) -> Self { Tsoboolr0to3(FromValue::from_value(v)) } }
impl ToValue for Tsoboolr0to3 { fn to_value(&self) -> Value { self.0.to_value() } }
impl FromValue for Tsoboolf2 { fn from_value(v: &Value) -> Self { Tsoboolf2(FromValue::from_value(v)) } }
impl ToValue for Tsoboolf2 { fn to_value(&self) -> Value { self.0.to_value() } }
impl FromValue for Tsoboolr1to2x { fn from_value(v: &Value) -> Self { Tsoboolr1to2x(FromValue::from_value(v)) } }
impl ToValue for Tsoboolr1to2x { fn to_value(&self) -> Value { self.0.to_value() } }
impl FromValue for Tsonullany { fn from_value(v: &Value) -> Self { Tsonullany(FromValue::from_value(v)) } }
impl ToValue for Tsonullany { fn to_value(&self) -> Value { self.0.to_value() } }
impl FromValue for Tsonullr0to3 { fn from_value(v: &Value) -> Self { Tsonullr0to3(FromValue::from_value(v)) } }
impl ToValue for Tsonullr0to3 { fn to_value(&self) -> Value { self.0.to_value() } }
impl FromValue for Tsonullf2 { fn from_value(v: &Value) -> Self { Tsonullf2(FromValue::from_value(v)) } }
impl ToValue for Tsonullf2 { fn to_value(&self) -> Value { self.0.to_value() } }
impl FromValue for Tsonullr1to2x { fn from_value(v: &Value) -> Self { Tsonullr1to2x(FromValue::from_value(v)) } }
impl ToValue for Tsonullr1to2x { fn to_value(&self) -> Value { self.0.to_value() } }
impl FromValue for Tsoi3any { fn from_value(v: &Value) -> Self { Tsoi3any(FromValue::from_value(v)) } }
impl ToValue for Tsoi3any { fn to_value(&self) -> Value { self.0.to_value() } }
impl FromValue for Tsoi3r0to3 { fn from_value(v: &Value) -> Self { Tsoi3r0to3(FromValue::from_value(v)) } }
impl ToValue for Tsoi3r0to3 { fn to_value(&self) -> Value { self.0.to_value() } }
impl FromValue for Tsoi3f2 { fn from_value(v: &Value) -> Self { Tsoi3f2(FromValue::from_value(v)) } }
impl ToValue for Tsoi3f2 { fn to_value(&self) -> Value { self.0.to_value() } }
impl FromValue for Tsoi3r1to2x { fn from_value(v: &Value) -> Self { Tsoi3r1to2x(FromValue::from_value(v)) } }
impl ToValue for Tsoi3r1to2x { fn to_value(&self) -> Value { self.0.to_value() } }
impl FromValue for Tsoiunany { fn from_value(v: &Value) -> Self { Tsoiunany(FromValue::from_value(v)) } }
impl ToValue for Tsoiunany { fn to_value(&self) -> Value { self.0.to_value() } }
impl FromValue for Tsoiunr0to3 { fn from_value(v: &Value) -> Self { Tsoiunr0to3(FromValue::from_value(v)) } }
impl ToValue for Tsoiunr0to3 { fn to_value(&self) -> Value { self.0.to_value() } }
impl FromValue for Tsoiunf2 { fn from_value(v: &Value) -> Self { Tsoiunf2(FromValue::from_value(v)) } }
impl ToValue for Tsoiunf2 { fn to_value(&self) -> Value { self.0.to_value() } }
impl FromValue for Tsoiunr1to2x { fn from_value(v: &Value) -> Self { Tsoiunr1to2x(FromValue::from_value(v)) } }
impl ToValue for Tsoiunr1to2x { fn to_value(&self) -> Value { self.0.to_value() } }
impl FromValue for Tsoixtany { fn from_value(v: &Value) -> Self { Tsoixtany(FromValue::from_value(v)) } }
impl ToValue for Tsoixtany { fn to_value(&self) -> Value { self.0.to_value() } }
impl FromValue for Tsoixtr0to3 { fn from_value(v: &Value) -> Self { Tsoixtr0to3(FromValue::from_value(v)) } }
impl ToValue for Tsoixtr0to3 { fn to_value(&self) -> Value { self.0.to_value() } }
impl FromValue for Tsoixtf2 { fn from_value(v: &Value) -> Self { Tsoixtf2(FromValue::from_value(v)) } }
impl ToValue for Tsoixtf2 { fn to_value(&self) -> Value { self.0.to_value() } }
impl FromValue for Tsoixtr1to2x { fn from_value(v: &Value) -> Self { Tsoixtr1to2x(FromValue::from_value(v)) } }
impl ToValue for Tsoixtr1to2x { fn to_value(&self) -> Value { self.0.to_value() } }
impl FromValue for Tsoenany { fn from_value(v: &Value) -> Self { Tsoenany(FromValue::from_value(v)) } }
impl ToValue for Tsoenany { fn to_value(&self) -> Value { self.0.to_value() } }
impl FromValue for Tsoenr0to3 { fn from_value(v: &Value) -> Self { Tsoenr0to3(FromValue::from_value(v)) } }
impl ToValue for Tsoenr0to3 { fn to_value(&self) -> Value { self.0.to_value() } }
impl FromValue for Tsoenf2 { fn from_value(v: &Value) -> Self { Tsoenf2(FromValue::from_value(v)) } }
impl ToValue for Tsoenf2 { fn to_value(&self) -> Value { self.0.to_value() } }
impl FromValue for Tsoenr1to2x { fn from_value(v: &Value) -> Self { Tsoenr1to2x(FromValue::from_value(v)) } }
impl ToValue for Tsoenr1to2x { fn to_value(&self) -> Value { self.0.to_value() } }
impl FromValue for Tsooctany { fn from_value(v: &Value) -> Self { Tsooctany(FromValue::from_value(v)) } }
impl ToValue for Tsooctany { fn to_value(&self) -> Value { self.0.to_value() } }
impl FromValue for Tsooctr0to3 { fn from_value(v: &Value) -> Self { Tsooctr0to3(FromValue::from_value(v)) } }
impl ToValue for Tsooctr0to3 { fn to_value(&self) -> Value { self.0.to_value() } }
impl FromValue for Tsooctf2 { fn from_value(v: &Value) -> Self { Tsooctf2(FromValue::from_value(v)) } }
impl ToValue for Tsooctf2 { fn to_value(&self) -> Value { self.0.to_value() } }
impl FromValue for Tsooctr1to2x { fn from_value(v: &Value) -> Self { Tsooctr1to2x(FromValue::from_value(v)) } }
impl ToValue for Tsooctr1to2x { fn to_value(&self) -> Value { self.0.to_value() } }
impl FromValue for Tsobitany { fn from_value(v: &Value) -> Self { Tsobitany(FromValue::from_value(v)) } }
impl ToValue for Tsobitany { fn to_value(&self) -> Value { self.0.to_value() } }
impl FromValue for Tsobitr0to3 { fn from_value(v: &Value) -> Self { Tsobitr0to3(FromValue::from_value(v)) } }
impl ToValue for Tsobitr0to3 { fn to_value(&self) -> Value { self.0.to_value() } }
impl FromValue for Tsobitf2 { fn from_value(v: &Value) -> Self { Tsobitf2(FromValue::from_value(v)) } }
impl ToValue for Tsobitf2 { fn to_value(&self) -> Value { self.0.to_value() } }
impl FromValue for Tsobitr1to2x { fn from_value(v: &Value) -> Self { Tsobitr1to2x(FromValue::from_value(v)) } }
impl ToValue for Tsobitr1to2x { fn to_value(&self) -> Value { self.0.to_value() } }
impl FromValue for Tsoia5any { fn from_value(v: &Value) -> Self { Tsoia5any(FromValue::from_value(v)) } }
impl ToValue for Tsoia5any { fn to_value(&self) -> Value { self.0.to_value() } }
impl FromValue for Tsoia5r0to3 { fn from_value(v: &Value) -> Self { Tsoia5r0to3(FromValue::from_value(v)) } }
impl ToValue for Tsoia5r0to3 { fn to_value(&self) -> Value { self.0.to_value() } }
impl FromValue for Tsoia5f2 { fn from_value(v: &Value) -> Self { Tsoia5f2(FromValue::from_value(v)) } }
impl ToValue for Tsoia5f2 { fn to_value(&self) -> Value { self.0.to_value() } }
impl FromValue for Tsoia5r1to2x { fn from_value(v: &Value) -> Self { Tsoia5r1to2x(FromValue::from_value(v)) } }
impl ToValue for Tsoia5r1to2x { fn to_value(&self) -> Value { self.0.to_value() } }
impl FromValue for Tsoutfany { fn from_value(v: &Value) -> Self { Tsoutfany(FromValue::from_value(v)) } }
impl ToValue for Tsoutfany { fn to_value(&self) -> Value { self.0.to_value() } }
impl FromValue for Tsoutfr0to3 { fn from_value(v: &Value) -> Self { Tsoutfr0to3(FromValue::from_value(v)) } }
impl ToValue for Tsoutfr0to3 { fn to_value(&self) -> Value { self.0.to_value() } }
impl FromValue for Tsoutff2 { fn from_value(v: &Value) -> Self { Tsoutff2(FromValue::from_value(v)) } }
impl ToValue for Tsoutff2 { fn to_value(&self) -> Value { self.0.to_value() } }
impl FromValue for Tsoutfr1to2x { fn from_value(v: &Value) -> Self { Tsoutfr1to2x(FromValue::from_value(v)) } }
impl ToValue for Tsoutfr1to2x { fn to_value(&self) -> Value { self.0.to_value() } }
impl FromValue for Tsonumany { fn from_value(v: &Value) -> Self { Tsonumany(FromValue::from_value(v)) } }
impl ToValue for Tsonumany { fn to_value(&self) -> Value { self.0.to_value() } }
impl FromValue for Tsonumr0to3 { fn from_value(v: &Value) -> Self { Tsonumr0to3(FromValue::from_value(v)) } }
impl ToValue for Tsonumr0to3 { fn to_value(&self) -> Value { self.0.to_value() } }
impl FromValue for Tsonumf2 { fn from_value(v: &Value) -> Self { Tsonumf2(FromValue::from_value(v)) } }
impl ToValue for Tsonumf2 { fn to_value(&self) -> Value { self.0.to_value() } }
impl FromValue for Tsonumr1to2x { fn from_value(v: &Value) -> Self { Tsonumr1to2x(FromValue::from_value(v)) } }
impl ToValue for Tsonumr1to2x { fn to_value(&self) -> Value { self.0.to_value() } }
impl FromValue for Tsoseqany { fn from_value(v: &Value) -> Self { Tsoseqany(FromValue::from_value(v)) } }
impl ToValue for Tsoseqany { fn to_value(&self) -> Value { self.0.to_value() } }
impl FromValue for Tsoseqr0to3 { fn from_value(v: &Value) -> Self { Tsoseqr0to3(FromValue::from_value(v)) } }
impl ToValue for Tsoseqr0to3 { fn to_value(&self) -> Value { self.0.to_value() } }
impl FromValue for Tsoseqf2 { fn from_value(v: &Value) -> Self { Tsoseqf2(FromValue::from_value(v)) } }
impl ToValue for Tsoseqf2 { fn to_value(&self) -> Value { self.0.to_value() } }
impl FromValue for Tsoseqr1to2x { fn from_value(v: &Value) -> Self { Tsoseqr1to2x(FromValue::from_value(v)) } }
impl ToValue for Tsoseqr1to2x { fn to_value(&self) -> Value { self.0.to_value() } }
impl FromValue for Tch1 {
    fn from_value(v: &Value) -> Self {
        let (i, inner) = match v { Value::Choice(i, inner) => (*i, &**inner), other => panic!("Tch1: expected Choice, got {other:?}") };
        match i {
            0 => Tch1::A0(FromValue::from_value(inner)),
            _ => panic!("Tch1: alternative index {i} out of range"),
        }
    }
}
impl ToValue for Tch1 {
    fn to_value(&self) -> Value {
        match self {
            Tch1::A0(x) => Value::Choice(0, Box::new(x.to_value())),
        }
    }
}
impl FromValue for Tch1x0 {
    fn from_value(v: &Value) -> Self {
        let (i, inner) = match v { Value::Choice(i, inner) => (*i, &**inner), other => panic!("Tch1x0: expected Choice, got {other:?}") };
        match i {
            0 => Tch1x0::A0(FromValue::from_value(inner)),
            _ => panic!("Tch1x0: alternative index {i} out of range"),
        }
    }
}
impl ToValue for Tch1x0 {
    fn to_value(&self) -> Value {
        match self {
            Tch1x0::A0(x) => Value::Choice(0, Box::new(x.to_value())),
        }
    }
}
impl FromValue for Tch1x1 {
    fn from_value(v: &Value) -> Self {
        let (i, inner) = match v { Value::Choice(i, inner) => (*i, &**inner), other => panic!("Tch1x1: expected Choice, got {other:?}") };
        match i {
            0 => Tch1x1::A0(FromValue::from_value(inner)),
            1 => Tch1x1::X0(FromValue::from_value(inner)),
            _ => panic!("Tch1x1: alternative index {i} out of range"),
        }
    }
}
impl ToValue for Tch1x1 {
    fn to_value(&self) -> Value {
        match self {
            Tch1x1::A0(x) => Value::Choice(0, Box::new(x.to_value())),
            Tch1x1::X0(x) => Value::Choice(1, Box::new(x.to_value())),
        }
    }
}
impl FromValue for Tch1x2 {
    fn from_value(v: &Value) -> Self {
        let (i, inner) = match v { Value::Choice(i, inner) => (*i, &**inner), other => panic!("Tch1x2: expected Choice, got {other:?}") };
        match i {
            0 => Tch1x2::A0(FromValue::from_value(inner)),
            1 => Tch1x2::X0(FromValue::from_value(inner)),
            2 => Tch1x2::X1(FromValue::from_value(inner)),
            _ => panic!("Tch1x2: alternative index {i} out of range"),
        }
    }
}
impl ToValue for Tch1x2 {
    fn to_value(&self) -> Value {
        match self {
            Tch1x2::A0(x) => Value::Choice(0, Box::new(x.to_value())),
            Tch1x2::X0(x) => Value::Choice(1, Box::new(x.to_value())),
            Tch1x2::X1(x) => Value::Choice(2, Box::new(x.to_value())),
        }
    }
}
impl FromValue for Tch2 {
    fn from_value(v: &Value) -> Self {
        let (i, inner) = match v { Value::Choice(i, inner) => (*i, &**inner), other => panic!("Tch2: expected Choice, got {other:?}") };
        match i {
            0 => Tch2::A0(FromValue::from_value(inner)),
            1 => Tch2::A1(FromValue::from_value(inner)),
            _ => panic!("Tch2: alternative index {i} out of range"),
        }
    }
}
impl ToValue for Tch2 {
    fn to_value(&self) -> Value {
        match self {
            Tch2::A0(x) => Value::Choice(0, Box::new(x.to_value())),
            Tch2::A1(x) => Value::Choice(1, Box::new(x.to_value())),
        }
    }
}
impl FromValue for Tch2x0 {
    fn from_value(v: &Value) -> Self {
        let (i, inner) = match v { Value::Choice(i, inner) => (*i, &**inner), other => panic!("Tch2x0: expected Choice, got {other:?}") };
        match i {
            0 => Tch2x0::A0(FromValue::from_value(inner)),
            1 => Tch2x0::A1(FromValue::from_value(inner)),
            _ => panic!("Tch2x0: alternative index {i} out of range"),
        }
    }
}
impl ToValue for Tch2x0 {
    fn to_value(&self) -> Value {
        match self {
            Tch2x0::A0(x) => Value::Choice(0, Box::new(x.to_value())),
            Tch2x0::A1(x) => Value::Choice(1, Box::new(x.to_value())),
        }
    }
}
impl FromValue for Tch2x1 {
    fn from_value(v: &Value) -> Self {
        let (i, inner) = match v { Value::Choice(i, inner) => (*i, &**inner), other => panic!("Tch2x1: expected Choice, got {other:?}") };
        match i {
            0 => Tch2x1::A0(FromValue::from_value(inner)),
            1 => Tch2x1::A1(FromValue::from_value(inner)),
            2 => Tch2x1::X0(FromValue::from_value(inner)),
            _ => panic!("Tch2x1: alternative index {i} out of range"),
        }
    }
}
impl ToValue for Tch2x1 {
    fn to_value(&self) -> Value {
        match self {
            Tch2x1::A0(x) => Value::Choice(0, Box::new(x.to_value())),
            Tch2x1::A1(x) => Value::Choice(1, Box::new(x.to_value())),
            Tch2x1::X0(x) => Value::Choice(2, Box::new(x.to_value())),
        }
    }
}
impl FromValue for Tch2x2 {
    fn from_value(v: &Value) -> Self {
        let (i, inner) = match v { Value::Choice(i, inner) => (*i, &**inner), other => panic!("Tch2x2: expected Choice, got {other:?}") };
        match i {
            0 => Tch2x2::A0(FromValue::from_value(inner)),
            1 => Tch2x2::A1(FromValue::from_value(inner)),
            2 => Tch2x2::X0(FromValue::from_value(inner)),
            3 => Tch2x2::X1(FromValue::from_value(inner)),
            _ => panic!("Tch2x2: alternative index {i} out of range"),
        }
    }
}
impl ToValue for Tch2x2 {
    fn to_value(&self) -> Value {
        match self {
            Tch2x2::A0(x) => Value::Choice(0, Box::new(x.to_value())),
            Tch2x2::A1(x) => Value::Choice(1, Box::new(x.to_value())),
            Tch2x2::X0(x) => Value::Choice(2, Box::new(x.to_value())),
            Tch2x2::X1(x) => Value::Choice(3, Box::new(x.to_value())),
        }
    }
}
impl FromValue for Tch3 {
    fn from_value(v: &Value) -> Self {
        let (i, inner) = match v { Value::Choice(i, inner) => (*i, &**inner), other => panic!("Tch3: expected Choice, got {other:?}") };
        match i {
            0 => Tch3::A0(FromValue::from_value(inner)),
            1 => Tch3::A1(FromValue::from_value(inner)),
            2 => Tch3::A2(FromValue::from_value(inner)),
            _ => panic!("Tch3: alternative index {i} out of range"),
        }
    }
}
impl ToValue for Tch3 {
    fn to_value(&self) -> Value {
        match self {
            Tch3::A0(x) => Value::Choice(0, Box::new(x.to_value())),
            Tch3::A1(x) => Value::Choice(1, Box::new(x.to_value())),
            Tch3::A2(x) => Value::Choice(2, Box::new(x.to_value())),
        }
    }
}
impl FromValue for Tch3x0 {
    fn from_value(v: &Value) -> Self {
        let (i, inner) = match v { Value::Choice(i, inner) => (*i, &**inner), other => panic!("Tch3x0: expected Choice, got {other:?}") };
        match i {
            0 => Tch3x0::A0(FromValue::from_value(inner)),
            1 => Tch3x0::A1(FromValue::from_value(inner)),
            2 => Tch3x0::A2(FromValue::from_value(inner)),
            _ => panic!("Tch3x0: alternative index {i} out of range"),
        }
    }
}
impl ToValue for Tch3x0 {
    fn to_value(&self) -> Value {
        match self {
            Tch3x0::A0(x) => Value::Choice(0, Box::new(x.to_value())),
            Tch3x0::A1(x) => Value::Choice(1, Box::new(x.to_value())),
            Tch3x0::A2(x) => Value::Choice(2, Box::new(x.to_value())),
        }
    }
}
impl FromValue for Tch3x1 {
    fn from_value(v: &Value) -> Self {
        let (i, inner) = match v { Value::Choice(i, inner) => (*i, &**inner), other => panic!("Tch3x1: expected Choice, got {other:?}") };
        match i {
            0 => Tch3x1::A0(FromValue::from_value(inner)),
            1 => Tch3x1::A1(FromValue::from_value(inner)),
            2 => Tch3x1::A2(FromValue::from_value(inner)),
            3 => Tch3x1::X0(FromValue::from_value(inner)),
            _ => panic!("Tch3x1: alternative index {i} out of range"),
        }
    }
}
impl ToValue for Tch3x1 {
    fn to_value(&self) -> Value {
        match self {
            Tch3x1::A0(x) => Value::Choice(0, Box::new(x.to_value())),
            Tch3x1::A1(x) => Value::Choice(1, Box::new(x.to_value())),
            Tch3x1::A2(x) => Value::Choice(2, Box::new(x.to_value())),
            Tch3x1::X0(x) => Value::Choice(3, Box::new(x.to_value())),
        }
    }
}
impl FromValue for Tch3x2 {
    fn from_value(v: &Value) -> Self {
        let (i, inner) = match v { Value::Choice(i, inner) => (*i, &**inner), other => panic!("Tch3x2: expected Choice, got {other:?}") };
        match i {
            0 => Tch3x2::A0(FromValue::from_value(inner)),
            1 => Tch3x2::A1(FromValue::from_value(inner)),
            2 => Tch3x2::A2(FromValue::from_value(inner)),
            3 => Tch3x2::X0(FromValue::from_value(inner)),
            4 => Tch3x2::X1(FromValue::from_value(inner)),
            _ => panic!("Tch3x2: alternative index {i} out of range"),
        }
    }
}
impl ToValue for Tch3x2 {
    fn to_value(&self) -> Value {
        match self {
            Tch3x2::A0(x) => Value::Choice(0, Box::new(x.to_value())),
            Tch3x2::A1(x) => Value::Choice(1, Box::new(x.to_value())),
            Tch3x2::A2(x) => Value::Choice(2, Box::new(x.to_value())),
            Tch3x2::X0(x) => Value::Choice(3, Box::new(x.to_value())),
            Tch3x2::X1(x) => Value::Choice(4, Box::new(x.to_value())),
        }
    }
}
impl FromValue for Tch4 {
    fn from_value(v: &Value) -> Self {
        let (i, inner) = match v { Value::Choice(i, inner) => (*i, &**inner), other => panic!("Tch4: expected Choice, got {other:?}") };
        match i {
            0 => Tch4::A0(FromValue::from_value(inner)),
            1 => Tch4::A1(FromValue::from_value(inner)),
            2 => Tch4::A2(FromValue::from_value(inner)),
            3 => Tch4::A3(FromValue::from_value(inner)),
            _ => panic!("Tch4: alternative index {i} out of range"),
        }
    }
}
impl ToValue for Tch4 {
    fn to_value(&self) -> Value {
        match self {
            Tch4::A0(x) => Value::Choice(0, Box::new(x.to_value())),
            Tch4::A1(x) => Value::Choice(1, Box::new(x.to_value())),
            Tch4::A2(x) => Value::Choice(2, Box::new(x.to_value())),
            Tch4::A3(x) => Value::Choice(3, Box::new(x.to_value())),
        }
    }
}
impl FromValue for Tch4x0 {
    fn from_value(v: &Value) -> Self {
        let (i, inner) = match v { Value::Choice(i, inner) => (*i, &**inner), other => panic!("Tch4x0: expected Choice, got {other:?}") };
        match i {
            0 => Tch4x0::A0(FromValue::from_value(inner)),
            1 => Tch4x0::A1(FromValue::from_value(inner)),
            2 => Tch4x0::A2(FromValue::from_value(inner)),
            3 => Tch4x0::A3(FromValue::from_value(inner)),
            _ => panic!("Tch4x0: alternative index {i} out of range"),
        }
    }
}
impl ToValue for Tch4x0 {
    fn to_value(&self) -> Value {
        match self {
            Tch4x0::A0(x) => Value::Choice(0, Box::new(x.to_value())),
            Tch4x0::A1(x) => Value::Choice(1, Box::new(x.to_value())),
            Tch4x0::A2(x) => Value::Choice(2, Box::new(x.to_value())),
            Tch4x0::A3(x) => Value::Choice(3, Box::new(x.to_value())),
        }
    }
}
impl FromValue for Tch4x1 {
    fn from_value(v: &Value) -> Self {
        let (i, inner) = match v { Value::Choice(i, inner) => (*i, &**inner), other => panic!("Tch4x1: expected Choice, got {other:?}") };
        match i {
            0 => Tch4x1::A0(FromValue::from_value(inner)),
            1 => Tch4x1::A1(FromValue::from_value(inner)),
            2 => Tch4x1::A2(FromValue::from_value(inner)),
            3 => Tch4x1::A3(FromValue::from_value(inner)),
            4 => Tch4x1::X0(FromValue::from_value(inner)),
            _ => panic!("Tch4x1: alternative index {i} out of range"),
        }
    }
}
impl ToValue for Tch4x1 {
    fn to_value(&self) -> Value {
        match self {
            Tch4x1::A0(x) => Value::Choice(0, Box::new(x.to_value())),
            Tch4x1::A1(x) => Value::Choice(1, Box::new(x.to_value())),
            Tch4x1::A2(x) => Value::Choice(2, Box::new(x.to_value())),
            Tch4x1::A3(x) => Value::Choice(3, Box::new(x.to_value())),
            Tch4x1::X0(x) => Value::Choice(4, Box::new(x.to_value())),
        }
    }
}
impl FromValue for Tch4x2 {
    fn from_value(v: &Value) -> Self {
        let (i, inner) = match v { Value::Choice(i, inner) => (*i, &**inner), other => panic!("Tch4x2: expected Choice, got {other:?}") };
        match i {
            0 => Tch4x2::A0(FromValue::from_value(inner)),
            1 => Tch4x2::A1(FromValue::from_value(inner)),
            2 => Tch4x2::A2(FromValue::from_value(inner)),
            3 => Tch4x2::A3(FromValue::from_value(inner)),
            4 => Tch4x2::X0(FromValue::from_value(inner)),
            5 => Tch4x2::X1(FromValue::from_value(inner)),
            _ => panic!("Tch4x2: alternative index {i} out of range"),
        }
    }
}
impl ToValue for Tch4x2 {
    fn to_value(&self) -> Value {
        match self {
            Tch4x2::A0(x) => Value::Choice(0, Box::new(x.to_value())),
            Tch4x2::A1(x) => Value::Choice(1, Box::new(x.to_value())),
            Tch4x2::A2(x) => Value::Choice(2, Box::new(x.to_value())),
            Tch4x2::A3(x) => Value::Choice(3, Box::new(x.to_value())),
            Tch4x2::X0(x) => Value::Choice(4, Box::new(x.to_value())),
            Tch4x2::X1(x) => Value::Choice(5, Box::new(x.to_value())),
        }
    }
}
impl FromValue for Tch5 {
    fn from_value(v: &Value) -> Self {
        let (i, inner) = match v { Value::Choice(i, inner) => (*i, &**inner), other => panic!("Tch5: expected Choice, got {other:?}") };
        match i {
            0 => Tch5::A0(FromValue::from_value(inner)),
            1 => Tch5::A1(FromValue::from_value(inner)),
            2 => Tch5::A2(FromValue::from_value(inner)),
            3 => Tch5::A3(FromValue::from_value(inner)),
            4 => Tch5::A4(FromValue::from_value(inner)),
            _ => panic!("Tch5: alternative index {i} out of range"),
        }
    }
}
impl ToValue for Tch5 {
    fn to_value(&self) -> Value {
        match self {
            Tch5::A0(x) => Value::Choice(0, Box::new(x.to_value())),
            Tch5::A1(x) => Value::Choice(1, Box::new(x.to_value())),
            Tch5::A2(x) => Value::Choice(2, Box::new(x.to_value())),
            Tch5::A3(x) => Value::Choice(3, Box::new(x.to_value())),
            Tch5::A4(x) => Value::Choice(4, Box::new(x.to_value())),
        }
    }
}
impl FromValue for Tch5x0 {
    fn from_value(v: &Value) -> Self {
        let (i, inner) = match v { Value::Choice(i, inner) => (*i, &**inner), other => panic!("Tch5x0: expected Choice, got {other:?}") };
        match i {
            0 => Tch5x0::A0(FromValue::from_value(inner)),
            1 => Tch5x0::A1(FromValue::from_value(inner)),
            2 => Tch5x0::A2(FromValue::from_value(inner)),
            3 => Tch5x0::A3(FromValue::from_value(inner)),
            4 => Tch5x0::A4(FromValue::from_value(inner)),
            _ => panic!("Tch5x0: alternative index {i} out of range"),
        }
    }
}
impl ToValue for Tch5x0 {
    fn to_value(&self) -> Value {
        match self {
            Tch5x0::A0(x) => Value::Choice(0, Box::new(x.to_value())),
            Tch5x0::A1(x) => Value::Choice(1, Box::new(x.to_value())),
            Tch5x0::A2(x) => Value::Choice(2, Box::new(x.to_value())),
            Tch5x0::A3(x) => Value::Choice(3, Box::new(x.to_value())),
            Tch5x0::A4(x) => Value::Choice(4, Box::new(x.to_value())),
        }
    }
}
impl FromValue for Tch5x1 {
    fn from_value(v: &Value) -> Self {
        let (i, inner) = match v { Value::Choice(i, inner) => (*i, &**inner), other => panic!("Tch5x1: expected Choice, got {other:?}") };
        match i {
            0 => Tch5x1::A0(FromValue::from_value(inner)),
            1 => Tch5x1::A1(FromValue::from_value(inner)),
            2 => Tch5x1::A2(FromValue::from_value(inner)),
            3 => Tch5x1::A3(FromValue::from_value(inner)),
            4 => Tch5x1::A4(FromValue::from_value(inner)),
            5 => Tch5x1::X0(FromValue::from_value(inner)),
            _ => panic!("Tch5x1: alternative index {i} out of range"),
        }
    }
}
impl ToValue for Tch5x1 {
    fn to_value(&self) -> Value {
        match self {
            Tch5x1::A0(x) => Value::Choice(0, Box::new(x.to_value())),
            Tch5x1::A1(x) => Value::Choice(1, Box::new(x.to_value())),
            Tch5x1::A2(x) => Value::Choice(2, Box::new(x.to_value())),
            Tch5x1::A3(x) => Value::Choice(3, Box::new(x.to_value())),
            Tch5x1::A4(x) => Value::Choice(4, Box::new(x.to_value())),
            Tch5x1::X0(x) => Value::Choice(5, Box::new(x.to_value())),
        }
    }
}
impl FromValue for Tch5x2 {
    fn from_value(v: &Value) -> Self {
        let (i, inner) = match v { Value::Choice(i, inner) => (*i, &**inner), other => panic!("Tch5x2: expected Choice, got {other:?}") };
        match i {
            0 => Tch5x2::A0(FromValue::from_value(inner)),
            1 => Tch5x2::A1(FromValue::from_value(inner)),
            2 => Tch5x2::A2(FromValue::from_value(inner)),
            3 => Tch5x2::A3(FromValue::from_value(inner)),
            4 => Tch5x2::A4(FromValue::from_value(inner)),
            5 => Tch5x2::X0(FromValue::from_value(inner)),
            6 => Tch5x2::X1(FromValue::from_value(inner)),
            _ => panic!("Tch5x2: alternative index {i} out of range"),
        }
    }
}
impl ToValue for Tch5x2 {
    fn to_value(&self) -> Value {
        match self {
            Tch5x2::A0(x) => Value::Choice(0, Box::new(x.to_value())),
            Tch5x2::A1(x) => Value::Choice(1, Box::new(x.to_value())),
            Tch5x2::A2(x) => Value::Choice(2, Box::new(x.to_value())),
            Tch5x2::A3(x) => Value::Choice(3, Box::new(x.to_value())),
            Tch5x2::A4(x) => Value::Choice(4, Box::new(x.to_value())),
            Tch5x2::X0(x) => Value::Choice(5, Box::new(x.to_value())),
            Tch5x2::X1(x) => Value::Choice(6, Box::new(x.to_value())),
        }
    }
}
impl FromValue for Tch8 {
    fn from_value(v: &Value) -> Self {
        let (i, inner) = match v { Value::Choice(i, inner) => (*i, &**inner), other => panic!("Tch8: expected Choice, got {other:?}") };
        match i {
            0 => Tch8::A0(FromValue::from_value(inner)),
            1 => Tch8::A1(FromValue::from_value(inner)),
            2 => Tch8::A2(FromValue::from_value(inner)),
            3 => Tch8::A3(FromValue::from_value(inner)),
            4 => Tch8::A4(FromValue::from_value(inner)),
            5 => Tch8::A5(FromValue::from_value(inner)),
            6 => Tch8::A6(FromValue::from_value(inner)),
            7 => Tch8::A7(FromValue::from_value(inner)),
            _ => panic!("Tch8: alternative index {i} out of range"),
        }
    }
}
impl ToValue for Tch8 {
    fn to_value(&self) -> Value {
        match self {
            Tch8::A0(x) => Value::Choice(0, Box::new(x.to_value())),
            Tch8::A1(x) => Value::Choice(1, Box::new(x.to_value())),
            Tch8::A2(x) => Value::Choice(2, Box::new(x.to_value())),
            Tch8::A3(x) => Value::Choice(3, Box::new(x.to_value())),
            Tch8::A4(x) => Value::Choice(4, Box::new(x.to_value())),
            Tch8::A5(x) => Value::Choice(5, Box::new(x.to_value())),
            Tch8::A6(x) => Value::Choice(6, Box::new(x.to_value())),
            Tch8::A7(x) => Value::Choice(7, Box::new(x.to_value())),
        }
    }
}
impl FromValue for Tch8x0 {
    fn from_value(v: &Value) -> Self {
        let (i, inner) = match v { Value::Choice(i, inner) => (*i, &**inner), other => panic!("Tch8x0: expected Choice, got {other:?}") };
        match i {
            0 => Tch8x0::A0(FromValue::from_value(inner)),
            1 => Tch8x0::A1(FromValue::from_value(inner)),
            2 => Tch8x0::A2(FromValue::from_value(inner)),
            3 => Tch8x0::A3(FromValue::from_value(inner)),
            4 => Tch8x0::A4(FromValue::from_value(inner)),
            5 => Tch8x0::A5(FromValue::from_value(inner)),
            6 => Tch8x0::A6(FromValue::from_value(inner)),
            7 => Tch8x0::A7(FromValue::from_value(inner)),
            _ => panic!("Tch8x0: alternative index {i} out of range"),
        }
    }
}
impl ToValue for Tch8x0 {
    fn to_value(&self) -> Value {
        match self {
            Tch8x0::A0(x) => Value::Choice(0, Box::new(x.to_value())),
            Tch8x0::A1(x) => Value::Choice(1, Box::new(x.to_value())),
            Tch8x0::A2(x) => Value::Choice(2, Box::new(x.to_value())),
            Tch8x0::A3(x) => Value::Choice(3, Box::new(x.to_value())),
            Tch8x0::A4(x) => Value::Choice(4, Box::new(x.to_value())),
            Tch8x0::A5(x) => Value::Choice(5, Box::new(x.to_value())),
            Tch8x0::A6(x) => Value::Choice(6, Box::new(x.to_value())),
            Tch8x0::A7(x) => Value::Choice(7, Box::new(x.to_value())),
        }
    }
}
impl FromValue for Tch8x1 {
    fn from_value(v: &Value) -> Self {
        let (i, inner) = match v { Value::Choice(i, inner) => (*i, &**inner), other => panic!("Tch8x1: expected Choice, got {other:?}") };
        match i {
            0 => Tch8x1::A0(FromValue::from_value(inner)),
            1 => Tch8x1::A1(FromValue::from_value(inner)),
            2 => Tch8x1::A2(FromValue::from_value(inner)),
            3 => Tch8x1::A3(FromValue::from_value(inner)),
            4 => Tch8x1::A4(FromValue::from_value(inner)),
            5 => Tch8x1::A5(FromValue::from_value(inner)),
            6 => Tch8x1::A6(FromValue::from_value(inner)),
            7 => Tch8x1::A7(FromValue::from_value(inner)),
            8 => Tch8x1::X0(FromValue::from_value(inner)),
            _ => panic!("Tch8x1: alternative index {i} out of range"),
        }
    }
}
impl ToValue for Tch8x1 {
    fn to_value(&self) -> Value {
        match self {
            Tch8x1::A0(x) => Value::Choice(0, Box::new(x.to_value())),
            Tch8x1::A1(x) => Value::Choice(1, Box::new(x.to_value())),
            Tch8x1::A2(x) => Value::Choice(2, Box::new(x.to_value())),
            Tch8x1::A3(x) => Value::Choice(3, Box::new(x.to_value())),
            Tch8x1::A4(x) => Value::Choice(4, Box::new(x.to_value())),
            Tch8x1::A5(x) => Value::Choice(5, Box::new(x.to_value())),
            Tch8x1::A6(x) => Value::Choice(6, Box::new(x.to_value())),
            Tch8x1::A7(x) => Value::Choice(7, Box::new(x.to_value())),
            Tch8x1::X0(x) => Value::Choice(8, Box::new(x.to_value())),
        }
    }
}
impl FromValue for Tch8x2 {
    fn from_value(v: &Value) -> Self {
        let (i, inner) = match v { Value::Choice(i, inner) => (*i, &**inner), other => panic!("Tch8x2: expected Choice, got {other:?}") };
        match i {
            0 => Tch8x2::A0(FromValue::from_value(inner)),
            1 => Tch8x2::A1(FromValue::from_value(inner)),
            2 => Tch8x2::A2(FromValue::from_value(inner)),
            3 => Tch8x2::A3(FromValue::from_value(inner)),
            4 => Tch8x2::A4(FromValue::from_value(inner)),
            5 => Tch8x2::A5(FromValue::from_value(inner)),
            6 => Tch8x2::A6(FromValue::from_value(inner)),
            7 => Tch8x2::A7(FromValue::from_value(inner)),
            8 => Tch8x2::X0(FromValue::from_value(inner)),
            9 => Tch8x2::X1(FromValue::from_value(inner)),
            _ => panic!("Tch8x2: alternative index {i} out of range"),
        }
    }
}
impl ToValue for Tch8x2 {
    fn to_value(&self) -> Value {
        match self {
            Tch8x2::A0(x) => Value::Choice(0, Box::new(x.to_value())),
            Tch8x2::A1(x) => Value::Choice(1, Box::new(x.to_value())),
            Tch8x2::A2(x) => Value::Choice(2, Box::new(x.to_value())),
            Tch8x2::A3(x) => Value::Choice(3, Box::new(x.to_value())),
            Tch8x2::A4(x) => Value::Choice(4, Box::new(x.to_value())),
            Tch8x2::A5(x) => Value::Choice(5, Box::new(x.to_value())),
            Tch8x2::A6(x) => Value::Choice(6, Box::new(x.to_value())),
            Tch8x2::A7(x) => Value::Choice(7, Box::new(x.to_value())),
            Tch8x2::X0(x) => Value::Choice(8, Box::new(x.to_value())),
            Tch8x2::X1(x) => Value::Choice(9, Box::new(x.to_value())),
        }
    }
}
impl FromValue for Tch9 {
    fn from_value(v: &Value) -> Self {
        let (i, inner) = match v { Value::Choice(i, inner) => (*i, &**inner), other => panic!("Tch9: expected Choice, got {other:?}") };
        match i {
            0 => Tch9::A0(FromValue::from_value(inner)),
            1 => Tch9::A1(FromValue::from_value(inner)),
            2 => Tch9::A2(FromValue::from_value(inner)),
            3 => Tch9::A3(FromValue::from_value(inner)),
            4 => Tch9::A4(FromValue::from_value(inner)),
            5 => Tch9::A5(FromValue::from_value(inner)),
            6 => Tch9::A6(FromValue::from_value(inner)),
            7 => Tch9::A7(FromValue::from_value(inner)),
            8 => Tch9::A8(FromValue::from_value(inner)),
            _ => panic!("Tch9: alternative index {i} out of range"),
        }
    }
}
impl ToValue for Tch9 {
    fn to_value(&self) -> Value {
        match self {
            Tch9::A0(x) => Value::Choice(0, Box::new(x.to_value())),
            Tch9::A1(x) => Value::Choice(1, Box::new(x.to_value())),
            Tch9::A2(x) => Value::Choice(2, Box::new(x.to_value())),
            Tch9::A3(x) => Value::Choice(3, Box::new(x.to_value())),
            Tch9::A4(x) => Value::Choice(4, Box::new(x.to_value())),
            Tch9::A5(x) => Value::Choice(5, Box::new(x.to_value())),
            Tch9::A6(x) => Value::Choice(6, Box::new(x.to_value())),
            Tch9::A7(x) => Value::Choice(7, Box::new(x.to_value())),
            Tch9::A8(x) => Value::Choice(8, Box::new(x.to_value())),
        }
    }
}
impl FromValue for Tch9x0 {
    fn from_value(v: &Value) -> Self {
        let (i, inner) = match v { Value::Choice(i, inner) => (*i, &**inner), other => panic!("Tch9x0: expected Choice, got {other:?}") };
        match i {
            0 => Tch9x0::A0(FromValue::from_value(inner)),
            1 => Tch9x0::A1(FromValue::from_value(inner)),
            2 => Tch9x0::A2(FromValue::from_value(inner)),
            3 => Tch9x0::A3(FromValue::from_value(inner)),
            4 => Tch9x0::A4(FromValue::from_value(inner)),
            5 => Tch9x0::A5(FromValue::from_value(inner)),
            6 => Tch9x0::A6(FromValue::from_value(inner)),
            7 => Tch9x0::A7(FromValue::from_value(inner)),
            8 => Tch9x0::A8(FromValue::from_value(inner)),
            _ => panic!("Tch9x0: alternative index {i} out of range"),
        }
    }
}
impl ToValue for Tch9x0 {
    fn to_value(&self) -> Value {
        match self {
            Tch9x0::A0(x) => Value::Choice(0, Box::new(x.to_value())),
            Tch9x0::A1(x) => Value::Choice(1, Box::new(x.to_value())),
            Tch9x0::A2(x) => Value::Choice(2, Box::new(x.to_value())),
            Tch9x0::A3(x) => Value::Choice(3, Box::new(x.to_value())),
            Tch9x0::A4(x) => Value::Choice(4, Box::new(x.to_value())),
            Tch9x0::A5(x) => Value::Choice(5, Box::new(x.to_value())),
            Tch9x0::A6(x) => Value::Choice(6, Box::new(x.to_value())),
            Tch9x0::A7(x) => Value::Choice(7, Box::new(x.to_value())),
            Tch9x0::A8(x) => Value::Choice(8, Box::new(x.to_value())),
        }
    }
}
impl FromValue for Tch9x1 {
    fn from_value(v: &Value) -> Self {
        let (i, inner) = match v { Value::Choice(i, inner) => (*i, &**inner), other => panic!("Tch9x1: expected Choice, got {other:?}") };
        match i {
            0 => Tch9x1::A0(FromValue::from_value(inner)),
            1 => Tch9x1::A1(FromValue::from_value(inner)),
            2 => Tch9x1::A2(FromValue::from_value(inner)),
            3 => Tch9x1::A3(FromValue::from_value(inner)),
            4 => Tch9x1::A4(FromValue::from_value(inner)),
            5 => Tch9x1::A5(FromValue::from_value(inner)),
            6 => Tch9x1::A6(FromValue::from_value(inner)),
            7 => Tch9x1::A7(FromValue::from_value(inner)),
            8 => Tch9x1::A8(FromValue::from_value(inner)),
            9 => Tch9x1::X0(FromValue::from_value(inner)),
            _ => panic!("Tch9x1: alternative index {i} out of range"),
        }
    }
}
impl ToValue for Tch9x1 {
    fn to_value(&self) -> Value {
        match self {
            Tch9x1::A0(x) => Value::Choice(0, Box::new(x.to_value())),
            Tch9x1::A1(x) => Value::Choice(1, Box::new(x.to_value())),
            Tch9x1::A2(x) => Value::Choice(2, Box::new(x.to_value())),
            Tch9x1::A3(x) => Value::Choice(3, Box::new(x.to_value())),
            Tch9x1::A4(x) => Value::Choice(4, Box::new(x.to_value())),
            Tch9x1::A5(x) => Value::Choice(5, Box::new(x.to_value())),
            Tch9x1::A6(x) => Value::Choice(6, Box::new(x.to_value())),
            Tch9x1::A7(x) => Value::Choice(7, Box::new(x.to_value())),
            Tch9x1::A8(x) => Value::Choice(8, Box::new(x.to_value())),
            Tch9x1::X0(x) => Value::Choice(9, Box::new(x.to_value())),
        }
    }
}
impl FromValue for Tch9x2 {
    fn from_value(v: &Value) -> Self {
        let (i, inner) = match v { Value::Choice(i, inner) => (*i, &**inner), other => panic!("Tch9x2: expected Choice, got {other:?}") };
        match i {
            0 => Tch9x2::A0(FromValue::from_value(inner)),
            1 => Tch9x2::A1(FromValue::from_value(inner)),
            2 => Tch9x2::A2(FromValue::from_value(inner)),
            3 => Tch9x2::A3(FromValue::from_value(inner)),
            4 => Tch9x2::A4(FromValue::from_value(inner)),
            5 => Tch9x2::A5(FromValue::from_value(inner)),
            6 => Tch9x2::A6(FromValue::from_value(inner)),
            7 => Tch9x2::A7(FromValue::from_value(inner)),
            8 => Tch9x2::A8(FromValue::from_value(inner)),
            9 => Tch9x2::X0(FromValue::from_value(inner)),
            10 => Tch9x2::X1(FromValue::from_value(inner)),
            _ => panic!("Tch9x2: alternative index {i} out of range"),
        }
    }
}
impl ToValue for Tch9x2 {
    fn to_value(&self) -> Value {
        match self {
            Tch9x2::A0(x) => Value::Choice(0, Box::new(x.to_value())),
            Tch9x2::A1(x) => Value::Choice(1, Box::new(x.to_value())),
            Tch9x2::A2(x) => Value::Choice(2, Box::new(x.to_value())),
            Tch9x2::A3(x) => Value::Choice(3, Box::new(x.to_value())),
            Tch9x2::A4(x) => Value::Choice(4, Box::new(x.to_value())),
            Tch9x2::A5(x) => Value::Choice(5, Box::new(x.to_value())),
            Tch9x2::A6(x) => Value::Choice(6, Box::new(x.to_value())),
            Tch9x2::A7(x) => Value::Choice(7, Box::new(x.to_value())),
            Tch9x2::A8(x) => Value::Choice(8, Box::new(x.to_value())),
            Tch9x2::X0(x) => Value::Choice(9, Box::new(x.to_value())),
            Tch9x2::X1(x) => Value::Choice(10, Box::new(x.to_value())),
        }
    }
}

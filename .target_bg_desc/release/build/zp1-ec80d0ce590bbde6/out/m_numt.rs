use asn1rs::prelude::*;

#[asn(transparent)]

#[derive(Default, Debug, Clone, PartialEq, Hash)]
pub struct Tnumf0(#[asn(numericstring(size(0)))] pub String);

impl Tnumf0 {
}

impl Tnumf0 {
    pub const fn new(value: String) -> Self {
        Self(value)
    }
}

impl ::core::ops::Deref for Tnumf0 {
    type Target = String;

    fn deref(&self) -> &String {
        &self.0
    }
}

impl ::core::ops::DerefMut for Tnumf0 {
    fn deref_mut(&mut self) -> &mut String {
        &mut self.0
    }
}

impl ::core::convert::From<String> for Tnumf0 {
    fn from(value: String) -> Self {
        Self(value)
    }
}

impl ::core::convert::From<Tnumf0> for String {
    fn from(value: Tnumf0) -> Self {
        value.0
    }
}

#[asn(transparent)]

#[derive(Default, Debug, Clone, PartialEq, Hash)]
pub struct Tnumf2(#[asn(numericstring(size(2)))] pub String);

impl Tnumf2 {
}

impl Tnumf2 {
    pub const fn new(value: String) -> Self {
        Self(value)
    }
}

impl ::core::ops::Deref for Tnumf2 {
    type Target = String;

    fn deref(&self) -> &String {
        &self.0
    }
}

impl ::core::ops::DerefMut for Tnumf2 {
    fn deref_mut(&mut self) -> &mut String {
        &mut self.0
    }
}

impl ::core::convert::From<String> for Tnumf2 {
    fn from(value: String) -> Self {
        Self(value)
    }
}

impl ::core::convert::From<Tnumf2> for String {
    fn from(value: Tnumf2) -> Self {
        value.0
    }
}

#[asn(transparent)]

#[derive(Default, Debug, Clone, PartialEq, Hash)]
pub struct Tnumf17(#[asn(numericstring(size(17)))] pub String);

impl Tnumf17 {
}

impl Tnumf17 {
    pub const fn new(value: String) -> Self {
        Self(value)
    }
}

impl ::core::ops::Deref for Tnumf17 {
    type Target = String;

    fn deref(&self) -> &String {
        &self.0
    }
}

impl ::core::ops::DerefMut for Tnumf17 {
    fn deref_mut(&mut self) -> &mut String {
        &mut self.0
    }
}

impl ::core::convert::From<String> for Tnumf17 {
    fn from(value: String) -> Self {
        Self(value)
    }
}

impl ::core::convert::From<Tnumf17> for String {
    fn from(value: Tnumf17) -> Self {
        value.0
    }
}

#[asn(transparent)]

#[derive(Default, Debug, Clone, PartialEq, Hash)]
pub struct Tnumr0to1(#[asn(numericstring(size(0..1)))] pub String);

impl Tnumr0to1 {
}

impl Tnumr0to1 {
    pub const fn new(value: String) -> Self {
        Self(value)
    }
}

impl ::core::ops::Deref for Tnumr0to1 {
    type Target = String;

    fn deref(&self) -> &String {
        &self.0
    }
}

impl ::core::ops::DerefMut for Tnumr0to1 {
    fn deref_mut(&mut self) -> &mut String {
        &mut self.0
    }
}

impl ::core::convert::From<String> for Tnumr0to1 {
    fn from(value: String) -> Self {
        Self(value)
    }
}

impl ::core::convert::From<Tnumr0to1> for String {
    fn from(value: Tnumr0to1) -> Self {
        value.0
    }
}

#[asn(transparent)]

#[derive(Default, Debug, Clone, PartialEq, Hash)]
pub struct Tnumr0to255(#[asn(numericstring(size(0..255)))] pub String);

impl Tnumr0to255 {
}

impl Tnumr0to255 {
    pub const fn new(value: String) -> Self {
        Self(value)
    }
}

impl ::core::ops::Deref for Tnumr0to255 {
    type Target = String;

    fn deref(&self) -> &String {
        &self.0
    }
}

impl ::core::ops::DerefMut for Tnumr0to255 {
    fn deref_mut(&mut self) -> &mut String {
        &mut self.0
    }
}

impl ::core::convert::From<String> for Tnumr0to255 {
    fn from(value: String) -> Self {
        Self(value)
    }
}

impl ::core::convert::From<Tnumr0to255> for String {
    fn from(value: Tnumr0to255) -> Self {
        value.0
    }
}

#[asn(transparent)]

#[derive(Default, Debug, Clone, PartialEq, Hash)]
pub struct Tnumr0to256(#[asn(numericstring(size(0..256)))] pub String);

impl Tnumr0to256 {
}

impl Tnumr0to256 {
    pub const fn new(value: String) -> Self {
        Self(value)
    }
}

impl ::core::ops::Deref for Tnumr0to256 {
    type Target = String;

    fn deref(&self) -> &String {
        &self.0
    }
}

impl ::core::ops::DerefMut for Tnumr0to256 {
    fn deref_mut(&mut self) -> &mut String {
        &mut self.0
    }
}

impl ::core::convert::From<String> for Tnumr0to256 {
    fn from(value: String) -> Self {
        Self(value)
    }
}

impl ::core::convert::From<Tnumr0to256> for String {
    fn from(value: Tnumr0to256) -> Self {
        value.0
    }
}

#[asn(transparent)]

#[derive(Default, Debug, Clone, PartialEq, Hash)]
pub struct Tnumr1to65535(#[asn(numericstring(size(1..65535)))] pub String);

impl Tnumr1to65535 {
}

impl Tnumr1to65535 {
    pub const fn new(value: String) -> Self {
        Self(value)
    }
}

impl ::core::ops::Deref for Tnumr1to65535 {
    type Target = String;

    fn deref(&self) -> &String {
        &self.0
    }
}

impl ::core::ops::DerefMut for Tnumr1to65535 {
    fn deref_mut(&mut self) -> &mut String {
        &mut self.0
    }
}

impl ::core::convert::From<String> for Tnumr1to65535 {
    fn from(value: String) -> Self {
        Self(value)
    }
}

impl ::core::convert::From<Tnumr1to65535> for String {
    fn from(value: Tnumr1to65535) -> Self {
        value.0
    }
}

#[asn(transparent)]

#[derive(Default, Debug, Clone, PartialEq, Hash)]
pub struct Tnumr1to65536(#[asn(numericstring(size(1..65536)))] pub String);

impl Tnumr1to65536 {
}

impl Tnumr1to65536 {
    pub const fn new(value: String) -> Self {
        Self(value)
    }
}

impl ::core::ops::Deref for Tnumr1to65536 {
    type Target = String;

    fn deref(&self) -> &String {
        &self.0
    }
}

impl ::core::ops::DerefMut for Tnumr1to65536 {
    fn deref_mut(&mut self) -> &mut String {
        &mut self.0
    }
}

impl ::core::convert::From<String> for Tnumr1to65536 {
    fn from(value: String) -> Self {
        Self(value)
    }
}

impl ::core::convert::From<Tnumr1to65536> for String {
    fn from(value: Tnumr1to65536) -> Self {
        value.0
    }
}

#[asn(transparent)]

#[derive(Default, Debug, Clone, PartialEq, Hash)]
pub struct Tnumr0to65535x(#[asn(numericstring(size(0..65535,...)))] pub String);

impl Tnumr0to65535x {
}

impl Tnumr0to65535x {
    pub const fn new(value: String) -> Self {
        Self(value)
    }
}

impl ::core::ops::Deref for Tnumr0to65535x {
    type Target = String;

    fn deref(&self) -> &String {
        &self.0
    }
}

impl ::core::ops::DerefMut for Tnumr0to65535x {
    fn deref_mut(&mut self) -> &mut String {
        &mut self.0
    }
}

impl ::core::convert::From<String> for Tnumr0to65535x {
    fn from(value: String) -> Self {
        Self(value)
    }
}

impl ::core::convert::From<Tnumr0to65535x> for String {
    fn from(value: Tnumr0to65535x) -> Self {
        value.0
    }
}
// ---- harness conversions (generated by the zoo build script from the items above) ----
impl FromValue for Tnumf0 { fn from_value(v: &Value) -> Self { Tnumf0(FromValue::from_value(v)) } }
impl ToValue for Tnumf0 { fn to_value(&self) -> Value { self.0.to_value() } }
impl FromValue for Tnumf2 { fn from_value(v: &Value) -> Self { Tnumf2(FromValue::from_value(v)) } }
impl ToValue for Tnumf2 { fn to_value(&self) -> Value { self.0.to_value() } }
impl FromValue for Tnumf17 { fn from_value(v: &Value) -> Self { Tnumf17(FromValue::from_value(v)) } }
impl ToValue for Tnumf17 { fn to_value(&self) -> Value { self.0.to_value() } }
impl FromValue for Tnumr0to1 { fn from_value(v: &Value) -> Self { Tnumr0to1(FromValue::from_value(v)) } }
impl ToValue for Tnumr0to1 { fn to_value(&self) -> Value { self.0.to_value() } }
impl FromValue for Tnumr0to255 { fn from_value(v: &Value) -> Self { Tnumr0to255(FromValue::from_value(v)) } }
impl ToValue for Tnumr0to255 { fn to_value(&self) -> Value { self.0.to_value() } }
impl FromValue for Tnumr0to256 { fn from_value(v: &Value) -> Self { Tnumr0to256(FromValue::from_value(v)) } }
impl ToValue for Tnumr0to256 { fn to_value(&self) -> Value { self.0.to_value() } }
impl FromValue for Tnumr1to65535 { fn from_value(v: &Value) -> Self { Tnumr1to65535(FromValue::from_value(v)) } }
impl ToValue for Tnumr1to65535 { fn to_value(&self) -> Value { self.0.to_value() } }
impl FromValue for Tnumr1to65536 { fn from_value(v: &Value) -> Self { Tnumr1to65536(FromValue::from_value(v)) } }
impl ToValue for Tnumr1to65536 { fn to_value(&self) -> Value { self.0.to_value() } }
impl FromValue for Tnumr0to65535x { fn from_value(v: &Value) -> Self { Tnumr0to65535x(FromValue::from_value(v)) } }
impl ToValue for Tnumr0to65535x { fn to_value(&self) -> Value { self.0.to_value() } }

use asn1rs::prelude::*;

#[asn(sequence)]

#[derive(Default, Debug, Clone, PartialEq, Hash)]
pub struct Ts5moooon {
    #[asn(integer(0..7))] pub f0: u8,
    #[asn(optional(integer(0..7)))] pub f1: Option<u8>,
    #[asn(optional(integer(0..7)))] pub f2: Option<u8>,
    #[asn(optional(integer(0..7)))] pub f3: Option<u8>,
    #[asn(optional(integer(0..7)))] pub f4: Option<u8>,
}

impl Ts5moooon {
    pub const fn f0_min() -> u8 {
        0
    }

    pub const fn f0_max() -> u8 {
        7
    }

    pub const fn f1_min() -> u8 {
        0
    }

    pub const fn f1_max() -> u8 {
        7
    }

    pub const fn f2_min() -> u8 {
        0
    }

    pub const fn f2_max() -> u8 {
        7
    }

    pub const fn f3_min() -> u8 {
        0
    }

    pub const fn f3_max() -> u8 {
        7
    }

    pub const fn f4_min() -> u8 {
        0
    }

    pub const fn f4_max() -> u8 {
        7
    }
}

#[asn(sequence, extensible_after(f0))]

#[derive(Default, Debug, Clone, PartialEq, Hash)]
pub struct Ts5mooooe0 {
    #[asn(integer(0..7))] pub f0: u8,
    #[asn(optional(integer(0..7)))] pub f1: Option<u8>,
    #[asn(optional(integer(0..7)))] pub f2: Option<u8>,
    #[asn(optional(integer(0..7)))] pub f3: Option<u8>,
    #[asn(optional(integer(0..7)))] pub f4: Option<u8>,
}

impl Ts5mooooe0 {
    pub const fn f0_min() -> u8 {
        0
    }

    pub const fn f0_max() -> u8 {
        7
    }

    pub const fn f1_min() -> u8 {
        0
    }

    pub const fn f1_max() -> u8 {
        7
    }

    pub const fn f2_min() -> u8 {
        0
    }

    pub const fn f2_max() -> u8 {
        7
    }

    pub const fn f3_min() -> u8 {
        0
    }

    pub const fn f3_max() -> u8 {
        7
    }

    pub const fn f4_min() -> u8 {
        0
    }

    pub const fn f4_max() -> u8 {
        7
    }
}

#[asn(sequence, extensible_after(f0))]

#[derive(Default, Debug, Clone, PartialEq, Hash)]
pub struct Ts5mooooe1 {
    #[asn(integer(0..7))] pub f0: u8,
    #[asn(optional(integer(0..7)))] pub f1: Option<u8>,
    #[asn(optional(integer(0..7)))] pub f2: Option<u8>,
    #[asn(optional(integer(0..7)))] pub f3: Option<u8>,
    #[asn(optional(integer(0..7)))] pub f4: Option<u8>,
}

impl Ts5mooooe1 {
    pub const fn f0_min() -> u8 {
        0
    }

    pub const fn f0_max() -> u8 {
        7
    }

    pub const fn f1_min() -> u8 {
        0
    }

    pub const fn f1_max() -> u8 {
        7
    }

    pub const fn f2_min() -> u8 {
        0
    }

    pub const fn f2_max() -> u8 {
        7
    }

    pub const fn f3_min() -> u8 {
        0
    }

    pub const fn f3_max() -> u8 {
        7
    }

    pub const fn f4_min() -> u8 {
        0
    }

    pub const fn f4_max() -> u8 {
        7
    }
}

#[asn(sequence, extensible_after(f1))]

#[derive(Default, Debug, Clone, PartialEq, Hash)]
pub struct Ts5mooooe2 {
    #[asn(integer(0..7))] pub f0: u8,
    #[asn(optional(integer(0..7)))] pub f1: Option<u8>,
    #[asn(optional(integer(0..7)))] pub f2: Option<u8>,
    #[asn(optional(integer(0..7)))] pub f3: Option<u8>,
    #[asn(optional(integer(0..7)))] pub f4: Option<u8>,
}

impl Ts5mooooe2 {
    pub const fn f0_min() -> u8 {
        0
    }

    pub const fn f0_max() -> u8 {
        7
    }

    pub const fn f1_min() -> u8 {
        0
    }

    pub const fn f1_max() -> u8 {
        7
    }

    pub const fn f2_min() -> u8 {
        0
    }

    pub const fn f2_max() -> u8 {
        7
    }

    pub const fn f3_min() -> u8 {
        0
    }

    pub const fn f3_max() -> u8 {
        7
    }

    pub const fn f4_min() -> u8 {
        0
    }

    pub const fn f4_max() -> u8 {
        7
    }
}

#[asn(sequence, extensible_after(f2))]

#[derive(Default, Debug, Clone, PartialEq, Hash)]
pub struct Ts5mooooe3 {
    #[asn(integer(0..7))] pub f0: u8,
    #[asn(optional(integer(0..7)))] pub f1: Option<u8>,
    #[asn(optional(integer(0..7)))] pub f2: Option<u8>,
    #[asn(optional(integer(0..7)))] pub f3: Option<u8>,
    #[asn(optional(integer(0..7)))] pub f4: Option<u8>,
}

impl Ts5mooooe3 {
    pub const fn f0_min() -> u8 {
        0
    }

    pub const fn f0_max() -> u8 {
        7
    }

    pub const fn f1_min() -> u8 {
        0
    }

    pub const fn f1_max() -> u8 {
        7
    }

    pub const fn f2_min() -> u8 {
        0
    }

    pub const fn f2_max() -> u8 {
        7
    }

    pub const fn f3_min() -> u8 {
        0
    }

    pub const fn f3_max() -> u8 {
        7
    }

    pub const fn f4_min() -> u8 {
        0
    }

    pub const fn f4_max() -> u8 {
        7
    }
}

#[asn(sequence, extensible_after(f3))]

#[derive(Default, Debug, Clone, PartialEq, Hash)]
pub struct Ts5mooooe4 {
    #[asn(integer(0..7))] pub f0: u8,
    #[asn(optional(integer(0..7)))] pub f1: Option<u8>,
    #[asn(optional(integer(0..7)))] pub f2: Option<u8>,
    #[asn(optional(integer(0..7)))] pub f3: Option<u8>,
    #[asn(optional(integer(0..7)))] pub f4: Option<u8>,
}

impl Ts5mooooe4 {
    pub const fn f0_min() -> u8 {
        0
    }

    pub const fn f0_max() -> u8 {
        7
    }

    pub const fn f1_min() -> u8 {
        0
    }

    pub const fn f1_max() -> u8 {
        7
    }

    pub const fn f2_min() -> u8 {
        0
    }

    pub const fn f2_max() -> u8 {
        7
    }

    pub const fn f3_min() -> u8 {
        0
    }

    pub const fn f3_max() -> u8 {
        7
    }

    pub const fn f4_min() -> u8 {
        0
    }

    pub const fn f4_max() -> u8 {
        7
    }
}

#[asn(sequence, extensible_after(f4))]

#[derive(Default, Debug, Clone, PartialEq, Hash)]
pub struct Ts5mooooe5 {
    #[asn(integer(0..7))] pub f0: u8,
    #[asn(optional(integer(0..7)))] pub f1: Option<u8>,
    #[asn(optional(integer(0..7)))] pub f2: Option<u8>,
    #[asn(optional(integer(0..7)))] pub f3: Option<u8>,
    #[asn(optional(integer(0..7)))] pub f4: Option<u8>,
}

impl Ts5mooooe5 {
    pub const fn f0_min() -> u8 {
        0
    }

    pub const fn f0_max() -> u8 {
        7
    }

    pub const fn f1_min() -> u8 {
        0
    }

    pub const fn f1_max() -> u8 {
        7
    }

    pub const fn f2_min() -> u8 {
        0
    }

    pub const fn f2_max() -> u8 {
        7
    }

    pub const fn f3_min() -> u8 {
        0
    }

    pub const fn f3_max() -> u8 {
        7
    }

    pub const fn f4_min() -> u8 {
        0
    }

    pub const fn f4_max() -> u8 {
        7
    }
}

#[asn(sequence)]

#[derive(Default, Debug, Clone, PartialEq, Hash)]
pub struct Ts5ooooon {
    #[asn(optional(integer(0..7)))] pub f0: Option<u8>,
    #[asn(optional(integer(0..7)))] pub f1: Option<u8>,
    #[asn(optional(integer(0..7)))] pub f2: Option<u8>,
    #[asn(optional(integer(0..7)))] pub f3: Option<u8>,
    #[asn(optional(integer(0..7)))] pub f4: Option<u8>,
}

impl Ts5ooooon {
    pub const fn f0_min() -> u8 {
        0
    }

    pub const fn f0_max() -> u8 {
        7
    }

    pub const fn f1_min() -> u8 {
        0
    }

    pub const fn f1_max() -> u8 {
        7
    }

    pub const fn f2_min() -> u8 {
        0
    }

    pub const fn f2_max() -> u8 {
        7
    }

    pub const fn f3_min() -> u8 {
        0
    }

    pub const fn f3_max() -> u8 {
        7
    }

    pub const fn f4_min() -> u8 {
        0
    }

    pub const fn f4_max() -> u8 {
        7
    }
}

#[asn(sequence, extensible_after(f0))]

#[derive(Default, Debug, Clone, PartialEq, Hash)]
pub struct Ts5oooooe0 {
    #[asn(optional(integer(0..7)))] pub f0: Option<u8>,
    #[asn(optional(integer(0..7)))] pub f1: Option<u8>,
    #[asn(optional(integer(0..7)))] pub f2: Option<u8>,
    #[asn(optional(integer(0..7)))] pub f3: Option<u8>,
    #[asn(optional(integer(0..7)))] pub f4: Option<u8>,
}

impl Ts5oooooe0 {
    pub const fn f0_min() -> u8 {
        0
    }

    pub const fn f0_max() -> u8 {
        7
    }

    pub const fn f1_min() -> u8 {
        0
    }

    pub const fn f1_max() -> u8 {
        7
    }

    pub const fn f2_min() -> u8 {
        0
    }

    pub const fn f2_max() -> u8 {
        7
    }

    pub const fn f3_min() -> u8 {
        0
    }

    pub const fn f3_max() -> u8 {
        7
    }

    pub const fn f4_min() -> u8 {
        0
    }

    pub const fn f4_max() -> u8 {
        7
    }
}

#[asn(sequence, extensible_after(f0))]

#[derive(Default, Debug, Clone, PartialEq, Hash)]
pub struct Ts5oooooe1 {
    #[asn(optional(integer(0..7)))] pub f0: Option<u8>,
    #[asn(optional(integer(0..7)))] pub f1: Option<u8>,
    #[asn(optional(integer(0..7)))] pub f2: Option<u8>,
    #[asn(optional(integer(0..7)))] pub f3: Option<u8>,
    #[asn(optional(integer(0..7)))] pub f4: Option<u8>,
}

impl Ts5oooooe1 {
    pub const fn f0_min() -> u8 {
        0
    }

    pub const fn f0_max() -> u8 {
        7
    }

    pub const fn f1_min() -> u8 {
        0
    }

    pub const fn f1_max() -> u8 {
        7
    }

    pub const fn f2_min() -> u8 {
        0
    }

    pub const fn f2_max() -> u8 {
        7
    }

    pub const fn f3_min() -> u8 {
        0
    }

    pub const fn f3_max() -> u8 {
        7
    }

    pub const fn f4_min() -> u8 {
        0
    }

    pub const fn f4_max() -> u8 {
        7
    }
}

#[asn(sequence, extensible_after(f1))]

#[derive(Default, Debug, Clone, PartialEq, Hash)]
pub struct Ts5oooooe2 {
    #[asn(optional(integer(0..7)))] pub f0: Option<u8>,
    #[asn(optional(integer(0..7)))] pub f1: Option<u8>,
    #[asn(optional(integer(0..7)))] pub f2: Option<u8>,
    #[asn(optional(integer(0..7)))] pub f3: Option<u8>,
    #[asn(optional(integer(0..7)))] pub f4: Option<u8>,
}

impl Ts5oooooe2 {
    pub const fn f0_min() -> u8 {
        0
    }

    pub const fn f0_max() -> u8 {
        7
    }

    pub const fn f1_min() -> u8 {
        0
    }

    pub const fn f1_max() -> u8 {
        7
    }

    pub const fn f2_min() -> u8 {
        0
    }

    pub const fn f2_max() -> u8 {
        7
    }

    pub const fn f3_min() -> u8 {
        0
    }

    pub const fn f3_max() -> u8 {
        7
    }

    pub const fn f4_min() -> u8 {
        0
    }

    pub const fn f4_max() -> u8 {
        7
    }
}

#[asn(sequence, extensible_after(f2))]

#[derive(Default, Debug, Clone, PartialEq, Hash)]
pub struct Ts5oooooe3 {
    #[asn(optional(integer(0..7)))] pub f0: Option<u8>,
    #[asn(optional(integer(0..7)))] pub f1: Option<u8>,
    #[asn(optional(integer(0..7)))] pub f2: Option<u8>,
    #[asn(optional(integer(0..7)))] pub f3: Option<u8>,
    #[asn(optional(integer(0..7)))] pub f4: Option<u8>,
}

impl Ts5oooooe3 {
    pub const fn f0_min() -> u8 {
        0
    }

    pub const fn f0_max() -> u8 {
        7
    }

    pub const fn f1_min() -> u8 {
        0
    }

    pub const fn f1_max() -> u8 {
        7
    }

    pub const fn f2_min() -> u8 {
        0
    }

    pub const fn f2_max() -> u8 {
        7
    }

    pub const fn f3_min() -> u8 {
        0
    }

    pub const fn f3_max() -> u8 {
        7
    }

    pub const fn f4_min() -> u8 {
        0
    }

    pub const fn f4_max() -> u8 {
        7
    }
}

#[asn(sequence, extensible_after(f3))]

#[derive(Default, Debug, Clone, PartialEq, Hash)]
pub struct Ts5oooooe4 {
    #[asn(optional(integer(0..7)))] pub f0: Option<u8>,
    #[asn(optional(integer(0..7)))] pub f1: Option<u8>,
    #[asn(optional(integer(0..7)))] pub f2: Option<u8>,
    #[asn(optional(integer(0..7)))] pub f3: Option<u8>,
    #[asn(optional(integer(0..7)))] pub f4: Option<u8>,
}

impl Ts5oooooe4 {
    pub const fn f0_min() -> u8 {
        0
    }

    pub const fn f0_max() -> u8 {
        7
    }

    pub const fn f1_min() -> u8 {
        0
    }

    pub const fn f1_max() -> u8 {
        7
    }

    pub const fn f2_min() -> u8 {
        0
    }

    pub const fn f2_max() -> u8 {
        7
    }

    pub const fn f3_min() -> u8 {
        0
    }

    pub const fn f3_max() -> u8 {
        7
    }

    pub const fn f4_min() -> u8 {
        0
    }

    pub const fn f4_max() -> u8 {
        7
    }
}

#[asn(sequence, extensible_after(f4))]

#[derive(Default, Debug, Clone, PartialEq, Hash)]
pub struct Ts5oooooe5 {
    #[asn(optional(integer(0..7)))] pub f0: Option<u8>,
    #[asn(optional(integer(0..7)))] pub f1: Option<u8>,
    #[asn(optional(integer(0..7)))] pub f2: Option<u8>,
    #[asn(optional(integer(0..7)))] pub f3: Option<u8>,
    #[asn(optional(integer(0..7)))] pub f4: Option<u8>,
}

impl Ts5oooooe5 {
    pub const fn f0_min() -> u8 {
        0
    }

    pub const fn f0_max() -> u8 {
        7
    }

    pub const fn f1_min() -> u8 {
        0
    }

    pub const fn f1_max() -> u8 {
        7
    }

    pub const fn f2_min() -> u8 {
        0
    }

    pub const fn f2_max() -> u8 {
        7
    }

    pub const fn f3_min() -> u8 {
        0
    }

    pub const fn f3_max() -> u8 {
        7
    }

    pub const fn f4_min() -> u8 {
        0
    }

    pub const fn f4_max() -> u8 {
        7
    }
}

#[asn(sequence)]

#[derive(Default, Debug, Clone, PartialEq, Hash)]
pub struct Ts5doooon {
    #[asn(default(integer(0..7), 5))] pub f0: u8,
    #[asn(optional(integer(0..7)))] pub f1: Option<u8>,
    #[asn(optional(integer(0..7)))] pub f2: Option<u8>,
    #[asn(optional(integer(0..7)))] pub f3: Option<u8>,
    #[asn(optional(integer(0..7)))] pub f4: Option<u8>,
}

impl Ts5doooon {
    pub const fn f0_min() -> u8 {
        0
    }

    pub const fn f0_max() -> u8 {
        7
    }

    pub const fn f1_min() -> u8 {
        0
    }

    pub const fn f1_max() -> u8 {
        7
    }

    pub const fn f2_min() -> u8 {
        0
    }

    pub const fn f2_max() -> u8 {
        7
    }

    pub const fn f3_min() -> u8 {
        0
    }

    pub const fn f3_max() -> u8 {
        7
    }

    pub const fn f4_min() -> u8 {
        0
    }

    pub const fn f4_max() -> u8 {
        7
    }
}

#[asn(sequence, extensible_after(f0))]

#[derive(Default, Debug, Clone, PartialEq, Hash)]
pub struct Ts5dooooe0 {
    #[asn(default(integer(0..7), 5))] pub f0: u8,
    #[asn(optional(integer(0..7)))] pub f1: Option<u8>,
    #[asn(optional(integer(0..7)))] pub f2: Option<u8>,
    #[asn(optional(integer(0..7)))] pub f3: Option<u8>,
    #[asn(optional(integer(0..7)))] pub f4: Option<u8>,
}

impl Ts5dooooe0 {
    pub const fn f0_min() -> u8 {
        0
    }

    pub const fn f0_max() -> u8 {
        7
    }

    pub const fn f1_min() -> u8 {
        0
    }

    pub const fn f1_max() -> u8 {
        7
    }

    pub const fn f2_min() -> u8 {
        0
    }

    pub const fn f2_max() -> u8 {
        7
    }

    pub const fn f3_min() -> u8 {
        0
    }

    pub const fn f3_max() -> u8 {
        7
    }

    pub const fn f4_min() -> u8 {
        0
    }

    pub const fn f4_max() -> u8 {
        7
    }
}

#[asn(sequence, extensible_after(f0))]

#[derive(Default, Debug, Clone, PartialEq, Hash)]
pub struct Ts5dooooe1 {
    #[asn(default(integer(0..7), 5))] pub f0: u8,
    #[asn(optional(integer(0..7)))] pub f1: Option<u8>,
    #[asn(optional(integer(0..7)))] pub f2: Option<u8>,
    #[asn(optional(integer(0..7)))] pub f3: Option<u8>,
    #[asn(optional(integer(0..7)))] pub f4: Option<u8>,
}

impl Ts5dooooe1 {
    pub const fn f0_min() -> u8 {
        0
    }

    pub const fn f0_max() -> u8 {
        7
    }

    pub const fn f1_min() -> u8 {
        0
    }

    pub const fn f1_max() -> u8 {
        7
    }

    pub const fn f2_min() -> u8 {
        0
    }

    pub const fn f2_max() -> u8 {
        7
    }

    pub const fn f3_min() -> u8 {
        0
    }

    pub const fn f3_max() -> u8 {
        7
    }

    pub const fn f4_min() -> u8 {
        0
    }

    pub const fn f4_max() -> u8 {
        7
    }
}

#[asn(sequence, extensible_after(f1))]

#[derive(Default, Debug, Clone, PartialEq, Hash)]
pub struct Ts5dooooe2 {
    #[asn(default(integer(0..7), 5))] pub f0: u8,
    #[asn(optional(integer(0..7)))] pub f1: Option<u8>,
    #[asn(optional(integer(0..7)))] pub f2: Option<u8>,
    #[asn(optional(integer(0..7)))] pub f3: Option<u8>,
    #[asn(optional(integer(0..7)))] pub f4: Option<u8>,
}

impl Ts5dooooe2 {
    pub const fn f0_min() -> u8 {
        0
    }

    pub const fn f0_max() -> u8 {
        7
    }

    pub const fn f1_min() -> u8 {
        0
    }

    pub const fn f1_max() -> u8 {
        7
    }

    pub const fn f2_min() -> u8 {
        0
    }

    pub const fn f2_max() -> u8 {
        7
    }

    pub const fn f3_min() -> u8 {
        0
    }

    pub const fn f3_max() -> u8 {
        7
    }

    pub const fn f4_min() -> u8 {
        0
    }

    pub const fn f4_max() -> u8 {
        7
    }
}

#[asn(sequence, extensible_after(f2))]

#[derive(Default, Debug, Clone, PartialEq, Hash)]
pub struct Ts5dooooe3 {
    #[asn(default(integer(0..7), 5))] pub f0: u8,
    #[asn(optional(integer(0..7)))] pub f1: Option<u8>,
    #[asn(optional(integer(0..7)))] pub f2: Option<u8>,
    #[asn(optional(integer(0..7)))] pub f3: Option<u8>,
    #[asn(optional(integer(0..7)))] pub f4: Option<u8>,
}

impl Ts5dooooe3 {
    pub const fn f0_min() -> u8 {
        0
    }

    pub const fn f0_max() -> u8 {
        7
    }

    pub const fn f1_min() -> u8 {
        0
    }

    pub const fn f1_max() -> u8 {
        7
    }

    pub const fn f2_min() -> u8 {
        0
    }

    pub const fn f2_max() -> u8 {
        7
    }

    pub const fn f3_min() -> u8 {
        0
    }

    pub const fn f3_max() -> u8 {
        7
    }

    pub const fn f4_min() -> u8 {
        0
    }

    pub const fn f4_max() -> u8 {
        7
    }
}

#[asn(sequence, extensible_after(f3))]

#[derive(Default, Debug, Clone, PartialEq, Hash)]
pub struct Ts5dooooe4 {
    #[asn(default(integer(0..7), 5))] pub f0: u8,
    #[asn(optional(integer(0..7)))] pub f1: Option<u8>,
    #[asn(optional(integer(0..7)))] pub f2: Option<u8>,
    #[asn(optional(integer(0..7)))] pub f3: Option<u8>,
    #[asn(optional(integer(0..7)))] pub f4: Option<u8>,
}

impl Ts5dooooe4 {
    pub const fn f0_min() -> u8 {
        0
    }

    pub const fn f0_max() -> u8 {
        7
    }

    pub const fn f1_min() -> u8 {
        0
    }

    pub const fn f1_max() -> u8 {
        7
    }

    pub const fn f2_min() -> u8 {
        0
    }

    pub const fn f2_max() -> u8 {
        7
    }

    pub const fn f3_min() -> u8 {
        0
    }

    pub const fn f3_max() -> u8 {
        7
    }

    pub const fn f4_min() -> u8 {
        0
    }

    pub const fn f4_max() -> u8 {
        7
    }
}

#[asn(sequence, extensible_after(f4))]

#[derive(Default, Debug, Clone, PartialEq, Hash)]
pub struct Ts5dooooe5 {
    #[asn(default(integer(0..7), 5))] pub f0: u8,
    #[asn(optional(integer(0..7)))] pub f1: Option<u8>,
    #[asn(optional(integer(0..7)))] pub f2: Option<u8>,
    #[asn(optional(integer(0..7)))] pub f3: Option<u8>,
    #[asn(optional(integer(0..7)))] pub f4: Option<u8>,
}

impl Ts5dooooe5 {
    pub const fn f0_min() -> u8 {
        0
    }

    pub const fn f0_max() -> u8 {
        7
    }

    pub const fn f1_min() -> u8 {
        0
    }

    pub const fn f1_max() -> u8 {
        7
    }

    pub const fn f2_min() -> u8 {
        0
    }

    pub const fn f2_max() -> u8 {
        7
    }

    pub const fn f3_min() -> u8 {
        0
    }

    pub const fn f3_max() -> u8 {
        7
    }

    pub const fn f4_min() -> u8 {
        0
    }

    pub const fn f4_max() -> u8 {
        7
    }
}

#[asn(sequence)]

#[derive(Default, Debug, Clone, PartialEq, Hash)]
pub struct Ts5mdooon {
    #[asn(integer(0..7))] pub f0: u8,
    #[asn(default(integer(0..7), 5))] pub f1: u8,
    #[asn(optional(integer(0..7)))] pub f2: Option<u8>,
    #[asn(optional(integer(0..7)))] pub f3: Option<u8>,
    #[asn(optional(integer(0..7)))] pub f4: Option<u8>,
}

impl Ts5mdooon {
    pub const fn f0_min() -> u8 {
        0
    }

    pub const fn f0_max() -> u8 {
        7
    }

    pub const fn f1_min() -> u8 {
        0
    }

    pub const fn f1_max() -> u8 {
        7
    }

    pub const fn f2_min() -> u8 {
        0
    }

    pub const fn f2_max() -> u8 {
        7
    }

    pub const fn f3_min() -> u8 {
        0
    }

    pub const fn f3_max() -> u8 {
        7
    }

    pub const fn f4_min() -> u8 {
        0
    }

    pub const fn f4_max() -> u8 {
        7
    }
}

#[asn(sequence, extensible_after(f0))]

#[derive(Default, Debug, Clone, PartialEq, Hash)]
pub struct Ts5mdoooe0 {
    #[asn(integer(0..7))] pub f0: u8,
    #[asn(default(integer(0..7), 5))] pub f1: u8,
    #[asn(optional(integer(0..7)))] pub f2: Option<u8>,
    #[asn(optional(integer(0..7)))] pub f3: Option<u8>,
    #[asn(optional(integer(0..7)))] pub f4: Option<u8>,
}

impl Ts5mdoooe0 {
    pub const fn f0_min() -> u8 {
        0
    }

    pub const fn f0_max() -> u8 {
        7
    }

    pub const fn f1_min() -> u8 {
        0
    }

    pub const fn f1_max() -> u8 {
        7
    }

    pub const fn f2_min() -> u8 {
        0
    }

    pub const fn f2_max() -> u8 {
        7
    }

    pub const fn f3_min() -> u8 {
        0
    }

    pub const fn f3_max() -> u8 {
        7
    }

    pub const fn f4_min() -> u8 {
        0
    }

    pub const fn f4_max() -> u8 {
        7
    }
}

#[asn(sequence, extensible_after(f0))]

#[derive(Default, Debug, Clone, PartialEq, Hash)]
pub struct Ts5mdoooe1 {
    #[asn(integer(0..7))] pub f0: u8,
    #[asn(default(integer(0..7), 5))] pub f1: u8,
    #[asn(optional(integer(0..7)))] pub f2: Option<u8>,
    #[asn(optional(integer(0..7)))] pub f3: Option<u8>,
    #[asn(optional(integer(0..7)))] pub f4: Option<u8>,
}

impl Ts5mdoooe1 {
    pub const fn f0_min() -> u8 {
        0
    }

    pub const fn f0_max() -> u8 {
        7
    }

    pub const fn f1_min() -> u8 {
        0
    }

    pub const fn f1_max() -> u8 {
        7
    }

    pub const fn f2_min() -> u8 {
        0
    }

    pub const fn f2_max() -> u8 {
        7
    }

    pub const fn f3_min() -> u8 {
        0
    }

    pub const fn f3_max() -> u8 {
        7
    }

    pub const fn f4_min() -> u8 {
        0
    }

    pub const fn f4_max() -> u8 {
        7
    }
}

#[asn(sequence, extensible_after(f1))]

#[derive(Default, Debug, Clone, PartialEq, Hash)]
pub struct Ts5mdoooe2 {
    #[asn(integer(0..7))] pub f0: u8,
    #[asn(default(integer(0..7), 5))] pub f1: u8,
    #[asn(optional(integer(0..7)))] pub f2: Option<u8>,
    #[asn(optional(integer(0..7)))] pub f3: Option<u8>,
    #[asn(optional(integer(0..7)))] pub f4: Option<u8>,
}

impl Ts5mdoooe2 {
    pub const fn f0_min() -> u8 {
        0
    }

    pub const fn f0_max() -> u8 {
        7
    }

    pub const fn f1_min() -> u8 {
        0
    }

    pub const fn f1_max() -> u8 {
        7
    }

    pub const fn f2_min() -> u8 {
        0
    }

    pub const fn f2_max() -> u8 {
        7
    }

    pub const fn f3_min() -> u8 {
        0
    }

    pub const fn f3_max() -> u8 {
        7
    }

    pub const fn f4_min() -> u8 {
        0
    }

    pub const fn f4_max() -> u8 {
        7
    }
}

#[asn(sequence, extensible_after(f2))]

#[derive(Default, Debug, Clone, PartialEq, Hash)]
pub struct Ts5mdoooe3 {
    #[asn(integer(0..7))] pub f0: u8,
    #[asn(default(integer(0..7), 5))] pub f1: u8,
    #[asn(optional(integer(0..7)))] pub f2: Option<u8>,
    #[asn(optional(integer(0..7)))] pub f3: Option<u8>,
    #[asn(optional(integer(0..7)))] pub f4: Option<u8>,
}

impl Ts5mdoooe3 {
    pub const fn f0_min() -> u8 {
        0
    }

    pub const fn f0_max() -> u8 {
        7
    }

    pub const fn f1_min() -> u8 {
        0
    }

    pub const fn f1_max() -> u8 {
        7
    }

    pub const fn f2_min() -> u8 {
        0
    }

    pub const fn f2_max() -> u8 {
        7
    }

    pub const fn f3_min() -> u8 {
        0
    }

    pub const fn f3_max() -> u8 {
        7
    }

    pub const fn f4_min() -> u8 {
        0
    }

    pub const fn f4_max() -> u8 {
        7
    }
}

#[asn(sequence, extensible_after(f3))]

#[derive(Default, Debug, Clone, PartialEq, Hash)]
pub struct Ts5mdoooe4 {
    #[asn(integer(0..7))] pub f0: u8,
    #[asn(default(integer(0..7), 5))] pub f1: u8,
    #[asn(optional(integer(0..7)))] pub f2: Option<u8>,
    #[asn(optional(integer(0..7)))] pub f3: Option<u8>,
    #[asn(optional(integer(0..7)))] pub f4: Option<u8>,
}

impl Ts5mdoooe4 {
    pub const fn f0_min() -> u8 {
        0
    }

    pub const fn f0_max() -> u8 {
        7
    }

    pub const fn f1_min() -> u8 {
        0
    }

    pub const fn f1_max() -> u8 {
        7
    }

    pub const fn f2_min() -> u8 {
        0
    }

    pub const fn f2_max() -> u8 {
        7
    }

    pub const fn f3_min() -> u8 {
        0
    }

    pub const fn f3_max() -> u8 {
        7
    }

    pub const fn f4_min() -> u8 {
        0
    }

    pub const fn f4_max() -> u8 {
        7
    }
}

#[asn(sequence, extensible_after(f4))]

#[derive(Default, Debug, Clone, PartialEq, Hash)]
pub struct Ts5mdoooe5 {
    #[asn(integer(0..7))] pub f0: u8,
    #[asn(default(integer(0..7), 5))] pub f1: u8,
    #[asn(optional(integer(0..7)))] pub f2: Option<u8>,
    #[asn(optional(integer(0..7)))] pub f3: Option<u8>,
    #[asn(optional(integer(0..7)))] pub f4: Option<u8>,
}

impl Ts5mdoooe5 {
    pub const fn f0_min() -> u8 {
        0
    }

    pub const fn f0_max() -> u8 {
        7
    }

    pub const fn f1_min() -> u8 {
        0
    }

    pub const fn f1_max() -> u8 {
        7
    }

    pub const fn f2_min() -> u8 {
        0
    }

    pub const fn f2_max() -> u8 {
        7
    }

    pub const fn f3_min() -> u8 {
        0
    }

    pub const fn f3_max() -> u8 {
        7
    }

    pub const fn f4_min() -> u8 {
        0
    }

    pub const fn f4_max() -> u8 {
        7
    }
}

#[asn(sequence)]

#[derive(Default, Debug, Clone, PartialEq, Hash)]
pub struct Ts5odooon {
    #[asn(optional(integer(0..7)))] pub f0: Option<u8>,
    #[asn(default(integer(0..7), 5))] pub f1: u8,
    #[asn(optional(integer(0..7)))] pub f2: Option<u8>,
    #[asn(optional(integer(0..7)))] pub f3: Option<u8>,
    #[asn(optional(integer(0..7)))] pub f4: Option<u8>,
}

impl Ts5odooon {
    pub const fn f0_min() -> u8 {
        0
    }

    pub const fn f0_max() -> u8 {
        7
    }

    pub const fn f1_min() -> u8 {
        0
    }

    pub const fn f1_max() -> u8 {
        7
    }

    pub const fn f2_min() -> u8 {
        0
    }

    pub const fn f2_max() -> u8 {
        7
    }

    pub const fn f3_min() -> u8 {
        0
    }

    pub const fn f3_max() -> u8 {
        7
    }

    pub const fn f4_min() -> u8 {
        0
    }

    pub const fn f4_max() -> u8 {
        7
    }
}

#[asn(sequence, extensible_after(f0))]

#[derive(Default, Debug, Clone, PartialEq, Hash)]
pub struct Ts5odoooe0 {
    #[asn(optional(integer(0..7)))] pub f0: Option<u8>,
    #[asn(default(integer(0..7), 5))] pub f1: u8,
    #[asn(optional(integer(0..7)))] pub f2: Option<u8>,
    #[asn(optional(integer(0..7)))] pub f3: Option<u8>,
    #[asn(optional(integer(0..7)))] pub f4: Option<u8>,
}

impl Ts5odoooe0 {
    pub const fn f0_min() -> u8 {
        0
    }

    pub const fn f0_max() -> u8 {
        7
    }

    pub const fn f1_min() -> u8 {
        0
    }

    pub const fn f1_max() -> u8 {
        7
    }

    pub const fn f2_min() -> u8 {
        0
    }

    pub const fn f2_max() -> u8 {
        7
    }

    pub const fn f3_min() -> u8 {
        0
    }

    pub const fn f3_max() -> u8 {
        7
    }

    pub const fn f4_min() -> u8 {
        0
    }

    pub const fn f4_max() -> u8 {
        7
    }
}

#[asn(sequence, extensible_after(f0))]

#[derive(Default, Debug, Clone, PartialEq, Hash)]
pub struct Ts5odoooe1 {
    #[asn(optional(integer(0..7)))] pub f0: Option<u8>,
    #[asn(default(integer(0..7), 5))] pub f1: u8,
    #[asn(optional(integer(0..7)))] pub f2: Option<u8>,
    #[asn(optional(integer(0..7)))] pub f3: Option<u8>,
    #[asn(optional(integer(0..7)))] pub f4: Option<u8>,
}

impl Ts5odoooe1 {
    pub const fn f0_min() -> u8 {
        0
    }

    pub const fn f0_max() -> u8 {
        7
    }

    pub const fn f1_min() -> u8 {
        0
    }

    pub const fn f1_max() -> u8 {
        7
    }

    pub const fn f2_min() -> u8 {
        0
    }

    pub const fn f2_max() -> u8 {
        7
    }

    pub const fn f3_min() -> u8 {
        0
    }

    pub const fn f3_max() -> u8 {
        7
    }

    pub const fn f4_min() -> u8 {
        0
    }

    pub const fn f4_max() -> u8 {
        7
    }
}

#[asn(sequence, extensible_after(f1))]

#[derive(Default, Debug, Clone, PartialEq, Hash)]
pub struct Ts5odoooe2 {
    #[asn(optional(integer(0..7)))] pub f0: Option<u8>,
    #[asn(default(integer(0..7), 5))] pub f1: u8,
    #[asn(optional(integer(0..7)))] pub f2: Option<u8>,
    #[asn(optional(integer(0..7)))] pub f3: Option<u8>,
    #[asn(optional(integer(0..7)))] pub f4: Option<u8>,
}

impl Ts5odoooe2 {
    pub const fn f0_min() -> u8 {
        0
    }

    pub const fn f0_max() -> u8 {
        7
    }

    pub const fn f1_min() -> u8 {
        0
    }

    pub const fn f1_max() -> u8 {
        7
    }

    pub const fn f2_min() -> u8 {
        0
    }

    pub const fn f2_max() -> u8 {
        7
    }

    pub const fn f3_min() -> u8 {
        0
    }

    pub const fn f3_max() -> u8 {
        7
    }

    pub const fn f4_min() -> u8 {
        0
    }

    pub const fn f4_max() -> u8 {
        7
    }
}

#[asn(sequence, extensible_after(f2))]

#[derive(Default, Debug, Clone, PartialEq, Hash)]
pub struct Ts5odoooe3 {
    #[asn(optional(integer(0..7)))] pub f0: Option<u8>,
    #[asn(default(integer(0..7), 5))] pub f1: u8,
    #[asn(optional(integer(0..7)))] pub f2: Option<u8>,
    #[asn(optional(integer(0..7)))] pub f3: Option<u8>,
    #[asn(optional(integer(0..7)))] pub f4: Option<u8>,
}

impl Ts5odoooe3 {
    pub const fn f0_min() -> u8 {
        0
    }

    pub const fn f0_max() -> u8 {
        7
    }

    pub const fn f1_min() -> u8 {
        0
    }

    pub const fn f1_max() -> u8 {
        7
    }

    pub const fn f2_min() -> u8 {
        0
    }

    pub const fn f2_max() -> u8 {
        7
    }

    pub const fn f3_min() -> u8 {
        0
    }

    pub const fn f3_max() -> u8 {
        7
    }

    pub const fn f4_min() -> u8 {
        0
    }

    pub const fn f4_max() -> u8 {
        7
    }
}

#[asn(sequence, extensible_after(f3))]

#[derive(Default, Debug, Clone, PartialEq, Hash)]
pub struct Ts5odoooe4 {
    #[asn(optional(integer(0..7)))] pub f0: Option<u8>,
    #[asn(default(integer(0..7), 5))] pub f1: u8,
    #[asn(optional(integer(0..7)))] pub f2: Option<u8>,
    #[asn(optional(integer(0..7)))] pub f3: Option<u8>,
    #[asn(optional(integer(0..7)))] pub f4: Option<u8>,
}

impl Ts5odoooe4 {
    pub const fn f0_min() -> u8 {
        0
    }

    pub const fn f0_max() -> u8 {
        7
    }

    pub const fn f1_min() -> u8 {
        0
    }

    pub const fn f1_max() -> u8 {
        7
    }

    pub const fn f2_min() -> u8 {
        0
    }

    pub const fn f2_max() -> u8 {
        7
    }

    pub const fn f3_min() -> u8 {
        0
    }

    pub const fn f3_max() -> u8 {
        7
    }

    pub const fn f4_min() -> u8 {
        0
    }

    pub const fn f4_max() -> u8 {
        7
    }
}

#[asn(sequence, extensible_after(f4))]

#[derive(Default, Debug, Clone, PartialEq, Hash)]
pub struct Ts5odoooe5 {
    #[asn(optional(integer(0..7)))] pub f0: Option<u8>,
    #[asn(default(integer(0..7), 5))] pub f1: u8,
    #[asn(optional(integer(0..7)))] pub f2: Option<u8>,
    #[asn(optional(integer(0..7)))] pub f3: Option<u8>,
    #[asn(optional(integer(0..7)))] pub f4: Option<u8>,
}

impl Ts5odoooe5 {
    pub const fn f0_min() -> u8 {
        0
    }

    pub const fn f0_max() -> u8 {
        7
    }

    pub const fn f1_min() -> u8 {
        0
    }

    pub const fn f1_max() -> u8 {
        7
    }

    pub const fn f2_min() -> u8 {
        0
    }

    pub const fn f2_max() -> u8 {
        7
    }

    pub const fn f3_min() -> u8 {
        0
    }

    pub const fn f3_max() -> u8 {
        7
    }

    pub const fn f4_min() -> u8 {
        0
    }

    pub const fn f4_max() -> u8 {
        7
    }
}

#[asn(sequence)]

#[derive(Default, Debug, Clone, PartialEq, Hash)]
pub struct Ts5ddooon {
    #[asn(default(integer(0..7), 5))] pub f0: u8,
    #[asn(default(integer(0..7), 5))] pub f1: u8,
    #[asn(optional(integer(0..7)))] pub f2: Option<u8>,
    #[asn(optional(integer(0..7)))] pub f3: Option<u8>,
    #[asn(optional(integer(0..7)))] pub f4: Option<u8>,
}

impl Ts5ddooon {
    pub const fn f0_min() -> u8 {
        0
    }

    pub const fn f0_max() -> u8 {
        7
    }

    pub const fn f1_min() -> u8 {
        0
    }

    pub const fn f1_max() -> u8 {
        7
    }

    pub const fn f2_min() -> u8 {
        0
    }

    pub const fn f2_max() -> u8 {
        7
    }

    pub const fn f3_min() -> u8 {
        0
    }

    pub const fn f3_max() -> u8 {
        7
    }

    pub const fn f4_min() -> u8 {
        0
    }

    pub const fn f4_max() -> u8 {
        7
    }
}

#[asn(sequence, extensible_after(f0))]

#[derive(Default, Debug, Clone, PartialEq, Hash)]
pub struct Ts5ddoooe0 {
    #[asn(default(integer(0..7), 5))] pub f0: u8,
    #[asn(default(integer(0..7), 5))] pub f1: u8,
    #[asn(optional(integer(0..7)))] pub f2: Option<u8>,
    #[asn(optional(integer(0..7)))] pub f3: Option<u8>,
    #[asn(optional(integer(0..7)))] pub f4: Option<u8>,
}

impl Ts5ddoooe0 {
    pub const fn f0_min() -> u8 {
        0
    }

    pub const fn f0_max() -> u8 {
        7
    }

    pub const fn f1_min() -> u8 {
        0
    }

    pub const fn f1_max() -> u8 {
        7
    }

    pub const fn f2_min() -> u8 {
        0
    }

    pub const fn f2_max() -> u8 {
        7
    }

    pub const fn f3_min() -> u8 {
        0
    }

    pub const fn f3_max() -> u8 {
        7
    }

    pub const fn f4_min() -> u8 {
        0
    }

    pub const fn f4_max() -> u8 {
        7
    }
}

#[asn(sequence, extensible_after(f0))]

#[derive(Default, Debug, Clone, PartialEq, Hash)]
pub struct Ts5ddoooe1 {
    #[asn(default(integer(0..7), 5))] pub f0: u8,
    #[asn(default(integer(0..7), 5))] pub f1: u8,
    #[asn(optional(integer(0..7)))] pub f2: Option<u8>,
    #[asn(optional(integer(0..7)))] pub f3: Option<u8>,
    #[asn(optional(integer(0..7)))] pub f4: Option<u8>,
}

impl Ts5ddoooe1 {
    pub const fn f0_min() -> u8 {
        0
    }

    pub const fn f0_max() -> u8 {
        7
    }

    pub const fn f1_min() -> u8 {
        0
    }

    pub const fn f1_max() -> u8 {
        7
    }

    pub const fn f2_min() -> u8 {
        0
    }

    pub const fn f2_max() -> u8 {
        7
    }

    pub const fn f3_min() -> u8 {
        0
    }

    pub const fn f3_max() -> u8 {
        7
    }

    pub const fn f4_min() -> u8 {
        0
    }

    pub const fn f4_max() -> u8 {
        7
    }
}

#[asn(sequence, extensible_after(f1))]

#[derive(Default, Debug, Clone, PartialEq, Hash)]
pub struct Ts5ddoooe2 {
    #[asn(default(integer(0..7), 5))] pub f0: u8,
    #[asn(default(integer(0..7), 5))] pub f1: u8,
    #[asn(optional(integer(0..7)))] pub f2: Option<u8>,
    #[asn(optional(integer(0..7)))] pub f3: Option<u8>,
    #[asn(optional(integer(0..7)))] pub f4: Option<u8>,
}

impl Ts5ddoooe2 {
    pub const fn f0_min() -> u8 {
        0
    }

    pub const fn f0_max() -> u8 {
        7
    }

    pub const fn f1_min() -> u8 {
        0
    }

    pub const fn f1_max() -> u8 {
        7
    }

    pub const fn f2_min() -> u8 {
        0
    }

    pub const fn f2_max() -> u8 {
        7
    }

    pub const fn f3_min() -> u8 {
        0
    }

    pub const fn f3_max() -> u8 {
        7
    }

    pub const fn f4_min() -> u8 {
        0
    }

    pub const fn f4_max() -> u8 {
        7
    }
}

#[asn(sequence, extensible_after(f2))]

#[derive(Default, Debug, Clone, PartialEq, Hash)]
pub struct Ts5ddoooe3 {
    #[asn(default(integer(0..7), 5))] pub f0: u8,
    #[asn(default(integer(0..7), 5))] pub f1: u8,
    #[asn(optional(integer(0..7)))] pub f2: Option<u8>,
    #[asn(optional(integer(0..7)))] pub f3: Option<u8>,
    #[asn(optional(integer(0..7)))] pub f4: Option<u8>,
}

impl Ts5ddoooe3 {
    pub const fn f0_min() -> u8 {
        0
    }

    pub const fn f0_max() -> u8 {
        7
    }

    pub const fn f1_min() -> u8 {
        0
    }

    pub const fn f1_max() -> u8 {
        7
    }

    pub const fn f2_min() -> u8 {
        0
    }

    pub const fn f2_max() -> u8 {
        7
    }

    pub const fn f3_min() -> u8 {
        0
    }

    pub const fn f3_max() -> u8 {
        7
    }

    pub const fn f4_min() -> u8 {
        0
    }

    pub const fn f4_max() -> u8 {
        7
    }
}

#[asn(sequence, extensible_after(f3))]

#[derive(Default, Debug, Clone, PartialEq, Hash)]
pub struct Ts5ddoooe4 {
    #[asn(default(integer(0..7), 5))] pub f0: u8,
    #[asn(default(integer(0..7), 5))] pub f1: u8,
    #[asn(optional(integer(0..7)))] pub f2: Option<u8>,
    #[asn(optional(integer(0..7)))] pub f3: Option<u8>,
    #[asn(optional(integer(0..7)))] pub f4: Option<u8>,
}

impl Ts5ddoooe4 {
    pub const fn f0_min() -> u8 {
        0
    }

    pub const fn f0_max() -> u8 {
        7
    }

    pub const fn f1_min() -> u8 {
        0
    }

    pub const fn f1_max() -> u8 {
        7
    }

    pub const fn f2_min() -> u8 {
        0
    }

    pub const fn f2_max() -> u8 {
        7
    }

    pub const fn f3_min() -> u8 {
        0
    }

    pub const fn f3_max() -> u8 {
        7
    }

    pub const fn f4_min() -> u8 {
        0
    }

    pub const fn f4_max() -> u8 {
        7
    }
}

#[asn(sequence, extensible_after(f4))]

#[derive(Default, Debug, Clone, PartialEq, Hash)]
pub struct Ts5ddoooe5 {
    #[asn(default(integer(0..7), 5))] pub f0: u8,
    #[asn(default(integer(0..7), 5))] pub f1: u8,
    #[asn(optional(integer(0..7)))] pub f2: Option<u8>,
    #[asn(optional(integer(0..7)))] pub f3: Option<u8>,
    #[asn(optional(integer(0..7)))] pub f4: Option<u8>,
}

impl Ts5ddoooe5 {
    pub const fn f0_min() -> u8 {
        0
    }

    pub const fn f0_max() -> u8 {
        7
    }

    pub const fn f1_min() -> u8 {
        0
    }

    pub const fn f1_max() -> u8 {
        7
    }

    pub const fn f2_min() -> u8 {
        0
    }

    pub const fn f2_max() -> u8 {
        7
    }

    pub const fn f3_min() -> u8 {
        0
    }

    pub const fn f3_max() -> u8 {
        7
    }

    pub const fn f4_min() -> u8 {
        0
    }

    pub const fn f4_max() -> u8 {
        7
    }
}

#[asn(sequence)]

#[derive(Default, Debug, Clone, PartialEq, Hash)]
pub struct Ts5mmdoon {
    #[asn(integer(0..7))] pub f0: u8,
    #[asn(integer(0..7))] pub f1: u8,
    #[asn(default(integer(0..7), 5))] pub f2: u8,
    #[asn(optional(integer(0..7)))] pub f3: Option<u8>,
    #[asn(optional(integer(0..7)))] pub f4: Option<u8>,
}

impl Ts5mmdoon {
    pub const fn f0_min() -> u8 {
        0
    }

    pub const fn f0_max() -> u8 {
        7
    }

    pub const fn f1_min() -> u8 {
        0
    }

    pub const fn f1_max() -> u8 {
        7
    }

    pub const fn f2_min() -> u8 {
        0
    }

    pub const fn f2_max() -> u8 {
        7
    }

    pub const fn f3_min() -> u8 {
        0
    }

    pub const fn f3_max() -> u8 {
        7
    }

    pub const fn f4_min() -> u8 {
        0
    }

    pub const fn f4_max() -> u8 {
        7
    }
}

#[asn(sequence, extensible_after(f0))]

#[derive(Default, Debug, Clone, PartialEq, Hash)]
pub struct Ts5mmdooe0 {
    #[asn(integer(0..7))] pub f0: u8,
    #[asn(optional(integer(0..7)))] pub f1: Option<u8>,
    #[asn(default(integer(0..7), 5))] pub f2: u8,
    #[asn(optional(integer(0..7)))] pub f3: Option<u8>,
    #[asn(optional(integer(0..7)))] pub f4: Option<u8>,
}

impl Ts5mmdooe0 {
    pub const fn f0_min() -> u8 {
        0
    }

    pub const fn f0_max() -> u8 {
        7
    }

    pub const fn f1_min() -> u8 {
        0
    }

    pub const fn f1_max() -> u8 {
        7
    }

    pub const fn f2_min() -> u8 {
        0
    }

    pub const fn f2_max() -> u8 {
        7
    }

    pub const fn f3_min() -> u8 {
        0
    }

    pub const fn f3_max() -> u8 {
        7
    }

    pub const fn f4_min() -> u8 {
        0
    }

    pub const fn f4_max() -> u8 {
        7
    }
}

#[asn(sequence, extensible_after(f0))]

#[derive(Default, Debug, Clone, PartialEq, Hash)]
pub struct Ts5mmdooe1 {
    #[asn(integer(0..7))] pub f0: u8,
    #[asn(optional(integer(0..7)))] pub f1: Option<u8>,
    #[asn(default(integer(0..7), 5))] pub f2: u8,
    #[asn(optional(integer(0..7)))] pub f3: Option<u8>,
    #[asn(optional(integer(0..7)))] pub f4: Option<u8>,
}

impl Ts5mmdooe1 {
    pub const fn f0_min() -> u8 {
        0
    }

    pub const fn f0_max() -> u8 {
        7
    }

    pub const fn f1_min() -> u8 {
        0
    }

    pub const fn f1_max() -> u8 {
        7
    }

    pub const fn f2_min() -> u8 {
        0
    }

    pub const fn f2_max() -> u8 {
        7
    }

    pub const fn f3_min() -> u8 {
        0
    }

    pub const fn f3_max() -> u8 {
        7
    }

    pub const fn f4_min() -> u8 {
        0
    }

    pub const fn f4_max() -> u8 {
        7
    }
}

#[asn(sequence, extensible_after(f1))]

#[derive(Default, Debug, Clone, PartialEq, Hash)]
pub struct Ts5mmdooe2 {
    #[asn(integer(0..7))] pub f0: u8,
    #[asn(integer(0..7))] pub f1: u8,
    #[asn(default(integer(0..7), 5))] pub f2: u8,
    #[asn(optional(integer(0..7)))] pub f3: Option<u8>,
    #[asn(optional(integer(0..7)))] pub f4: Option<u8>,
}

impl Ts5mmdooe2 {
    pub const fn f0_min() -> u8 {
        0
    }

    pub const fn f0_max() -> u8 {
        7
    }

    pub const fn f1_min() -> u8 {
        0
    }

    pub const fn f1_max() -> u8 {
        7
    }

    pub const fn f2_min() -> u8 {
        0
    }

    pub const fn f2_max() -> u8 {
        7
    }

    pub const fn f3_min() -> u8 {
        0
    }

    pub const fn f3_max() -> u8 {
        7
    }

    pub const fn f4_min() -> u8 {
        0
    }

    pub const fn f4_max() -> u8 {
        7
    }
}

#[asn(sequence, extensible_after(f2))]

#[derive(Default, Debug, Clone, PartialEq, Hash)]
pub struct Ts5mmdooe3 {
    #[asn(integer(0..7))] pub f0: u8,
    #[asn(integer(0..7))] pub f1: u8,
    #[asn(default(integer(0..7), 5))] pub f2: u8,
    #[asn(optional(integer(0..7)))] pub f3: Option<u8>,
    #[asn(optional(integer(0..7)))] pub f4: Option<u8>,
}

impl Ts5mmdooe3 {
    pub const fn f0_min() -> u8 {
        0
    }

    pub const fn f0_max() -> u8 {
        7
    }

    pub const fn f1_min() -> u8 {
        0
    }

    pub const fn f1_max() -> u8 {
        7
    }

    pub const fn f2_min() -> u8 {
        0
    }

    pub const fn f2_max() -> u8 {
        7
    }

    pub const fn f3_min() -> u8 {
        0
    }

    pub const fn f3_max() -> u8 {
        7
    }

    pub const fn f4_min() -> u8 {
        0
    }

    pub const fn f4_max() -> u8 {
        7
    }
}

#[asn(sequence, extensible_after(f3))]

#[derive(Default, Debug, Clone, PartialEq, Hash)]
pub struct Ts5mmdooe4 {
    #[asn(integer(0..7))] pub f0: u8,
    #[asn(integer(0..7))] pub f1: u8,
    #[asn(default(integer(0..7), 5))] pub f2: u8,
    #[asn(optional(integer(0..7)))] pub f3: Option<u8>,
    #[asn(optional(integer(0..7)))] pub f4: Option<u8>,
}

impl Ts5mmdooe4 {
    pub const fn f0_min() -> u8 {
        0
    }

    pub const fn f0_max() -> u8 {
        7
    }

    pub const fn f1_min() -> u8 {
        0
    }

    pub const fn f1_max() -> u8 {
        7
    }

    pub const fn f2_min() -> u8 {
        0
    }

    pub const fn f2_max() -> u8 {
        7
    }

    pub const fn f3_min() -> u8 {
        0
    }

    pub const fn f3_max() -> u8 {
        7
    }

    pub const fn f4_min() -> u8 {
        0
    }

    pub const fn f4_max() -> u8 {
        7
    }
}

#[asn(sequence, extensible_after(f4))]

#[derive(Default, Debug, Clone, PartialEq, Hash)]
pub struct Ts5mmdooe5 {
    #[asn(integer(0..7))] pub f0: u8,
    #[asn(integer(0..7))] pub f1: u8,
    #[asn(default(integer(0..7), 5))] pub f2: u8,
    #[asn(optional(integer(0..7)))] pub f3: Option<u8>,
    #[asn(optional(integer(0..7)))] pub f4: Option<u8>,
}

impl Ts5mmdooe5 {
    pub const fn f0_min() -> u8 {
        0
    }

    pub const fn f0_max() -> u8 {
        7
    }

    pub const fn f1_min() -> u8 {
        0
    }

    pub const fn f1_max() -> u8 {
        7
    }

    pub const fn f2_min() -> u8 {
        0
    }

    pub const fn f2_max() -> u8 {
        7
    }

    pub const fn f3_min() -> u8 {
        0
    }

    pub const fn f3_max() -> u8 {
        7
    }

    pub const fn f4_min() -> u8 {
        0
    }

    pub const fn f4_max() -> u8 {
        7
    }
}

#[asn(sequence)]

#[derive(Default, Debug, Clone, PartialEq, Hash)]
pub struct Ts5omdoon {
    #[asn(optional(integer(0..7)))] pub f0: Option<u8>,
    #[asn(integer(0..7))] pub f1: u8,
    #[asn(default(integer(0..7), 5))] pub f2: u8,
    #[asn(optional(integer(0..7)))] pub f3: Option<u8>,
    #[asn(optional(integer(0..7)))] pub f4: Option<u8>,
}

impl Ts5omdoon {
    pub const fn f0_min() -> u8 {
        0
    }

    pub const fn f0_max() -> u8 {
        7
    }

    pub const fn f1_min() -> u8 {
        0
    }

    pub const fn f1_max() -> u8 {
        7
    }

    pub const fn f2_min() -> u8 {
        0
    }

    pub const fn f2_max() -> u8 {
        7
    }

    pub const fn f3_min() -> u8 {
        0
    }

    pub const fn f3_max() -> u8 {
        7
    }

    pub const fn f4_min() -> u8 {
        0
    }

    pub const fn f4_max() -> u8 {
        7
    }
}

#[asn(sequence, extensible_after(f0))]

#[derive(Default, Debug, Clone, PartialEq, Hash)]
pub struct Ts5omdooe0 {
    #[asn(optional(integer(0..7)))] pub f0: Option<u8>,
    #[asn(optional(integer(0..7)))] pub f1: Option<u8>,
    #[asn(default(integer(0..7), 5))] pub f2: u8,
    #[asn(optional(integer(0..7)))] pub f3: Option<u8>,
    #[asn(optional(integer(0..7)))] pub f4: Option<u8>,
}

impl Ts5omdooe0 {
    pub const fn f0_min() -> u8 {
        0
    }

    pub const fn f0_max() -> u8 {
        7
    }

    pub const fn f1_min() -> u8 {
        0
    }

    pub const fn f1_max() -> u8 {
        7
    }

    pub const fn f2_min() -> u8 {
        0
    }

    pub const fn f2_max() -> u8 {
        7
    }

    pub const fn f3_min() -> u8 {
        0
    }

    pub const fn f3_max() -> u8 {
        7
    }

    pub const fn f4_min() -> u8 {
        0
    }

    pub const fn f4_max() -> u8 {
        7
    }
}

#[asn(sequence, extensible_after(f0))]

#[derive(Default, Debug, Clone, PartialEq, Hash)]
pub struct Ts5omdooe1 {
    #[asn(optional(integer(0..7)))] pub f0: Option<u8>,
    #[asn(optional(integer(0..7)))] pub f1: Option<u8>,
    #[asn(default(integer(0..7), 5))] pub f2: u8,
    #[asn(optional(integer(0..7)))] pub f3: Option<u8>,
    #[asn(optional(integer(0..7)))] pub f4: Option<u8>,
}

impl Ts5omdooe1 {
    pub const fn f0_min() -> u8 {
        0
    }

    pub const fn f0_max() -> u8 {
        7
    }

    pub const fn f1_min() -> u8 {
        0
    }

    pub const fn f1_max() -> u8 {
        7
    }

    pub const fn f2_min() -> u8 {
        0
    }

    pub const fn f2_max() -> u8 {
        7
    }

    pub const fn f3_min() -> u8 {
        0
    }

    pub const fn f3_max() -> u8 {
        7
    }

    pub const fn f4_min() -> u8 {
        0
    }

    pub const fn f4_max() -> u8 {
        7
    }
}

#[asn(sequence, extensible_after(f1))]

#[derive(Default, Debug, Clone, PartialEq, Hash)]
pub struct Ts5omdooe2 {
    #[asn(optional(integer(0..7)))] pub f0: Option<u8>,
    #[asn(integer(0..7))] pub f1: u8,
    #[asn(default(integer(0..7), 5))] pub f2: u8,
    #[asn(optional(integer(0..7)))] pub f3: Option<u8>,
    #[asn(optional(integer(0..7)))] pub f4: Option<u8>,
}

impl Ts5omdooe2 {
    pub const fn f0_min() -> u8 {
        0
    }

    pub const fn f0_max() -> u8 {
        7
    }

    pub const fn f1_min() -> u8 {
        0
    }

    pub const fn f1_max() -> u8 {
        7
    }

    pub const fn f2_min() -> u8 {
        0
    }

    pub const fn f2_max() -> u8 {
        7
    }

    pub const fn f3_min() -> u8 {
        0
    }

    pub const fn f3_max() -> u8 {
        7
    }

    pub const fn f4_min() -> u8 {
        0
    }

    pub const fn f4_max() -> u8 {
        7
    }
}

#[asn(sequence, extensible_after(f2))]

#[derive(Default, Debug, Clone, PartialEq, Hash)]
pub struct Ts5omdooe3 {
    #[asn(optional(integer(0..7)))] pub f0: Option<u8>,
    #[asn(integer(0..7))] pub f1: u8,
    #[asn(default(integer(0..7), 5))] pub f2: u8,
    #[asn(optional(integer(0..7)))] pub f3: Option<u8>,
    #[asn(optional(integer(0..7)))] pub f4: Option<u8>,
}

impl Ts5omdooe3 {
    pub const fn f0_min() -> u8 {
        0
    }

    pub const fn f0_max() -> u8 {
        7
    }

    pub const fn f1_min() -> u8 {
        0
    }

    pub const fn f1_max() -> u8 {
        7
    }

    pub const fn f2_min() -> u8 {
        0
    }

    pub const fn f2_max() -> u8 {
        7
    }

    pub const fn f3_min() -> u8 {
        0
    }

    pub const fn f3_max() -> u8 {
        7
    }

    pub const fn f4_min() -> u8 {
        0
    }

    pub const fn f4_max() -> u8 {
        7
    }
}

#[asn(sequence, extensible_after(f3))]

#[derive(Default, Debug, Clone, PartialEq, Hash)]
pub struct Ts5omdooe4 {
    #[asn(optional(integer(0..7)))] pub f0: Option<u8>,
    #[asn(integer(0..7))] pub f1: u8,
    #[asn(default(integer(0..7), 5))] pub f2: u8,
    #[asn(optional(integer(0..7)))] pub f3: Option<u8>,
    #[asn(optional(integer(0..7)))] pub f4: Option<u8>,
}

impl Ts5omdooe4 {
    pub const fn f0_min() -> u8 {
        0
    }

    pub const fn f0_max() -> u8 {
        7
    }

    pub const fn f1_min() -> u8 {
        0
    }

    pub const fn f1_max() -> u8 {
        7
    }

    pub const fn f2_min() -> u8 {
        0
    }

    pub const fn f2_max() -> u8 {
        7
    }

    pub const fn f3_min() -> u8 {
        0
    }

    pub const fn f3_max() -> u8 {
        7
    }

    pub const fn f4_min() -> u8 {
        0
    }

    pub const fn f4_max() -> u8 {
        7
    }
}

#[asn(sequence, extensible_after(f4))]

#[derive(Default, Debug, Clone, PartialEq, Hash)]
pub struct Ts5omdooe5 {
    #[asn(optional(integer(0..7)))] pub f0: Option<u8>,
    #[asn(integer(0..7))] pub f1: u8,
    #[asn(default(integer(0..7), 5))] pub f2: u8,
    #[asn(optional(integer(0..7)))] pub f3: Option<u8>,
    #[asn(optional(integer(0..7)))] pub f4: Option<u8>,
}

impl Ts5omdooe5 {
    pub const fn f0_min() -> u8 {
        0
    }

    pub const fn f0_max() -> u8 {
        7
    }

    pub const fn f1_min() -> u8 {
        0
    }

    pub const fn f1_max() -> u8 {
        7
    }

    pub const fn f2_min() -> u8 {
        0
    }

    pub const fn f2_max() -> u8 {
        7
    }

    pub const fn f3_min() -> u8 {
        0
    }

    pub const fn f3_max() -> u8 {
        7
    }

    pub const fn f4_min() -> u8 {
        0
    }

    pub const fn f4_max() -> u8 {
        7
    }
}

#[asn(sequence)]

#[derive(Default, Debug, Clone, PartialEq, Hash)]
pub struct Ts5dmdoon {
    #[asn(default(integer(0..7), 5))] pub f0: u8,
    #[asn(integer(0..7))] pub f1: u8,
    #[asn(default(integer(0..7), 5))] pub f2: u8,
    #[asn(optional(integer(0..7)))] pub f3: Option<u8>,
    #[asn(optional(integer(0..7)))] pub f4: Option<u8>,
}

impl Ts5dmdoon {
    pub const fn f0_min() -> u8 {
        0
    }

    pub const fn f0_max() -> u8 {
        7
    }

    pub const fn f1_min() -> u8 {
        0
    }

    pub const fn f1_max() -> u8 {
        7
    }

    pub const fn f2_min() -> u8 {
        0
    }

    pub const fn f2_max() -> u8 {
        7
    }

    pub const fn f3_min() -> u8 {
        0
    }

    pub const fn f3_max() -> u8 {
        7
    }

    pub const fn f4_min() -> u8 {
        0
    }

    pub const fn f4_max() -> u8 {
        7
    }
}

#[asn(sequence, extensible_after(f0))]

#[derive(Default, Debug, Clone, PartialEq, Hash)]
pub struct Ts5dmdooe0 {
    #[asn(default(integer(0..7), 5))] pub f0: u8,
    #[asn(optional(integer(0..7)))] pub f1: Option<u8>,
    #[asn(default(integer(0..7), 5))] pub f2: u8,
    #[asn(optional(integer(0..7)))] pub f3: Option<u8>,
    #[asn(optional(integer(0..7)))] pub f4: Option<u8>,
}

impl Ts5dmdooe0 {
    pub const fn f0_min() -> u8 {
        0
    }

    pub const fn f0_max() -> u8 {
        7
    }

    pub const fn f1_min() -> u8 {
        0
    }

    pub const fn f1_max() -> u8 {
        7
    }

    pub const fn f2_min() -> u8 {
        0
    }

    pub const fn f2_max() -> u8 {
        7
    }

    pub const fn f3_min() -> u8 {
        0
    }

    pub const fn f3_max() -> u8 {
        7
    }

    pub const fn f4_min() -> u8 {
        0
    }

    pub const fn f4_max() -> u8 {
        7
    }
}

#[asn(sequence, extensible_after(f0))]

#[derive(Default, Debug, Clone, PartialEq, Hash)]
pub struct Ts5dmdooe1 {
    #[asn(default(integer(0..7), 5))] pub f0: u8,
    #[asn(optional(integer(0..7)))] pub f1: Option<u8>,
    #[asn(default(integer(0..7), 5))] pub f2: u8,
    #[asn(optional(integer(0..7)))] pub f3: Option<u8>,
    #[asn(optional(integer(0..7)))] pub f4: Option<u8>,
}

impl Ts5dmdooe1 {
    pub const fn f0_min() -> u8 {
        0
    }

    pub const fn f0_max() -> u8 {
        7
    }

    pub const fn f1_min() -> u8 {
        0
    }

    pub const fn f1_max() -> u8 {
        7
    }

    pub const fn f2_min() -> u8 {
        0
    }

    pub const fn f2_max() -> u8 {
        7
    }

    pub const fn f3_min() -> u8 {
        0
    }

    pub const fn f3_max() -> u8 {
        7
    }

    pub const fn f4_min() -> u8 {
        0
    }

    pub const fn f4_max() -> u8 {
        7
    }
}

#[asn(sequence, extensible_after(f1))]

#[derive(Default, Debug, Clone, PartialEq, Hash)]
pub struct Ts5dmdooe2 {
    #[asn(default(integer(0..7), 5))] pub f0: u8,
    #[asn(integer(0..7))] pub f1: u8,
    #[asn(default(integer(0..7), 5))] pub f2: u8,
    #[asn(optional(integer(0..7)))] pub f3: Option<u8>,
    #[asn(optional(integer(0..7)))] pub f4: Option<u8>,
}

impl Ts5dmdooe2 {
    pub const fn f0_min() -> u8 {
        0
    }

    pub const fn f0_max() -> u8 {
        7
    }

    pub const fn f1_min() -> u8 {
        0
    }

    pub const fn f1_max() -> u8 {
        7
    }

    pub const fn f2_min() -> u8 {
        0
    }

    pub const fn f2_max() -> u8 {
        7
    }

    pub const fn f3_min() -> u8 {
        0
    }

    pub const fn f3_max() -> u8 {
        7
    }

    pub const fn f4_min() -> u8 {
        0
    }

    pub const fn f4_max() -> u8 {
        7
    }
}

#[asn(sequence, extensible_after(f2))]

#[derive(Default, Debug, Clone, PartialEq, Hash)]
pub struct Ts5dmdooe3 {
    #[asn(default(integer(0..7), 5))] pub f0: u8,
    #[asn(integer(0..7))] pub f1: u8,
    #[asn(default(integer(0..7), 5))] pub f2: u8,
    #[asn(optional(integer(0..7)))] pub f3: Option<u8>,
    #[asn(optional(integer(0..7)))] pub f4: Option<u8>,
}

impl Ts5dmdooe3 {
    pub const fn f0_min() -> u8 {
        0
    }

    pub const fn f0_max() -> u8 {
        7
    }

    pub const fn f1_min() -> u8 {
        0
    }

    pub const fn f1_max() -> u8 {
        7
    }

    pub const fn f2_min() -> u8 {
        0
    }

    pub const fn f2_max() -> u8 {
        7
    }

    pub const fn f3_min() -> u8 {
        0
    }

    pub const fn f3_max() -> u8 {
        7
    }

    pub const fn f4_min() -> u8 {
        0
    }

    pub const fn f4_max() -> u8 {
        7
    }
}

#[asn(sequence, extensible_after(f3))]

#[derive(Default, Debug, Clone, PartialEq, Hash)]
pub struct Ts5dmdooe4 {
    #[asn(default(integer(0..7), 5))] pub f0: u8,
    #[asn(integer(0..7))] pub f1: u8,
    #[asn(default(integer(0..7), 5))] pub f2: u8,
    #[asn(optional(integer(0..7)))] pub f3: Option<u8>,
    #[asn(optional(integer(0..7)))] pub f4: Option<u8>,
}

impl Ts5dmdooe4 {
    pub const fn f0_min() -> u8 {
        0
    }

    pub const fn f0_max() -> u8 {
        7
    }

    pub const fn f1_min() -> u8 {
        0
    }

    pub const fn f1_max() -> u8 {
        7
    }

    pub const fn f2_min() -> u8 {
        0
    }

    pub const fn f2_max() -> u8 {
        7
    }

    pub const fn f3_min() -> u8 {
        0
    }

    pub const fn f3_max() -> u8 {
        7
    }

    pub const fn f4_min() -> u8 {
        0
    }

    pub const fn f4_max() -> u8 {
        7
    }
}

#[asn(sequence, extensible_after(f4))]

#[derive(Default, Debug, Clone, PartialEq, Hash)]
pub struct Ts5dmdooe5 {
    #[asn(default(integer(0..7), 5))] pub f0: u8,
    #[asn(integer(0..7))] pub f1: u8,
    #[asn(default(integer(0..7), 5))] pub f2: u8,
    #[asn(optional(integer(0..7)))] pub f3: Option<u8>,
    #[asn(optional(integer(0..7)))] pub f4: Option<u8>,
}

impl Ts5dmdooe5 {
    pub const fn f0_min() -> u8 {
        0
    }

    pub const fn f0_max() -> u8 {
        7
    }

    pub const fn f1_min() -> u8 {
        0
    }

    pub const fn f1_max() -> u8 {
        7
    }

    pub const fn f2_min() -> u8 {
        0
    }

    pub const fn f2_max() -> u8 {
        7
    }

    pub const fn f3_min() -> u8 {
        0
    }

    pub const fn f3_max() -> u8 {
        7
    }

    pub const fn f4_min() -> u8 {
        0
    }

    pub const fn f4_max() -> u8 {
        7
    }
}

#[asn(sequence)]

#[derive(Default, Debug, Clone, PartialEq, Hash)]
pub struct Ts5modoon {
    #[asn(integer(0..7))] pub f0: u8,
    #[asn(optional(integer(0..7)))] pub f1: Option<u8>,
    #[asn(default(integer(0..7), 5))] pub f2: u8,
    #[asn(optional(integer(0..7)))] pub f3: Option<u8>,
    #[asn(optional(integer(0..7)))] pub f4: Option<u8>,
}

impl Ts5modoon {
    pub const fn f0_min() -> u8 {
        0
    }

    pub const fn f0_max() -> u8 {
        7
    }

    pub const fn f1_min() -> u8 {
        0
    }

    pub const fn f1_max() -> u8 {
        7
    }

    pub const fn f2_min() -> u8 {
        0
    }

    pub const fn f2_max() -> u8 {
        7
    }

    pub const fn f3_min() -> u8 {
        0
    }

    pub const fn f3_max() -> u8 {
        7
    }

    pub const fn f4_min() -> u8 {
        0
    }

    pub const fn f4_max() -> u8 {
        7
    }
}

#[asn(sequence, extensible_after(f0))]

#[derive(Default, Debug, Clone, PartialEq, Hash)]
pub struct Ts5modooe0 {
    #[asn(integer(0..7))] pub f0: u8,
    #[asn(optional(integer(0..7)))] pub f1: Option<u8>,
    #[asn(default(integer(0..7), 5))] pub f2: u8,
    #[asn(optional(integer(0..7)))] pub f3: Option<u8>,
    #[asn(optional(integer(0..7)))] pub f4: Option<u8>,
}

impl Ts5modooe0 {
    pub const fn f0_min() -> u8 {
        0
    }

    pub const fn f0_max() -> u8 {
        7
    }

    pub const fn f1_min() -> u8 {
        0
    }

    pub const fn f1_max() -> u8 {
        7
    }

    pub const fn f2_min() -> u8 {
        0
    }

    pub const fn f2_max() -> u8 {
        7
    }

    pub const fn f3_min() -> u8 {
        0
    }

    pub const fn f3_max() -> u8 {
        7
    }

    pub const fn f4_min() -> u8 {
        0
    }

    pub const fn f4_max() -> u8 {
        7
    }
}

#[asn(sequence, extensible_after(f0))]

#[derive(Default, Debug, Clone, PartialEq, Hash)]
pub struct Ts5modooe1 {
    #[asn(integer(0..7))] pub f0: u8,
    #[asn(optional(integer(0..7)))] pub f1: Option<u8>,
    #[asn(default(integer(0..7), 5))] pub f2: u8,
    #[asn(optional(integer(0..7)))] pub f3: Option<u8>,
    #[asn(optional(integer(0..7)))] pub f4: Option<u8>,
}

impl Ts5modooe1 {
    pub const fn f0_min() -> u8 {
        0
    }

    pub const fn f0_max() -> u8 {
        7
    }

    pub const fn f1_min() -> u8 {
        0
    }

    pub const fn f1_max() -> u8 {
        7
    }

    pub const fn f2_min() -> u8 {
        0
    }

    pub const fn f2_max() -> u8 {
        7
    }

    pub const fn f3_min() -> u8 {
        0
    }

    pub const fn f3_max() -> u8 {
        7
    }

    pub const fn f4_min() -> u8 {
        0
    }

    pub const fn f4_max() -> u8 {
        7
    }
}

#[asn(sequence, extensible_after(f1))]

#[derive(Default, Debug, Clone, PartialEq, Hash)]
pub struct Ts5modooe2 {
    #[asn(integer(0..7))] pub f0: u8,
    #[asn(optional(integer(0..7)))] pub f1: Option<u8>,
    #[asn(default(integer(0..7), 5))] pub f2: u8,
    #[asn(optional(integer(0..7)))] pub f3: Option<u8>,
    #[asn(optional(integer(0..7)))] pub f4: Option<u8>,
}

impl Ts5modooe2 {
    pub const fn f0_min() -> u8 {
        0
    }

    pub const fn f0_max() -> u8 {
        7
    }

    pub const fn f1_min() -> u8 {
        0
    }

    pub const fn f1_max() -> u8 {
        7
    }

    pub const fn f2_min() -> u8 {
        0
    }

    pub const fn f2_max() -> u8 {
        7
    }

    pub const fn f3_min() -> u8 {
        0
    }

    pub const fn f3_max() -> u8 {
        7
    }

    pub const fn f4_min() -> u8 {
        0
    }

    pub const fn f4_max() -> u8 {
        7
    }
}

#[asn(sequence, extensible_after(f2))]

#[derive(Default, Debug, Clone, PartialEq, Hash)]
pub struct Ts5modooe3 {
    #[asn(integer(0..7))] pub f0: u8,
    #[asn(optional(integer(0..7)))] pub f1: Option<u8>,
    #[asn(default(integer(0..7), 5))] pub f2: u8,
    #[asn(optional(integer(0..7)))] pub f3: Option<u8>,
    #[asn(optional(integer(0..7)))] pub f4: Option<u8>,
}

impl Ts5modooe3 {
    pub const fn f0_min() -> u8 {
        0
    }

    pub const fn f0_max() -> u8 {
        7
    }

    pub const fn f1_min() -> u8 {
        0
    }

    pub const fn f1_max() -> u8 {
        7
    }

    pub const fn f2_min() -> u8 {
        0
    }

    pub const fn f2_max() -> u8 {
        7
    }

    pub const fn f3_min() -> u8 {
        0
    }

    pub const fn f3_max() -> u8 {
        7
    }

    pub const fn f4_min() -> u8 {
        0
    }

    pub const fn f4_max() -> u8 {
        7
    }
}

#[asn(sequence, extensible_after(f3))]

#[derive(Default, Debug, Clone, PartialEq, Hash)]
pub struct Ts5modooe4 {
    #[asn(integer(0..7))] pub f0: u8,
    #[asn(optional(integer(0..7)))] pub f1: Option<u8>,
    #[asn(default(integer(0..7), 5))] pub f2: u8,
    #[asn(optional(integer(0..7)))] pub f3: Option<u8>,
    #[asn(optional(integer(0..7)))] pub f4: Option<u8>,
}

impl Ts5modooe4 {
    pub const fn f0_min() -> u8 {
        0
    }

    pub const fn f0_max() -> u8 {
        7
    }

    pub const fn f1_min() -> u8 {
        0
    }

    pub const fn f1_max() -> u8 {
        7
    }

    pub const fn f2_min() -> u8 {
        0
    }

    pub const fn f2_max() -> u8 {
        7
    }

    pub const fn f3_min() -> u8 {
        0
    }

    pub const fn f3_max() -> u8 {
        7
    }

    pub const fn f4_min() -> u8 {
        0
    }

    pub const fn f4_max() -> u8 {
        7
    }
}

#[asn(sequence, extensible_after(f4))]

#[derive(Default, Debug, Clone, PartialEq, Hash)]
pub struct Ts5modooe5 {
    #[asn(integer(0..7))] pub f0: u8,
    #[asn(optional(integer(0..7)))] pub f1: Option<u8>,
    #[asn(default(integer(0..7), 5))] pub f2: u8,
    #[asn(optional(integer(0..7)))] pub f3: Option<u8>,
    #[asn(optional(integer(0..7)))] pub f4: Option<u8>,
}

impl Ts5modooe5 {
    pub const fn f0_min() -> u8 {
        0
    }

    pub const fn f0_max() -> u8 {
        7
    }

    pub const fn f1_min() -> u8 {
        0
    }

    pub const fn f1_max() -> u8 {
        7
    }

    pub const fn f2_min() -> u8 {
        0
    }

    pub const fn f2_max() -> u8 {
        7
    }

    pub const fn f3_min() -> u8 {
        0
    }

    pub const fn f3_max() -> u8 {
        7
    }

    pub const fn f4_min() -> u8 {
        0
    }

    pub const fn f4_max() -> u8 {
        7
    }
}

#[asn(sequence)]

#[derive(Default, Debug, Clone, PartialEq, Hash)]
pub struct Ts5oodoon {
    #[asn(optional(integer(0..7)))] pub f0: Option<u8>,
    #[asn(optional(integer(0..7)))] pub f1: Option<u8>,
    #[asn(default(integer(0..7), 5))] pub f2: u8,
    #[asn(optional(integer(0..7)))] pub f3: Option<u8>,
    #[asn(optional(integer(0..7)))] pub f4: Option<u8>,
}

impl Ts5oodoon {
    pub const fn f0_min() -> u8 {
        0
    }

    pub const fn f0_max() -> u8 {
        7
    }

    pub const fn f1_min() -> u8 {
        0
    }

    pub const fn f1_max() -> u8 {
        7
    }

    pub const fn f2_min() -> u8 {
        0
    }

    pub const fn f2_max() -> u8 {
        7
    }

    pub const fn f3_min() -> u8 {
        0
    }

    pub const fn f3_max() -> u8 {
        7
    }

    pub const fn f4_min() -> u8 {
        0
    }

    pub const fn f4_max() -> u8 {
        7
    }
}

#[asn(sequence, extensible_after(f0))]

#[derive(Default, Debug, Clone, PartialEq, Hash)]
pub struct Ts5oodooe0 {
    #[asn(optional(integer(0..7)))] pub f0: Option<u8>,
    #[asn(optional(integer(0..7)))] pub f1: Option<u8>,
    #[asn(default(integer(0..7), 5))] pub f2: u8,
    #[asn(optional(integer(0..7)))] pub f3: Option<u8>,
    #[asn(optional(integer(0..7)))] pub f4: Option<u8>,
}

impl Ts5oodooe0 {
    pub const fn f0_min() -> u8 {
        0
    }

    pub const fn f0_max() -> u8 {
        7
    }

    pub const fn f1_min() -> u8 {
        0
    }

    pub const fn f1_max() -> u8 {
        7
    }

    pub const fn f2_min() -> u8 {
        0
    }

    pub const fn f2_max() -> u8 {
        7
    }

    pub const fn f3_min() -> u8 {
        0
    }

    pub const fn f3_max() -> u8 {
        7
    }

    pub const fn f4_min() -> u8 {
        0
    }

    pub const fn f4_max() -> u8 {
        7
    }
}

#[asn(sequence, extensible_after(f0))]

#[derive(Default, Debug, Clone, PartialEq, Hash)]
pub struct Ts5oodooe1 {
    #[asn(optional(integer(0..7)))] pub f0: Option<u8>,
    #[asn(optional(integer(0..7)))] pub f1: Option<u8>,
    #[asn(default(integer(0..7), 5))] pub f2: u8,
    #[asn(optional(integer(0..7)))] pub f3: Option<u8>,
    #[asn(optional(integer(0..7)))] pub f4: Option<u8>,
}

impl Ts5oodooe1 {
    pub const fn f0_min() -> u8 {
        0
    }

    pub const fn f0_max() -> u8 {
        7
    }

    pub const fn f1_min() -> u8 {
        0
    }

    pub const fn f1_max() -> u8 {
        7
    }

    pub const fn f2_min() -> u8 {
        0
    }

    pub const fn f2_max() -> u8 {
        7
    }

    pub const fn f3_min() -> u8 {
        0
    }

    pub const fn f3_max() -> u8 {
        7
    }

    pub const fn f4_min() -> u8 {
        0
    }

    pub const fn f4_max() -> u8 {
        7
    }
}

#[asn(sequence, extensible_after(f1))]

#[derive(Default, Debug, Clone, PartialEq, Hash)]
pub struct Ts5oodooe2 {
    #[asn(optional(integer(0..7)))] pub f0: Option<u8>,
    #[asn(optional(integer(0..7)))] pub f1: Option<u8>,
    #[asn(default(integer(0..7), 5))] pub f2: u8,
    #[asn(optional(integer(0..7)))] pub f3: Option<u8>,
    #[asn(optional(integer(0..7)))] pub f4: Option<u8>,
}

impl Ts5oodooe2 {
    pub const fn f0_min() -> u8 {
        0
    }

    pub const fn f0_max() -> u8 {
        7
    }

    pub const fn f1_min() -> u8 {
        0
    }

    pub const fn f1_max() -> u8 {
        7
    }

    pub const fn f2_min() -> u8 {
        0
    }

    pub const fn f2_max() -> u8 {
        7
    }

    pub const fn f3_min() -> u8 {
        0
    }

    pub const fn f3_max() -> u8 {
        7
    }

    pub const fn f4_min() -> u8 {
        0
    }

    pub const fn f4_max() -> u8 {
        7
    }
}

#[asn(sequence, extensible_after(f2))]

#[derive(Default, Debug, Clone, PartialEq, Hash)]
pub struct Ts5oodooe3 {
    #[asn(optional(integer(0..7)))] pub f0: Option<u8>,
    #[asn(optional(integer(0..7)))] pub f1: Option<u8>,
    #[asn(default(integer(0..7), 5))] pub f2: u8,
    #[asn(optional(integer(0..7)))] pub f3: Option<u8>,
    #[asn(optional(integer(0..7)))] pub f4: Option<u8>,
}

impl Ts5oodooe3 {
    pub const fn f0_min() -> u8 {
        0
    }

    pub const fn f0_max() -> u8 {
        7
    }

    pub const fn f1_min() -> u8 {
        0
    }

    pub const fn f1_max() -> u8 {
        7
    }

    pub const fn f2_min() -> u8 {
        0
    }

    pub const fn f2_max() -> u8 {
        7
    }

    pub const fn f3_min() -> u8 {
        0
    }

    pub const fn f3_max() -> u8 {
        7
    }

    pub const fn f4_min() -> u8 {
        0
    }

    pub const fn f4_max() -> u8 {
        7
    }
}

#[asn(sequence, extensible_after(f3))]

#[derive(Default, Debug, Clone, PartialEq, Hash)]
pub struct Ts5oodooe4 {
    #[asn(optional(integer(0..7)))] pub f0: Option<u8>,
    #[asn(optional(integer(0..7)))] pub f1: Option<u8>,
    #[asn(default(integer(0..7), 5))] pub f2: u8,
    #[asn(optional(integer(0..7)))] pub f3: Option<u8>,
    #[asn(optional(integer(0..7)))] pub f4: Option<u8>,
}

impl Ts5oodooe4 {
    pub const fn f0_min() -> u8 {
        0
    }

    pub const fn f0_max() -> u8 {
        7
    }

    pub const fn f1_min() -> u8 {
        0
    }

    pub const fn f1_max() -> u8 {
        7
    }

    pub const fn f2_min() -> u8 {
        0
    }

    pub const fn f2_max() -> u8 {
        7
    }

    pub const fn f3_min() -> u8 {
        0
    }

    pub const fn f3_max() -> u8 {
        7
    }

    pub const fn f4_min() -> u8 {
        0
    }

    pub const fn f4_max() -> u8 {
        7
    }
}

#[asn(sequence, extensible_after(f4))]

#[derive(Default, Debug, Clone, PartialEq, Hash)]
pub struct Ts5oodooe5 {
    #[asn(optional(integer(0..7)))] pub f0: Option<u8>,
    #[asn(optional(integer(0..7)))] pub f1: Option<u8>,
    #[asn(default(integer(0..7), 5))] pub f2: u8,
    #[asn(optional(integer(0..7)))] pub f3: Option<u8>,
    #[asn(optional(integer(0..7)))] pub f4: Option<u8>,
}

impl Ts5oodooe5 {
    pub const fn f0_min() -> u8 {
        0
    }

    pub const fn f0_max() -> u8 {
        7
    }

    pub const fn f1_min() -> u8 {
        0
    }

    pub const fn f1_max() -> u8 {
        7
    }

    pub const fn f2_min() -> u8 {
        0
    }

    pub const fn f2_max() -> u8 {
        7
    }

    pub const fn f3_min() -> u8 {
        0
    }

    pub const fn f3_max() -> u8 {
        7
    }

    pub const fn f4_min() -> u8 {
        0
    }

    pub const fn f4_max() -> u8 {
        7
    }
}

#[asn(sequence)]

#[derive(Default, Debug, Clone, PartialEq, Hash)]
pub struct Ts5dodoon {
    #[asn(default(integer(0..7), 5))] pub f0: u8,
    #[asn(optional(integer(0..7)))] pub f1: Option<u8>,
    #[asn(default(integer(0..7), 5))] pub f2: u8,
    #[asn(optional(integer(0..7)))] pub f3: Option<u8>,
    #[asn(optional(integer(0..7)))] pub f4: Option<u8>,
}

impl Ts5dodoon {
    pub const fn f0_min() -> u8 {
        0
    }

    pub const fn f0_max() -> u8 {
        7
    }

    pub const fn f1_min() -> u8 {
        0
    }

    pub const fn f1_max() -> u8 {
        7
    }

    pub const fn f2_min() -> u8 {
        0
    }

    pub const fn f2_max() -> u8 {
        7
    }

    pub const fn f3_min() -> u8 {
        0
    }

    pub const fn f3_max() -> u8 {
        7
    }

    pub const fn f4_min() -> u8 {
        0
    }

    pub const fn f4_max() -> u8 {
        7
    }
}

#[asn(sequence, extensible_after(f0))]

#[derive(Default, Debug, Clone, PartialEq, Hash)]
pub struct Ts5dodooe0 {
    #[asn(default(integer(0..7), 5))] pub f0: u8,
    #[asn(optional(integer(0..7)))] pub f1: Option<u8>,
    #[asn(default(integer(0..7), 5))] pub f2: u8,
    #[asn(optional(integer(0..7)))] pub f3: Option<u8>,
    #[asn(optional(integer(0..7)))] pub f4: Option<u8>,
}

impl Ts5dodooe0 {
    pub const fn f0_min() -> u8 {
        0
    }

    pub const fn f0_max() -> u8 {
        7
    }

    pub const fn f1_min() -> u8 {
        0
    }

    pub const fn f1_max() -> u8 {
        7
    }

    pub const fn f2_min() -> u8 {
        0
    }

    pub const fn f2_max() -> u8 {
        7
    }

    pub const fn f3_min() -> u8 {
        0
    }

    pub const fn f3_max() -> u8 {
        7
    }

    pub const fn f4_min() -> u8 {
        0
    }

    pub const fn f4_max() -> u8 {
        7
    }
}

#[asn(sequence, extensible_after(f0))]

#[derive(Default, Debug, Clone, PartialEq, Hash)]
pub struct Ts5dodooe1 {
    #[asn(default(integer(0..7), 5))] pub f0: u8,
    #[asn(optional(integer(0..7)))] pub f1: Option<u8>,
    #[asn(default(integer(0..7), 5))] pub f2: u8,
    #[asn(optional(integer(0..7)))] pub f3: Option<u8>,
    #[asn(optional(integer(0..7)))] pub f4: Option<u8>,
}

impl Ts5dodooe1 {
    pub const fn f0_min() -> u8 {
        0
    }

    pub const fn f0_max() -> u8 {
        7
    }

    pub const fn f1_min() -> u8 {
        0
    }

    pub const fn f1_max() -> u8 {
        7
    }

    pub const fn f2_min() -> u8 {
        0
    }

    pub const fn f2_max() -> u8 {
        7
    }

    pub const fn f3_min() -> u8 {
        0
    }

    pub const fn f3_max() -> u8 {
        7
    }

    pub const fn f4_min() -> u8 {
        0
    }

    pub const fn f4_max() -> u8 {
        7
    }
}

#[asn(sequence, extensible_after(f1))]

#[derive(Default, Debug, Clone, PartialEq, Hash)]
pub struct Ts5dodooe2 {
    #[asn(default(integer(0..7), 5))] pub f0: u8,
    #[asn(optional(integer(0..7)))] pub f1: Option<u8>,
    #[asn(default(integer(0..7), 5))] pub f2: u8,
    #[asn(optional(integer(0..7)))] pub f3: Option<u8>,
    #[asn(optional(integer(0..7)))] pub f4: Option<u8>,
}

impl Ts5dodooe2 {
    pub const fn f0_min() -> u8 {
        0
    }

    pub const fn f0_max() -> u8 {
        7
    }

    pub const fn f1_min() -> u8 {
        0
    }

    pub const fn f1_max() -> u8 {
        7
    }

    pub const fn f2_min() -> u8 {
        0
    }

    pub const fn f2_max() -> u8 {
        7
    }

    pub const fn f3_min() -> u8 {
        0
    }

    pub const fn f3_max() -> u8 {
        7
    }

    pub const fn f4_min() -> u8 {
        0
    }

    pub const fn f4_max() -> u8 {
        7
    }
}

#[asn(sequence, extensible_after(f2))]

#[derive(Default, Debug, Clone, PartialEq, Hash)]
pub struct Ts5dodooe3 {
    #[asn(default(integer(0..7), 5))] pub f0: u8,
    #[asn(optional(integer(0..7)))] pub f1: Option<u8>,
    #[asn(default(integer(0..7), 5))] pub f2: u8,
    #[asn(optional(integer(0..7)))] pub f3: Option<u8>,
    #[asn(optional(integer(0..7)))] pub f4: Option<u8>,
}

impl Ts5dodooe3 {
    pub const fn f0_min() -> u8 {
        0
    }

    pub const fn f0_max() -> u8 {
        7
    }

    pub const fn f1_min() -> u8 {
        0
    }

    pub const fn f1_max() -> u8 {
        7
    }

    pub const fn f2_min() -> u8 {
        0
    }

    pub const fn f2_max() -> u8 {
        7
    }

    pub const fn f3_min() -> u8 {
        0
    }

    pub const fn f3_max() -> u8 {
        7
    }

    pub const fn f4_min() -> u8 {
        0
    }

    pub const fn f4_max() -> u8 {
        7
    }
}

#[asn(sequence, extensible_after(f3))]

#[derive(Default, Debug, Clone, PartialEq, Hash)]
pub struct Ts5dodooe4 {
    #[asn(default(integer(0..7), 5))] pub f0: u8,
    #[asn(optional(integer(0..7)))] pub f1: Option<u8>,
    #[asn(default(integer(0..7), 5))] pub f2: u8,
    #[asn(optional(integer(0..7)))] pub f3: Option<u8>,
    #[asn(optional(integer(0..7)))] pub f4: Option<u8>,
}

impl Ts5dodooe4 {
    pub const fn f0_min() -> u8 {
        0
    }

    pub const fn f0_max() -> u8 {
        7
    }

    pub const fn f1_min() -> u8 {
        0
    }

    pub const fn f1_max() -> u8 {
        7
    }

    pub const fn f2_min() -> u8 {
        0
    }

    pub const fn f2_max() -> u8 {
        7
    }

    pub const fn f3_min() -> u8 {
        0
    }

    pub const fn f3_max() -> u8 {
        7
    }

    pub const fn f4_min() -> u8 {
        0
    }

    pub const fn f4_max() -> u8 {
        7
    }
}

#[asn(sequence, extensible_after(f4))]

#[derive(Default, Debug, Clone, PartialEq, Hash)]
pub struct Ts5dodooe5 {
    #[asn(default(integer(0..7), 5))] pub f0: u8,
    #[asn(optional(integer(0..7)))] pub f1: Option<u8>,
    #[asn(default(integer(0..7), 5))] pub f2: u8,
    #[asn(optional(integer(0..7)))] pub f3: Option<u8>,
    #[asn(optional(integer(0..7)))] pub f4: Option<u8>,
}

impl Ts5dodooe5 {
    pub const fn f0_min() -> u8 {
        0
    }

    pub const fn f0_max() -> u8 {
        7
    }

    pub const fn f1_min() -> u8 {
        0
    }

    pub const fn f1_max() -> u8 {
        7
    }

    pub const fn f2_min() -> u8 {
        0
    }

    pub const fn f2_max() -> u8 {
        7
    }

    pub const fn f3_min() -> u8 {
        0
    }

    pub const fn f3_max() -> u8 {
        7
    }

    pub const fn f4_min() -> u8 {
        0
    }

    pub const fn f4_max() -> u8 {
        7
    }
}

#[asn(sequence)]

#[derive(Default, Debug, Clone, PartialEq, Hash)]
pub struct Ts5mddoon {
    #[asn(integer(0..7))] pub f0: u8,
    #[asn(default(integer(0..7), 5))] pub f1: u8,
    #[asn(default(integer(0..7), 5))] pub f2: u8,
    #[asn(optional(integer(0..7)))] pub f3: Option<u8>,
    #[asn(optional(integer(0..7)))] pub f4: Option<u8>,
}

impl Ts5mddoon {
    pub const fn f0_min() -> u8 {
        0
    }

    pub const fn f0_max() -> u8 {
        7
    }

    pub const fn f1_min() -> u8 {
        0
    }

    pub const fn f1_max() -> u8 {
        7
    }

    pub const fn f2_min() -> u8 {
        0
    }

    pub const fn f2_max() -> u8 {
        7
    }

    pub const fn f3_min() -> u8 {
        0
    }

    pub const fn f3_max() -> u8 {
        7
    }

    pub const fn f4_min() -> u8 {
        0
    }

    pub const fn f4_max() -> u8 {
        7
    }
}

#[asn(sequence, extensible_after(f0))]

#[derive(Default, Debug, Clone, PartialEq, Hash)]
pub struct Ts5mddooe0 {
    #[asn(integer(0..7))] pub f0: u8,
    #[asn(default(integer(0..7), 5))] pub f1: u8,
    #[asn(default(integer(0..7), 5))] pub f2: u8,
    #[asn(optional(integer(0..7)))] pub f3: Option<u8>,
    #[asn(optional(integer(0..7)))] pub f4: Option<u8>,
}

impl Ts5mddooe0 {
    pub const fn f0_min() -> u8 {
        0
    }

    pub const fn f0_max() -> u8 {
        7
    }

    pub const fn f1_min() -> u8 {
        0
    }

    pub const fn f1_max() -> u8 {
        7
    }

    pub const fn f2_min() -> u8 {
        0
    }

    pub const fn f2_max() -> u8 {
        7
    }

    pub const fn f3_min() -> u8 {
        0
    }

    pub const fn f3_max() -> u8 {
        7
    }

    pub const fn f4_min() -> u8 {
        0
    }

    pub const fn f4_max() -> u8 {
        7
    }
}

#[asn(sequence, extensible_after(f0))]

#[derive(Default, Debug, Clone, PartialEq, Hash)]
pub struct Ts5mddooe1 {
    #[asn(integer(0..7))] pub f0: u8,
    #[asn(default(integer(0..7), 5))] pub f1: u8,
    #[asn(default(integer(0..7), 5))] pub f2: u8,
    #[asn(optional(integer(0..7)))] pub f3: Option<u8>,
    #[asn(optional(integer(0..7)))] pub f4: Option<u8>,
}

impl Ts5mddooe1 {
    pub const fn f0_min() -> u8 {
        0
    }

    pub const fn f0_max() -> u8 {
        7
    }

    pub const fn f1_min() -> u8 {
        0
    }

    pub const fn f1_max() -> u8 {
        7
    }

    pub const fn f2_min() -> u8 {
        0
    }

    pub const fn f2_max() -> u8 {
        7
    }

    pub const fn f3_min() -> u8 {
        0
    }

    pub const fn f3_max() -> u8 {
        7
    }

    pub const fn f4_min() -> u8 {
        0
    }

    pub const fn f4_max() -> u8 {
        7
    }
}

#[asn(sequence, extensible_after(f1))]

#[derive(Default, Debug, Clone, PartialEq, Hash)]
pub struct Ts5mddooe2 {
    #[asn(integer(0..7))] pub f0: u8,
    #[asn(default(integer(0..7), 5))] pub f1: u8,
    #[asn(default(integer(0..7), 5))] pub f2: u8,
    #[asn(optional(integer(0..7)))] pub f3: Option<u8>,
    #[asn(optional(integer(0..7)))] pub f4: Option<u8>,
}

impl Ts5mddooe2 {
    pub const fn f0_min() -> u8 {
        0
    }

    pub const fn f0_max() -> u8 {
        7
    }

    pub const fn f1_min() -> u8 {
        0
    }

    pub const fn f1_max() -> u8 {
        7
    }

    pub const fn f2_min() -> u8 {
        0
    }

    pub const fn f2_max() -> u8 {
        7
    }

    pub const fn f3_min() -> u8 {
        0
    }

    pub const fn f3_max() -> u8 {
        7
    }

    pub const fn f4_min() -> u8 {
        0
    }

    pub const fn f4_max() -> u8 {
        7
    }
}

#[asn(sequence, extensible_after(f2))]

#[derive(Default, Debug, Clone, PartialEq, Hash)]
pub struct Ts5mddooe3 {
    #[asn(integer(0..7))] pub f0: u8,
    #[asn(default(integer(0..7), 5))] pub f1: u8,
    #[asn(default(integer(0..7), 5))] pub f2: u8,
    #[asn(optional(integer(0..7)))] pub f3: Option<u8>,
    #[asn(optional(integer(0..7)))] pub f4: Option<u8>,
}

impl Ts5mddooe3 {
    pub const fn f0_min() -> u8 {
        0
    }

    pub const fn f0_max() -> u8 {
        7
    }

    pub const fn f1_min() -> u8 {
        0
    }

    pub const fn f1_max() -> u8 {
        7
    }

    pub const fn f2_min() -> u8 {
        0
    }

    pub const fn f2_max() -> u8 {
        7
    }

    pub const fn f3_min() -> u8 {
        0
    }

    pub const fn f3_max() -> u8 {
        7
    }

    pub const fn f4_min() -> u8 {
        0
    }

    pub const fn f4_max() -> u8 {
        7
    }
}

#[asn(sequence, extensible_after(f3))]

#[derive(Default, Debug, Clone, PartialEq, Hash)]
pub struct Ts5mddooe4 {
    #[asn(integer(0..7))] pub f0: u8,
    #[asn(default(integer(0..7), 5))] pub f1: u8,
    #[asn(default(integer(0..7), 5))] pub f2: u8,
    #[asn(optional(integer(0..7)))] pub f3: Option<u8>,
    #[asn(optional(integer(0..7)))] pub f4: Option<u8>,
}

impl Ts5mddooe4 {
    pub const fn f0_min() -> u8 {
        0
    }

    pub const fn f0_max() -> u8 {
        7
    }

    pub const fn f1_min() -> u8 {
        0
    }

    pub const fn f1_max() -> u8 {
        7
    }

    pub const fn f2_min() -> u8 {
        0
    }

    pub const fn f2_max() -> u8 {
        7
    }

    pub const fn f3_min() -> u8 {
        0
    }

    pub const fn f3_max() -> u8 {
        7
    }

    pub const fn f4_min() -> u8 {
        0
    }

    pub const fn f4_max() -> u8 {
        7
    }
}

#[asn(sequence, extensible_after(f4))]

#[derive(Default, Debug, Clone, PartialEq, Hash)]
pub struct Ts5mddooe5 {
    #[asn(integer(0..7))] pub f0: u8,
    #[asn(default(integer(0..7), 5))] pub f1: u8,
    #[asn(default(integer(0..7), 5))] pub f2: u8,
    #[asn(optional(integer(0..7)))] pub f3: Option<u8>,
    #[asn(optional(integer(0..7)))] pub f4: Option<u8>,
}

impl Ts5mddooe5 {
    pub const fn f0_min() -> u8 {
        0
    }

    pub const fn f0_max() -> u8 {
        7
    }

    pub const fn f1_min() -> u8 {
        0
    }

    pub const fn f1_max() -> u8 {
        7
    }

    pub const fn f2_min() -> u8 {
        0
    }

    pub const fn f2_max() -> u8 {
        7
    }

    pub const fn f3_min() -> u8 {
        0
    }

    pub const fn f3_max() -> u8 {
        7
    }

    pub const fn f4_min() -> u8 {
        0
    }

    pub const fn f4_max() -> u8 {
        7
    }
}

#[asn(sequence)]

#[derive(Default, Debug, Clone, PartialEq, Hash)]
pub struct Ts5oddoon {
    #[asn(optional(integer(0..7)))] pub f0: Option<u8>,
    #[asn(default(integer(0..7), 5))] pub f1: u8,
    #[asn(default(integer(0..7), 5))] pub f2: u8,
    #[asn(optional(integer(0..7)))] pub f3: Option<u8>,
    #[asn(optional(integer(0..7)))] pub f4: Option<u8>,
}

impl Ts5oddoon {
    pub const fn f0_min() -> u8 {
        0
    }

    pub const fn f0_max() -> u8 {
        7
    }

    pub const fn f1_min() -> u8 {
        0
    }

    pub const fn f1_max() -> u8 {
        7
    }

    pub const fn f2_min() -> u8 {
        0
    }

    pub const fn f2_max() -> u8 {
        7
    }

    pub const fn f3_min() -> u8 {
        0
    }

    pub const fn f3_max() -> u8 {
        7
    }

    pub const fn f4_min() -> u8 {
        0
    }

    pub const fn f4_max() -> u8 {
        7
    }
}

#[asn(sequence, extensible_after(f0))]

#[derive(Default, Debug, Clone, PartialEq, Hash)]
pub struct Ts5oddooe0 {
    #[asn(optional(integer(0..7)))] pub f0: Option<u8>,
    #[asn(default(integer(0..7), 5))] pub f1: u8,
    #[asn(default(integer(0..7), 5))] pub f2: u8,
    #[asn(optional(integer(0..7)))] pub f3: Option<u8>,
    #[asn(optional(integer(0..7)))] pub f4: Option<u8>,
}

impl Ts5oddooe0 {
    pub const fn f0_min() -> u8 {
        0
    }

    pub const fn f0_max() -> u8 {
        7
    }

    pub const fn f1_min() -> u8 {
        0
    }

    pub const fn f1_max() -> u8 {
        7
    }

    pub const fn f2_min() -> u8 {
        0
    }

    pub const fn f2_max() -> u8 {
        7
    }

    pub const fn f3_min() -> u8 {
        0
    }

    pub const fn f3_max() -> u8 {
        7
    }

    pub const fn f4_min() -> u8 {
        0
    }

    pub const fn f4_max() -> u8 {
        7
    }
}

#[asn(sequence, extensible_after(f0))]

#[derive(Default, Debug, Clone, PartialEq, Hash)]
pub struct Ts5oddooe1 {
    #[asn(optional(integer(0..7)))] pub f0: Option<u8>,
    #[asn(default(integer(0..7), 5))] pub f1: u8,
    #[asn(default(integer(0..7), 5))] pub f2: u8,
    #[asn(optional(integer(0..7)))] pub f3: Option<u8>,
    #[asn(optional(integer(0..7)))] pub f4: Option<u8>,
}

impl Ts5oddooe1 {
    pub const fn f0_min() -> u8 {
        0
    }

    pub const fn f0_max() -> u8 {
        7
    }

    pub const fn f1_min() -> u8 {
        0
    }

    pub const fn f1_max() -> u8 {
        7
    }

    pub const fn f2_min() -> u8 {
        0
    }

    pub const fn f2_max() -> u8 {
        7
    }

    pub const fn f3_min() -> u8 {
        0
    }

    pub const fn f3_max() -> u8 {
        7
    }

    pub const fn f4_min() -> u8 {
        0
    }

    pub const fn f4_max() -> u8 {
        7
    }
}

#[asn(sequence, extensible_after(f1))]

#[derive(Default, Debug, Clone, PartialEq, Hash)]
pub struct Ts5oddooe2 {
    #[asn(optional(integer(0..7)))] pub f0: Option<u8>,
    #[asn(default(integer(0..7), 5))] pub f1: u8,
    #[asn(default(integer(0..7), 5))] pub f2: u8,
    #[asn(optional(integer(0..7)))] pub f3: Option<u8>,
    #[asn(optional(integer(0..7)))] pub f4: Option<u8>,
}

impl Ts5oddooe2 {
    pub const fn f0_min() -> u8 {
        0
    }

    pub const fn f0_max() -> u8 {
        7
    }

    pub const fn f1_min() -> u8 {
        0
    }

    pub const fn f1_max() -> u8 {
        7
    }

    pub const fn f2_min() -> u8 {
        0
    }

    pub const fn f2_max() -> u8 {
        7
    }

    pub const fn f3_min() -> u8 {
        0
    }

    pub const fn f3_max() -> u8 {
        7
    }

    pub const fn f4_min() -> u8 {
        0
    }

    pub const fn f4_max() -> u8 {
        7
    }
}

#[asn(sequence, extensible_after(f2))]

#[derive(Default, Debug, Clone, PartialEq, Hash)]
pub struct Ts5oddooe3 {
    #[asn(optional(integer(0..7)))] pub f0: Option<u8>,
    #[asn(default(integer(0..7), 5))] pub f1: u8,
    #[asn(default(integer(0..7), 5))] pub f2: u8,
    #[asn(optional(integer(0..7)))] pub f3: Option<u8>,
    #[asn(optional(integer(0..7)))] pub f4: Option<u8>,
}

impl Ts5oddooe3 {
    pub const fn f0_min() -> u8 {
        0
    }

    pub const fn f0_max() -> u8 {
        7
    }

    pub const fn f1_min() -> u8 {
        0
    }

    pub const fn f1_max() -> u8 {
        7
    }

    pub const fn f2_min() -> u8 {
        0
    }

    pub const fn f2_max() -> u8 {
        7
    }

    pub const fn f3_min() -> u8 {
        0
    }

    pub const fn f3_max() -> u8 {
        7
    }

    pub const fn f4_min() -> u8 {
        0
    }

    pub const fn f4_max() -> u8 {
        7
    }
}

#[asn(sequence, extensible_after(f3))]

#[derive(Default, Debug, Clone, PartialEq, Hash)]
pub struct Ts5oddooe4 {
    #[asn(optional(integer(0..7)))] pub f0: Option<u8>,
    #[asn(default(integer(0..7), 5))] pub f1: u8,
    #[asn(default(integer(0..7), 5))] pub f2: u8,
    #[asn(optional(integer(0..7)))] pub f3: Option<u8>,
    #[asn(optional(integer(0..7)))] pub f4: Option<u8>,
}

impl Ts5oddooe4 {
    pub const fn f0_min() -> u8 {
        0
    }

    pub const fn f0_max() -> u8 {
        7
    }

    pub const fn f1_min() -> u8 {
        0
    }

    pub const fn f1_max() -> u8 {
        7
    }

    pub const fn f2_min() -> u8 {
        0
    }

    pub const fn f2_max() -> u8 {
        7
    }

    pub const fn f3_min() -> u8 {
        0
    }

    pub const fn f3_max() -> u8 {
        7
    }

    pub const fn f4_min() -> u8 {
        0
    }

    pub const fn f4_max() -> u8 {
        7
    }
}

#[asn(sequence, extensible_after(f4))]

#[derive(Default, Debug, Clone, PartialEq, Hash)]
pub struct Ts5oddooe5 {
    #[asn(optional(integer(0..7)))] pub f0: Option<u8>,
    #[asn(default(integer(0..7), 5))] pub f1: u8,
    #[asn(default(integer(0..7), 5))] pub f2: u8,
    #[asn(optional(integer(0..7)))] pub f3: Option<u8>,
    #[asn(optional(integer(0..7)))] pub f4: Option<u8>,
}

impl Ts5oddooe5 {
    pub const fn f0_min() -> u8 {
        0
    }

    pub const fn f0_max() -> u8 {
        7
    }

    pub const fn f1_min() -> u8 {
        0
    }

    pub const fn f1_max() -> u8 {
        7
    }

    pub const fn f2_min() -> u8 {
        0
    }

    pub const fn f2_max() -> u8 {
        7
    }

    pub const fn f3_min() -> u8 {
        0
    }

    pub const fn f3_max() -> u8 {
        7
    }

    pub const fn f4_min() -> u8 {
        0
    }

    pub const fn f4_max() -> u8 {
        7
    }
}

#[asn(sequence)]

#[derive(Default, Debug, Clone, PartialEq, Hash)]
pub struct Ts5dddoon {
    #[asn(default(integer(0..7), 5))] pub f0: u8,
    #[asn(default(integer(0..7), 5))] pub f1: u8,
    #[asn(default(integer(0..7), 5))] pub f2: u8,
    #[asn(optional(integer(0..7)))] pub f3: Option<u8>,
    #[asn(optional(integer(0..7)))] pub f4: Option<u8>,
}

impl Ts5dddoon {
    pub const fn f0_min() -> u8 {
        0
    }

    pub const fn f0_max() -> u8 {
        7
    }

    pub const fn f1_min() -> u8 {
        0
    }

    pub const fn f1_max() -> u8 {
        7
    }

    pub const fn f2_min() -> u8 {
        0
    }

    pub const fn f2_max() -> u8 {
        7
    }

    pub const fn f3_min() -> u8 {
        0
    }

    pub const fn f3_max() -> u8 {
        7
    }

    pub const fn f4_min() -> u8 {
        0
    }

    pub const fn f4_max() -> u8 {
        7
    }
}

#[asn(sequence, extensible_after(f0))]

#[derive(Default, Debug, Clone, PartialEq, Hash)]
pub struct Ts5dddooe0 {
    #[asn(default(integer(0..7), 5))] pub f0: u8,
    #[asn(default(integer(0..7), 5))] pub f1: u8,
    #[asn(default(integer(0..7), 5))] pub f2: u8,
    #[asn(optional(integer(0..7)))] pub f3: Option<u8>,
    #[asn(optional(integer(0..7)))] pub f4: Option<u8>,
}

impl Ts5dddooe0 {
    pub const fn f0_min() -> u8 {
        0
    }

    pub const fn f0_max() -> u8 {
        7
    }

    pub const fn f1_min() -> u8 {
        0
    }

    pub const fn f1_max() -> u8 {
        7
    }

    pub const fn f2_min() -> u8 {
        0
    }

    pub const fn f2_max() -> u8 {
        7
    }

    pub const fn f3_min() -> u8 {
        0
    }

    pub const fn f3_max() -> u8 {
        7
    }

    pub const fn f4_min() -> u8 {
        0
    }

    pub const fn f4_max() -> u8 {
        7
    }
}

#[asn(sequence, extensible_after(f0))]

#[derive(Default, Debug, Clone, PartialEq, Hash)]
pub struct Ts5dddooe1 {
    #[asn(default(integer(0..7), 5))] pub f0: u8,
    #[asn(default(integer(0..7), 5))] pub f1: u8,
    #[asn(default(integer(0..7), 5))] pub f2: u8,
    #[asn(optional(integer(0..7)))] pub f3: Option<u8>,
    #[asn(optional(integer(0..7)))] pub f4: Option<u8>,
}

impl Ts5dddooe1 {
    pub const fn f0_min() -> u8 {
        0
    }

    pub const fn f0_max() -> u8 {
        7
    }

    pub const fn f1_min() -> u8 {
        0
    }

    pub const fn f1_max() -> u8 {
        7
    }

    pub const fn f2_min() -> u8 {
        0
    }

    pub const fn f2_max() -> u8 {
        7
    }

    pub const fn f3_min() -> u8 {
        0
    }

    pub const fn f3_max() -> u8 {
        7
    }

    pub const fn f4_min() -> u8 {
        0
    }

    pub const fn f4_max() -> u8 {
        7
    }
}

#[asn(sequence, extensible_after(f1))]

#[derive(Default, Debug, Clone, PartialEq, Hash)]
pub struct Ts5dddooe2 {
    #[asn(default(integer(0..7), 5))] pub f0: u8,
    #[asn(default(integer(0..7), 5))] pub f1: u8,
    #[asn(default(integer(0..7), 5))] pub f2: u8,
    #[asn(optional(integer(0..7)))] pub f3: Option<u8>,
    #[asn(optional(integer(0..7)))] pub f4: Option<u8>,
}

impl Ts5dddooe2 {
    pub const fn f0_min() -> u8 {
        0
    }

    pub const fn f0_max() -> u8 {
        7
    }

    pub const fn f1_min() -> u8 {
        0
    }

    pub const fn f1_max() -> u8 {
        7
    }

    pub const fn f2_min() -> u8 {
        0
    }

    pub const fn f2_max() -> u8 {
        7
    }

    pub const fn f3_min() -> u8 {
        0
    }

    pub const fn f3_max() -> u8 {
        7
    }

    pub const fn f4_min() -> u8 {
        0
    }

    pub const fn f4_max() -> u8 {
        7
    }
}

#[asn(sequence, extensible_after(f2))]

#[derive(Default, Debug, Clone, PartialEq, Hash)]
pub struct Ts5dddooe3 {
    #[asn(default(integer(0..7), 5))] pub f0: u8,
    #[asn(default(integer(0..7), 5))] pub f1: u8,
    #[asn(default(integer(0..7), 5))] pub f2: u8,
    #[asn(optional(integer(0..7)))] pub f3: Option<u8>,
    #[asn(optional(integer(0..7)))] pub f4: Option<u8>,
}

impl Ts5dddooe3 {
    pub const fn f0_min() -> u8 {
        0
    }

    pub const fn f0_max() -> u8 {
        7
    }

    pub const fn f1_min() -> u8 {
        0
    }

    pub const fn f1_max() -> u8 {
        7
    }

    pub const fn f2_min() -> u8 {
        0
    }

    pub const fn f2_max() -> u8 {
        7
    }

    pub const fn f3_min() -> u8 {
        0
    }

    pub const fn f3_max() -> u8 {
        7
    }

    pub const fn f4_min() -> u8 {
        0
    }

    pub const fn f4_max() -> u8 {
        7
    }
}

#[asn(sequence, extensible_after(f3))]

#[derive(Default, Debug, Clone, PartialEq, Hash)]
pub struct Ts5dddooe4 {
    #[asn(default(integer(0..7), 5))] pub f0: u8,
    #[asn(default(integer(0..7), 5))] pub f1: u8,
    #[asn(default(integer(0..7), 5))] pub f2: u8,
    #[asn(optional(integer(0..7)))] pub f3: Option<u8>,
    #[asn(optional(integer(0..7)))] pub f4: Option<u8>,
}

impl Ts5dddooe4 {
    pub const fn f0_min() -> u8 {
        0
    }

    pub const fn f0_max() -> u8 {
        7
    }

    pub const fn f1_min() -> u8 {
        0
    }

    pub const fn f1_max() -> u8 {
        7
    }

    pub const fn f2_min() -> u8 {
        0
    }

    pub const fn f2_max() -> u8 {
        7
    }

    pub const fn f3_min() -> u8 {
        0
    }

    pub const fn f3_max() -> u8 {
        7
    }

    pub const fn f4_min() -> u8 {
        0
    }

    pub const fn f4_max() -> u8 {
        7
    }
}

#[asn(sequence, extensible_after(f4))]

#[derive(Default, Debug, Clone, PartialEq, Hash)]
pub struct Ts5dddooe5 {
    #[asn(default(integer(0..7), 5))] pub f0: u8,
    #[asn(default(integer(0..7), 5))] pub f1: u8,
    #[asn(default(integer(0..7), 5))] pub f2: u8,
    #[asn(optional(integer(0..7)))] pub f3: Option<u8>,
    #[asn(optional(integer(0..7)))] pub f4: Option<u8>,
}

impl Ts5dddooe5 {
    pub const fn f0_min() -> u8 {
        0
    }

    pub const fn f0_max() -> u8 {
        7
    }

    pub const fn f1_min() -> u8 {
        0
    }

    pub const fn f1_max() -> u8 {
        7
    }

    pub const fn f2_min() -> u8 {
        0
    }

    pub const fn f2_max() -> u8 {
        7
    }

    pub const fn f3_min() -> u8 {
        0
    }

    pub const fn f3_max() -> u8 {
        7
    }

    pub const fn f4_min() -> u8 {
        0
    }

    pub const fn f4_max() -> u8 {
        7
    }
}

#[asn(sequence)]

#[derive(Default, Debug, Clone, PartialEq, Hash)]
pub struct Ts5mmmdon {
    #[asn(integer(0..7))] pub f0: u8,
    #[asn(integer(0..7))] pub f1: u8,
    #[asn(integer(0..7))] pub f2: u8,
    #[asn(default(integer(0..7), 5))] pub f3: u8,
    #[asn(optional(integer(0..7)))] pub f4: Option<u8>,
}

impl Ts5mmmdon {
    pub const fn f0_min() -> u8 {
        0
    }

    pub const fn f0_max() -> u8 {
        7
    }

    pub const fn f1_min() -> u8 {
        0
    }

    pub const fn f1_max() -> u8 {
        7
    }

    pub const fn f2_min() -> u8 {
        0
    }

    pub const fn f2_max() -> u8 {
        7
    }

    pub const fn f3_min() -> u8 {
        0
    }

    pub const fn f3_max() -> u8 {
        7
    }

    pub const fn f4_min() -> u8 {
        0
    }

    pub const fn f4_max() -> u8 {
        7
    }
}

#[asn(sequence, extensible_after(f0))]

#[derive(Default, Debug, Clone, PartialEq, Hash)]
pub struct Ts5mmmdoe0 {
    #[asn(integer(0..7))] pub f0: u8,
    #[asn(optional(integer(0..7)))] pub f1: Option<u8>,
    #[asn(optional(integer(0..7)))] pub f2: Option<u8>,
    #[asn(default(integer(0..7), 5))] pub f3: u8,
    #[asn(optional(integer(0..7)))] pub f4: Option<u8>,
}

impl Ts5mmmdoe0 {
    pub const fn f0_min() -> u8 {
        0
    }

    pub const fn f0_max() -> u8 {
        7
    }

    pub const fn f1_min() -> u8 {
        0
    }

    pub const fn f1_max() -> u8 {
        7
    }

    pub const fn f2_min() -> u8 {
        0
    }

    pub const fn f2_max() -> u8 {
        7
    }

    pub const fn f3_min() -> u8 {
        0
    }

    pub const fn f3_max() -> u8 {
        7
    }

    pub const fn f4_min() -> u8 {
        0
    }

    pub const fn f4_max() -> u8 {
        7
    }
}

#[asn(sequence, extensible_after(f0))]

#[derive(Default, Debug, Clone, PartialEq, Hash)]
pub struct Ts5mmmdoe1 {
    #[asn(integer(0..7))] pub f0: u8,
    #[asn(optional(integer(0..7)))] pub f1: Option<u8>,
    #[asn(optional(integer(0..7)))] pub f2: Option<u8>,
    #[asn(default(integer(0..7), 5))] pub f3: u8,
    #[asn(optional(integer(0..7)))] pub f4: Option<u8>,
}

impl Ts5mmmdoe1 {
    pub const fn f0_min() -> u8 {
        0
    }

    pub const fn f0_max() -> u8 {
        7
    }

    pub const fn f1_min() -> u8 {
        0
    }

    pub const fn f1_max() -> u8 {
        7
    }

    pub const fn f2_min() -> u8 {
        0
    }

    pub const fn f2_max() -> u8 {
        7
    }

    pub const fn f3_min() -> u8 {
        0
    }

    pub const fn f3_max() -> u8 {
        7
    }

    pub const fn f4_min() -> u8 {
        0
    }

    pub const fn f4_max() -> u8 {
        7
    }
}

#[asn(sequence, extensible_after(f1))]

#[derive(Default, Debug, Clone, PartialEq, Hash)]
pub struct Ts5mmmdoe2 {
    #[asn(integer(0..7))] pub f0: u8,
    #[asn(integer(0..7))] pub f1: u8,
    #[asn(optional(integer(0..7)))] pub f2: Option<u8>,
    #[asn(default(integer(0..7), 5))] pub f3: u8,
    #[asn(optional(integer(0..7)))] pub f4: Option<u8>,
}

impl Ts5mmmdoe2 {
    pub const fn f0_min() -> u8 {
        0
    }

    pub const fn f0_max() -> u8 {
        7
    }

    pub const fn f1_min() -> u8 {
        0
    }

    pub const fn f1_max() -> u8 {
        7
    }

    pub const fn f2_min() -> u8 {
        0
    }

    pub const fn f2_max() -> u8 {
        7
    }

    pub const fn f3_min() -> u8 {
        0
    }

    pub const fn f3_max() -> u8 {
        7
    }

    pub const fn f4_min() -> u8 {
        0
    }

    pub const fn f4_max() -> u8 {
        7
    }
}

#[asn(sequence, extensible_after(f2))]

#[derive(Default, Debug, Clone, PartialEq, Hash)]
pub struct Ts5mmmdoe3 {
    #[asn(integer(0..7))] pub f0: u8,
    #[asn(integer(0..7))] pub f1: u8,
    #[asn(integer(0..7))] pub f2: u8,
    #[asn(default(integer(0..7), 5))] pub f3: u8,
    #[asn(optional(integer(0..7)))] pub f4: Option<u8>,
}

impl Ts5mmmdoe3 {
    pub const fn f0_min() -> u8 {
        0
    }

    pub const fn f0_max() -> u8 {
        7
    }

    pub const fn f1_min() -> u8 {
        0
    }

    pub const fn f1_max() -> u8 {
        7
    }

    pub const fn f2_min() -> u8 {
        0
    }

    pub const fn f2_max() -> u8 {
        7
    }

    pub const fn f3_min() -> u8 {
        0
    }

    pub const fn f3_max() -> u8 {
        7
    }

    pub const fn f4_min() -> u8 {
        0
    }

    pub const fn f4_max() -> u8 {
        7
    }
}

#[asn(sequence, extensible_after(f3))]

#[derive(Default, Debug, Clone, PartialEq, Hash)]
pub struct Ts5mmmdoe4 {
    #[asn(integer(0..7))] pub f0: u8,
    #[asn(integer(0..7))] pub f1: u8,
    #[asn(integer(0..7))] pub f2: u8,
    #[asn(default(integer(0..7), 5))] pub f3: u8,
    #[asn(optional(integer(0..7)))] pub f4: Option<u8>,
}

impl Ts5mmmdoe4 {
    pub const fn f0_min() -> u8 {
        0
    }

    pub const fn f0_max() -> u8 {
        7
    }

    pub const fn f1_min() -> u8 {
        0
    }

    pub const fn f1_max() -> u8 {
        7
    }

    pub const fn f2_min() -> u8 {
        0
    }

    pub const fn f2_max() -> u8 {
        7
    }

    pub const fn f3_min() -> u8 {
        0
    }

    pub const fn f3_max() -> u8 {
        7
    }

    pub const fn f4_min() -> u8 {
        0
    }

    pub const fn f4_max() -> u8 {
        7
    }
}

#[asn(sequence, extensible_after(f4))]

#[derive(Default, Debug, Clone, PartialEq, Hash)]
pub struct Ts5mmmdoe5 {
    #[asn(integer(0..7))] pub f0: u8,
    #[asn(integer(0..7))] pub f1: u8,
    #[asn(integer(0..7))] pub f2: u8,
    #[asn(default(integer(0..7), 5))] pub f3: u8,
    #[asn(optional(integer(0..7)))] pub f4: Option<u8>,
}

impl Ts5mmmdoe5 {
    pub const fn f0_min() -> u8 {
        0
    }

    pub const fn f0_max() -> u8 {
        7
    }

    pub const fn f1_min() -> u8 {
        0
    }

    pub const fn f1_max() -> u8 {
        7
    }

    pub const fn f2_min() -> u8 {
        0
    }

    pub const fn f2_max() -> u8 {
        7
    }

    pub const fn f3_min() -> u8 {
        0
    }

    pub const fn f3_max() -> u8 {
        7
    }

    pub const fn f4_min() -> u8 {
        0
    }

    pub const fn f4_max() -> u8 {
        7
    }
}

#[asn(sequence)]

#[derive(Default, Debug, Clone, PartialEq, Hash)]
pub struct Ts5ommdon {
    #[asn(optional(integer(0..7)))] pub f0: Option<u8>,
    #[asn(integer(0..7))] pub f1: u8,
    #[asn(integer(0..7))] pub f2: u8,
    #[asn(default(integer(0..7), 5))] pub f3: u8,
    #[asn(optional(integer(0..7)))] pub f4: Option<u8>,
}

impl Ts5ommdon {
    pub const fn f0_min() -> u8 {
        0
    }

    pub const fn f0_max() -> u8 {
        7
    }

    pub const fn f1_min() -> u8 {
        0
    }

    pub const fn f1_max() -> u8 {
        7
    }

    pub const fn f2_min() -> u8 {
        0
    }

    pub const fn f2_max() -> u8 {
        7
    }

    pub const fn f3_min() -> u8 {
        0
    }

    pub const fn f3_max() -> u8 {
        7
    }

    pub const fn f4_min() -> u8 {
        0
    }

    pub const fn f4_max() -> u8 {
        7
    }
}

#[asn(sequence, extensible_after(f0))]

#[derive(Default, Debug, Clone, PartialEq, Hash)]
pub struct Ts5ommdoe0 {
    #[asn(optional(integer(0..7)))] pub f0: Option<u8>,
    #[asn(optional(integer(0..7)))] pub f1: Option<u8>,
    #[asn(optional(integer(0..7)))] pub f2: Option<u8>,
    #[asn(default(integer(0..7), 5))] pub f3: u8,
    #[asn(optional(integer(0..7)))] pub f4: Option<u8>,
}

impl Ts5ommdoe0 {
    pub const fn f0_min() -> u8 {
        0
    }

    pub const fn f0_max() -> u8 {
        7
    }

    pub const fn f1_min() -> u8 {
        0
    }

    pub const fn f1_max() -> u8 {
        7
    }

    pub const fn f2_min() -> u8 {
        0
    }

    pub const fn f2_max() -> u8 {
        7
    }

    pub const fn f3_min() -> u8 {
        0
    }

    pub const fn f3_max() -> u8 {
        7
    }

    pub const fn f4_min() -> u8 {
        0
    }

    pub const fn f4_max() -> u8 {
        7
    }
}

#[asn(sequence, extensible_after(f0))]

#[derive(Default, Debug, Clone, PartialEq, Hash)]
pub struct Ts5ommdoe1 {
    #[asn(optional(integer(0..7)))] pub f0: Option<u8>,
    #[asn(optional(integer(0..7)))] pub f1: Option<u8>,
    #[asn(optional(integer(0..7)))] pub f2: Option<u8>,
    #[asn(default(integer(0..7), 5))] pub f3: u8,
    #[asn(optional(integer(0..7)))] pub f4: Option<u8>,
}

impl Ts5ommdoe1 {
    pub const fn f0_min() -> u8 {
        0
    }

    pub const fn f0_max() -> u8 {
        7
    }

    pub const fn f1_min() -> u8 {
        0
    }

    pub const fn f1_max() -> u8 {
        7
    }

    pub const fn f2_min() -> u8 {
        0
    }

    pub const fn f2_max() -> u8 {
        7
    }

    pub const fn f3_min() -> u8 {
        0
    }

    pub const fn f3_max() -> u8 {
        7
    }

    pub const fn f4_min() -> u8 {
        0
    }

    pub const fn f4_max() -> u8 {
        7
    }
}

#[asn(sequence, extensible_after(f1))]

#[derive(Default, Debug, Clone, PartialEq, Hash)]
pub struct Ts5ommdoe2 {
    #[asn(optional(integer(0..7)))] pub f0: Option<u8>,
    #[asn(integer(0..7))] pub f1: u8,
    #[asn(optional(integer(0..7)))] pub f2: Option<u8>,
    #[asn(default(integer(0..7), 5))] pub f3: u8,
    #[asn(optional(integer(0..7)))] pub f4: Option<u8>,
}

impl Ts5ommdoe2 {
    pub const fn f0_min() -> u8 {
        0
    }

    pub const fn f0_max() -> u8 {
        7
    }

    pub const fn f1_min() -> u8 {
        0
    }

    pub const fn f1_max() -> u8 {
        7
    }

    pub const fn f2_min() -> u8 {
        0
    }

    pub const fn f2_max() -> u8 {
        7
    }

    pub const fn f3_min() -> u8 {
        0
    }

    pub const fn f3_max() -> u8 {
        7
    }

    pub const fn f4_min() -> u8 {
        0
    }

    pub const fn f4_max() -> u8 {
        7
    }
}

#[asn(sequence, extensible_after(f2))]

#[derive(Default, Debug, Clone, PartialEq, Hash)]
pub struct Ts5ommdoe3 {
    #[asn(optional(integer(0..7)))] pub f0: Option<u8>,
    #[asn(integer(0..7))] pub f1: u8,
    #[asn(integer(0..7))] pub f2: u8,
    #[asn(default(integer(0..7), 5))] pub f3: u8,
    #[asn(optional(integer(0..7)))] pub f4: Option<u8>,
}

impl Ts5ommdoe3 {
    pub const fn f0_min() -> u8 {
        0
    }

    pub const fn f0_max() -> u8 {
        7
    }

    pub const fn f1_min() -> u8 {
        0
    }

    pub const fn f1_max() -> u8 {
        7
    }

    pub const fn f2_min() -> u8 {
        0
    }

    pub const fn f2_max() -> u8 {
        7
    }

    pub const fn f3_min() -> u8 {
        0
    }

    pub const fn f3_max() -> u8 {
        7
    }

    pub const fn f4_min() -> u8 {
        0
    }

    pub const fn f4_max() -> u8 {
        7
    }
}

#[asn(sequence, extensible_after(f3))]

#[derive(Default, Debug, Clone, PartialEq, Hash)]
pub struct Ts5ommdoe4 {
    #[asn(optional(integer(0..7)))] pub f0: Option<u8>,
    #[asn(integer(0..7))] pub f1: u8,
    #[asn(integer(0..7))] pub f2: u8,
    #[asn(default(integer(0..7), 5))] pub f3: u8,
    #[asn(optional(integer(0..7)))] pub f4: Option<u8>,
}

impl Ts5ommdoe4 {
    pub const fn f0_min() -> u8 {
        0
    }

    pub const fn f0_max() -> u8 {
        7
    }

    pub const fn f1_min() -> u8 {
        0
    }

    pub const fn f1_max() -> u8 {
        7
    }

    pub const fn f2_min() -> u8 {
        0
    }

    pub const fn f2_max() -> u8 {
        7
    }

    pub const fn f3_min() -> u8 {
        0
    }

    pub const fn f3_max() -> u8 {
        7
    }

    pub const fn f4_min() -> u8 {
        0
    }

    pub const fn f4_max() -> u8 {
        7
    }
}

#[asn(sequence, extensible_after(f4))]

#[derive(Default, Debug, Clone, PartialEq, Hash)]
pub struct Ts5ommdoe5 {
    #[asn(optional(integer(0..7)))] pub f0: Option<u8>,
    #[asn(integer(0..7))] pub f1: u8,
    #[asn(integer(0..7))] pub f2: u8,
    #[asn(default(integer(0..7), 5))] pub f3: u8,
    #[asn(optional(integer(0..7)))] pub f4: Option<u8>,
}

impl Ts5ommdoe5 {
    pub const fn f0_min() -> u8 {
        0
    }

    pub const fn f0_max() -> u8 {
        7
    }

    pub const fn f1_min() -> u8 {
        0
    }

    pub const fn f1_max() -> u8 {
        7
    }

    pub const fn f2_min() -> u8 {
        0
    }

    pub const fn f2_max() -> u8 {
        7
    }

    pub const fn f3_min() -> u8 {
        0
    }

    pub const fn f3_max() -> u8 {
        7
    }

    pub const fn f4_min() -> u8 {
        0
    }

    pub const fn f4_max() -> u8 {
        7
    }
}

#[asn(sequence)]

#[derive(Default, Debug, Clone, PartialEq, Hash)]
pub struct Ts5dmmdon {
    #[asn(default(integer(0..7), 5))] pub f0: u8,
    #[asn(integer(0..7))] pub f1: u8,
    #[asn(integer(0..7))] pub f2: u8,
    #[asn(default(integer(0..7), 5))] pub f3: u8,
    #[asn(optional(integer(0..7)))] pub f4: Option<u8>,
}

impl Ts5dmmdon {
    pub const fn f0_min() -> u8 {
        0
    }

    pub const fn f0_max() -> u8 {
        7
    }

    pub const fn f1_min() -> u8 {
        0
    }

    pub const fn f1_max() -> u8 {
        7
    }

    pub const fn f2_min() -> u8 {
        0
    }

    pub const fn f2_max() -> u8 {
        7
    }

    pub const fn f3_min() -> u8 {
        0
    }

    pub const fn f3_max() -> u8 {
        7
    }

    pub const fn f4_min() -> u8 {
        0
    }

    pub const fn f4_max() -> u8 {
        7
    }
}
// ---- harness conversions (generated by the zoo build script from the items above) ----
impl FromValue for Ts5moooon {
    fn from_value(v: &Value) -> Self {
        let s = match v { Value::Seq(s) => s, other => panic!("Ts5moooon: expected Seq, got {other:?}") };
        assert_eq!(s.len(), 5, "Ts5moooon: component count");
        let _ = s;
        Ts5moooon {
            f0: FromValue::from_value(s[0].as_ref().expect("component f0 of Ts5moooon must be present")),
            f1: s[1].as_ref().map(FromValue::from_value),
            f2: s[2].as_ref().map(FromValue::from_value),
            f3: s[3].as_ref().map(FromValue::from_value),
            f4: s[4].as_ref().map(FromValue::from_value),
        }
    }
}
impl ToValue for Ts5moooon {
    fn to_value(&self) -> Value {
        Value::Seq(vec![
            Some(self.f0.to_value()),
            self.f1.as_ref().map(|x| x.to_value()),
            self.f2.as_ref().map(|x| x.to_value()),
            self.f3.as_ref().map(|x| x.to_value()),
            self.f4.as_ref().map(|x| x.to_value()),
        ])
    }
}
impl FromValue for Ts5mooooe0 {
    fn from_value(v: &Value) -> Self {
        let s = match v { Value::Seq(s) => s, other => panic!("Ts5mooooe0: expected Seq, got {other:?}") };
        assert_eq!(s.len(), 5, "Ts5mooooe0: component count");
        let _ = s;
        Ts5mooooe0 {
            f0: FromValue::from_value(s[0].as_ref().expect("component f0 of Ts5mooooe0 must be present")),
            f1: s[1].as_ref().map(FromValue::from_value),
            f2: s[2].as_ref().map(FromValue::from_value),
            f3: s[3].as_ref().map(FromValue::from_value),
            f4: s[4].as_ref().map(FromValue::from_value),
        }
    }
}
impl ToValue for Ts5mooooe0 {
    fn to_value(&self) -> Value {
        Value::Seq(vec![
            Some(self.f0.to_value()),
            self.f1.as_ref().map(|x| x.to_value()),
            self.f2.as_ref().map(|x| x.to_value()),
            self.f3.as_ref().map(|x| x.to_value()),
            self.f4.as_ref().map(|x| x.to_value()),
        ])
    }
}
impl FromValue for Ts5mooooe1 {
    fn from_value(v: &Value) -> Self {
        let s = match v { Value::Seq(s) => s, other => panic!("Ts5mooooe1: expected Seq, got {other:?}") };
        assert_eq!(s.len(), 5, "Ts5mooooe1: component count");
        let _ = s;
        Ts5mooooe1 {
            f0: FromValue::from_value(s[0].as_ref().expect("component f0 of Ts5mooooe1 must be present")),
            f1: s[1].as_ref().map(FromValue::from_value),
            f2: s[2].as_ref().map(FromValue::from_value),
            f3: s[3].as_ref().map(FromValue::from_value),
            f4: s[4].as_ref().map(FromValue::from_value),
        }
    }
}
impl ToValue for Ts5mooooe1 {
    fn to_value(&self) -> Value {
        Value::Seq(vec![
            Some(self.f0.to_value()),
            self.f1.as_ref().map(|x| x.to_value()),
            self.f2.as_ref().map(|x| x.to_value()),
            self.f3.as_ref().map(|x| x.to_value()),
            self.f4.as_ref().map(|x| x.to_value()),
        ])
    }
}
impl FromValue for Ts5mooooe2 {
    fn from_value(v: &Value) -> Self {
        let s = match v { Value::Seq(s) => s, other => panic!("Ts5mooooe2: expected Seq, got {other:?}") };
        assert_eq!(s.len(), 5, "Ts5mooooe2: component count");
        let _ = s;
        Ts5mooooe2 {
            f0: FromValue::from_value(s[0].as_ref().expect("component f0 of Ts5mooooe2 must be present")),
            f1: s[1].as_ref().map(FromValue::from_value),
            f2: s[2].as_ref().map(FromValue::from_value),
            f3: s[3].as_ref().map(FromValue::from_value),
            f4: s[4].as_ref().map(FromValue::from_value),
        }
    }
}
impl ToValue for Ts5mooooe2 {
    fn to_value(&self) -> Value {
        Value::Seq(vec![
            Some(self.f0.to_value()),
            self.f1.as_ref().map(|x| x.to_value()),
            self.f2.as_ref().map(|x| x.to_value()),
            self.f3.as_ref().map(|x| x.to_value()),
            self.f4.as_ref().map(|x| x.to_value()),
        ])
    }
}
impl FromValue for Ts5mooooe3 {
    fn from_value(v: &Value) -> Self {
        let s = match v { Value::Seq(s) => s, other => panic!("Ts5mooooe3: expected Seq, got {other:?}") };
        assert_eq!(s.len(), 5, "Ts5mooooe3: component count");
        let _ = s;
        Ts5mooooe3 {
            f0: FromValue::from_value(s[0].as_ref().expect("component f0 of Ts5mooooe3 must be present")),
            f1: s[1].as_ref().map(FromValue::from_value),
            f2: s[2].as_ref().map(FromValue::from_value),
            f3: s[3].as_ref().map(FromValue::from_value),
            f4: s[4].as_ref().map(FromValue::from_value),
        }
    }
}
impl ToValue for Ts5mooooe3 {
    fn to_value(&self) -> Value {
        Value::Seq(vec![
            Some(self.f0.to_value()),
            self.f1.as_ref().map(|x| x.to_value()),
            self.f2.as_ref().map(|x| x.to_value()),
            self.f3.as_ref().map(|x| x.to_value()),
            self.f4.as_ref().map(|x| x.to_value()),
        ])
    }
}
impl FromValue for Ts5mooooe4 {
    fn from_value(v: &Value) -> Self {
        let s = match v { Value::Seq(s) => s, other => panic!("Ts5mooooe4: expected Seq, got {other:?}") };
        assert_eq!(s.len(), 5, "Ts5mooooe4: component count");
        let _ = s;
        Ts5mooooe4 {
            f0: FromValue::from_value(s[0].as_ref().expect("component f0 of Ts5mooooe4 must be present")),
            f1: s[1].as_ref().map(FromValue::from_value),
            f2: s[2].as_ref().map(FromValue::from_value),
            f3: s[3].as_ref().map(FromValue::from_value),
            f4: s[4].as_ref().map(FromValue::from_value),
        }
    }
}
impl ToValue for Ts5mooooe4 {
    fn to_value(&self) -> Value {
        Value::Seq(vec![
            Some(self.f0.to_value()),
            self.f1.as_ref().map(|x| x.to_value()),
            self.f2.as_ref().map(|x| x.to_value()),
            self.f3.as_ref().map(|x| x.to_value()),
            self.f4.as_ref().map(|x| x.to_value()),
        ])
    }
}
impl FromValue for Ts5mooooe5 {
    fn from_value(v: &Value) -> Self {
        let s = match v { Value::Seq(s) => s, other => panic!("Ts5mooooe5: expected Seq, got {other:?}") };
        assert_eq!(s.len(), 5, "Ts5mooooe5: component count");
        let _ = s;
        Ts5mooooe5 {
            f0: FromValue::from_value(s[0].as_ref().expect("component f0 of Ts5mooooe5 must be present")),
            f1: s[1].as_ref().map(FromValue::from_value),
            f2: s[2].as_ref().map(FromValue::from_value),
            f3: s[3].as_ref().map(FromValue::from_value),
            f4: s[4].as_ref().map(FromValue::from_value),
        }
    }
}
impl ToValue for Ts5mooooe5 {
    fn to_value(&self) -> Value {
        Value::Seq(vec![
            Some(self.f0.to_value()),
            self.f1.as_ref().map(|x| x.to_value()),
            self.f2.as_ref().map(|x| x.to_value()),
            self.f3.as_ref().map(|x| x.to_value()),
            self.f4.as_ref().map(|x| x.to_value()),
        ])
    }
}
impl FromValue for Ts5ooooon {
    fn from_value(v: &Value) -> Self {
        let s = match v { Value::Seq(s) => s, other => panic!("Ts5ooooon: expected Seq, got {other:?}") };
        assert_eq!(s.len(), 5, "Ts5ooooon: component count");
        let _ = s;
        Ts5ooooon {
            f0: s[0].as_ref().map(FromValue::from_value),
            f1: s[1].as_ref().map(FromValue::from_value),
            f2: s[2].as_ref().map(FromValue::from_value),
            f3: s[3].as_ref().map(FromValue::from_value),
            f4: s[4].as_ref().map(FromValue::from_value),
        }
    }
}
impl ToValue for Ts5ooooon {
    fn to_value(&self) -> Value {
        Value::Seq(vec![
            self.f0.as_ref().map(|x| x.to_value()),
            self.f1.as_ref().map(|x| x.to_value()),
            self.f2.as_ref().map(|x| x.to_value()),
            self.f3.as_ref().map(|x| x.to_value()),
            self.f4.as_ref().map(|x| x.to_value()),
        ])
    }
}
impl FromValue for Ts5oooooe0 {
    fn from_value(v: &Value) -> Self {
        let s = match v { Value::Seq(s) => s, other => panic!("Ts5oooooe0: expected Seq, got {other:?}") };
        assert_eq!(s.len(), 5, "Ts5oooooe0: component count");
        let _ = s;
        Ts5oooooe0 {
            f0: s[0].as_ref().map(FromValue::from_value),
            f1: s[1].as_ref().map(FromValue::from_value),
            f2: s[2].as_ref().map(FromValue::from_value),
            f3: s[3].as_ref().map(FromValue::from_value),
            f4: s[4].as_ref().map(FromValue::from_value),
        }
    }
}
impl ToValue for Ts5oooooe0 {
    fn to_value(&self) -> Value {
        Value::Seq(vec![
            self.f0.as_ref().map(|x| x.to_value()),
            self.f1.as_ref().map(|x| x.to_value()),
            self.f2.as_ref().map(|x| x.to_value()),
            self.f3.as_ref().map(|x| x.to_value()),
            self.f4.as_ref().map(|x| x.to_value()),
        ])
    }
}
impl FromValue for Ts5oooooe1 {
    fn from_value(v: &Value) -> Self {
        let s = match v { Value::Seq(s) => s, other => panic!("Ts5oooooe1: expected Seq, got {other:?}") };
        assert_eq!(s.len(), 5, "Ts5oooooe1: component count");
        let _ = s;
        Ts5oooooe1 {
            f0: s[0].as_ref().map(FromValue::from_value),
            f1: s[1].as_ref().map(FromValue::from_value),
            f2: s[2].as_ref().map(FromValue::from_value),
            f3: s[3].as_ref().map(FromValue::from_value),
            f4: s[4].as_ref().map(FromValue::from_value),
        }
    }
}
impl ToValue for Ts5oooooe1 {
    fn to_value(&self) -> Value {
        Value::Seq(vec![
            self.f0.as_ref().map(|x| x.to_value()),
            self.f1.as_ref().map(|x| x.to_value()),
            self.f2.as_ref().map(|x| x.to_value()),
            self.f3.as_ref().map(|x| x.to_value()),
            self.f4.as_ref().map(|x| x.to_value()),
        ])
    }
}
impl FromValue for Ts5oooooe2 {
    fn from_value(v: &Value) -> Self {
        let s = match v { Value::Seq(s) => s, other => panic!("Ts5oooooe2: expected Seq, got {other:?}") };
        assert_eq!(s.len(), 5, "Ts5oooooe2: component count");
        let _ = s;
        Ts5oooooe2 {
            f0: s[0].as_ref().map(FromValue::from_value),
            f1: s[1].as_ref().map(FromValue::from_value),
            f2: s[2].as_ref().map(FromValue::from_value),
            f3: s[3].as_ref().map(FromValue::from_value),
            f4: s[4].as_ref().map(FromValue::from_value),
        }
    }
}
impl ToValue for Ts5oooooe2 {
    fn to_value(&self) -> Value {
        Value::Seq(vec![
            self.f0.as_ref().map(|x| x.to_value()),
            self.f1.as_ref().map(|x| x.to_value()),
            self.f2.as_ref().map(|x| x.to_value()),
            self.f3.as_ref().map(|x| x.to_value()),
            self.f4.as_ref().map(|x| x.to_value()),
        ])
    }
}
impl FromValue for Ts5oooooe3 {
    fn from_value(v: &Value) -> Self {
        let s = match v { Value::Seq(s) => s, other => panic!("Ts5oooooe3: expected Seq, got {other:?}") };
        assert_eq!(s.len(), 5, "Ts5oooooe3: component count");
        let _ = s;
        Ts5oooooe3 {
            f0: s[0].as_ref().map(FromValue::from_value),
            f1: s[1].as_ref().map(FromValue::from_value),
            f2: s[2].as_ref().map(FromValue::from_value),
            f3: s[3].as_ref().map(FromValue::from_value),
            f4: s[4].as_ref().map(FromValue::from_value),
        }
    }
}
impl ToValue for Ts5oooooe3 {
    fn to_value(&self) -> Value {
        Value::Seq(vec![
            self.f0.as_ref().map(|x| x.to_value()),
            self.f1.as_ref().map(|x| x.to_value()),
            self.f2.as_ref().map(|x| x.to_value()),
            self.f3.as_ref().map(|x| x.to_value()),
            self.f4.as_ref().map(|x| x.to_value()),
        ])
    }
}
impl FromValue for Ts5oooooe4 {
    fn from_value(v: &Value) -> Self {
        let s = match v { Value::Seq(s) => s, other => panic!("Ts5oooooe4: expected Seq, got {other:?}") };
        assert_eq!(s.len(), 5, "Ts5oooooe4: component count");
        let _ = s;
        Ts5oooooe4 {
            f0: s[0].as_ref().map(FromValue::from_value),
            f1: s[1].as_ref().map(FromValue::from_value),
            f2: s[2].as_ref().map(FromValue::from_value),
            f3: s[3].as_ref().map(FromValue::from_value),
            f4: s[4].as_ref().map(FromValue::from_value),
        }
    }
}
impl ToValue for Ts5oooooe4 {
    fn to_value(&self) -> Value {
        Value::Seq(vec![
            self.f0.as_ref().map(|x| x.to_value()),
            self.f1.as_ref().map(|x| x.to_value()),
            self.f2.as_ref().map(|x| x.to_value()),
            self.f3.as_ref().map(|x| x.to_value()),
            self.f4.as_ref().map(|x| x.to_value()),
        ])
    }
}
impl FromValue for Ts5oooooe5 {
    fn from_value(v: &Value) -> Self {
        let s = match v { Value::Seq(s) => s, other => panic!("Ts5oooooe5: expected Seq, got {other:?}") };
        assert_eq!(s.len(), 5, "Ts5oooooe5: component count");
        let _ = s;
        Ts5oooooe5 {
            f0: s[0].as_ref().map(FromValue::from_value),
            f1: s[1].as_ref().map(FromValue::from_value),
            f2: s[2].as_ref().map(FromValue::from_value),
            f3: s[3].as_ref().map(FromValue::from_value),
            f4: s[4].as_ref().map(FromValue::from_value),
        }
    }
}
impl ToValue for Ts5oooooe5 {
    fn to_value(&self) -> Value {
        Value::Seq(vec![
            self.f0.as_ref().map(|x| x.to_value()),
            self.f1.as_ref().map(|x| x.to_value()),
            self.f2.as_ref().map(|x| x.to_value()),
            self.f3.as_ref().map(|x| x.to_value()),
            self.f4.as_ref().map(|x| x.to_value()),
        ])
    }
}
impl FromValue for Ts5doooon {
    fn from_value(v: &Value) -> Self {
        let s = match v { Value::Seq(s) => s, other => panic!("Ts5doooon: expected Seq, got {other:?}") };
        assert_eq!(s.len(), 5, "Ts5doooon: component count");
        let _ = s;
        Ts5doooon {
            f0: FromValue::from_value(s[0].as_ref().expect("component f0 of Ts5doooon must be present")),
            f1: s[1].as_ref().map(FromValue::from_value),
            f2: s[2].as_ref().map(FromValue::from_value),
            f3: s[3].as_ref().map(FromValue::from_value),
            f4: s[4].as_ref().map(FromValue::from_value),
        }
    }
}
impl ToValue for Ts5doooon {
    fn to_value(&self) -> Value {
        Value::Seq(vec![
            Some(self.f0.to_value()),
            self.f1.as_ref().map(|x| x.to_value()),
            self.f2.as_ref().map(|x| x.to_value()),
            self.f3.as_ref().map(|x| x.to_value()),
            self.f4.as_ref().map(|x| x.to_value()),
        ])
    }
}
impl FromValue for Ts5dooooe0 {
    fn from_value(v: &Value) -> Self {
        let s = match v { Value::Seq(s) => s, other => panic!("Ts5dooooe0: expected Seq, got {other:?}") };
        assert_eq!(s.len(), 5, "Ts5dooooe0: component count");
        let _ = s;
        Ts5dooooe0 {
            f0: FromValue::from_value(s[0].as_ref().expect("component f0 of Ts5dooooe0 must be present")),
            f1: s[1].as_ref().map(FromValue::from_value),
            f2: s[2].as_ref().map(FromValue::from_value),
            f3: s[3].as_ref().map(FromValue::from_value),
            f4: s[4].as_ref().map(FromValue::from_value),
        }
    }
}
impl ToValue for Ts5dooooe0 {
    fn to_value(&self) -> Value {
        Value::Seq(vec![
            Some(self.f0.to_value()),
            self.f1.as_ref().map(|x| x.to_value()),
            self.f2.as_ref().map(|x| x.to_value()),
            self.f3.as_ref().map(|x| x.to_value()),
            self.f4.as_ref().map(|x| x.to_value()),
        ])
    }
}
impl FromValue for Ts5dooooe1 {
    fn from_value(v: &Value) -> Self {
        let s = match v { Value::Seq(s) => s, other => panic!("Ts5dooooe1: expected Seq, got {other:?}") };
        assert_eq!(s.len(), 5, "Ts5dooooe1: component count");
        let _ = s;
        Ts5dooooe1 {
            f0: FromValue::from_value(s[0].as_ref().expect("component f0 of Ts5dooooe1 must be present")),
            f1: s[1].as_ref().map(FromValue::from_value),
            f2: s[2].as_ref().map(FromValue::from_value),
            f3: s[3].as_ref().map(FromValue::from_value),
            f4: s[4].as_ref().map(FromValue::from_value),
        }
    }
}
impl ToValue for Ts5dooooe1 {
    fn to_value(&self) -> Value {
        Value::Seq(vec![
            Some(self.f0.to_value()),
            self.f1.as_ref().map(|x| x.to_value()),
            self.f2.as_ref().map(|x| x.to_value()),
            self.f3.as_ref().map(|x| x.to_value()),
            self.f4.as_ref().map(|x| x.to_value()),
        ])
    }
}
impl FromValue for Ts5dooooe2 {
    fn from_value(v: &Value) -> Self {
        let s = match v { Value::Seq(s) => s, other => panic!("Ts5dooooe2: expected Seq, got {other:?}") };
        assert_eq!(s.len(), 5, "Ts5dooooe2: component count");
        let _ = s;
        Ts5dooooe2 {
            f0: FromValue::from_value(s[0].as_ref().expect("component f0 of Ts5dooooe2 must be present")),
            f1: s[1].as_ref().map(FromValue::from_value),
            f2: s[2].as_ref().map(FromValue::from_value),
            f3: s[3].as_ref().map(FromValue::from_value),
            f4: s[4].as_ref().map(FromValue::from_value),
        }
    }
}
impl ToValue for Ts5dooooe2 {
    fn to_value(&self) -> Value {
        Value::Seq(vec![
            Some(self.f0.to_value()),
            self.f1.as_ref().map(|x| x.to_value()),
            self.f2.as_ref().map(|x| x.to_value()),
            self.f3.as_ref().map(|x| x.to_value()),
            self.f4.as_ref().map(|x| x.to_value()),
        ])
    }
}
impl FromValue for Ts5dooooe3 {
    fn from_value(v: &Value) -> Self {
        let s = match v { Value::Seq(s) => s, other => panic!("Ts5dooooe3: expected Seq, got {other:?}") };
        assert_eq!(s.len(), 5, "Ts5dooooe3: component count");
        let _ = s;
        Ts5dooooe3 {
            f0: FromValue::from_value(s[0].as_ref().expect("component f0 of Ts5dooooe3 must be present")),
            f1: s[1].as_ref().map(FromValue::from_value),
            f2: s[2].as_ref().map(FromValue::from_value),
            f3: s[3].as_ref().map(FromValue::from_value),
            f4: s[4].as_ref().map(FromValue::from_value),
        }
    }
}
impl ToValue for Ts5dooooe3 {
    fn to_value(&self) -> Value {
        Value::Seq(vec![
            Some(self.f0.to_value()),
            self.f1.as_ref().map(|x| x.to_value()),
            self.f2.as_ref().map(|x| x.to_value()),
            self.f3.as_ref().map(|x| x.to_value()),
            self.f4.as_ref().map(|x| x.to_value()),
        ])
    }
}
impl FromValue for Ts5dooooe4 {
    fn from_value(v: &Value) -> Self {
        let s = match v { Value::Seq(s) => s, other => panic!("Ts5dooooe4: expected Seq, got {other:?}") };
        assert_eq!(s.len(), 5, "Ts5dooooe4: component count");
        let _ = s;
        Ts5dooooe4 {
            f0: FromValue::from_value(s[0].as_ref().expect("component f0 of Ts5dooooe4 must be present")),
            f1: s[1].as_ref().map(FromValue::from_value),
            f2: s[2].as_ref().map(FromValue::from_value),
            f3: s[3].as_ref().map(FromValue::from_value),
            f4: s[4].as_ref().map(FromValue::from_value),
        }
    }
}
impl ToValue for Ts5dooooe4 {
    fn to_value(&self) -> Value {
        Value::Seq(vec![
            Some(self.f0.to_value()),
            self.f1.as_ref().map(|x| x.to_value()),
            self.f2.as_ref().map(|x| x.to_value()),
            self.f3.as_ref().map(|x| x.to_value()),
            self.f4.as_ref().map(|x| x.to_value()),
        ])
    }
}
impl FromValue for Ts5dooooe5 {
    fn from_value(v: &Value) -> Self {
        let s = match v { Value::Seq(s) => s, other => panic!("Ts5dooooe5: expected Seq, got {other:?}") };
        assert_eq!(s.len(), 5, "Ts5dooooe5: component count");
        let _ = s;
        Ts5dooooe5 {
            f0: FromValue::from_value(s[0].as_ref().expect("component f0 of Ts5dooooe5 must be present")),
            f1: s[1].as_ref().map(FromValue::from_value),
            f2: s[2].as_ref().map(FromValue::from_value),
            f3: s[3].as_ref().map(FromValue::from_value),
            f4: s[4].as_ref().map(FromValue::from_value),
        }
    }
}
impl ToValue for Ts5dooooe5 {
    fn to_value(&self) -> Value {
        Value::Seq(vec![
            Some(self.f0.to_value()),
            self.f1.as_ref().map(|x| x.to_value()),
            self.f2.as_ref().map(|x| x.to_value()),
            self.f3.as_ref().map(|x| x.to_value()),
            self.f4.as_ref().map(|x| x.to_value()),
        ])
    }
}
impl FromValue for Ts5mdooon {
    fn from_value(v: &Value) -> Self {
        let s = match v { Value::Seq(s) => s, other => panic!("Ts5mdooon: expected Seq, got {other:?}") };
        assert_eq!(s.len(), 5, "Ts5mdooon: component count");
        let _ = s;
        Ts5mdooon {
            f0: FromValue::from_value(s[0].as_ref().expect("component f0 of Ts5mdooon must be present")),
            f1: FromValue::from_value(s[1].as_ref().expect("component f1 of Ts5mdooon must be present")),
            f2: s[2].as_ref().map(FromValue::from_value),
            f3: s[3].as_ref().map(FromValue::from_value),
            f4: s[4].as_ref().map(FromValue::from_value),
        }
    }
}
impl ToValue for Ts5mdooon {
    fn to_value(&self) -> Value {
        Value::Seq(vec![
            Some(self.f0.to_value()),
            Some(self.f1.to_value()),
            self.f2.as_ref().map(|x| x.to_value()),
            self.f3.as_ref().map(|x| x.to_value()),
            self.f4.as_ref().map(|x| x.to_value()),
        ])
    }
}
impl FromValue for Ts5mdoooe0 {
    fn from_value(v: &Value) -> Self {
        let s = match v { Value::Seq(s) => s, other => panic!("Ts5mdoooe0: expected Seq, got {other:?}") };
        assert_eq!(s.len(), 5, "Ts5mdoooe0: component count");
        let _ = s;
        Ts5mdoooe0 {
            f0: FromValue::from_value(s[0].as_ref().expect("component f0 of Ts5mdoooe0 must be present")),
            f1: FromValue::from_value(s[1].as_ref().expect("component f1 of Ts5mdoooe0 must be present")),
            f2: s[2].as_ref().map(FromValue::from_value),
            f3: s[3].as_ref().map(FromValue::from_value),
            f4: s[4].as_ref().map(FromValue::from_value),
        }
    }
}
impl ToValue for Ts5mdoooe0 {
    fn to_value(&self) -> Value {
        Value::Seq(vec![
            Some(self.f0.to_value()),
            Some(self.f1.to_value()),
            self.f2.as_ref().map(|x| x.to_value()),
            self.f3.as_ref().map(|x| x.to_value()),
            self.f4.as_ref().map(|x| x.to_value()),
        ])
    }
}
impl FromValue for Ts5mdoooe1 {
    fn from_value(v: &Value) -> Self {
        let s = match v { Value::Seq(s) => s, other => panic!("Ts5mdoooe1: expected Seq, got {other:?}") };
        assert_eq!(s.len(), 5, "Ts5mdoooe1: component count");
        let _ = s;
        Ts5mdoooe1 {
            f0: FromValue::from_value(s[0].as_ref().expect("component f0 of Ts5mdoooe1 must be present")),
            f1: FromValue::from_value(s[1].as_ref().expect("component f1 of Ts5mdoooe1 must be present")),
            f2: s[2].as_ref().map(FromValue::from_value),
            f3: s[3].as_ref().map(FromValue::from_value),
            f4: s[4].as_ref().map(FromValue::from_value),
        }
    }
}
impl ToValue for Ts5mdoooe1 {
    fn to_value(&self) -> Value {
        Value::Seq(vec![
            Some(self.f0.to_value()),
            Some(self.f1.to_value()),
            self.f2.as_ref().map(|x| x.to_value()),
            self.f3.as_ref().map(|x| x.to_value()),
            self.f4.as_ref().map(|x| x.to_value()),
        ])
    }
}
impl FromValue for Ts5mdoooe2 {
    fn from_value(v: &Value) -> Self {
        let s = match v { Value::Seq(s) => s, other => panic!("Ts5mdoooe2: expected Seq, got {other:?}") };
        assert_eq!(s.len(), 5, "Ts5mdoooe2: component count");
        let _ = s;
        Ts5mdoooe2 {
            f0: FromValue::from_value(s[0].as_ref().expect("component f0 of Ts5mdoooe2 must be present")),
            f1: FromValue::from_value(s[1].as_ref().expect("component f1 of Ts5mdoooe2 must be present")),
            f2: s[2].as_ref().map(FromValue::from_value),
            f3: s[3].as_ref().map(FromValue::from_value),
            f4: s[4].as_ref().map(FromValue::from_value),
        }
    }
}
impl ToValue for Ts5mdoooe2 {
    fn to_value(&self) -> Value {
        Value::Seq(vec![
            Some(self.f0.to_value()),
            Some(self.f1.to_value()),
            self.f2.as_ref().map(|x| x.to_value()),
            self.f3.as_ref().map(|x| x.to_value()),
            self.f4.as_ref().map(|x| x.to_value()),
        ])
    }
}
impl FromValue for Ts5mdoooe3 {
    fn from_value(v: &Value) -> Self {
        let s = match v { Value::Seq(s) => s, other => panic!("Ts5mdoooe3: expected Seq, got {other:?}") };
        assert_eq!(s.len(), 5, "Ts5mdoooe3: component count");
        let _ = s;
        Ts5mdoooe3 {
            f0: FromValue::from_value(s[0].as_ref().expect("component f0 of Ts5mdoooe3 must be present")),
            f1: FromValue::from_value(s[1].as_ref().expect("component f1 of Ts5mdoooe3 must be present")),
            f2: s[2].as_ref().map(FromValue::from_value),
            f3: s[3].as_ref().map(FromValue::from_value),
            f4: s[4].as_ref().map(FromValue::from_value),
        }
    }
}
impl ToValue for Ts5mdoooe3 {
    fn to_value(&self) -> Value {
        Value::Seq(vec![
            Some(self.f0.to_value()),
            Some(self.f1.to_value()),
            self.f2.as_ref().map(|x| x.to_value()),
            self.f3.as_ref().map(|x| x.to_value()),
            self.f4.as_ref().map(|x| x.to_value()),
        ])
    }
}
impl FromValue for Ts5mdoooe4 {
    fn from_value(v: &Value) -> Self {
        let s = match v { Value::Seq(s) => s, other => panic!("Ts5mdoooe4: expected Seq, got {other:?}") };
        assert_eq!(s.len(), 5, "Ts5mdoooe4: component count");
        let _ = s;
        Ts5mdoooe4 {
            f0: FromValue::from_value(s[0].as_ref().expect("component f0 of Ts5mdoooe4 must be present")),
            f1: FromValue::from_value(s[1].as_ref().expect("component f1 of Ts5mdoooe4 must be present")),
            f2: s[2].as_ref().map(FromValue::from_value),
            f3: s[3].as_ref().map(FromValue::from_value),
            f4: s[4].as_ref().map(FromValue::from_value),
        }
    }
}
impl ToValue for Ts5mdoooe4 {
    fn to_value(&self) -> Value {
        Value::Seq(vec![
            Some(self.f0.to_value()),
            Some(self.f1.to_value()),
            self.f2.as_ref().map(|x| x.to_value()),
            self.f3.as_ref().map(|x| x.to_value()),
            self.f4.as_ref().map(|x| x.to_value()),
        ])
    }
}
impl FromValue for Ts5mdoooe5 {
    fn from_value(v: &Value) -> Self {
        let s = match v { Value::Seq(s) => s, other => panic!("Ts5mdoooe5: expected Seq, got {other:?}") };
        assert_eq!(s.len(), 5, "Ts5mdoooe5: component count");
        let _ = s;
        Ts5mdoooe5 {
            f0: FromValue::from_value(s[0].as_ref().expect("component f0 of Ts5mdoooe5 must be present")),
            f1: FromValue::from_value(s[1].as_ref().expect("component f1 of Ts5mdoooe5 must be present")),
            f2: s[2].as_ref().map(FromValue::from_value),
            f3: s[3].as_ref().map(FromValue::from_value),
            f4: s[4].as_ref().map(FromValue::from_value),
        }
    }
}
impl ToValue for Ts5mdoooe5 {
    fn to_value(&self) -> Value {
        Value::Seq(vec![
            Some(self.f0.to_value()),
            Some(self.f1.to_value()),
            self.f2.as_ref().map(|x| x.to_value()),
            self.f3.as_ref().map(|x| x.to_value()),
            self.f4.as_ref().map(|x| x.to_value()),
        ])
    }
}
impl FromValue for Ts5odooon {
    fn from_value(v: &Value) -> Self {
        let s = match v { Value::Seq(s) => s, other => panic!("Ts5odooon: expected Seq, got {other:?}") };
        assert_eq!(s.len(), 5, "Ts5odooon: component count");
        let _ = s;
        Ts5odooon {
            f0: s[0].as_ref().map(FromValue::from_value),
            f1: FromValue::from_value(s[1].as_ref().expect("component f1 of Ts5odooon must be present")),
            f2: s[2].as_ref().map(FromValue::from_value),
            f3: s[3].as_ref().map(FromValue::from_value),
            f4: s[4].as_ref().map(FromValue::from_value),
        }
    }
}
impl ToValue for Ts5odooon {
    fn to_value(&self) -> Value {
        Value::Seq(vec![
            self.f0.as_ref().map(|x| x.to_value()),
            Some(self.f1.to_value()),
            self.f2.as_ref().map(|x| x.to_value()),
            self.f3.as_ref().map(|x| x.to_value()),
            self.f4.as_ref().map(|x| x.to_value()),
        ])
    }
}
impl FromValue for Ts5odoooe0 {
    fn from_value(v: &Value) -> Self {
        let s = match v { Value::Seq(s) => s, other => panic!("Ts5odoooe0: expected Seq, got {other:?}") };
        assert_eq!(s.len(), 5, "Ts5odoooe0: component count");
        let _ = s;
        Ts5odoooe0 {
            f0: s[0].as_ref().map(FromValue::from_value),
            f1: FromValue::from_value(s[1].as_ref().expect("component f1 of Ts5odoooe0 must be present")),
            f2: s[2].as_ref().map(FromValue::from_value),
            f3: s[3].as_ref().map(FromValue::from_value),
            f4: s[4].as_ref().map(FromValue::from_value),
        }
    }
}
impl ToValue for Ts5odoooe0 {
    fn to_value(&self) -> Value {
        Value::Seq(vec![
            self.f0.as_ref().map(|x| x.to_value()),
            Some(self.f1.to_value()),
            self.f2.as_ref().map(|x| x.to_value()),
            self.f3.as_ref().map(|x| x.to_value()),
            self.f4.as_ref().map(|x| x.to_value()),
        ])
    }
}
impl FromValue for Ts5odoooe1 {
    fn from_value(v: &Value) -> Self {
        let s = match v { Value::Seq(s) => s, other => panic!("Ts5odoooe1: expected Seq, got {other:?}") };
        assert_eq!(s.len(), 5, "Ts5odoooe1: component count");
        let _ = s;
        Ts5odoooe1 {
            f0: s[0].as_ref().map(FromValue::from_value),
            f1: FromValue::from_value(s[1].as_ref().expect("component f1 of Ts5odoooe1 must be present")),
            f2: s[2].as_ref().map(FromValue::from_value),
            f3: s[3].as_ref().map(FromValue::from_value),
            f4: s[4].as_ref().map(FromValue::from_value),
        }
    }
}
impl ToValue for Ts5odoooe1 {
    fn to_value(&self) -> Value {
        Value::Seq(vec![
            self.f0.as_ref().map(|x| x.to_value()),
            Some(self.f1.to_value()),
            self.f2.as_ref().map(|x| x.to_value()),
            self.f3.as_ref().map(|x| x.to_value()),
            self.f4.as_ref().map(|x| x.to_value()),
        ])
    }
}
impl FromValue for Ts5odoooe2 {
    fn from_value(v: &Value) -> Self {
        let s = match v { Value::Seq(s) => s, other => panic!("Ts5odoooe2: expected Seq, got {other:?}") };
        assert_eq!(s.len(), 5, "Ts5odoooe2: component count");
        let _ = s;
        Ts5odoooe2 {
            f0: s[0].as_ref().map(FromValue::from_value),
            f1: FromValue::from_value(s[1].as_ref().expect("component f1 of Ts5odoooe2 must be present")),
            f2: s[2].as_ref().map(FromValue::from_value),
            f3: s[3].as_ref().map(FromValue::from_value),
            f4: s[4].as_ref().map(FromValue::from_value),
        }
    }
}
impl ToValue for Ts5odoooe2 {
    fn to_value(&self) -> Value {
        Value::Seq(vec![
            self.f0.as_ref().map(|x| x.to_value()),
            Some(self.f1.to_value()),
            self.f2.as_ref().map(|x| x.to_value()),
            self.f3.as_ref().map(|x| x.to_value()),
            self.f4.as_ref().map(|x| x.to_value()),
        ])
    }
}
impl FromValue for Ts5odoooe3 {
    fn from_value(v: &Value) -> Self {
        let s = match v { Value::Seq(s) => s, other => panic!("Ts5odoooe3: expected Seq, got {other:?}") };
        assert_eq!(s.len(), 5, "Ts5odoooe3: component count");
        let _ = s;
        Ts5odoooe3 {
            f0: s[0].as_ref().map(FromValue::from_value),
            f1: FromValue::from_value(s[1].as_ref().expect("component f1 of Ts5odoooe3 must be present")),
            f2: s[2].as_ref().map(FromValue::from_value),
            f3: s[3].as_ref().map(FromValue::from_value),
            f4: s[4].as_ref().map(FromValue::from_value),
        }
    }
}
impl ToValue for Ts5odoooe3 {
    fn to_value(&self) -> Value {
        Value::Seq(vec![
            self.f0.as_ref().map(|x| x.to_value()),
            Some(self.f1.to_value()),
            self.f2.as_ref().map(|x| x.to_value()),
            self.f3.as_ref().map(|x| x.to_value()),
            self.f4.as_ref().map(|x| x.to_value()),
        ])
    }
}
impl FromValue for Ts5odoooe4 {
    fn from_value(v: &Value) -> Self {
        let s = match v { Value::Seq(s) => s, other => panic!("Ts5odoooe4: expected Seq, got {other:?}") };
        assert_eq!(s.len(), 5, "Ts5odoooe4: component count");
        let _ = s;
        Ts5odoooe4 {
            f0: s[0].as_ref().map(FromValue::from_value),
            f1: FromValue::from_value(s[1].as_ref().expect("component f1 of Ts5odoooe4 must be present")),
            f2: s[2].as_ref().map(FromValue::from_value),
            f3: s[3].as_ref().map(FromValue::from_value),
            f4: s[4].as_ref().map(FromValue::from_value),
        }
    }
}
impl ToValue for Ts5odoooe4 {
    fn to_value(&self) -> Value {
        Value::Seq(vec![
            self.f0.as_ref().map(|x| x.to_value()),
            Some(self.f1.to_value()),
            self.f2.as_ref().map(|x| x.to_value()),
            self.f3.as_ref().map(|x| x.to_value()),
            self.f4.as_ref().map(|x| x.to_value()),
        ])
    }
}
impl FromValue for Ts5odoooe5 {
    fn from_value(v: &Value) -> Self {
        let s = match v { Value::Seq(s) => s, other => panic!("Ts5odoooe5: expected Seq, got {other:?}") };
        assert_eq!(s.len(), 5, "Ts5odoooe5: component count");
        let _ = s;
        Ts5odoooe5 {
            f0: s[0].as_ref().map(FromValue::from_value),
            f1: FromValue::from_value(s[1].as_ref().expect("component f1 of Ts5odoooe5 must be present")),
            f2: s[2].as_ref().map(FromValue::from_value),
            f3: s[3].as_ref().map(FromValue::from_value),
            f4: s[4].as_ref().map(FromValue::from_value),
        }
    }
}
impl ToValue for Ts5odoooe5 {
    fn to_value(&self) -> Value {
        Value::Seq(vec![
            self.f0.as_ref().map(|x| x.to_value()),
            Some(self.f1.to_value()),
            self.f2.as_ref().map(|x| x.to_value()),
            self.f3.as_ref().map(|x| x.to_value()),
            self.f4.as_ref().map(|x| x.to_value()),
        ])
    }
}
impl FromValue for Ts5ddooon {
    fn from_value(v: &Value) -> Self {
        let s = match v { Value::Seq(s) => s, other => panic!("Ts5ddooon: expected Seq, got {other:?}") };
        assert_eq!(s.len(), 5, "Ts5ddooon: component count");
        let _ = s;
        Ts5ddooon {
            f0: FromValue::from_value(s[0].as_ref().expect("component f0 of Ts5ddooon must be present")),
            f1: FromValue::from_value(s[1].as_ref().expect("component f1 of Ts5ddooon must be present")),
            f2: s[2].as_ref().map(FromValue::from_value),
            f3: s[3].as_ref().map(FromValue::from_value),
            f4: s[4].as_ref().map(FromValue::from_value),
        }
    }
}
impl ToValue for Ts5ddooon {
    fn to_value(&self) -> Value {
        Value::Seq(vec![
            Some(self.f0.to_value()),
            Some(self.f1.to_value()),
            self.f2.as_ref().map(|x| x.to_value()),
            self.f3.as_ref().map(|x| x.to_value()),
            self.f4.as_ref().map(|x| x.to_value()),
        ])
    }
}
impl FromValue for Ts5ddoooe0 {
    fn from_value(v: &Value) -> Self {
        let s = match v { Value::Seq(s) => s, other => panic!("Ts5ddoooe0: expected Seq, got {other:?}") };
        assert_eq!(s.len(), 5, "Ts5ddoooe0: component count");
        let _ = s;
        Ts5ddoooe0 {
            f0: FromValue::from_value(s[0].as_ref().expect("component f0 of Ts5ddoooe0 must be present")),
            f1: FromValue::from_value(s[1].as_ref().expect("component f1 of Ts5ddoooe0 must be present")),
            f2: s[2].as_ref().map(FromValue::from_value),
            f3: s[3].as_ref().map(FromValue::from_value),
            f4: s[4].as_ref().map(FromValue::from_value),
        }
    }
}
impl ToValue for Ts5ddoooe0 {
    fn to_value(&self) -> Value {
        Value::Seq(vec![
            Some(self.f0.to_value()),
            Some(self.f1.to_value()),
            self.f2.as_ref().map(|x| x.to_value()),
            self.f3.as_ref().map(|x| x.to_value()),
            self.f4.as_ref().map(|x| x.to_value()),
        ])
    }
}
impl FromValue for Ts5ddoooe1 {
    fn from_value(v: &Value) -> Self {
        let s = match v { Value::Seq(s) => s, other => panic!("Ts5ddoooe1: expected Seq, got {other:?}") };
        assert_eq!(s.len(), 5, "Ts5ddoooe1: component count");
        let _ = s;
        Ts5ddoooe1 {
            f0: FromValue::from_value(s[0].as_ref().expect("component f0 of Ts5ddoooe1 must be present")),
            f1: FromValue::from_value(s[1].as_ref().expect("component f1 of Ts5ddoooe1 must be present")),
            f2: s[2].as_ref().map(FromValue::from_value),
            f3: s[3].as_ref().map(FromValue::from_value),
            f4: s[4].as_ref().map(FromValue::from_value),
        }
    }
}
impl ToValue for Ts5ddoooe1 {
    fn to_value(&self) -> Value {
        Value::Seq(vec![
            Some(self.f0.to_value()),
            Some(self.f1.to_value()),
            self.f2.as_ref().map(|x| x.to_value()),
            self.f3.as_ref().map(|x| x.to_value()),
            self.f4.as_ref().map(|x| x.to_value()),
        ])
    }
}
impl FromValue for Ts5ddoooe2 {
    fn from_value(v: &Value) -> Self {
        let s = match v { Value::Seq(s) => s, other => panic!("Ts5ddoooe2: expected Seq, got {other:?}") };
        assert_eq!(s.len(), 5, "Ts5ddoooe2: component count");
        let _ = s;
        Ts5ddoooe2 {
            f0: FromValue::from_value(s[0].as_ref().expect("component f0 of Ts5ddoooe2 must be present")),
            f1: FromValue::from_value(s[1].as_ref().expect("component f1 of Ts5ddoooe2 must be present")),
            f2: s[2].as_ref().map(FromValue::from_value),
            f3: s[3].as_ref().map(FromValue::from_value),
            f4: s[4].as_ref().map(FromValue::from_value),
        }
    }
}
impl ToValue for Ts5ddoooe2 {
    fn to_value(&self) -> Value {
        Value::Seq(vec![
            Some(self.f0.to_value()),
            Some(self.f1.to_value()),
            self.f2.as_ref().map(|x| x.to_value()),
            self.f3.as_ref().map(|x| x.to_value()),
            self.f4.as_ref().map(|x| x.to_value()),
        ])
    }
}
impl FromValue for Ts5ddoooe3 {
    fn from_value(v: &Value) -> Self {
        let s = match v { Value::Seq(s) => s, other => panic!("Ts5ddoooe3: expected Seq, got {other:?}") };
        assert_eq!(s.len(), 5, "Ts5ddoooe3: component count");
        let _ = s;
        Ts5ddoooe3 {
            f0: FromValue::from_value(s[0].as_ref().expect("component f0 of Ts5ddoooe3 must be present")),
            f1: FromValue::from_value(s[1].as_ref().expect("component f1 of Ts5ddoooe3 must be present")),
            f2: s[2].as_ref().map(FromValue::from_value),
            f3: s[3].as_ref().map(FromValue::from_value),
            f4: s[4].as_ref().map(FromValue::from_value),
        }
    }
}
impl ToValue for Ts5ddoooe3 {
    fn to_value(&self) -> Value {
        Value::Seq(vec![
            Some(self.f0.to_value()),
            Some(self.f1.to_value()),
            self.f2.as_ref().map(|x| x.to_value()),
            self.f3.as_ref().map(|x| x.to_value()),
            self.f4.as_ref().map(|x| x.to_value()),
        ])
    }
}
impl FromValue for Ts5ddoooe4 {
    fn from_value(v: &Value) -> Self {
        let s = match v { Value::Seq(s) => s, other => panic!("Ts5ddoooe4: expected Seq, got {other:?}") };
        assert_eq!(s.len(), 5, "Ts5ddoooe4: component count");
        let _ = s;
        Ts5ddoooe4 {
            f0: FromValue::from_value(s[0].as_ref().expect("component f0 of Ts5ddoooe4 must be present")),
            f1: FromValue::from_value(s[1].as_ref().expect("component f1 of Ts5ddoooe4 must be present")),
            f2: s[2].as_ref().map(FromValue::from_value),
            f3: s[3].as_ref().map(FromValue::from_value),
            f4: s[4].as_ref().map(FromValue::from_value),
        }
    }
}
impl ToValue for Ts5ddoooe4 {
    fn to_value(&self) -> Value {
        Value::Seq(vec![
            Some(self.f0.to_value()),
            Some(self.f1.to_value()),
            self.f2.as_ref().map(|x| x.to_value()),
            self.f3.as_ref().map(|x| x.to_value()),
            self.f4.as_ref().map(|x| x.to_value()),
        ])
    }
}
impl FromValue for Ts5ddoooe5 {
    fn from_value(v: &Value) -> Self {
        let s = match v { Value::Seq(s) => s, other => panic!("Ts5ddoooe5: expected Seq, got {other:?}") };
        assert_eq!(s.len(), 5, "Ts5ddoooe5: component count");
        let _ = s;
        Ts5ddoooe5 {
            f0: FromValue::from_value(s[0].as_ref().expect("component f0 of Ts5ddoooe5 must be present")),
            f1: FromValue::from_value(s[1].as_ref().expect("component f1 of Ts5ddoooe5 must be present")),
            f2: s[2].as_ref().map(FromValue::from_value),
            f3: s[3].as_ref().map(FromValue::from_value),
            f4: s[4].as_ref().map(FromValue::from_value),
        }
    }
}
impl ToValue for Ts5ddoooe5 {
    fn to_value(&self) -> Value {
        Value::Seq(vec![
            Some(self.f0.to_value()),
            Some(self.f1.to_value()),
            self.f2.as_ref().map(|x| x.to_value()),
            self.f3.as_ref().map(|x| x.to_value()),
            self.f4.as_ref().map(|x| x.to_value()),
        ])
    }
}
impl FromValue for Ts5mmdoon {
    fn from_value(v: &Value) -> Self {
        let s = match v { Value::Seq(s) => s, other => panic!("Ts5mmdoon: expected Seq, got {other:?}") };
        assert_eq!(s.len(), 5, "Ts5mmdoon: component count");
        let _ = s;
        Ts5mmdoon {
            f0: FromValue::from_value(s[0].as_ref().expect("component f0 of Ts5mmdoon must be present")),
            f1: FromValue::from_value(s[1].as_ref().expect("component f1 of Ts5mmdoon must be present")),
            f2: FromValue::from_value(s[2].as_ref().expect("component f2 of Ts5mmdoon must be present")),
            f3: s[3].as_ref().map(FromValue::from_value),
            f4: s[4].as_ref().map(FromValue::from_value),
        }
    }
}
impl ToValue for Ts5mmdoon {
    fn to_value(&self) -> Value {
        Value::Seq(vec![
            Some(self.f0.to_value()),
            Some(self.f1.to_value()),
            Some(self.f2.to_value()),
            self.f3.as_ref().map(|x| x.to_value()),
            self.f4.as_ref().map(|x| x.to_value()),
        ])
    }
}
impl FromValue for Ts5mmdooe0 {
    fn from_value(v: &Value) -> Self {
        let s = match v { Value::Seq(s) => s, other => panic!("Ts5mmdooe0: expected Seq, got {other:?}") };
        assert_eq!(s.len(), 5, "Ts5mmdooe0: component count");
        let _ = s;
        Ts5mmdooe0 {
            f0: FromValue::from_value(s[0].as_ref().expect("component f0 of Ts5mmdooe0 must be present")),
            f1: s[1].as_ref().map(FromValue::from_value),
            f2: FromValue::from_value(s[2].as_ref().expect("component f2 of Ts5mmdooe0 must be present")),
            f3: s[3].as_ref().map(FromValue::from_value),
            f4: s[4].as_ref().map(FromValue::from_value),
        }
    }
}
impl ToValue for Ts5mmdooe0 {
    fn to_value(&self) -> Value {
        Value::Seq(vec![
            Some(self.f0.to_value()),
            self.f1.as_ref().map(|x| x.to_value()),
            Some(self.f2.to_value()),
            self.f3.as_ref().map(|x| x.to_value()),
            self.f4.as_ref().map(|x| x.to_value()),
        ])
    }
}
impl FromValue for Ts5mmdooe1 {
    fn from_value(v: &Value) -> Self {
        let s = match v { Value::Seq(s) => s, other => panic!("Ts5mmdooe1: expected Seq, got {other:?}") };
        assert_eq!(s.len(), 5, "Ts5mmdooe1: component count");
        let _ = s;
        Ts5mmdooe1 {
            f0: FromValue::from_value(s[0].as_ref().expect("component f0 of Ts5mmdooe1 must be present")),
            f1: s[1].as_ref().map(FromValue::from_value),
            f2: FromValue::from_value(s[2].as_ref().expect("component f2 of Ts5mmdooe1 must be present")),
            f3: s[3].as_ref().map(FromValue::from_value),
            f4: s[4].as_ref().map(FromValue::from_value),
        }
    }
}
impl ToValue for Ts5mmdooe1 {
    fn to_value(&self) -> Value {
        Value::Seq(vec![
            Some(self.f0.to_value()),
            self.f1.as_ref().map(|x| x.to_value()),
            Some(self.f2.to_value()),
            self.f3.as_ref().map(|x| x.to_value()),
            self.f4.as_ref().map(|x| x.to_value()),
        ])
    }
}
impl FromValue for Ts5mmdooe2 {
    fn from_value(v: &Value) -> Self {
        let s = match v { Value::Seq(s) => s, other => panic!("Ts5mmdooe2: expected Seq, got {other:?}") };
        assert_eq!(s.len(), 5, "Ts5mmdooe2: component count");
        let _ = s;
        Ts5mmdooe2 {
            f0: FromValue::from_value(s[0].as_ref().expect("component f0 of Ts5mmdooe2 must be present")),
            f1: FromValue::from_value(s[1].as_ref().expect("component f1 of Ts5mmdooe2 must be present")),
            f2: FromValue::from_value(s[2].as_ref().expect("component f2 of Ts5mmdooe2 must be present")),
            f3: s[3].as_ref().map(FromValue::from_value),
            f4: s[4].as_ref().map(FromValue::from_value),
        }
    }
}
impl ToValue for Ts5mmdooe2 {
    fn to_value(&self) -> Value {
        Value::Seq(vec![
            Some(self.f0.to_value()),
            Some(self.f1.to_value()),
            Some(self.f2.to_value()),
            self.f3.as_ref().map(|x| x.to_value()),
            self.f4.as_ref().map(|x| x.to_value()),
        ])
    }
}
impl FromValue for Ts5mmdooe3 {
    fn from_value(v: &Value) -> Self {
        let s = match v { Value::Seq(s) => s, other => panic!("Ts5mmdooe3: expected Seq, got {other:?}") };
        assert_eq!(s.len(), 5, "Ts5mmdooe3: component count");
        let _ = s;
        Ts5mmdooe3 {
            f0: FromValue::from_value(s[0].as_ref().expect("component f0 of Ts5mmdooe3 must be present")),
            f1: FromValue::from_value(s[1].as_ref().expect("component f1 of Ts5mmdooe3 must be present")),
            f2: FromValue::from_value(s[2].as_ref().expect("component f2 of Ts5mmdooe3 must be present")),
            f3: s[3].as_ref().map(FromValue::from_value),
            f4: s[4].as_ref().map(FromValue::from_value),
        }
    }
}
impl ToValue for Ts5mmdooe3 {
    fn to_value(&self) -> Value {
        Value::Seq(vec![
            Some(self.f0.to_value()),
            Some(self.f1.to_value()),
            Some(self.f2.to_value()),
            self.f3.as_ref().map(|x| x.to_value()),
            self.f4.as_ref().map(|x| x.to_value()),
        ])
    }
}
impl FromValue for Ts5mmdooe4 {
    fn from_value(v: &Value) -> Self {
        let s = match v { Value::Seq(s) => s, other => panic!("Ts5mmdooe4: expected Seq, got {other:?}") };
        assert_eq!(s.len(), 5, "Ts5mmdooe4: component count");
        let _ = s;
        Ts5mmdooe4 {
            f0: FromValue::from_value(s[0].as_ref().expect("component f0 of Ts5mmdooe4 must be present")),
            f1: FromValue::from_value(s[1].as_ref().expect("component f1 of Ts5mmdooe4 must be present")),
            f2: FromValue::from_value(s[2].as_ref().expect("component f2 of Ts5mmdooe4 must be present")),
            f3: s[3].as_ref().map(FromValue::from_value),
            f4: s[4].as_ref().map(FromValue::from_value),
        }
    }
}
impl ToValue for Ts5mmdooe4 {
    fn to_value(&self) -> Value {
        Value::Seq(vec![
            Some(self.f0.to_value()),
            Some(self.f1.to_value()),
            Some(self.f2.to_value()),
            self.f3.as_ref().map(|x| x.to_value()),
            self.f4.as_ref().map(|x| x.to_value()),
        ])
    }
}
impl FromValue for Ts5mmdooe5 {
    fn from_value(v: &Value) -> Self {
        let s = match v { Value::Seq(s) => s, other => panic!("Ts5mmdooe5: expected Seq, got {other:?}") };
        assert_eq!(s.len(), 5, "Ts5mmdooe5: component count");
        let _ = s;
        Ts5mmdooe5 {
            f0: FromValue::from_value(s[0].as_ref().expect("component f0 of Ts5mmdooe5 must be present")),
            f1: FromValue::from_value(s[1].as_ref().expect("component f1 of Ts5mmdooe5 must be present")),
            f2: FromValue::from_value(s[2].as_ref().expect("component f2 of Ts5mmdooe5 must be present")),
            f3: s[3].as_ref().map(FromValue::from_value),
            f4: s[4].as_ref().map(FromValue::from_value),
        }
    }
}
impl ToValue for Ts5mmdooe5 {
    fn to_value(&self) -> Value {
        Value::Seq(vec![
            Some(self.f0.to_value()),
            Some(self.f1.to_value()),
            Some(self.f2.to_value()),
            self.f3.as_ref().map(|x| x.to_value()),
            self.f4.as_ref().map(|x| x.to_value()),
        ])
    }
}
impl FromValue for Ts5omdoon {
    fn from_value(v: &Value) -> Self {
        let s = match v { Value::Seq(s) => s, other => panic!("Ts5omdoon: expected Seq, got {other:?}") };
        assert_eq!(s.len(), 5, "Ts5omdoon: component count");
        let _ = s;
        Ts5omdoon {
            f0: s[0].as_ref().map(FromValue::from_value),
            f1: FromValue::from_value(s[1].as_ref().expect("component f1 of Ts5omdoon must be present")),
            f2: FromValue::from_value(s[2].as_ref().expect("component f2 of Ts5omdoon must be present")),
            f3: s[3].as_ref().map(FromValue::from_value),
            f4: s[4].as_ref().map(FromValue::from_value),
        }
    }
}
impl ToValue for Ts5omdoon {
    fn to_value(&self) -> Value {
        Value::Seq(vec![
            self.f0.as_ref().map(|x| x.to_value()),
            Some(self.f1.to_value()),
            Some(self.f2.to_value()),
            self.f3.as_ref().map(|x| x.to_value()),
            self.f4.as_ref().map(|x| x.to_value()),
        ])
    }
}
impl FromValue for Ts5omdooe0 {
    fn from_value(v: &Value) -> Self {
        let s = match v { Value::Seq(s) => s, other => panic!("Ts5omdooe0: expected Seq, got {other:?}") };
        assert_eq!(s.len(), 5, "Ts5omdooe0: component count");
        let _ = s;
        Ts5omdooe0 {
            f0: s[0].as_ref().map(FromValue::from_value),
            f1: s[1].as_ref().map(FromValue::from_value),
            f2: FromValue::from_value(s[2].as_ref().expect("component f2 of Ts5omdooe0 must be present")),
            f3: s[3].as_ref().map(FromValue::from_value),
            f4: s[4].as_ref().map(FromValue::from_value),
        }
    }
}
impl ToValue for Ts5omdooe0 {
    fn to_value(&self) -> Value {
        Value::Seq(vec![
            self.f0.as_ref().map(|x| x.to_value()),
            self.f1.as_ref().map(|x| x.to_value()),
            Some(self.f2.to_value()),
            self.f3.as_ref().map(|x| x.to_value()),
            self.f4.as_ref().map(|x| x.to_value()),
        ])
    }
}
impl FromValue for Ts5omdooe1 {
    fn from_value(v: &Value) -> Self {
        let s = match v { Value::Seq(s) => s, other => panic!("Ts5omdooe1: expected Seq, got {other:?}") };
        assert_eq!(s.len(), 5, "Ts5omdooe1: component count");
        let _ = s;
        Ts5omdooe1 {
            f0: s[0].as_ref().map(FromValue::from_value),
            f1: s[1].as_ref().map(FromValue::from_value),
            f2: FromValue::from_value(s[2].as_ref().expect("component f2 of Ts5omdooe1 must be present")),
            f3: s[3].as_ref().map(FromValue::from_value),
            f4: s[4].as_ref().map(FromValue::from_value),
        }
    }
}
impl ToValue for Ts5omdooe1 {
    fn to_value(&self) -> Value {
        Value::Seq(vec![
            self.f0.as_ref().map(|x| x.to_value()),
            self.f1.as_ref().map(|x| x.to_value()),
            Some(self.f2.to_value()),
            self.f3.as_ref().map(|x| x.to_value()),
            self.f4.as_ref().map(|x| x.to_value()),
        ])
    }
}
impl FromValue for Ts5omdooe2 {
    fn from_value(v: &Value) -> Self {
        let s = match v { Value::Seq(s) => s, other => panic!("Ts5omdooe2: expected Seq, got {other:?}") };
        assert_eq!(s.len(), 5, "Ts5omdooe2: component count");
        let _ = s;
        Ts5omdooe2 {
            f0: s[0].as_ref().map(FromValue::from_value),
            f1: FromValue::from_value(s[1].as_ref().expect("component f1 of Ts5omdooe2 must be present")),
            f2: FromValue::from_value(s[2].as_ref().expect("component f2 of Ts5omdooe2 must be present")),
            f3: s[3].as_ref().map(FromValue::from_value),
            f4: s[4].as_ref().map(FromValue::from_value),
        }
    }
}
impl ToValue for Ts5omdooe2 {
    fn to_value(&self) -> Value {
        Value::Seq(vec![
            self.f0.as_ref().map(|x| x.to_value()),
            Some(self.f1.to_value()),
            Some(self.f2.to_value()),
            self.f3.as_ref().map(|x| x.to_value()),
            self.f4.as_ref().map(|x| x.to_value()),
        ])
    }
}
impl FromValue for Ts5omdooe3 {
    fn from_value(v: &Value) -> Self {
        let s = match v { Value::Seq(s) => s, other => panic!("Ts5omdooe3: expected Seq, got {other:?}") };
        assert_eq!(s.len(), 5, "Ts5omdooe3: component count");
        let _ = s;
        Ts5omdooe3 {
            f0: s[0].as_ref().map(FromValue::from_value),
            f1: FromValue::from_value(s[1].as_ref().expect("component f1 of Ts5omdooe3 must be present")),
            f2: FromValue::from_value(s[2].as_ref().expect("component f2 of Ts5omdooe3 must be present")),
            f3: s[3].as_ref().map(FromValue::from_value),
            f4: s[4].as_ref().map(FromValue::from_value),
        }
    }
}
impl ToValue for Ts5omdooe3 {
    fn to_value(&self) -> Value {
        Value::Seq(vec![
            self.f0.as_ref().map(|x| x.to_value()),
            Some(self.f1.to_value()),
            Some(self.f2.to_value()),
            self.f3.as_ref().map(|x| x.to_value()),
            self.f4.as_ref().map(|x| x.to_value()),
        ])
    }
}
impl FromValue for Ts5omdooe4 {
    fn from_value(v: &Value) -> Self {
        let s = match v { Value::Seq(s) => s, other => panic!("Ts5omdooe4: expected Seq, got {other:?}") };
        assert_eq!(s.len(), 5, "Ts5omdooe4: component count");
        let _ = s;
        Ts5omdooe4 {
            f0: s[0].as_ref().map(FromValue::from_value),
            f1: FromValue::from_value(s[1].as_ref().expect("component f1 of Ts5omdooe4 must be present")),
            f2: FromValue::from_value(s[2].as_ref().expect("component f2 of Ts5omdooe4 must be present")),
            f3: s[3].as_ref().map(FromValue::from_value),
            f4: s[4].as_ref().map(FromValue::from_value),
        }
    }
}
impl ToValue for Ts5omdooe4 {
    fn to_value(&self) -> Value {
        Value::Seq(vec![
            self.f0.as_ref().map(|x| x.to_value()),
            Some(self.f1.to_value()),
            Some(self.f2.to_value()),
            self.f3.as_ref().map(|x| x.to_value()),
            self.f4.as_ref().map(|x| x.to_value()),
        ])
    }
}
impl FromValue for Ts5omdooe5 {
    fn from_value(v: &Value) -> Self {
        let s = match v { Value::Seq(s) => s, other => panic!("Ts5omdooe5: expected Seq, got {other:?}") };
        assert_eq!(s.len(), 5, "Ts5omdooe5: component count");
        let _ = s;
        Ts5omdooe5 {
            f0: s[0].as_ref().map(FromValue::from_value),
            f1: FromValue::from_value(s[1].as_ref().expect("component f1 of Ts5omdooe5 must be present")),
            f2: FromValue::from_value(s[2].as_ref().expect("component f2 of Ts5omdooe5 must be present")),
            f3: s[3].as_ref().map(FromValue::from_value),
            f4: s[4].as_ref().map(FromValue::from_value),
        }
    }
}
impl ToValue for Ts5omdooe5 {
    fn to_value(&self) -> Value {
        Value::Seq(vec![
            self.f0.as_ref().map(|x| x.to_value()),
            Some(self.f1.to_value()),
            Some(self.f2.to_value()),
            self.f3.as_ref().map(|x| x.to_value()),
            self.f4.as_ref().map(|x| x.to_value()),
        ])
    }
}
impl FromValue for Ts5dmdoon {
    fn from_value(v: &Value) -> Self {
        let s = match v { Value::Seq(s) => s, other => panic!("Ts5dmdoon: expected Seq, got {other:?}") };
        assert_eq!(s.len(), 5, "Ts5dmdoon: component count");
        let _ = s;
        Ts5dmdoon {
            f0: FromValue::from_value(s[0].as_ref().expect("component f0 of Ts5dmdoon must be present")),
            f1: FromValue::from_value(s[1].as_ref().expect("component f1 of Ts5dmdoon must be present")),
            f2: FromValue::from_value(s[2].as_ref().expect("component f2 of Ts5dmdoon must be present")),
            f3: s[3].as_ref().map(FromValue::from_value),
            f4: s[4].as_ref().map(FromValue::from_value),
        }
    }
}
impl ToValue for Ts5dmdoon {
    fn to_value(&self) -> Value {
        Value::Seq(vec![
            Some(self.f0.to_value()),
            Some(self.f1.to_value()),
            Some(self.f2.to_value()),
            self.f3.as_ref().map(|x| x.to_value()),
            self.f4.as_ref().map(|x| x.to_value()),
        ])
    }
}
impl FromValue for Ts5dmdooe0 {
    fn from_value(v: &Value) -> Self {
        let s = match v { Value::Seq(s) => s, other => panic!("Ts5dmdooe0: expected Seq, got {other:?}") };
        assert_eq!(s.len(), 5, "Ts5dmdooe0: component count");
        let _ = s;
        Ts5dmdooe0 {
            f0: FromValue::from_value(s[0].as_ref().expect("component f0 of Ts5dmdooe0 must be present")),
            f1: s[1].as_ref().map(FromValue::from_value),
            f2: FromValue::from_value(s[2].as_ref().expect("component f2 of Ts5dmdooe0 must be present")),
            f3: s[3].as_ref().map(FromValue::from_value),
            f4: s[4].as_ref().map(FromValue::from_value),
        }
    }
}
impl ToValue for Ts5dmdooe0 {
    fn to_value(&self) -> Value {
        Value::Seq(vec![
            Some(self.f0.to_value()),
            self.f1.as_ref().map(|x| x.to_value()),
            Some(self.f2.to_value()),
            self.f3.as_ref().map(|x| x.to_value()),
            self.f4.as_ref().map(|x| x.to_value()),
        ])
    }
}
impl FromValue for Ts5dmdooe1 {
    fn from_value(v: &Value) -> Self {
        let s = match v { Value::Seq(s) => s, other => panic!("Ts5dmdooe1: expected Seq, got {other:?}") };
        assert_eq!(s.len(), 5, "Ts5dmdooe1: component count");
        let _ = s;
        Ts5dmdooe1 {
            f0: FromValue::from_value(s[0].as_ref().expect("component f0 of Ts5dmdooe1 must be present")),
            f1: s[1].as_ref().map(FromValue::from_value),
            f2: FromValue::from_value(s[2].as_ref().expect("component f2 of Ts5dmdooe1 must be present")),
            f3: s[3].as_ref().map(FromValue::from_value),
            f4: s[4].as_ref().map(FromValue::from_value),
        }
    }
}
impl ToValue for Ts5dmdooe1 {
    fn to_value(&self) -> Value {
        Value::Seq(vec![
            Some(self.f0.to_value()),
            self.f1.as_ref().map(|x| x.to_value()),
            Some(self.f2.to_value()),
            self.f3.as_ref().map(|x| x.to_value()),
            self.f4.as_ref().map(|x| x.to_value()),
        ])
    }
}
impl FromValue for Ts5dmdooe2 {
    fn from_value(v: &Value) -> Self {
        let s = match v { Value::Seq(s) => s, other => panic!("Ts5dmdooe2: expected Seq, got {other:?}") };
        assert_eq!(s.len(), 5, "Ts5dmdooe2: component count");
        let _ = s;
        Ts5dmdooe2 {
            f0: FromValue::from_value(s[0].as_ref().expect("component f0 of Ts5dmdooe2 must be present")),
            f1: FromValue::from_value(s[1].as_ref().expect("component f1 of Ts5dmdooe2 must be present")),
            f2: FromValue::from_value(s[2].as_ref().expect("component f2 of Ts5dmdooe2 must be present")),
            f3: s[3].as_ref().map(FromValue::from_value),
            f4: s[4].as_ref().map(FromValue::from_value),
        }
    }
}
impl ToValue for Ts5dmdooe2 {
    fn to_value(&self) -> Value {
        Value::Seq(vec![
            Some(self.f0.to_value()),
            Some(self.f1.to_value()),
            Some(self.f2.to_value()),
            self.f3.as_ref().map(|x| x.to_value()),
            self.f4.as_ref().map(|x| x.to_value()),
        ])
    }
}
impl FromValue for Ts5dmdooe3 {
    fn from_value(v: &Value) -> Self {
        let s = match v { Value::Seq(s) => s, other => panic!("Ts5dmdooe3: expected Seq, got {other:?}") };
        assert_eq!(s.len(), 5, "Ts5dmdooe3: component count");
        let _ = s;
        Ts5dmdooe3 {
            f0: FromValue::from_value(s[0].as_ref().expect("component f0 of Ts5dmdooe3 must be present")),
            f1: FromValue::from_value(s[1].as_ref().expect("component f1 of Ts5dmdooe3 must be present")),
            f2: FromValue::from_value(s[2].as_ref().expect("component f2 of Ts5dmdooe3 must be present")),
            f3: s[3].as_ref().map(FromValue::from_value),
            f4: s[4].as_ref().map(FromValue::from_value),
        }
    }
}
impl ToValue for Ts5dmdooe3 {
    fn to_value(&self) -> Value {
        Value::Seq(vec![
            Some(self.f0.to_value()),
            Some(self.f1.to_value()),
            Some(self.f2.to_value()),
            self.f3.as_ref().map(|x| x.to_value()),
            self.f4.as_ref().map(|x| x.to_value()),
        ])
    }
}
impl FromValue for Ts5dmdooe4 {
    fn from_value(v: &Value) -> Self {
        let s = match v { Value::Seq(s) => s, other => panic!("Ts5dmdooe4: expected Seq, got {other:?}") };
        assert_eq!(s.len(), 5, "Ts5dmdooe4: component count");
        let _ = s;
        Ts5dmdooe4 {
            f0: FromValue::from_value(s[0].as_ref().expect("component f0 of Ts5dmdooe4 must be present")),
            f1: FromValue::from_value(s[1].as_ref().expect("component f1 of Ts5dmdooe4 must be present")),
            f2: FromValue::from_value(s[2].as_ref().expect("component f2 of Ts5dmdooe4 must be present")),
            f3: s[3].as_ref().map(FromValue::from_value),
            f4: s[4].as_ref().map(FromValue::from_value),
        }
    }
}
impl ToValue for Ts5dmdooe4 {
    fn to_value(&self) -> Value {
        Value::Seq(vec![
            Some(self.f0.to_value()),
            Some(self.f1.to_value()),
            Some(self.f2.to_value()),
            self.f3.as_ref().map(|x| x.to_value()),
            self.f4.as_ref().map(|x| x.to_value()),
        ])
    }
}
impl FromValue for Ts5dmdooe5 {
    fn from_value(v: &Value) -> Self {
        let s = match v { Value::Seq(s) => s, other => panic!("Ts5dmdooe5: expected Seq, got {other:?}") };
        assert_eq!(s.len(), 5, "Ts5dmdooe5: component count");
        let _ = s;
        Ts5dmdooe5 {
            f0: FromValue::from_value(s[0].as_ref().expect("component f0 of Ts5dmdooe5 must be present")),
            f1: FromValue::from_value(s[1].as_ref().expect("component f1 of Ts5dmdooe5 must be present")),
            f2: FromValue::from_value(s[2].as_ref().expect("component f2 of Ts5dmdooe5 must be present")),
            f3: s[3].as_ref().map(FromValue::from_value),
            f4: s[4].as_ref().map(FromValue::from_value),
        }
    }
}
impl ToValue for Ts5dmdooe5 {
    fn to_value(&self) -> Value {
        Value::Seq(vec![
            Some(self.f0.to_value()),
            Some(self.f1.to_value()),
            Some(self.f2.to_value()),
            self.f3.as_ref().map(|x| x.to_value()),
            self.f4.as_ref().map(|x| x.to_value()),
        ])
    }
}
impl FromValue for Ts5modoon {
    fn from_value(v: &Value) -> Self {
        let s = match v { Value::Seq(s) => s, other => panic!("Ts5modoon: expected Seq, got {other:?}") };
        assert_eq!(s.len(), 5, "Ts5modoon: component count");
        let _ = s;
        Ts5modoon {
            f0: FromValue::from_value(s[0].as_ref().expect("component f0 of Ts5modoon must be present")),
            f1: s[1].as_ref().map(FromValue::from_value),
            f2: FromValue::from_value(s[2].as_ref().expect("component f2 of Ts5modoon must be present")),
            f3: s[3].as_ref().map(FromValue::from_value),
            f4: s[4].as_ref().map(FromValue::from_value),
        }
    }
}
impl ToValue for Ts5modoon {
    fn to_value(&self) -> Value {
        Value::Seq(vec![
            Some(self.f0.to_value()),
            self.f1.as_ref().map(|x| x.to_value()),
            Some(self.f2.to_value()),
            self.f3.as_ref().map(|x| x.to_value()),
            self.f4.as_ref().map(|x| x.to_value()),
        ])
    }
}
impl FromValue for Ts5modooe0 {
    fn from_value(v: &Value) -> Self {
        let s = match v { Value::Seq(s) => s, other => panic!("Ts5modooe0: expected Seq, got {other:?}") };
        assert_eq!(s.len(), 5, "Ts5modooe0: component count");
        let _ = s;
        Ts5modooe0 {
            f0: FromValue::from_value(s[0].as_ref().expect("component f0 of Ts5modooe0 must be present")),
            f1: s[1].as_ref().map(FromValue::from_value),
            f2: FromValue::from_value(s[2].as_ref().expect("component f2 of Ts5modooe0 must be present")),
            f3: s[3].as_ref().map(FromValue::from_value),
            f4: s[4].as_ref().map(FromValue::from_value),
        }
    }
}
impl ToValue for Ts5modooe0 {
    fn to_value(&self) -> Value {
        Value::Seq(vec![
            Some(self.f0.to_value()),
            self.f1.as_ref().map(|x| x.to_value()),
            Some(self.f2.to_value()),
            self.f3.as_ref().map(|x| x.to_value()),
            self.f4.as_ref().map(|x| x.to_value()),
        ])
    }
}
impl FromValue for Ts5modooe1 {
    fn from_value(v: &Value) -> Self {
        let s = match v { Value::Seq(s) => s, other => panic!("Ts5modooe1: expected Seq, got {other:?}") };
        assert_eq!(s.len(), 5, "Ts5modooe1: component count");
        let _ = s;
        Ts5modooe1 {
            f0: FromValue::from_value(s[0].as_ref().expect("component f0 of Ts5modooe1 must be present")),
            f1: s[1].as_ref().map(FromValue::from_value),
            f2: FromValue::from_value(s[2].as_ref().expect("component f2 of Ts5modooe1 must be present")),
            f3: s[3].as_ref().map(FromValue::from_value),
            f4: s[4].as_ref().map(FromValue::from_value),
        }
    }
}
impl ToValue for Ts5modooe1 {
    fn to_value(&self) -> Value {
        Value::Seq(vec![
            Some(self.f0.to_value()),
            self.f1.as_ref().map(|x| x.to_value()),
            Some(self.f2.to_value()),
            self.f3.as_ref().map(|x| x.to_value()),
            self.f4.as_ref().map(|x| x.to_value()),
        ])
    }
}
impl FromValue for Ts5modooe2 {
    fn from_value(v: &Value) -> Self {
        let s = match v { Value::Seq(s) => s, other => panic!("Ts5modooe2: expected Seq, got {other:?}") };
        assert_eq!(s.len(), 5, "Ts5modooe2: component count");
        let _ = s;
        Ts5modooe2 {
            f0: FromValue::from_value(s[0].as_ref().expect("component f0 of Ts5modooe2 must be present")),
            f1: s[1].as_ref().map(FromValue::from_value),
            f2: FromValue::from_value(s[2].as_ref().expect("component f2 of Ts5modooe2 must be present")),
            f3: s[3].as_ref().map(FromValue::from_value),
            f4: s[4].as_ref().map(FromValue::from_value),
        }
    }
}
impl ToValue for Ts5modooe2 {
    fn to_value(&self) -> Value {
        Value::Seq(vec![
            Some(self.f0.to_value()),
            self.f1.as_ref().map(|x| x.to_value()),
            Some(self.f2.to_value()),
            self.f3.as_ref().map(|x| x.to_value()),
            self.f4.as_ref().map(|x| x.to_value()),
        ])
    }
}
impl FromValue for Ts5modooe3 {
    fn from_value(v: &Value) -> Self {
        let s = match v { Value::Seq(s) => s, other => panic!("Ts5modooe3: expected Seq, got {other:?}") };
        assert_eq!(s.len(), 5, "Ts5modooe3: component count");
        let _ = s;
        Ts5modooe3 {
            f0: FromValue::from_value(s[0].as_ref().expect("component f0 of Ts5modooe3 must be present")),
            f1: s[1].as_ref().map(FromValue::from_value),
            f2: FromValue::from_value(s[2].as_ref().expect("component f2 of Ts5modooe3 must be present")),
            f3: s[3].as_ref().map(FromValue::from_value),
            f4: s[4].as_ref().map(FromValue::from_value),
        }
    }
}
impl ToValue for Ts5modooe3 {
    fn to_value(&self) -> Value {
        Value::Seq(vec![
            Some(self.f0.to_value()),
            self.f1.as_ref().map(|x| x.to_value()),
            Some(self.f2.to_value()),
            self.f3.as_ref().map(|x| x.to_value()),
            self.f4.as_ref().map(|x| x.to_value()),
        ])
    }
}
impl FromValue for Ts5modooe4 {
    fn from_value(v: &Value) -> Self {
        let s = match v { Value::Seq(s) => s, other => panic!("Ts5modooe4: expected Seq, got {other:?}") };
        assert_eq!(s.len(), 5, "Ts5modooe4: component count");
        let _ = s;
        Ts5modooe4 {
            f0: FromValue::from_value(s[0].as_ref().expect("component f0 of Ts5modooe4 must be present")),
            f1: s[1].as_ref().map(FromValue::from_value),
            f2: FromValue::from_value(s[2].as_ref().expect("component f2 of Ts5modooe4 must be present")),
            f3: s[3].as_ref().map(FromValue::from_value),
            f4: s[4].as_ref().map(FromValue::from_value),
        }
    }
}
impl ToValue for Ts5modooe4 {
    fn to_value(&self) -> Value {
        Value::Seq(vec![
            Some(self.f0.to_value()),
            self.f1.as_ref().map(|x| x.to_value()),
            Some(self.f2.to_value()),
            self.f3.as_ref().map(|x| x.to_value()),
            self.f4.as_ref().map(|x| x.to_value()),
        ])
    }
}
impl FromValue for Ts5modooe5 {
    fn from_value(v: &Value) -> Self {
        let s = match v { Value::Seq(s) => s, other => panic!("Ts5modooe5: expected Seq, got {other:?}") };
        assert_eq!(s.len(), 5, "Ts5modooe5: component count");
        let _ = s;
        Ts5modooe5 {
            f0: FromValue::from_value(s[0].as_ref().expect("component f0 of Ts5modooe5 must be present")),
            f1: s[1].as_ref().map(FromValue::from_value),
            f2: FromValue::from_value(s[2].as_ref().expect("component f2 of Ts5modooe5 must be present")),
            f3: s[3].as_ref().map(FromValue::from_value),
            f4: s[4].as_ref().map(FromValue::from_value),
        }
    }
}
impl ToValue for Ts5modooe5 {
    fn to_value(&self) -> Value {
        Value::Seq(vec![
            Some(self.f0.to_value()),
            self.f1.as_ref().map(|x| x.to_value()),
            Some(self.f2.to_value()),
            self.f3.as_ref().map(|x| x.to_value()),
            self.f4.as_ref().map(|x| x.to_value()),
        ])
    }
}
impl FromValue for Ts5oodoon {
    fn from_value(v: &Value) -> Self {
        let s = match v { Value::Seq(s) => s, other => panic!("Ts5oodoon: expected Seq, got {other:?}") };
        assert_eq!(s.len(), 5, "Ts5oodoon: component count");
        let _ = s;
        Ts5oodoon {
            f0: s[0].as_ref().map(FromValue::from_value),
            f1: s[1].as_ref().map(FromValue::from_value),
            f2: FromValue::from_value(s[2].as_ref().expect("component f2 of Ts5oodoon must be present")),
            f3: s[3].as_ref().map(FromValue::from_value),
            f4: s[4].as_ref().map(FromValue::from_value),
        }
    }
}
impl ToValue for Ts5oodoon {
    fn to_value(&self) -> Value {
        Value::Seq(vec![
            self.f0.as_ref().map(|x| x.to_value()),
            self.f1.as_ref().map(|x| x.to_value()),
            Some(self.f2.to_value()),
            self.f3.as_ref().map(|x| x.to_value()),
            self.f4.as_ref().map(|x| x.to_value()),
        ])
    }
}
impl FromValue for Ts5oodooe0 {
    fn from_value(v: &Value) -> Self {
        let s = match v { Value::Seq(s) => s, other => panic!("Ts5oodooe0: expected Seq, got {other:?}") };
        assert_eq!(s.len(), 5, "Ts5oodooe0: component count");
        let _ = s;
        Ts5oodooe0 {
            f0: s[0].as_ref().map(FromValue::from_value),
            f1: s[1].as_ref().map(FromValue::from_value),
            f2: FromValue::from_value(s[2].as_ref().expect("component f2 of Ts5oodooe0 must be present")),
            f3: s[3].as_ref().map(FromValue::from_value),
            f4: s[4].as_ref().map(FromValue::from_value),
        }
    }
}
impl ToValue for Ts5oodooe0 {
    fn to_value(&self) -> Value {
        Value::Seq(vec![
            self.f0.as_ref().map(|x| x.to_value()),
            self.f1.as_ref().map(|x| x.to_value()),
            Some(self.f2.to_value()),
            self.f3.as_ref().map(|x| x.to_value()),
            self.f4.as_ref().map(|x| x.to_value()),
        ])
    }
}
impl FromValue for Ts5oodooe1 {
    fn from_value(v: &Value) -> Self {
        let s = match v { Value::Seq(s) => s, other => panic!("Ts5oodooe1: expected Seq, got {other:?}") };
        assert_eq!(s.len(), 5, "Ts5oodooe1: component count");
        let _ = s;
        Ts5oodooe1 {
            f0: s[0].as_ref().map(FromValue::from_value),
            f1: s[1].as_ref().map(FromValue::from_value),
            f2: FromValue::from_value(s[2].as_ref().expect("component f2 of Ts5oodooe1 must be present")),
            f3: s[3].as_ref().map(FromValue::from_value),
            f4: s[4].as_ref().map(FromValue::from_value),
        }
    }
}
impl ToValue for Ts5oodooe1 {
    fn to_value(&self) -> Value {
        Value::Seq(vec![
            self.f0.as_ref().map(|x| x.to_value()),
            self.f1.as_ref().map(|x| x.to_value()),
            Some(self.f2.to_value()),
            self.f3.as_ref().map(|x| x.to_value()),
            self.f4.as_ref().map(|x| x.to_value()),
        ])
    }
}
impl FromValue for Ts5oodooe2 {
    fn from_value(v: &Value) -> Self {
        let s = match v { Value::Seq(s) => s, other => panic!("Ts5oodooe2: expected Seq, got {other:?}") };
        assert_eq!(s.len(), 5, "Ts5oodooe2: component count");
        let _ = s;
        Ts5oodooe2 {
            f0: s[0].as_ref().map(FromValue::from_value),
            f1: s[1].as_ref().map(FromValue::from_value),
            f2: FromValue::from_value(s[2].as_ref().expect("component f2 of Ts5oodooe2 must be present")),
            f3: s[3].as_ref().map(FromValue::from_value),
            f4: s[4].as_ref().map(FromValue::from_value),
        }
    }
}
impl ToValue for Ts5oodooe2 {
    fn to_value(&self) -> Value {
        Value::Seq(vec![
            self.f0.as_ref().map(|x| x.to_value()),
            self.f1.as_ref().map(|x| x.to_value()),
            Some(self.f2.to_value()),
            self.f3.as_ref().map(|x| x.to_value()),
            self.f4.as_ref().map(|x| x.to_value()),
        ])
    }
}
impl FromValue for Ts5oodooe3 {
    fn from_value(v: &Value) -> Self {
        let s = match v { Value::Seq(s) => s, other => panic!("Ts5oodooe3: expected Seq, got {other:?}") };
        assert_eq!(s.len(), 5, "Ts5oodooe3: component count");
        let _ = s;
        Ts5oodooe3 {
            f0: s[0].as_ref().map(FromValue::from_value),
            f1: s[1].as_ref().map(FromValue::from_value),
            f2: FromValue::from_value(s[2].as_ref().expect("component f2 of Ts5oodooe3 must be present")),
            f3: s[3].as_ref().map(FromValue::from_value),
            f4: s[4].as_ref().map(FromValue::from_value),
        }
    }
}
impl ToValue for Ts5oodooe3 {
    fn to_value(&self) -> Value {
        Value::Seq(vec![
            self.f0.as_ref().map(|x| x.to_value()),
            self.f1.as_ref().map(|x| x.to_value()),
            Some(self.f2.to_value()),
            self.f3.as_ref().map(|x| x.to_value()),
            self.f4.as_ref().map(|x| x.to_value()),
        ])
    }
}
impl FromValue for Ts5oodooe4 {
    fn from_value(v: &Value) -> Self {
        let s = match v { Value::Seq(s) => s, other => panic!("Ts5oodooe4: expected Seq, got {other:?}") };
        assert_eq!(s.len(), 5, "Ts5oodooe4: component count");
        let _ = s;
        Ts5oodooe4 {
            f0: s[0].as_ref().map(FromValue::from_value),
            f1: s[1].as_ref().map(FromValue::from_value),
            f2: FromValue::from_value(s[2].as_ref().expect("component f2 of Ts5oodooe4 must be present")),
            f3: s[3].as_ref().map(FromValue::from_value),
            f4: s[4].as_ref().map(FromValue::from_value),
        }
    }
}
impl ToValue for Ts5oodooe4 {
    fn to_value(&self) -> Value {
        Value::Seq(vec![
            self.f0.as_ref().map(|x| x.to_value()),
            self.f1.as_ref().map(|x| x.to_value()),
            Some(self.f2.to_value()),
            self.f3.as_ref().map(|x| x.to_value()),
            self.f4.as_ref().map(|x| x.to_value()),
        ])
    }
}
impl FromValue for Ts5oodooe5 {
    fn from_value(v: &Value) -> Self {
        let s = match v { Value::Seq(s) => s, other => panic!("Ts5oodooe5: expected Seq, got {other:?}") };
        assert_eq!(s.len(), 5, "Ts5oodooe5: component count");
        let _ = s;
        Ts5oodooe5 {
            f0: s[0].as_ref().map(FromValue::from_value),
            f1: s[1].as_ref().map(FromValue::from_value),
            f2: FromValue::from_value(s[2].as_ref().expect("component f2 of Ts5oodooe5 must be present")),
            f3: s[3].as_ref().map(FromValue::from_value),
            f4: s[4].as_ref().map(FromValue::from_value),
        }
    }
}
impl ToValue for Ts5oodooe5 {
    fn to_value(&self) -> Value {
        Value::Seq(vec![
            self.f0.as_ref().map(|x| x.to_value()),
            self.f1.as_ref().map(|x| x.to_value()),
            Some(self.f2.to_value()),
            self.f3.as_ref().map(|x| x.to_value()),
            self.f4.as_ref().map(|x| x.to_value()),
        ])
    }
}
impl FromValue for Ts5dodoon {
    fn from_value(v: &Value) -> Self {
        let s = match v { Value::Seq(s) => s, other => panic!("Ts5dodoon: expected Seq, got {other:?}") };
        assert_eq!(s.len(), 5, "Ts5dodoon: component count");
        let _ = s;
        Ts5dodoon {
            f0: FromValue::from_value(s[0].as_ref().expect("component f0 of Ts5dodoon must be present")),
            f1: s[1].as_ref().map(FromValue::from_value),
            f2: FromValue::from_value(s[2].as_ref().expect("component f2 of Ts5dodoon must be present")),
            f3: s[3].as_ref().map(FromValue::from_value),
            f4: s[4].as_ref().map(FromValue::from_value),
        }
    }
}
impl ToValue for Ts5dodoon {
    fn to_value(&self) -> Value {
        Value::Seq(vec![
            Some(self.f0.to_value()),
            self.f1.as_ref().map(|x| x.to_value()),
            Some(self.f2.to_value()),
            self.f3.as_ref().map(|x| x.to_value()),
            self.f4.as_ref().map(|x| x.to_value()),
        ])
    }
}
impl FromValue for Ts5dodooe0 {
    fn from_value(v: &Value) -> Self {
        let s = match v { Value::Seq(s) => s, other => panic!("Ts5dodooe0: expected Seq, got {other:?}") };
        assert_eq!(s.len(), 5, "Ts5dodooe0: component count");
        let _ = s;
        Ts5dodooe0 {
            f0: FromValue::from_value(s[0].as_ref().expect("component f0 of Ts5dodooe0 must be present")),
            f1: s[1].as_ref().map(FromValue::from_value),
            f2: FromValue::from_value(s[2].as_ref().expect("component f2 of Ts5dodooe0 must be present")),
            f3: s[3].as_ref().map(FromValue::from_value),
            f4: s[4].as_ref().map(FromValue::from_value),
        }
    }
}
impl ToValue for Ts5dodooe0 {
    fn to_value(&self) -> Value {
        Value::Seq(vec![
            Some(self.f0.to_value()),
            self.f1.as_ref().map(|x| x.to_value()),
            Some(self.f2.to_value()),
            self.f3.as_ref().map(|x| x.to_value()),
            self.f4.as_ref().map(|x| x.to_value()),
        ])
    }
}
impl FromValue for Ts5dodooe1 {
    fn from_value(v: &Value) -> Self {
        let s = match v { Value::Seq(s) => s, other => panic!("Ts5dodooe1: expected Seq, got {other:?}") };
        assert_eq!(s.len(), 5, "Ts5dodooe1: component count");
        let _ = s;
        Ts5dodooe1 {
            f0: FromValue::from_value(s[0].as_ref().expect("component f0 of Ts5dodooe1 must be present")),
            f1: s[1].as_ref().map(FromValue::from_value),
            f2: FromValue::from_value(s[2].as_ref().expect("component f2 of Ts5dodooe1 must be present")),
            f3: s[3].as_ref().map(FromValue::from_value),
            f4: s[4].as_ref().map(FromValue::from_value),
        }
    }
}
impl ToValue for Ts5dodooe1 {
    fn to_value(&self) -> Value {
        Value::Seq(vec![
            Some(self.f0.to_value()),
            self.f1.as_ref().map(|x| x.to_value()),
            Some(self.f2.to_value()),
            self.f3.as_ref().map(|x| x.to_value()),
            self.f4.as_ref().map(|x| x.to_value()),
        ])
    }
}
impl FromValue for Ts5dodooe2 {
    fn from_value(v: &Value) -> Self {
        let s = match v { Value::Seq(s) => s, other => panic!("Ts5dodooe2: expected Seq, got {other:?}") };
        assert_eq!(s.len(), 5, "Ts5dodooe2: component count");
        let _ = s;
        Ts5dodooe2 {
            f0: FromValue::from_value(s[0].as_ref().expect("component f0 of Ts5dodooe2 must be present")),
            f1: s[1].as_ref().map(FromValue::from_value),
            f2: FromValue::from_value(s[2].as_ref().expect("component f2 of Ts5dodooe2 must be present")),
            f3: s[3].as_ref().map(FromValue::from_value),
            f4: s[4].as_ref().map(FromValue::from_value),
        }
    }
}
impl ToValue for Ts5dodooe2 {
    fn to_value(&self) -> Value {
        Value::Seq(vec![
            Some(self.f0.to_value()),
            self.f1.as_ref().map(|x| x.to_value()),
            Some(self.f2.to_value()),
            self.f3.as_ref().map(|x| x.to_value()),
            self.f4.as_ref().map(|x| x.to_value()),
        ])
    }
}
impl FromValue for Ts5dodooe3 {
    fn from_value(v: &Value) -> Self {
        let s = match v { Value::Seq(s) => s, other => panic!("Ts5dodooe3: expected Seq, got {other:?}") };
        assert_eq!(s.len(), 5, "Ts5dodooe3: component count");
        let _ = s;
        Ts5dodooe3 {
            f0: FromValue::from_value(s[0].as_ref().expect("component f0 of Ts5dodooe3 must be present")),
            f1: s[1].as_ref().map(FromValue::from_value),
            f2: FromValue::from_value(s[2].as_ref().expect("component f2 of Ts5dodooe3 must be present")),
            f3: s[3].as_ref().map(FromValue::from_value),
            f4: s[4].as_ref().map(FromValue::from_value),
        }
    }
}
impl ToValue for Ts5dodooe3 {
    fn to_value(&self) -> Value {
        Value::Seq(vec![
            Some(self.f0.to_value()),
            self.f1.as_ref().map(|x| x.to_value()),
            Some(self.f2.to_value()),
            self.f3.as_ref().map(|x| x.to_value()),
            self.f4.as_ref().map(|x| x.to_value()),
        ])
    }
}
impl FromValue for Ts5dodooe4 {
    fn from_value(v: &Value) -> Self {
        let s = match v { Value::Seq(s) => s, other => panic!("Ts5dodooe4: expected Seq, got {other:?}") };
        assert_eq!(s.len(), 5, "Ts5dodooe4: component count");
        let _ = s;
        Ts5dodooe4 {
            f0: FromValue::from_value(s[0].as_ref().expect("component f0 of Ts5dodooe4 must be present")),
            f1: s[1].as_ref().map(FromValue::from_value),
            f2: FromValue::from_value(s[2].as_ref().expect("component f2 of Ts5dodooe4 must be present")),
            f3: s[3].as_ref().map(FromValue::from_value),
            f4: s[4].as_ref().map(FromValue::from_value),
        }
    }
}
impl ToValue for Ts5dodooe4 {
    fn to_value(&self) -> Value {
        Value::Seq(vec![
            Some(self.f0.to_value()),
            self.f1.as_ref().map(|x| x.to_value()),
            Some(self.f2.to_value()),
            self.f3.as_ref().map(|x| x.to_value()),
            self.f4.as_ref().map(|x| x.to_value()),
        ])
    }
}
impl FromValue for Ts5dodooe5 {
    fn from_value(v: &Value) -> Self {
        let s = match v { Value::Seq(s) => s, other => panic!("Ts5dodooe5: expected Seq, got {other:?}") };
        assert_eq!(s.len(), 5, "Ts5dodooe5: component count");
        let _ = s;
        Ts5dodooe5 {
            f0: FromValue::from_value(s[0].as_ref().expect("component f0 of Ts5dodooe5 must be present")),
            f1: s[1].as_ref().map(FromValue::from_value),
            f2: FromValue::from_value(s[2].as_ref().expect("component f2 of Ts5dodooe5 must be present")),
            f3: s[3].as_ref().map(FromValue::from_value),
            f4: s[4].as_ref().map(FromValue::from_value),
        }
    }
}
impl ToValue for Ts5dodooe5 {
    fn to_value(&self) -> Value {
        Value::Seq(vec![
            Some(self.f0.to_value()),
            self.f1.as_ref().map(|x| x.to_value()),
            Some(self.f2.to_value()),
            self.f3.as_ref().map(|x| x.to_value()),
            self.f4.as_ref().map(|x| x.to_value()),
        ])
    }
}
impl FromValue for Ts5mddoon {
    fn from_value(v: &Value) -> Self {
        let s = match v { Value::Seq(s) => s, other => panic!("Ts5mddoon: expected Seq, got {other:?}") };
        assert_eq!(s.len(), 5, "Ts5mddoon: component count");
        let _ = s;
        Ts5mddoon {
            f0: FromValue::from_value(s[0].as_ref().expect("component f0 of Ts5mddoon must be present")),
            f1: FromValue::from_value(s[1].as_ref().expect("component f1 of Ts5mddoon must be present")),
            f2: FromValue::from_value(s[2].as_ref().expect("component f2 of Ts5mddoon must be present")),
            f3: s[3].as_ref().map(FromValue::from_value),
            f4: s[4].as_ref().map(FromValue::from_value),
        }
    }
}
impl ToValue for Ts5mddoon {
    fn to_value(&self) -> Value {
        Value::Seq(vec![
            Some(self.f0.to_value()),
            Some(self.f1.to_value()),
            Some(self.f2.to_value()),
            self.f3.as_ref().map(|x| x.to_value()),
            self.f4.as_ref().map(|x| x.to_value()),
        ])
    }
}
impl FromValue for Ts5mddooe0 {
    fn from_value(v: &Value) -> Self {
        let s = match v { Value::Seq(s) => s, other => panic!("Ts5mddooe0: expected Seq, got {other:?}") };
        assert_eq!(s.len(), 5, "Ts5mddooe0: component count");
        let _ = s;
        Ts5mddooe0 {
            f0: FromValue::from_value(s[0].as_ref().expect("component f0 of Ts5mddooe0 must be present")),
            f1: FromValue::from_value(s[1].as_ref().expect("component f1 of Ts5mddooe0 must be present")),
            f2: FromValue::from_value(s[2].as_ref().expect("component f2 of Ts5mddooe0 must be present")),
            f3: s[3].as_ref().map(FromValue::from_value),
            f4: s[4].as_ref().map(FromValue::from_value),
        }
    }
}
impl ToValue for Ts5mddooe0 {
    fn to_value(&self) -> Value {
        Value::Seq(vec![
            Some(self.f0.to_value()),
            Some(self.f1.to_value()),
            Some(self.f2.to_value()),
            self.f3.as_ref().map(|x| x.to_value()),
            self.f4.as_ref().map(|x| x.to_value()),
        ])
    }
}
impl FromValue for Ts5mddooe1 {
    fn from_value(v: &Value) -> Self {
        let s = match v { Value::Seq(s) => s, other => panic!("Ts5mddooe1: expected Seq, got {other:?}") };
        assert_eq!(s.len(), 5, "Ts5mddooe1: component count");
        let _ = s;
        Ts5mddooe1 {
            f0: FromValue::from_value(s[0].as_ref().expect("component f0 of Ts5mddooe1 must be present")),
            f1: FromValue::from_value(s[1].as_ref().expect("component f1 of Ts5mddooe1 must be present")),
            f2: FromValue::from_value(s[2].as_ref().expect("component f2 of Ts5mddooe1 must be present")),
            f3: s[3].as_ref().map(FromValue::from_value),
            f4: s[4].as_ref().map(FromValue::from_value),
        }
    }
}
impl ToValue for Ts5mddooe1 {
    fn to_value(&self) -> Value {
        Value::Seq(vec![
            Some(self.f0.to_value()),
            Some(self.f1.to_value()),
            Some(self.f2.to_value()),
            self.f3.as_ref().map(|x| x.to_value()),
            self.f4.as_ref().map(|x| x.to_value()),
        ])
    }
}
impl FromValue for Ts5mddooe2 {
    fn from_value(v: &Value) -> Self {
        let s = match v { Value::Seq(s) => s, other => panic!("Ts5mddooe2: expected Seq, got {other:?}") };
        assert_eq!(s.len(), 5, "Ts5mddooe2: component count");
        let _ = s;
        Ts5mddooe2 {
            f0: FromValue::from_value(s[0].as_ref().expect("component f0 of Ts5mddooe2 must be present")),
            f1: FromValue::from_value(s[1].as_ref().expect("component f1 of Ts5mddooe2 must be present")),
            f2: FromValue::from_value(s[2].as_ref().expect("component f2 of Ts5mddooe2 must be present")),
            f3: s[3].as_ref().map(FromValue::from_value),
            f4: s[4].as_ref().map(FromValue::from_value),
        }
    }
}
impl ToValue for Ts5mddooe2 {
    fn to_value(&self) -> Value {
        Value::Seq(vec![
            Some(self.f0.to_value()),
            Some(self.f1.to_value()),
            Some(self.f2.to_value()),
            self.f3.as_ref().map(|x| x.to_value()),
            self.f4.as_ref().map(|x| x.to_value()),
        ])
    }
}
impl FromValue for Ts5mddooe3 {
    fn from_value(v: &Value) -> Self {
        let s = match v { Value::Seq(s) => s, other => panic!("Ts5mddooe3: expected Seq, got {other:?}") };
        assert_eq!(s.len(), 5, "Ts5mddooe3: component count");
        let _ = s;
        Ts5mddooe3 {
            f0: FromValue::from_value(s[0].as_ref().expect("component f0 of Ts5mddooe3 must be present")),
            f1: FromValue::from_value(s[1].as_ref().expect("component f1 of Ts5mddooe3 must be present")),
            f2: FromValue::from_value(s[2].as_ref().expect("component f2 of Ts5mddooe3 must be present")),
            f3: s[3].as_ref().map(FromValue::from_value),
            f4: s[4].as_ref().map(FromValue::from_value),
        }
    }
}
impl ToValue for Ts5mddooe3 {
    fn to_value(&self) -> Value {
        Value::Seq(vec![
            Some(self.f0.to_value()),
            Some(self.f1.to_value()),
            Some(self.f2.to_value()),
            self.f3.as_ref().map(|x| x.to_value()),
            self.f4.as_ref().map(|x| x.to_value()),
        ])
    }
}
impl FromValue for Ts5mddooe4 {
    fn from_value(v: &Value) -> Self {
        let s = match v { Value::Seq(s) => s, other => panic!("Ts5mddooe4: expected Seq, got {other:?}") };
        assert_eq!(s.len(), 5, "Ts5mddooe4: component count");
        let _ = s;
        Ts5mddooe4 {
            f0: FromValue::from_value(s[0].as_ref().expect("component f0 of Ts5mddooe4 must be present")),
            f1: FromValue::from_value(s[1].as_ref().expect("component f1 of Ts5mddooe4 must be present")),
            f2: FromValue::from_value(s[2].as_ref().expect("component f2 of Ts5mddooe4 must be present")),
            f3: s[3].as_ref().map(FromValue::from_value),
            f4: s[4].as_ref().map(FromValue::from_value),
        }
    }
}
impl ToValue for Ts5mddooe4 {
    fn to_value(&self) -> Value {
        Value::Seq(vec![
            Some(self.f0.to_value()),
            Some(self.f1.to_value()),
            Some(self.f2.to_value()),
            self.f3.as_ref().map(|x| x.to_value()),
            self.f4.as_ref().map(|x| x.to_value()),
        ])
    }
}
impl FromValue for Ts5mddooe5 {
    fn from_value(v: &Value) -> Self {
        let s = match v { Value::Seq(s) => s, other => panic!("Ts5mddooe5: expected Seq, got {other:?}") };
        assert_eq!(s.len(), 5, "Ts5mddooe5: component count");
        let _ = s;
        Ts5mddooe5 {
            f0: FromValue::from_value(s[0].as_ref().expect("component f0 of Ts5mddooe5 must be present")),
            f1: FromValue::from_value(s[1].as_ref().expect("component f1 of Ts5mddooe5 must be present")),
            f2: FromValue::from_value(s[2].as_ref().expect("component f2 of Ts5mddooe5 must be present")),
            f3: s[3].as_ref().map(FromValue::from_value),
            f4: s[4].as_ref().map(FromValue::from_value),
        }
    }
}
impl ToValue for Ts5mddooe5 {
    fn to_value(&self) -> Value {
        Value::Seq(vec![
            Some(self.f0.to_value()),
            Some(self.f1.to_value()),
            Some(self.f2.to_value()),
            self.f3.as_ref().map(|x| x.to_value()),
            self.f4.as_ref().map(|x| x.to_value()),
        ])
    }
}
impl FromValue for Ts5oddoon {
    fn from_value(v: &Value) -> Self {
        let s = match v { Value::Seq(s) => s, other => panic!("Ts5oddoon: expected Seq, got {other:?}") };
        assert_eq!(s.len(), 5, "Ts5oddoon: component count");
        let _ = s;
        Ts5oddoon {
            f0: s[0].as_ref().map(FromValue::from_value),
            f1: FromValue::from_value(s[1].as_ref().expect("component f1 of Ts5oddoon must be present")),
            f2: FromValue::from_value(s[2].as_ref().expect("component f2 of Ts5oddoon must be present")),
            f3: s[3].as_ref().map(FromValue::from_value),
            f4: s[4].as_ref().map(FromValue::from_value),
        }
    }
}
impl ToValue for Ts5oddoon {
    fn to_value(&self) -> Value {
        Value::Seq(vec![
            self.f0.as_ref().map(|x| x.to_value()),
            Some(self.f1.to_value()),
            Some(self.f2.to_value()),
            self.f3.as_ref().map(|x| x.to_value()),
            self.f4.as_ref().map(|x| x.to_value()),
        ])
    }
}
impl FromValue for Ts5oddooe0 {
    fn from_value(v: &Value) -> Self {
        let s = match v { Value::Seq(s) => s, other => panic!("Ts5oddooe0: expected Seq, got {other:?}") };
        assert_eq!(s.len(), 5, "Ts5oddooe0: component count");
        let _ = s;
        Ts5oddooe0 {
            f0: s[0].as_ref().map(FromValue::from_value),
            f1: FromValue::from_value(s[1].as_ref().expect("component f1 of Ts5oddooe0 must be present")),
            f2: FromValue::from_value(s[2].as_ref().expect("component f2 of Ts5oddooe0 must be present")),
            f3: s[3].as_ref().map(FromValue::from_value),
            f4: s[4].as_ref().map(FromValue::from_value),
        }
    }
}
impl ToValue for Ts5oddooe0 {
    fn to_value(&self) -> Value {
        Value::Seq(vec![
            self.f0.as_ref().map(|x| x.to_value()),
            Some(self.f1.to_value()),
            Some(self.f2.to_value()),
            self.f3.as_ref().map(|x| x.to_value()),
            self.f4.as_ref().map(|x| x.to_value()),
        ])
    }
}
impl FromValue for Ts5oddooe1 {
    fn from_value(v: &Value) -> Self {
        let s = match v { Value::Seq(s) => s, other => panic!("Ts5oddooe1: expected Seq, got {other:?}") };
        assert_eq!(s.len(), 5, "Ts5oddooe1: component count");
        let _ = s;
        Ts5oddooe1 {
            f0: s[0].as_ref().map(FromValue::from_value),
            f1: FromValue::from_value(s[1].as_ref().expect("component f1 of Ts5oddooe1 must be present")),
            f2: FromValue::from_value(s[2].as_ref().expect("component f2 of Ts5oddooe1 must be present")),
            f3: s[3].as_ref().map(FromValue::from_value),
            f4: s[4].as_ref().map(FromValue::from_value),
        }
    }
}
impl ToValue for Ts5oddooe1 {
    fn to_value(&self) -> Value {
        Value::Seq(vec![
            self.f0.as_ref().map(|x| x.to_value()),
            Some(self.f1.to_value()),
            Some(self.f2.to_value()),
            self.f3.as_ref().map(|x| x.to_value()),
            self.f4.as_ref().map(|x| x.to_value()),
        ])
    }
}
impl FromValue for Ts5oddooe2 {
    fn from_value(v: &Value) -> Self {
        let s = match v { Value::Seq(s) => s, other => panic!("Ts5oddooe2: expected Seq, got {other:?}") };
        assert_eq!(s.len(), 5, "Ts5oddooe2: component count");
        let _ = s;
        Ts5oddooe2 {
            f0: s[0].as_ref().map(FromValue::from_value),
            f1: FromValue::from_value(s[1].as_ref().expect("component f1 of Ts5oddooe2 must be present")),
            f2: FromValue::from_value(s[2].as_ref().expect("component f2 of Ts5oddooe2 must be present")),
            f3: s[3].as_ref().map(FromValue::from_value),
            f4: s[4].as_ref().map(FromValue::from_value),
        }
    }
}
impl ToValue for Ts5oddooe2 {
    fn to_value(&self) -> Value {
        Value::Seq(vec![
            self.f0.as_ref().map(|x| x.to_value()),
            Some(self.f1.to_value()),
            Some(self.f2.to_value()),
            self.f3.as_ref().map(|x| x.to_value()),
            self.f4.as_ref().map(|x| x.to_value()),
        ])
    }
}
impl FromValue for Ts5oddooe3 {
    fn from_value(v: &Value) -> Self {
        let s = match v { Value::Seq(s) => s, other => panic!("Ts5oddooe3: expected Seq, got {other:?}") };
        assert_eq!(s.len(), 5, "Ts5oddooe3: component count");
        let _ = s;
        Ts5oddooe3 {
            f0: s[0].as_ref().map(FromValue::from_value),
            f1: FromValue::from_value(s[1].as_ref().expect("component f1 of Ts5oddooe3 must be present")),
            f2: FromValue::from_value(s[2].as_ref().expect("component f2 of Ts5oddooe3 must be present")),
            f3: s[3].as_ref().map(FromValue::from_value),
            f4: s[4].as_ref().map(FromValue::from_value),
        }
    }
}
impl ToValue for Ts5oddooe3 {
    fn to_value(&self) -> Value {
        Value::Seq(vec![
            self.f0.as_ref().map(|x| x.to_value()),
            Some(self.f1.to_value()),
            Some(self.f2.to_value()),
            self.f3.as_ref().map(|x| x.to_value()),
            self.f4.as_ref().map(|x| x.to_value()),
        ])
    }
}
impl FromValue for Ts5oddooe4 {
    fn from_value(v: &Value) -> Self {
        let s = match v { Value::Seq(s) => s, other => panic!("Ts5oddooe4: expected Seq, got {other:?}") };
        assert_eq!(s.len(), 5, "Ts5oddooe4: component count");
        let _ = s;
        Ts5oddooe4 {
            f0: s[0].as_ref().map(FromValue::from_value),
            f1: FromValue::from_value(s[1].as_ref().expect("component f1 of Ts5oddooe4 must be present")),
            f2: FromValue::from_value(s[2].as_ref().expect("component f2 of Ts5oddooe4 must be present")),
            f3: s[3].as_ref().map(FromValue::from_value),
            f4: s[4].as_ref().map(FromValue::from_value),
        }
    }
}
impl ToValue for Ts5oddooe4 {
    fn to_value(&self) -> Value {
        Value::Seq(vec![
            self.f0.as_ref().map(|x| x.to_value()),
            Some(self.f1.to_value()),
            Some(self.f2.to_value()),
            self.f3.as_ref().map(|x| x.to_value()),
            self.f4.as_ref().map(|x| x.to_value()),
        ])
    }
}
impl FromValue for Ts5oddooe5 {
    fn from_value(v: &Value) -> Self {
        let s = match v { Value::Seq(s) => s, other => panic!("Ts5oddooe5: expected Seq, got {other:?}") };
        assert_eq!(s.len(), 5, "Ts5oddooe5: component count");
        let _ = s;
        Ts5oddooe5 {
            f0: s[0].as_ref().map(FromValue::from_value),
            f1: FromValue::from_value(s[1].as_ref().expect("component f1 of Ts5oddooe5 must be present")),
            f2: FromValue::from_value(s[2].as_ref().expect("component f2 of Ts5oddooe5 must be present")),
            f3: s[3].as_ref().map(FromValue::from_value),
            f4: s[4].as_ref().map(FromValue::from_value),
        }
    }
}
impl ToValue for Ts5oddooe5 {
    fn to_value(&self) -> Value {
        Value::Seq(vec![
            self.f0.as_ref().map(|x| x.to_value()),
            Some(self.f1.to_value()),
            Some(self.f2.to_value()),
            self.f3.as_ref().map(|x| x.to_value()),
            self.f4.as_ref().map(|x| x.to_value()),
        ])
    }
}
impl FromValue for Ts5dddoon {
    fn from_value(v: &Value) -> Self {
        let s = match v { Value::Seq(s) => s, other => panic!("Ts5dddoon: expected Seq, got {other:?}") };
        assert_eq!(s.len(), 5, "Ts5dddoon: component count");
        let _ = s;
        Ts5dddoon {
            f0: FromValue::from_value(s[0].as_ref().expect("component f0 of Ts5dddoon must be present")),
            f1: FromValue::from_value(s[1].as_ref().expect("component f1 of Ts5dddoon must be present")),
            f2: FromValue::from_value(s[2].as_ref().expect("component f2 of Ts5dddoon must be present")),
            f3: s[3].as_ref().map(FromValue::from_value),
            f4: s[4].as_ref().map(FromValue::from_value),
        }
    }
}
impl ToValue for Ts5dddoon {
    fn to_value(&self) -> Value {
        Value::Seq(vec![
            Some(self.f0.to_value()),
            Some(self.f1.to_value()),
            Some(self.f2.to_value()),
            self.f3.as_ref().map(|x| x.to_value()),
            self.f4.as_ref().map(|x| x.to_value()),
        ])
    }
}
impl FromValue for Ts5dddooe0 {
    fn from_value(v: &Value) -> Self {
        let s = match v { Value::Seq(s) => s, other => panic!("Ts5dddooe0: expected Seq, got {other:?}") };
        assert_eq!(s.len(), 5, "Ts5dddooe0: component count");
        let _ = s;
        Ts5dddooe0 {
            f0: FromValue::from_value(s[0].as_ref().expect("component f0 of Ts5dddooe0 must be present")),
            f1: FromValue::from_value(s[1].as_ref().expect("component f1 of Ts5dddooe0 must be present")),
            f2: FromValue::from_value(s[2].as_ref().expect("component f2 of Ts5dddooe0 must be present")),
            f3: s[3].as_ref().map(FromValue::from_value),
            f4: s[4].as_ref().map(FromValue::from_value),
        }
    }
}
impl ToValue for Ts5dddooe0 {
    fn to_value(&self) -> Value {
        Value::Seq(vec![
            Some(self.f0.to_value()),
            Some(self.f1.to_value()),
            Some(self.f2.to_value()),
            self.f3.as_ref().map(|x| x.to_value()),
            self.f4.as_ref().map(|x| x.to_value()),
        ])
    }
}
impl FromValue for Ts5dddooe1 {
    fn from_value(v: &Value) -> Self {
        let s = match v { Value::Seq(s) => s, other => panic!("Ts5dddooe1: expected Seq, got {other:?}") };
        assert_eq!(s.len(), 5, "Ts5dddooe1: component count");
        let _ = s;
        Ts5dddooe1 {
            f0: FromValue::from_value(s[0].as_ref().expect("component f0 of Ts5dddooe1 must be present")),
            f1: FromValue::from_value(s[1].as_ref().expect("component f1 of Ts5dddooe1 must be present")),
            f2: FromValue::from_value(s[2].as_ref().expect("component f2 of Ts5dddooe1 must be present")),
            f3: s[3].as_ref().map(FromValue::from_value),
            f4: s[4].as_ref().map(FromValue::from_value),
        }
    }
}
impl ToValue for Ts5dddooe1 {
    fn to_value(&self) -> Value {
        Value::Seq(vec![
            Some(self.f0.to_value()),
            Some(self.f1.to_value()),
            Some(self.f2.to_value()),
            self.f3.as_ref().map(|x| x.to_value()),
            self.f4.as_ref().map(|x| x.to_value()),
        ])
    }
}
impl FromValue for Ts5dddooe2 {
    fn from_value(v: &Value) -> Self {
        let s = match v { Value::Seq(s) => s, other => panic!("Ts5dddooe2: expected Seq, got {other:?}") };
        assert_eq!(s.len(), 5, "Ts5dddooe2: component count");
        let _ = s;
        Ts5dddooe2 {
            f0: FromValue::from_value(s[0].as_ref().expect("component f0 of Ts5dddooe2 must be present")),
            f1: FromValue::from_value(s[1].as_ref().expect("component f1 of Ts5dddooe2 must be present")),
            f2: FromValue::from_value(s[2].as_ref().expect("component f2 of Ts5dddooe2 must be present")),
            f3: s[3].as_ref().map(FromValue::from_value),
            f4: s[4].as_ref().map(FromValue::from_value),
        }
    }
}
impl ToValue for Ts5dddooe2 {
    fn to_value(&self) -> Value {
        Value::Seq(vec![
            Some(self.f0.to_value()),
            Some(self.f1.to_value()),
            Some(self.f2.to_value()),
            self.f3.as_ref().map(|x| x.to_value()),
            self.f4.as_ref().map(|x| x.to_value()),
        ])
    }
}
impl FromValue for Ts5dddooe3 {
    fn from_value(v: &Value) -> Self {
        let s = match v { Value::Seq(s) => s, other => panic!("Ts5dddooe3: expected Seq, got {other:?}") };
        assert_eq!(s.len(), 5, "Ts5dddooe3: component count");
        let _ = s;
        Ts5dddooe3 {
            f0: FromValue::from_value(s[0].as_ref().expect("component f0 of Ts5dddooe3 must be present")),
            f1: FromValue::from_value(s[1].as_ref().expect("component f1 of Ts5dddooe3 must be present")),
            f2: FromValue::from_value(s[2].as_ref().expect("component f2 of Ts5dddooe3 must be present")),
            f3: s[3].as_ref().map(FromValue::from_value),
            f4: s[4].as_ref().map(FromValue::from_value),
        }
    }
}
impl ToValue for Ts5dddooe3 {
    fn to_value(&self) -> Value {
        Value::Seq(vec![
            Some(self.f0.to_value()),
            Some(self.f1.to_value()),
            Some(self.f2.to_value()),
            self.f3.as_ref().map(|x| x.to_value()),
            self.f4.as_ref().map(|x| x.to_value()),
        ])
    }
}
impl FromValue for Ts5dddooe4 {
    fn from_value(v: &Value) -> Self {
        let s = match v { Value::Seq(s) => s, other => panic!("Ts5dddooe4: expected Seq, got {other:?}") };
        assert_eq!(s.len(), 5, "Ts5dddooe4: component count");
        let _ = s;
        Ts5dddooe4 {
            f0: FromValue::from_value(s[0].as_ref().expect("component f0 of Ts5dddooe4 must be present")),
            f1: FromValue::from_value(s[1].as_ref().expect("component f1 of Ts5dddooe4 must be present")),
            f2: FromValue::from_value(s[2].as_ref().expect("component f2 of Ts5dddooe4 must be present")),
            f3: s[3].as_ref().map(FromValue::from_value),
            f4: s[4].as_ref().map(FromValue::from_value),
        }
    }
}
impl ToValue for Ts5dddooe4 {
    fn to_value(&self) -> Value {
        Value::Seq(vec![
            Some(self.f0.to_value()),
            Some(self.f1.to_value()),
            Some(self.f2.to_value()),
            self.f3.as_ref().map(|x| x.to_value()),
            self.f4.as_ref().map(|x| x.to_value()),
        ])
    }
}
impl FromValue for Ts5dddooe5 {
    fn from_value(v: &Value) -> Self {
        let s = match v { Value::Seq(s) => s, other => panic!("Ts5dddooe5: expected Seq, got {other:?}") };
        assert_eq!(s.len(), 5, "Ts5dddooe5: component count");
        let _ = s;
        Ts5dddooe5 {
            f0: FromValue::from_value(s[0].as_ref().expect("component f0 of Ts5dddooe5 must be present")),
            f1: FromValue::from_value(s[1].as_ref().expect("component f1 of Ts5dddooe5 must be present")),
            f2: FromValue::from_value(s[2].as_ref().expect("component f2 of Ts5dddooe5 must be present")),
            f3: s[3].as_ref().map(FromValue::from_value),
            f4: s[4].as_ref().map(FromValue::from_value),
        }
    }
}
impl ToValue for Ts5dddooe5 {
    fn to_value(&self) -> Value {
        Value::Seq(vec![
            Some(self.f0.to_value()),
            Some(self.f1.to_value()),
            Some(self.f2.to_value()),
            self.f3.as_ref().map(|x| x.to_value()),
            self.f4.as_ref().map(|x| x.to_value()),
        ])
    }
}
impl FromValue for Ts5mmmdon {
    fn from_value(v: &Value) -> Self {
        let s = match v { Value::Seq(s) => s, other => panic!("Ts5mmmdon: expected Seq, got {other:?}") };
        assert_eq!(s.len(), 5, "Ts5mmmdon: component count");
        let _ = s;
        Ts5mmmdon {
            f0: FromValue::from_value(s[0].as_ref().expect("component f0 of Ts5mmmdon must be present")),
            f1: FromValue::from_value(s[1].as_ref().expect("component f1 of Ts5mmmdon must be present")),
            f2: FromValue::from_value(s[2].as_ref().expect("component f2 of Ts5mmmdon must be present")),
            f3: FromValue::from_value(s[3].as_ref().expect("component f3 of Ts5mmmdon must be present")),
            f4: s[4].as_ref().map(FromValue::from_value),
        }
    }
}
impl ToValue for Ts5mmmdon {
    fn to_value(&self) -> Value {
        Value::Seq(vec![
            Some(self.f0.to_value()),
            Some(self.f1.to_value()),
            Some(self.f2.to_value()),
            Some(self.f3.to_value()),
            self.f4.as_ref().map(|x| x.to_value()),
        ])
    }
}
impl FromValue for Ts5mmmdoe0 {
    fn from_value(v: &Value) -> Self {
        let s = match v { Value::Seq(s) => s, other => panic!("Ts5mmmdoe0: expected Seq, got {other:?}") };
        assert_eq!(s.len(), 5, "Ts5mmmdoe0: component count");
        let _ = s;
        Ts5mmmdoe0 {
            f0: FromValue::from_value(s[0].as_ref().expect("component f0 of Ts5mmmdoe0 must be present")),
            f1: s[1].as_ref().map(FromValue::from_value),
            f2: s[2].as_ref().map(FromValue::from_value),
            f3: FromValue::from_value(s[3].as_ref().expect("component f3 of Ts5mmmdoe0 must be present")),
            f4: s[4].as_ref().map(FromValue::from_value),
        }
    }
}
impl ToValue for Ts5mmmdoe0 {
    fn to_value(&self) -> Value {
        Value::Seq(vec![
            Some(self.f0.to_value()),
            self.f1.as_ref().map(|x| x.to_value()),
            self.f2.as_ref().map(|x| x.to_value()),
            Some(self.f3.to_value()),
            self.f4.as_ref().map(|x| x.to_value()),
        ])
    }
}
impl FromValue for Ts5mmmdoe1 {
    fn from_value(v: &Value) -> Self {
        let s = match v { Value::Seq(s) => s, other => panic!("Ts5mmmdoe1: expected Seq, got {other:?}") };
        assert_eq!(s.len(), 5, "Ts5mmmdoe1: component count");
        let _ = s;
        Ts5mmmdoe1 {
            f0: FromValue::from_value(s[0].as_ref().expect("component f0 of Ts5mmmdoe1 must be present")),
            f1: s[1].as_ref().map(FromValue::from_value),
            f2: s[2].as_ref().map(FromValue::from_value),
            f3: FromValue::from_value(s[3].as_ref().expect("component f3 of Ts5mmmdoe1 must be present")),
            f4: s[4].as_ref().map(FromValue::from_value),
        }
    }
}
impl ToValue for Ts5mmmdoe1 {
    fn to_value(&self) -> Value {
        Value::Seq(vec![
            Some(self.f0.to_value()),
            self.f1.as_ref().map(|x| x.to_value()),
            self.f2.as_ref().map(|x| x.to_value()),
            Some(self.f3.to_value()),
            self.f4.as_ref().map(|x| x.to_value()),
        ])
    }
}
impl FromValue for Ts5mmmdoe2 {
    fn from_value(v: &Value) -> Self {
        let s = match v { Value::Seq(s) => s, other => panic!("Ts5mmmdoe2: expected Seq, got {other:?}") };
        assert_eq!(s.len(), 5, "Ts5mmmdoe2: component count");
        let _ = s;
        Ts5mmmdoe2 {
            f0: FromValue::from_value(s[0].as_ref().expect("component f0 of Ts5mmmdoe2 must be present")),
            f1: FromValue::from_value(s[1].as_ref().expect("component f1 of Ts5mmmdoe2 must be present")),
            f2: s[2].as_ref().map(FromValue::from_value),
            f3: FromValue::from_value(s[3].as_ref().expect("component f3 of Ts5mmmdoe2 must be present")),
            f4: s[4].as_ref().map(FromValue::from_value),
        }
    }
}
impl ToValue for Ts5mmmdoe2 {
    fn to_value(&self) -> Value {
        Value::Seq(vec![
            Some(self.f0.to_value()),
            Some(self.f1.to_value()),
            self.f2.as_ref().map(|x| x.to_value()),
            Some(self.f3.to_value()),
            self.f4.as_ref().map(|x| x.to_value()),
        ])
    }
}
impl FromValue for Ts5mmmdoe3 {
    fn from_value(v: &Value) -> Self {
        let s = match v { Value::Seq(s) => s, other => panic!("Ts5mmmdoe3: expected Seq, got {other:?}") };
        assert_eq!(s.len(), 5, "Ts5mmmdoe3: component count");
        let _ = s;
        Ts5mmmdoe3 {
            f0: FromValue::from_value(s[0].as_ref().expect("component f0 of Ts5mmmdoe3 must be present")),
            f1: FromValue::from_value(s[1].as_ref().expect("component f1 of Ts5mmmdoe3 must be present")),
            f2: FromValue::from_value(s[2].as_ref().expect("component f2 of Ts5mmmdoe3 must be present")),
            f3: FromValue::from_value(s[3].as_ref().expect("component f3 of Ts5mmmdoe3 must be present")),
            f4: s[4].as_ref().map(FromValue::from_value),
        }
    }
}
impl ToValue for Ts5mmmdoe3 {
    fn to_value(&self) -> Value {
        Value::Seq(vec![
            Some(self.f0.to_value()),
            Some(self.f1.to_value()),
            Some(self.f2.to_value()),
            Some(self.f3.to_value()),
            self.f4.as_ref().map(|x| x.to_value()),
        ])
    }
}
impl FromValue for Ts5mmmdoe4 {
    fn from_value(v: &Value) -> Self {
        let s = match v { Value::Seq(s) => s, other => panic!("Ts5mmmdoe4: expected Seq, got {other:?}") };
        assert_eq!(s.len(), 5, "Ts5mmmdoe4: component count");
        let _ = s;
        Ts5mmmdoe4 {
            f0: FromValue::from_value(s[0].as_ref().expect("component f0 of Ts5mmmdoe4 must be present")),
            f1: FromValue::from_value(s[1].as_ref().expect("component f1 of Ts5mmmdoe4 must be present")),
            f2: FromValue::from_value(s[2].as_ref().expect("component f2 of Ts5mmmdoe4 must be present")),
            f3: FromValue::from_value(s[3].as_ref().expect("component f3 of Ts5mmmdoe4 must be present")),
            f4: s[4].as_ref().map(FromValue::from_value),
        }
    }
}
impl ToValue for Ts5mmmdoe4 {
    fn to_value(&self) -> Value {
        Value::Seq(vec![
            Some(self.f0.to_value()),
            Some(self.f1.to_value()),
            Some(self.f2.to_value()),
            Some(self.f3.to_value()),
            self.f4.as_ref().map(|x| x.to_value()),
        ])
    }
}
impl FromValue for Ts5mmmdoe5 {
    fn from_value(v: &Value) -> Self {
        let s = match v { Value::Seq(s) => s, other => panic!("Ts5mmmdoe5: expected Seq, got {other:?}") };
        assert_eq!(s.len(), 5, "Ts5mmmdoe5: component count");
        let _ = s;
        Ts5mmmdoe5 {
            f0: FromValue::from_value(s[0].as_ref().expect("component f0 of Ts5mmmdoe5 must be present")),
            f1: FromValue::from_value(s[1].as_ref().expect("component f1 of Ts5mmmdoe5 must be present")),
            f2: FromValue::from_value(s[2].as_ref().expect("component f2 of Ts5mmmdoe5 must be present")),
            f3: FromValue::from_value(s[3].as_ref().expect("component f3 of Ts5mmmdoe5 must be present")),
            f4: s[4].as_ref().map(FromValue::from_value),
        }
    }
}
impl ToValue for Ts5mmmdoe5 {
    fn to_value(&self) -> Value {
        Value::Seq(vec![
            Some(self.f0.to_value()),
            Some(self.f1.to_value()),
            Some(self.f2.to_value()),
            Some(self.f3.to_value()),
            self.f4.as_ref().map(|x| x.to_value()),
        ])
    }
}
impl FromValue for Ts5ommdon {
    fn from_value(v: &Value) -> Self {
        let s = match v { Value::Seq(s) => s, other => panic!("Ts5ommdon: expected Seq, got {other:?}") };
        assert_eq!(s.len(), 5, "Ts5ommdon: component count");
        let _ = s;
        Ts5ommdon {
            f0: s[0].as_ref().map(FromValue::from_value),
            f1: FromValue::from_value(s[1].as_ref().expect("component f1 of Ts5ommdon must be present")),
            f2: FromValue::from_value(s[2].as_ref().expect("component f2 of Ts5ommdon must be present")),
            f3: FromValue::from_value(s[3].as_ref().expect("component f3 of Ts5ommdon must be present")),
            f4: s[4].as_ref().map(FromValue::from_value),
        }
    }
}
impl ToValue for Ts5ommdon {
    fn to_value(&self) -> Value {
        Value::Seq(vec![
            self.f0.as_ref().map(|x| x.to_value()),
            Some(self.f1.to_value()),
            Some(self.f2.to_value()),
            Some(self.f3.to_value()),
            self.f4.as_ref().map(|x| x.to_value()),
        ])
    }
}
impl FromValue for Ts5ommdoe0 {
    fn from_value(v: &Value) -> Self {
        let s = match v { Value::Seq(s) => s, other => panic!("Ts5ommdoe0: expected Seq, got {other:?}") };
        assert_eq!(s.len(), 5, "Ts5ommdoe0: component count");
        let _ = s;
        Ts5ommdoe0 {
            f0: s[0].as_ref().map(FromValue::from_value),
            f1: s[1].as_ref().map(FromValue::from_value),
            f2: s[2].as_ref().map(FromValue::from_value),
            f3: FromValue::from_value(s[3].as_ref().expect("component f3 of Ts5ommdoe0 must be present")),
            f4: s[4].as_ref().map(FromValue::from_value),
        }
    }
}
impl ToValue for Ts5ommdoe0 {
    fn to_value(&self) -> Value {
        Value::Seq(vec![
            self.f0.as_ref().map(|x| x.to_value()),
            self.f1.as_ref().map(|x| x.to_value()),
            self.f2.as_ref().map(|x| x.to_value()),
            Some(self.f3.to_value()),
            self.f4.as_ref().map(|x| x.to_value()),
        ])
    }
}
impl FromValue for Ts5ommdoe1 {
    fn from_value(v: &Value) -> Self {
        let s = match v { Value::Seq(s) => s, other => panic!("Ts5ommdoe1: expected Seq, got {other:?}") };
        assert_eq!(s.len(), 5, "Ts5ommdoe1: component count");
        let _ = s;
        Ts5ommdoe1 {
            f0: s[0].as_ref().map(FromValue::from_value),
            f1: s[1].as_ref().map(FromValue::from_value),
            f2: s[2].as_ref().map(FromValue::from_value),
            f3: FromValue::from_value(s[3].as_ref().expect("component f3 of Ts5ommdoe1 must be present")),
            f4: s[4].as_ref().map(FromValue::from_value),
        }
    }
}
impl ToValue for Ts5ommdoe1 {
    fn to_value(&self) -> Value {
        Value::Seq(vec![
            self.f0.as_ref().map(|x| x.to_value()),
            self.f1.as_ref().map(|x| x.to_value()),
            self.f2.as_ref().map(|x| x.to_value()),
            Some(self.f3.to_value()),
            self.f4.as_ref().map(|x| x.to_value()),
        ])
    }
}
impl FromValue for Ts5ommdoe2 {
    fn from_value(v: &Value) -> Self {
        let s = match v { Value::Seq(s) => s, other => panic!("Ts5ommdoe2: expected Seq, got {other:?}") };
        assert_eq!(s.len(), 5, "Ts5ommdoe2: component count");
        let _ = s;
        Ts5ommdoe2 {
            f0: s[0].as_ref().map(FromValue::from_value),
            f1: FromValue::from_value(s[1].as_ref().expect("component f1 of Ts5ommdoe2 must be present")),
            f2: s[2].as_ref().map(FromValue::from_value),
            f3: FromValue::from_value(s[3].as_ref().expect("component f3 of Ts5ommdoe2 must be present")),
            f4: s[4].as_ref().map(FromValue::from_value),
        }
    }
}
impl ToValue for Ts5ommdoe2 {
    fn to_value(&self) -> Value {
        Value::Seq(vec![
            self.f0.as_ref().map(|x| x.to_value()),
            Some(self.f1.to_value()),
            self.f2.as_ref().map(|x| x.to_value()),
            Some(self.f3.to_value()),
            self.f4.as_ref().map(|x| x.to_value()),
        ])
    }
}
impl FromValue for Ts5ommdoe3 {
    fn from_value(v: &Value) -> Self {
        let s = match v { Value::Seq(s) => s, other => panic!("Ts5ommdoe3: expected Seq, got {other:?}") };
        assert_eq!(s.len(), 5, "Ts5ommdoe3: component count");
        let _ = s;
        Ts5ommdoe3 {
            f0: s[0].as_ref().map(FromValue::from_value),
            f1: FromValue::from_value(s[1].as_ref().expect("component f1 of Ts5ommdoe3 must be present")),
            f2: FromValue::from_value(s[2].as_ref().expect("component f2 of Ts5ommdoe3 must be present")),
            f3: FromValue::from_value(s[3].as_ref().expect("component f3 of Ts5ommdoe3 must be present")),
            f4: s[4].as_ref().map(FromValue::from_value),
        }
    }
}
impl ToValue for Ts5ommdoe3 {
    fn to_value(&self) -> Value {
        Value::Seq(vec![
            self.f0.as_ref().map(|x| x.to_value()),
            Some(self.f1.to_value()),
            Some(self.f2.to_value()),
            Some(self.f3.to_value()),
            self.f4.as_ref().map(|x| x.to_value()),
        ])
    }
}
impl FromValue for Ts5ommdoe4 {
    fn from_value(v: &Value) -> Self {
        let s = match v { Value::Seq(s) => s, other => panic!("Ts5ommdoe4: expected Seq, got {other:?}") };
        assert_eq!(s.len(), 5, "Ts5ommdoe4: component count");
        let _ = s;
        Ts5ommdoe4 {
            f0: s[0].as_ref().map(FromValue::from_value),
            f1: FromValue::from_value(s[1].as_ref().expect("component f1 of Ts5ommdoe4 must be present")),
            f2: FromValue::from_value(s[2].as_ref().expect("component f2 of Ts5ommdoe4 must be present")),
            f3: FromValue::from_value(s[3].as_ref().expect("component f3 of Ts5ommdoe4 must be present")),
            f4: s[4].as_ref().map(FromValue::from_value),
        }
    }
}
impl ToValue for Ts5ommdoe4 {
    fn to_value(&self) -> Value {
        Value::Seq(vec![
            self.f0.as_ref().map(|x| x.to_value()),
            Some(self.f1.to_value()),
            Some(self.f2.to_value()),
            Some(self.f3.to_value()),
            self.f4.as_ref().map(|x| x.to_value()),
        ])
    }
}
impl FromValue for Ts5ommdoe5 {
    fn from_value(v: &Value) -> Self {
        let s = match v { Value::Seq(s) => s, other => panic!("Ts5ommdoe5: expected Seq, got {other:?}") };
        assert_eq!(s.len(), 5, "Ts5ommdoe5: component count");
        let _ = s;
        Ts5ommdoe5 {
            f0: s[0].as_ref().map(FromValue::from_value),
            f1: FromValue::from_value(s[1].as_ref().expect("component f1 of Ts5ommdoe5 must be present")),
            f2: FromValue::from_value(s[2].as_ref().expect("component f2 of Ts5ommdoe5 must be present")),
            f3: FromValue::from_value(s[3].as_ref().expect("component f3 of Ts5ommdoe5 must be present")),
            f4: s[4].as_ref().map(FromValue::from_value),
        }
    }
}
impl ToValue for Ts5ommdoe5 {
    fn to_value(&self) -> Value {
        Value::Seq(vec![
            self.f0.as_ref().map(|x| x.to_value()),
            Some(self.f1.to_value()),
            Some(self.f2.to_value()),
            Some(self.f3.to_value()),
            self.f4.as_ref().map(|x| x.to_value()),
        ])
    }
}
impl FromValue for Ts5dmmdon {
    fn from_value(v: &Value) -> Self {
        let s = match v { Value::Seq(s) => s, other => panic!("Ts5dmmdon: expected Seq, got {other:?}") };
        assert_eq!(s.len(), 5, "Ts5dmmdon: component count");
        let _ = s;
        Ts5dmmdon {
            f0: FromValue::from_value(s[0].as_ref().expect("component f0 of Ts5dmmdon must be present")),
            f1: FromValue::from_value(s[1].as_ref().expect("component f1 of Ts5dmmdon must be present")),
            f2: FromValue::from_value(s[2].as_ref().expect("component f2 of Ts5dmmdon must be present")),
            f3: FromValue::from_value(s[3].as_ref().expect("component f3 of Ts5dmmdon must be present")),
            f4: s[4].as_ref().map(FromValue::from_value),
        }
    }
}
impl ToValue for Ts5dmmdon {
    fn to_value(&self) -> Value {
        Value::Seq(vec![
            Some(self.f0.to_value()),
            Some(self.f1.to_value()),
            Some(self.f2.to_value()),
            Some(self.f3.to_value()),
            self.f4.as_ref().map(|x| x.to_value()),
        ])
    }
}

use asn1rs::prelude::*;

#[asn(set)]

#[derive(Default, Debug, Clone, PartialEq, Hash)]
pub struct Tt4mdmdn {
    #[asn(integer(0..7))] pub f0: u8,
    #[asn(default(integer(0..7), 5))] pub f1: u8,
    #[asn(integer(0..7))] pub f2: u8,
    #[asn(default(integer(0..7), 5))] pub f3: u8,
}

impl Tt4mdmdn {
    pub const fn f0_min() -> u8 {
        0
    }

    pub const fn f0_max() -> u8 {
        7
    }

    pub const fn f1_min() -> u8 {
        0
    }

    pub const fn f1_max() -> u8 {
        7
    }

    pub const fn f2_min() -> u8 {
        0
    }

    pub const fn f2_max() -> u8 {
        7
    }

    pub const fn f3_min() -> u8 {
        0
    }

    pub const fn f3_max() -> u8 {
        7
    }
}

#[asn(set, extensible_after(f0))]

#[derive(Default, Debug, Clone, PartialEq, Hash)]
pub struct Tt4mdmde0 {
    #[asn(integer(0..7))] pub f0: u8,
    #[asn(default(integer(0..7), 5))] pub f1: u8,
    #[asn(optional(integer(0..7)))] pub f2: Option<u8>,
    #[asn(default(integer(0..7), 5))] pub f3: u8,
}

impl Tt4mdmde0 {
    pub const fn f0_min() -> u8 {
        0
    }

    pub const fn f0_max() -> u8 {
        7
    }

    pub const fn f1_min() -> u8 {
        0
    }

    pub const fn f1_max() -> u8 {
        7
    }

    pub const fn f2_min() -> u8 {
        0
    }

    pub const fn f2_max() -> u8 {
        7
    }

    pub const fn f3_min() -> u8 {
        0
    }

    pub const fn f3_max() -> u8 {
        7
    }
}

#[asn(set, extensible_after(f0))]

#[derive(Default, Debug, Clone, PartialEq, Hash)]
pub struct Tt4mdmde1 {
    #[asn(integer(0..7))] pub f0: u8,
    #[asn(default(integer(0..7), 5))] pub f1: u8,
    #[asn(optional(integer(0..7)))] pub f2: Option<u8>,
    #[asn(default(integer(0..7), 5))] pub f3: u8,
}

impl Tt4mdmde1 {
    pub const fn f0_min() -> u8 {
        0
    }

    pub const fn f0_max() -> u8 {
        7
    }

    pub const fn f1_min() -> u8 {
        0
    }

    pub const fn f1_max() -> u8 {
        7
    }

    pub const fn f2_min() -> u8 {
        0
    }

    pub const fn f2_max() -> u8 {
        7
    }

    pub const fn f3_min() -> u8 {
        0
    }

    pub const fn f3_max() -> u8 {
        7
    }
}

#[asn(set, extensible_after(f1))]

#[derive(Default, Debug, Clone, PartialEq, Hash)]
pub struct Tt4mdmde2 {
    #[asn(integer(0..7))] pub f0: u8,
    #[asn(default(integer(0..7), 5))] pub f1: u8,
    #[asn(optional(integer(0..7)))] pub f2: Option<u8>,
    #[asn(default(integer(0..7), 5))] pub f3: u8,
}

impl Tt4mdmde2 {
    pub const fn f0_min() -> u8 {
        0
    }

    pub const fn f0_max() -> u8 {
        7
    }

    pub const fn f1_min() -> u8 {
        0
    }

    pub const fn f1_max() -> u8 {
        7
    }

    pub const fn f2_min() -> u8 {
        0
    }

    pub const fn f2_max() -> u8 {
        7
    }

    pub const fn f3_min() -> u8 {
        0
    }

    pub const fn f3_max() -> u8 {
        7
    }
}

#[asn(set, extensible_after(f2))]

#[derive(Default, Debug, Clone, PartialEq, Hash)]
pub struct Tt4mdmde3 {
    #[asn(integer(0..7))] pub f0: u8,
    #[asn(default(integer(0..7), 5))] pub f1: u8,
    #[asn(integer(0..7))] pub f2: u8,
    #[asn(default(integer(0..7), 5))] pub f3: u8,
}

impl Tt4mdmde3 {
    pub const fn f0_min() -> u8 {
        0
    }

    pub const fn f0_max() -> u8 {
        7
    }

    pub const fn f1_min() -> u8 {
        0
    }

    pub const fn f1_max() -> u8 {
        7
    }

    pub const fn f2_min() -> u8 {
        0
    }

    pub const fn f2_max() -> u8 {
        7
    }

    pub const fn f3_min() -> u8 {
        0
    }

    pub const fn f3_max() -> u8 {
        7
    }
}

#[asn(set, extensible_after(f3))]

#[derive(Default, Debug, Clone, PartialEq, Hash)]
pub struct Tt4mdmde4 {
    #[asn(integer(0..7))] pub f0: u8,
    #[asn(default(integer(0..7), 5))] pub f1: u8,
    #[asn(integer(0..7))] pub f2: u8,
    #[asn(default(integer(0..7), 5))] pub f3: u8,
}

impl Tt4mdmde4 {
    pub const fn f0_min() -> u8 {
        0
    }

    pub const fn f0_max() -> u8 {
        7
    }

    pub const fn f1_min() -> u8 {
        0
    }

    pub const fn f1_max() -> u8 {
        7
    }

    pub const fn f2_min() -> u8 {
        0
    }

    pub const fn f2_max() -> u8 {
        7
    }

    pub const fn f3_min() -> u8 {
        0
    }

    pub const fn f3_max() -> u8 {
        7
    }
}

#[asn(set)]

#[derive(Default, Debug, Clone, PartialEq, Hash)]
pub struct Tt4odmdn {
    #[asn(optional(integer(0..7)))] pub f0: Option<u8>,
    #[asn(default(integer(0..7), 5))] pub f1: u8,
    #[asn(integer(0..7))] pub f2: u8,
    #[asn(default(integer(0..7), 5))] pub f3: u8,
}

impl Tt4odmdn {
    pub const fn f0_min() -> u8 {
        0
    }

    pub const fn f0_max() -> u8 {
        7
    }

    pub const fn f1_min() -> u8 {
        0
    }

    pub const fn f1_max() -> u8 {
        7
    }

    pub const fn f2_min() -> u8 {
        0
    }

    pub const fn f2_max() -> u8 {
        7
    }

    pub const fn f3_min() -> u8 {
        0
    }

    pub const fn f3_max() -> u8 {
        7
    }
}

#[asn(set, extensible_after(f0))]

#[derive(Default, Debug, Clone, PartialEq, Hash)]
pub struct Tt4odmde0 {
    #[asn(optional(integer(0..7)))] pub f0: Option<u8>,
    #[asn(default(integer(0..7), 5))] pub f1: u8,
    #[asn(optional(integer(0..7)))] pub f2: Option<u8>,
    #[asn(default(integer(0..7), 5))] pub f3: u8,
}

impl Tt4odmde0 {
    pub const fn f0_min() -> u8 {
        0
    }

    pub const fn f0_max() -> u8 {
        7
    }

    pub const fn f1_min() -> u8 {
        0
    }

    pub const fn f1_max() -> u8 {
        7
    }

    pub const fn f2_min() -> u8 {
        0
    }

    pub const fn f2_max() -> u8 {
        7
    }

    pub const fn f3_min() -> u8 {
        0
    }

    pub const fn f3_max() -> u8 {
        7
    }
}

#[asn(set, extensible_after(f0))]

#[derive(Default, Debug, Clone, PartialEq, Hash)]
pub struct Tt4odmde1 {
    #[asn(optional(integer(0..7)))] pub f0: Option<u8>,
    #[asn(default(integer(0..7), 5))] pub f1: u8,
    #[asn(optional(integer(0..7)))] pub f2: Option<u8>,
    #[asn(default(integer(0..7), 5))] pub f3: u8,
}

impl Tt4odmde1 {
    pub const fn f0_min() -> u8 {
        0
    }

    pub const fn f0_max() -> u8 {
        7
    }

    pub const fn f1_min() -> u8 {
        0
    }

    pub const fn f1_max() -> u8 {
        7
    }

    pub const fn f2_min() -> u8 {
        0
    }

    pub const fn f2_max() -> u8 {
        7
    }

    pub const fn f3_min() -> u8 {
        0
    }

    pub const fn f3_max() -> u8 {
        7
    }
}

#[asn(set, extensible_after(f1))]

#[derive(Default, Debug, Clone, PartialEq, Hash)]
pub struct Tt4odmde2 {
    #[asn(optional(integer(0..7)))] pub f0: Option<u8>,
    #[asn(default(integer(0..7), 5))] pub f1: u8,
    #[asn(optional(integer(0..7)))] pub f2: Option<u8>,
    #[asn(default(integer(0..7), 5))] pub f3: u8,
}

impl Tt4odmde2 {
    pub const fn f0_min() -> u8 {
        0
    }

    pub const fn f0_max() -> u8 {
        7
    }

    pub const fn f1_min() -> u8 {
        0
    }

    pub const fn f1_max() -> u8 {
        7
    }

    pub const fn f2_min() -> u8 {
        0
    }

    pub const fn f2_max() -> u8 {
        7
    }

    pub const fn f3_min() -> u8 {
        0
    }

    pub const fn f3_max() -> u8 {
        7
    }
}

#[asn(set, extensible_after(f2))]

#[derive(Default, Debug, Clone, PartialEq, Hash)]
pub struct Tt4odmde3 {
    #[asn(optional(integer(0..7)))] pub f0: Option<u8>,
    #[asn(default(integer(0..7), 5))] pub f1: u8,
    #[asn(integer(0..7))] pub f2: u8,
    #[asn(default(integer(0..7), 5))] pub f3: u8,
}

impl Tt4odmde3 {
    pub const fn f0_min() -> u8 {
        0
    }

    pub const fn f0_max() -> u8 {
        7
    }

    pub const fn f1_min() -> u8 {
        0
    }

    pub const fn f1_max() -> u8 {
        7
    }

    pub const fn f2_min() -> u8 {
        0
    }

    pub const fn f2_max() -> u8 {
        7
    }

    pub const fn f3_min() -> u8 {
        0
    }

    pub const fn f3_max() -> u8 {
        7
    }
}

#[asn(set, extensible_after(f3))]

#[derive(Default, Debug, Clone, PartialEq, Hash)]
pub struct Tt4odmde4 {
    #[asn(optional(integer(0..7)))] pub f0: Option<u8>,
    #[asn(default(integer(0..7), 5))] pub f1: u8,
    #[asn(integer(0..7))] pub f2: u8,
    #[asn(default(integer(0..7), 5))] pub f3: u8,
}

impl Tt4odmde4 {
    pub const fn f0_min() -> u8 {
        0
    }

    pub const fn f0_max() -> u8 {
        7
    }

    pub const fn f1_min() -> u8 {
        0
    }

    pub const fn f1_max() -> u8 {
        7
    }

    pub const fn f2_min() -> u8 {
        0
    }

    pub const fn f2_max() -> u8 {
        7
    }

    pub const fn f3_min() -> u8 {
        0
    }

    pub const fn f3_max() -> u8 {
        7
    }
}

#[asn(set)]

#[derive(Default, Debug, Clone, PartialEq, Hash)]
pub struct Tt4ddmdn {
    #[asn(default(integer(0..7), 5))] pub f0: u8,
    #[asn(default(integer(0..7), 5))] pub f1: u8,
    #[asn(integer(0..7))] pub f2: u8,
    #[asn(default(integer(0..7), 5))] pub f3: u8,
}

impl Tt4ddmdn {
    pub const fn f0_min() -> u8 {
        0
    }

    pub const fn f0_max() -> u8 {
        7
    }

    pub const fn f1_min() -> u8 {
        0
    }

    pub const fn f1_max() -> u8 {
        7
    }

    pub const fn f2_min() -> u8 {
        0
    }

    pub const fn f2_max() -> u8 {
        7
    }

    pub const fn f3_min() -> u8 {
        0
    }

    pub const fn f3_max() -> u8 {
        7
    }
}

#[asn(set, extensible_after(f0))]

#[derive(Default, Debug, Clone, PartialEq, Hash)]
pub struct Tt4ddmde0 {
    #[asn(default(integer(0..7), 5))] pub f0: u8,
    #[asn(default(integer(0..7), 5))] pub f1: u8,
    #[asn(optional(integer(0..7)))] pub f2: Option<u8>,
    #[asn(default(integer(0..7), 5))] pub f3: u8,
}

impl Tt4ddmde0 {
    pub const fn f0_min() -> u8 {
        0
    }

    pub const fn f0_max() -> u8 {
        7
    }

    pub const fn f1_min() -> u8 {
        0
    }

    pub const fn f1_max() -> u8 {
        7
    }

    pub const fn f2_min() -> u8 {
        0
    }

    pub const fn f2_max() -> u8 {
        7
    }

    pub const fn f3_min() -> u8 {
        0
    }

    pub const fn f3_max() -> u8 {
        7
    }
}

#[asn(set, extensible_after(f0))]

#[derive(Default, Debug, Clone, PartialEq, Hash)]
pub struct Tt4ddmde1 {
    #[asn(default(integer(0..7), 5))] pub f0: u8,
    #[asn(default(integer(0..7), 5))] pub f1: u8,
    #[asn(optional(integer(0..7)))] pub f2: Option<u8>,
    #[asn(default(integer(0..7), 5))] pub f3: u8,
}

impl Tt4ddmde1 {
    pub const fn f0_min() -> u8 {
        0
    }

    pub const fn f0_max() -> u8 {
        7
    }

    pub const fn f1_min() -> u8 {
        0
    }

    pub const fn f1_max() -> u8 {
        7
    }

    pub const fn f2_min() -> u8 {
        0
    }

    pub const fn f2_max() -> u8 {
        7
    }

    pub const fn f3_min() -> u8 {
        0
    }

    pub const fn f3_max() -> u8 {
        7
    }
}

#[asn(set, extensible_after(f1))]

#[derive(Default, Debug, Clone, PartialEq, Hash)]
pub struct Tt4ddmde2 {
    #[asn(default(integer(0..7), 5))] pub f0: u8,
    #[asn(default(integer(0..7), 5))] pub f1: u8,
    #[asn(optional(integer(0..7)))] pub f2: Option<u8>,
    #[asn(default(integer(0..7), 5))] pub f3: u8,
}

impl Tt4ddmde2 {
    pub const fn f0_min() -> u8 {
        0
    }

    pub const fn f0_max() -> u8 {
        7
    }

    pub const fn f1_min() -> u8 {
        0
    }

    pub const fn f1_max() -> u8 {
        7
    }

    pub const fn f2_min() -> u8 {
        0
    }

    pub const fn f2_max() -> u8 {
        7
    }

    pub const fn f3_min() -> u8 {
        0
    }

    pub const fn f3_max() -> u8 {
        7
    }
}

#[asn(set, extensible_after(f2))]

#[derive(Default, Debug, Clone, PartialEq, Hash)]
pub struct Tt4ddmde3 {
    #[asn(default(integer(0..7), 5))] pub f0: u8,
    #[asn(default(integer(0..7), 5))] pub f1: u8,
    #[asn(integer(0..7))] pub f2: u8,
    #[asn(default(integer(0..7), 5))] pub f3: u8,
}

impl Tt4ddmde3 {
    pub const fn f0_min() -> u8 {
        0
    }

    pub const fn f0_max() -> u8 {
        7
    }

    pub const fn f1_min() -> u8 {
        0
    }

    pub const fn f1_max() -> u8 {
        7
    }

    pub const fn f2_min() -> u8 {
        0
    }

    pub const fn f2_max() -> u8 {
        7
    }

    pub const fn f3_min() -> u8 {
        0
    }

    pub const fn f3_max() -> u8 {
        7
    }
}

#[asn(set, extensible_after(f3))]

#[derive(Default, Debug, Clone, PartialEq, Hash)]
pub struct Tt4ddmde4 {
    #[asn(default(integer(0..7), 5))] pub f0: u8,
    #[asn(default(integer(0..7), 5))] pub f1: u8,
    #[asn(integer(0..7))] pub f2: u8,
    #[asn(default(integer(0..7), 5))] pub f3: u8,
}

impl Tt4ddmde4 {
    pub const fn f0_min() -> u8 {
        0
    }

    pub const fn f0_max() -> u8 {
        7
    }

    pub const fn f1_min() -> u8 {
        0
    }

    pub const fn f1_max() -> u8 {
        7
    }

    pub const fn f2_min() -> u8 {
        0
    }

    pub const fn f2_max() -> u8 {
        7
    }

    pub const fn f3_min() -> u8 {
        0
    }

    pub const fn f3_max() -> u8 {
        7
    }
}

#[asn(set)]

#[derive(Default, Debug, Clone, PartialEq, Hash)]
pub struct Tt4mmodn {
    #[asn(integer(0..7))] pub f0: u8,
    #[asn(integer(0..7))] pub f1: u8,
    #[asn(optional(integer(0..7)))] pub f2: Option<u8>,
    #[asn(default(integer(0..7), 5))] pub f3: u8,
}

impl Tt4mmodn {
    pub const fn f0_min() -> u8 {
        0
    }

    pub const fn f0_max() -> u8 {
        7
    }

    pub const fn f1_min() -> u8 {
        0
    }

    pub const fn f1_max() -> u8 {
        7
    }

    pub const fn f2_min() -> u8 {
        0
    }

    pub const fn f2_max() -> u8 {
        7
    }

    pub const fn f3_min() -> u8 {
        0
    }

    pub const fn f3_max() -> u8 {
        7
    }
}

#[asn(set, extensible_after(f0))]

#[derive(Default, Debug, Clone, PartialEq, Hash)]
pub struct Tt4mmode0 {
    #[asn(integer(0..7))] pub f0: u8,
    #[asn(optional(integer(0..7)))] pub f1: Option<u8>,
    #[asn(optional(integer(0..7)))] pub f2: Option<u8>,
    #[asn(default(integer(0..7), 5))] pub f3: u8,
}

impl Tt4mmode0 {
    pub const fn f0_min() -> u8 {
        0
    }

    pub const fn f0_max() -> u8 {
        7
    }

    pub const fn f1_min() -> u8 {
        0
    }

    pub const fn f1_max() -> u8 {
        7
    }

    pub const fn f2_min() -> u8 {
        0
    }

    pub const fn f2_max() -> u8 {
        7
    }

    pub const fn f3_min() -> u8 {
        0
    }

    pub const fn f3_max() -> u8 {
        7
    }
}

#[asn(set, extensible_after(f0))]

#[derive(Default, Debug, Clone, PartialEq, Hash)]
pub struct Tt4mmode1 {
    #[asn(integer(0..7))] pub f0: u8,
    #[asn(optional(integer(0..7)))] pub f1: Option<u8>,
    #[asn(optional(integer(0..7)))] pub f2: Option<u8>,
    #[asn(default(integer(0..7), 5))] pub f3: u8,
}

impl Tt4mmode1 {
    pub const fn f0_min() -> u8 {
        0
    }

    pub const fn f0_max() -> u8 {
        7
    }

    pub const fn f1_min() -> u8 {
        0
    }

    pub const fn f1_max() -> u8 {
        7
    }

    pub const fn f2_min() -> u8 {
        0
    }

    pub const fn f2_max() -> u8 {
        7
    }

    pub const fn f3_min() -> u8 {
        0
    }

    pub const fn f3_max() -> u8 {
        7
    }
}

#[asn(set, extensible_after(f1))]

#[derive(Default, Debug, Clone, PartialEq, Hash)]
pub struct Tt4mmode2 {
    #[asn(integer(0..7))] pub f0: u8,
    #[asn(integer(0..7))] pub f1: u8,
    #[asn(optional(integer(0..7)))] pub f2: Option<u8>,
    #[asn(default(integer(0..7), 5))] pub f3: u8,
}

impl Tt4mmode2 {
    pub const fn f0_min() -> u8 {
        0
    }

    pub const fn f0_max() -> u8 {
        7
    }

    pub const fn f1_min() -> u8 {
        0
    }

    pub const fn f1_max() -> u8 {
        7
    }

    pub const fn f2_min() -> u8 {
        0
    }

    pub const fn f2_max() -> u8 {
        7
    }

    pub const fn f3_min() -> u8 {
        0
    }

    pub const fn f3_max() -> u8 {
        7
    }
}

#[asn(set, extensible_after(f2))]

#[derive(Default, Debug, Clone, PartialEq, Hash)]
pub struct Tt4mmode3 {
    #[asn(integer(0..7))] pub f0: u8,
    #[asn(integer(0..7))] pub f1: u8,
    #[asn(optional(integer(0..7)))] pub f2: Option<u8>,
    #[asn(default(integer(0..7), 5))] pub f3: u8,
}

impl Tt4mmode3 {
    pub const fn f0_min() -> u8 {
        0
    }

    pub const fn f0_max() -> u8 {
        7
    }

    pub const fn f1_min() -> u8 {
        0
    }

    pub const fn f1_max() -> u8 {
        7
    }

    pub const fn f2_min() -> u8 {
        0
    }

    pub const fn f2_max() -> u8 {
        7
    }

    pub const fn f3_min() -> u8 {
        0
    }

    pub const fn f3_max() -> u8 {
        7
    }
}

#[asn(set, extensible_after(f3))]

#[derive(Default, Debug, Clone, PartialEq, Hash)]
pub struct Tt4mmode4 {
    #[asn(integer(0..7))] pub f0: u8,
    #[asn(integer(0..7))] pub f1: u8,
    #[asn(optional(integer(0..7)))] pub f2: Option<u8>,
    #[asn(default(integer(0..7), 5))] pub f3: u8,
}

impl Tt4mmode4 {
    pub const fn f0_min() -> u8 {
        0
    }

    pub const fn f0_max() -> u8 {
        7
    }

    pub const fn f1_min() -> u8 {
        0
    }

    pub const fn f1_max() -> u8 {
        7
    }

    pub const fn f2_min() -> u8 {
        0
    }

    pub const fn f2_max() -> u8 {
        7
    }

    pub const fn f3_min() -> u8 {
        0
    }

    pub const fn f3_max() -> u8 {
        7
    }
}

#[asn(set)]

#[derive(Default, Debug, Clone, PartialEq, Hash)]
pub struct Tt4omodn {
    #[asn(optional(integer(0..7)))] pub f0: Option<u8>,
    #[asn(integer(0..7))] pub f1: u8,
    #[asn(optional(integer(0..7)))] pub f2: Option<u8>,
    #[asn(default(integer(0..7), 5))] pub f3: u8,
}

impl Tt4omodn {
    pub const fn f0_min() -> u8 {
        0
    }

    pub const fn f0_max() -> u8 {
        7
    }

    pub const fn f1_min() -> u8 {
        0
    }

    pub const fn f1_max() -> u8 {
        7
    }

    pub const fn f2_min() -> u8 {
        0
    }

    pub const fn f2_max() -> u8 {
        7
    }

    pub const fn f3_min() -> u8 {
        0
    }

    pub const fn f3_max() -> u8 {
        7
    }
}

#[asn(set, extensible_after(f0))]

#[derive(Default, Debug, Clone, PartialEq, Hash)]
pub struct Tt4omode0 {
    #[asn(optional(integer(0..7)))] pub f0: Option<u8>,
    #[asn(optional(integer(0..7)))] pub f1: Option<u8>,
    #[asn(optional(integer(0..7)))] pub f2: Option<u8>,
    #[asn(default(integer(0..7), 5))] pub f3: u8,
}

impl Tt4omode0 {
    pub const fn f0_min() -> u8 {
        0
    }

    pub const fn f0_max() -> u8 {
        7
    }

    pub const fn f1_min() -> u8 {
        0
    }

    pub const fn f1_max() -> u8 {
        7
    }

    pub const fn f2_min() -> u8 {
        0
    }

    pub const fn f2_max() -> u8 {
        7
    }

    pub const fn f3_min() -> u8 {
        0
    }

    pub const fn f3_max() -> u8 {
        7
    }
}

#[asn(set, extensible_after(f0))]

#[derive(Default, Debug, Clone, PartialEq, Hash)]
pub struct Tt4omode1 {
    #[asn(optional(integer(0..7)))] pub f0: Option<u8>,
    #[asn(optional(integer(0..7)))] pub f1: Option<u8>,
    #[asn(optional(integer(0..7)))] pub f2: Option<u8>,
    #[asn(default(integer(0..7), 5))] pub f3: u8,
}

impl Tt4omode1 {
    pub const fn f0_min() -> u8 {
        0
    }

    pub const fn f0_max() -> u8 {
        7
    }

    pub const fn f1_min() -> u8 {
        0
    }

    pub const fn f1_max() -> u8 {
        7
    }

    pub const fn f2_min() -> u8 {
        0
    }

    pub const fn f2_max() -> u8 {
        7
    }

    pub const fn f3_min() -> u8 {
        0
    }

    pub const fn f3_max() -> u8 {
        7
    }
}

#[asn(set, extensible_after(f1))]

#[derive(Default, Debug, Clone, PartialEq, Hash)]
pub struct Tt4omode2 {
    #[asn(optional(integer(0..7)))] pub f0: Option<u8>,
    #[asn(integer(0..7))] pub f1: u8,
    #[asn(optional(integer(0..7)))] pub f2: Option<u8>,
    #[asn(default(integer(0..7), 5))] pub f3: u8,
}

impl Tt4omode2 {
    pub const fn f0_min() -> u8 {
        0
    }

    pub const fn f0_max() -> u8 {
        7
    }

    pub const fn f1_min() -> u8 {
        0
    }

    pub const fn f1_max() -> u8 {
        7
    }

    pub const fn f2_min() -> u8 {
        0
    }

    pub const fn f2_max() -> u8 {
        7
    }

    pub const fn f3_min() -> u8 {
        0
    }

    pub const fn f3_max() -> u8 {
        7
    }
}

#[asn(set, extensible_after(f2))]

#[derive(Default, Debug, Clone, PartialEq, Hash)]
pub struct Tt4omode3 {
    #[asn(optional(integer(0..7)))] pub f0: Option<u8>,
    #[asn(integer(0..7))] pub f1: u8,
    #[asn(optional(integer(0..7)))] pub f2: Option<u8>,
    #[asn(default(integer(0..7), 5))] pub f3: u8,
}

impl Tt4omode3 {
    pub const fn f0_min() -> u8 {
        0
    }

    pub const fn f0_max() -> u8 {
        7
    }

    pub const fn f1_min() -> u8 {
        0
    }

    pub const fn f1_max() -> u8 {
        7
    }

    pub const fn f2_min() -> u8 {
        0
    }

    pub const fn f2_max() -> u8 {
        7
    }

    pub const fn f3_min() -> u8 {
        0
    }

    pub const fn f3_max() -> u8 {
        7
    }
}

#[asn(set, extensible_after(f3))]

#[derive(Default, Debug, Clone, PartialEq, Hash)]
pub struct Tt4omode4 {
    #[asn(optional(integer(0..7)))] pub f0: Option<u8>,
    #[asn(integer(0..7))] pub f1: u8,
    #[asn(optional(integer(0..7)))] pub f2: Option<u8>,
    #[asn(default(integer(0..7), 5))] pub f3: u8,
}

impl Tt4omode4 {
    pub const fn f0_min() -> u8 {
        0
    }

    pub const fn f0_max() -> u8 {
        7
    }

    pub const fn f1_min() -> u8 {
        0
    }

    pub const fn f1_max() -> u8 {
        7
    }

    pub const fn f2_min() -> u8 {
        0
    }

    pub const fn f2_max() -> u8 {
        7
    }

    pub const fn f3_min() -> u8 {
        0
    }

    pub const fn f3_max() -> u8 {
        7
    }
}

#[asn(set)]

#[derive(Default, Debug, Clone, PartialEq, Hash)]
pub struct Tt4dmodn {
    #[asn(default(integer(0..7), 5))] pub f0: u8,
    #[asn(integer(0..7))] pub f1: u8,
    #[asn(optional(integer(0..7)))] pub f2: Option<u8>,
    #[asn(default(integer(0..7), 5))] pub f3: u8,
}

impl Tt4dmodn {
    pub const fn f0_min() -> u8 {
        0
    }

    pub const fn f0_max() -> u8 {
        7
    }

    pub const fn f1_min() -> u8 {
        0
    }

    pub const fn f1_max() -> u8 {
        7
    }

    pub const fn f2_min() -> u8 {
        0
    }

    pub const fn f2_max() -> u8 {
        7
    }

    pub const fn f3_min() -> u8 {
        0
    }

    pub const fn f3_max() -> u8 {
        7
    }
}

#[asn(set, extensible_after(f0))]

#[derive(Default, Debug, Clone, PartialEq, Hash)]
pub struct Tt4dmode0 {
    #[asn(default(integer(0..7), 5))] pub f0: u8,
    #[asn(optional(integer(0..7)))] pub f1: Option<u8>,
    #[asn(optional(integer(0..7)))] pub f2: Option<u8>,
    #[asn(default(integer(0..7), 5))] pub f3: u8,
}

impl Tt4dmode0 {
    pub const fn f0_min() -> u8 {
        0
    }

    pub const fn f0_max() -> u8 {
        7
    }

    pub const fn f1_min() -> u8 {
        0
    }

    pub const fn f1_max() -> u8 {
        7
    }

    pub const fn f2_min() -> u8 {
        0
    }

    pub const fn f2_max() -> u8 {
        7
    }

    pub const fn f3_min() -> u8 {
        0
    }

    pub const fn f3_max() -> u8 {
        7
    }
}

#[asn(set, extensible_after(f0))]

#[derive(Default, Debug, Clone, PartialEq, Hash)]
pub struct Tt4dmode1 {
    #[asn(default(integer(0..7), 5))] pub f0: u8,
    #[asn(optional(integer(0..7)))] pub f1: Option<u8>,
    #[asn(optional(integer(0..7)))] pub f2: Option<u8>,
    #[asn(default(integer(0..7), 5))] pub f3: u8,
}

impl Tt4dmode1 {
    pub const fn f0_min() -> u8 {
        0
    }

    pub const fn f0_max() -> u8 {
        7
    }

    pub const fn f1_min() -> u8 {
        0
    }

    pub const fn f1_max() -> u8 {
        7
    }

    pub const fn f2_min() -> u8 {
        0
    }

    pub const fn f2_max() -> u8 {
        7
    }

    pub const fn f3_min() -> u8 {
        0
    }

    pub const fn f3_max() -> u8 {
        7
    }
}

#[asn(set, extensible_after(f1))]

#[derive(Default, Debug, Clone, PartialEq, Hash)]
pub struct Tt4dmode2 {
    #[asn(default(integer(0..7), 5))] pub f0: u8,
    #[asn(integer(0..7))] pub f1: u8,
    #[asn(optional(integer(0..7)))] pub f2: Option<u8>,
    #[asn(default(integer(0..7), 5))] pub f3: u8,
}

impl Tt4dmode2 {
    pub const fn f0_min() -> u8 {
        0
    }

    pub const fn f0_max() -> u8 {
        7
    }

    pub const fn f1_min() -> u8 {
        0
    }

    pub const fn f1_max() -> u8 {
        7
    }

    pub const fn f2_min() -> u8 {
        0
    }

    pub const fn f2_max() -> u8 {
        7
    }

    pub const fn f3_min() -> u8 {
        0
    }

    pub const fn f3_max() -> u8 {
        7
    }
}

#[asn(set, extensible_after(f2))]

#[derive(Default, Debug, Clone, PartialEq, Hash)]
pub struct Tt4dmode3 {
    #[asn(default(integer(0..7), 5))] pub f0: u8,
    #[asn(integer(0..7))] pub f1: u8,
    #[asn(optional(integer(0..7)))] pub f2: Option<u8>,
    #[asn(default(integer(0..7), 5))] pub f3: u8,
}

impl Tt4dmode3 {
    pub const fn f0_min() -> u8 {
        0
    }

    pub const fn f0_max() -> u8 {
        7
    }

    pub const fn f1_min() -> u8 {
        0
    }

    pub const fn f1_max() -> u8 {
        7
    }

    pub const fn f2_min() -> u8 {
        0
    }

    pub const fn f2_max() -> u8 {
        7
    }

    pub const fn f3_min() -> u8 {
        0
    }

    pub const fn f3_max() -> u8 {
        7
    }
}

#[asn(set, extensible_after(f3))]

#[derive(Default, Debug, Clone, PartialEq, Hash)]
pub struct Tt4dmode4 {
    #[asn(default(integer(0..7), 5))] pub f0: u8,
    #[asn(integer(0..7))] pub f1: u8,
    #[asn(optional(integer(0..7)))] pub f2: Option<u8>,
    #[asn(default(integer(0..7), 5))] pub f3: u8,
}

impl Tt4dmode4 {
    pub const fn f0_min() -> u8 {
        0
    }

    pub const fn f0_max() -> u8 {
        7
    }

    pub const fn f1_min() -> u8 {
        0
    }

    pub const fn f1_max() -> u8 {
        7
    }

    pub const fn f2_min() -> u8 {
        0
    }

    pub const fn f2_max() -> u8 {
        7
    }

    pub const fn f3_min() -> u8 {
        0
    }

    pub const fn f3_max() -> u8 {
        7
    }
}

#[asn(set)]

#[derive(Default, Debug, Clone, PartialEq, Hash)]
pub struct Tt4moodn {
    #[asn(integer(0..7))] pub f0: u8,
    #[asn(optional(integer(0..7)))] pub f1: Option<u8>,
    #[asn(optional(integer(0..7)))] pub f2: Option<u8>,
    #[asn(default(integer(0..7), 5))] pub f3: u8,
}

impl Tt4moodn {
    pub const fn f0_min() -> u8 {
        0
    }

    pub const fn f0_max() -> u8 {
        7
    }

    pub const fn f1_min() -> u8 {
        0
    }

    pub const fn f1_max() -> u8 {
        7
    }

    pub const fn f2_min() -> u8 {
        0
    }

    pub const fn f2_max() -> u8 {
        7
    }

    pub const fn f3_min() -> u8 {
        0
    }

    pub const fn f3_max() -> u8 {
        7
    }
}

#[asn(set, extensible_after(f0))]

#[derive(Default, Debug, Clone, PartialEq, Hash)]
pub struct Tt4moode0 {
    #[asn(integer(0..7))] pub f0: u8,
    #[asn(optional(integer(0..7)))] pub f1: Option<u8>,
    #[asn(optional(integer(0..7)))] pub f2: Option<u8>,
    #[asn(default(integer(0..7), 5))] pub f3: u8,
}

impl Tt4moode0 {
    pub const fn f0_min() -> u8 {
        0
    }

    pub const fn f0_max() -> u8 {
        7
    }

    pub const fn f1_min() -> u8 {
        0
    }

    pub const fn f1_max() -> u8 {
        7
    }

    pub const fn f2_min() -> u8 {
        0
    }

    pub const fn f2_max() -> u8 {
        7
    }

    pub const fn f3_min() -> u8 {
        0
    }

    pub const fn f3_max() -> u8 {
        7
    }
}

#[asn(set, extensible_after(f0))]

#[derive(Default, Debug, Clone, PartialEq, Hash)]
pub struct Tt4moode1 {
    #[asn(integer(0..7))] pub f0: u8,
    #[asn(optional(integer(0..7)))] pub f1: Option<u8>,
    #[asn(optional(integer(0..7)))] pub f2: Option<u8>,
    #[asn(default(integer(0..7), 5))] pub f3: u8,
}

impl Tt4moode1 {
    pub const fn f0_min() -> u8 {
        0
    }

    pub const fn f0_max() -> u8 {
        7
    }

    pub const fn f1_min() -> u8 {
        0
    }

    pub const fn f1_max() -> u8 {
        7
    }

    pub const fn f2_min() -> u8 {
        0
    }

    pub const fn f2_max() -> u8 {
        7
    }

    pub const fn f3_min() -> u8 {
        0
    }

    pub const fn f3_max() -> u8 {
        7
    }
}

#[asn(set, extensible_after(f1))]

#[derive(Default, Debug, Clone, PartialEq, Hash)]
pub struct Tt4moode2 {
    #[asn(integer(0..7))] pub f0: u8,
    #[asn(optional(integer(0..7)))] pub f1: Option<u8>,
    #[asn(optional(integer(0..7)))] pub f2: Option<u8>,
    #[asn(default(integer(0..7), 5))] pub f3: u8,
}

impl Tt4moode2 {
    pub const fn f0_min() -> u8 {
        0
    }

    pub const fn f0_max() -> u8 {
        7
    }

    pub const fn f1_min() -> u8 {
        0
    }

    pub const fn f1_max() -> u8 {
        7
    }

    pub const fn f2_min() -> u8 {
        0
    }

    pub const fn f2_max() -> u8 {
        7
    }

    pub const fn f3_min() -> u8 {
        0
    }

    pub const fn f3_max() -> u8 {
        7
    }
}

#[asn(set, extensible_after(f2))]

#[derive(Default, Debug, Clone, PartialEq, Hash)]
pub struct Tt4moode3 {
    #[asn(integer(0..7))] pub f0: u8,
    #[asn(optional(integer(0..7)))] pub f1: Option<u8>,
    #[asn(optional(integer(0..7)))] pub f2: Option<u8>,
    #[asn(default(integer(0..7), 5))] pub f3: u8,
}

impl Tt4moode3 {
    pub const fn f0_min() -> u8 {
        0
    }

    pub const fn f0_max() -> u8 {
        7
    }

    pub const fn f1_min() -> u8 {
        0
    }

    pub const fn f1_max() -> u8 {
        7
    }

    pub const fn f2_min() -> u8 {
        0
    }

    pub const fn f2_max() -> u8 {
        7
    }

    pub const fn f3_min() -> u8 {
        0
    }

    pub const fn f3_max() -> u8 {
        7
    }
}

#[asn(set, extensible_after(f3))]

#[derive(Default, Debug, Clone, PartialEq, Hash)]
pub struct Tt4moode4 {
    #[asn(integer(0..7))] pub f0: u8,
    #[asn(optional(integer(0..7)))] pub f1: Option<u8>,
    #[asn(optional(integer(0..7)))] pub f2: Option<u8>,
    #[asn(default(integer(0..7), 5))] pub f3: u8,
}

impl Tt4moode4 {
    pub const fn f0_min() -> u8 {
        0
    }

    pub const fn f0_max() -> u8 {
        7
    }

    pub const fn f1_min() -> u8 {
        0
    }

    pub const fn f1_max() -> u8 {
        7
    }

    pub const fn f2_min() -> u8 {
        0
    }

    pub const fn f2_max() -> u8 {
        7
    }

    pub const fn f3_min() -> u8 {
        0
    }

    pub const fn f3_max() -> u8 {
        7
    }
}

#[asn(set)]

#[derive(Default, Debug, Clone, PartialEq, Hash)]
pub struct Tt4ooodn {
    #[asn(optional(integer(0..7)))] pub f0: Option<u8>,
    #[asn(optional(integer(0..7)))] pub f1: Option<u8>,
    #[asn(optional(integer(0..7)))] pub f2: Option<u8>,
    #[asn(default(integer(0..7), 5))] pub f3: u8,
}

impl Tt4ooodn {
    pub const fn f0_min() -> u8 {
        0
    }

    pub const fn f0_max() -> u8 {
        7
    }

    pub const fn f1_min() -> u8 {
        0
    }

    pub const fn f1_max() -> u8 {
        7
    }

    pub const fn f2_min() -> u8 {
        0
    }

    pub const fn f2_max() -> u8 {
        7
    }

    pub const fn f3_min() -> u8 {
        0
    }

    pub const fn f3_max() -> u8 {
        7
    }
}

#[asn(set, extensible_after(f0))]

#[derive(Default, Debug, Clone, PartialEq, Hash)]
pub struct Tt4ooode0 {
    #[asn(optional(integer(0..7)))] pub f0: Option<u8>,
    #[asn(optional(integer(0..7)))] pub f1: Option<u8>,
    #[asn(optional(integer(0..7)))] pub f2: Option<u8>,
    #[asn(default(integer(0..7), 5))] pub f3: u8,
}

impl Tt4ooode0 {
    pub const fn f0_min() -> u8 {
        0
    }

    pub const fn f0_max() -> u8 {
        7
    }

    pub const fn f1_min() -> u8 {
        0
    }

    pub const fn f1_max() -> u8 {
        7
    }

    pub const fn f2_min() -> u8 {
        0
    }

    pub const fn f2_max() -> u8 {
        7
    }

    pub const fn f3_min() -> u8 {
        0
    }

    pub const fn f3_max() -> u8 {
        7
    }
}

#[asn(set, extensible_after(f0))]

#[derive(Default, Debug, Clone, PartialEq, Hash)]
pub struct Tt4ooode1 {
    #[asn(optional(integer(0..7)))] pub f0: Option<u8>,
    #[asn(optional(integer(0..7)))] pub f1: Option<u8>,
    #[asn(optional(integer(0..7)))] pub f2: Option<u8>,
    #[asn(default(integer(0..7), 5))] pub f3: u8,
}

impl Tt4ooode1 {
    pub const fn f0_min() -> u8 {
        0
    }

    pub const fn f0_max() -> u8 {
        7
    }

    pub const fn f1_min() -> u8 {
        0
    }

    pub const fn f1_max() -> u8 {
        7
    }

    pub const fn f2_min() -> u8 {
        0
    }

    pub const fn f2_max() -> u8 {
        7
    }

    pub const fn f3_min() -> u8 {
        0
    }

    pub const fn f3_max() -> u8 {
        7
    }
}

#[asn(set, extensible_after(f1))]

#[derive(Default, Debug, Clone, PartialEq, Hash)]
pub struct Tt4ooode2 {
    #[asn(optional(integer(0..7)))] pub f0: Option<u8>,
    #[asn(optional(integer(0..7)))] pub f1: Option<u8>,
    #[asn(optional(integer(0..7)))] pub f2: Option<u8>,
    #[asn(default(integer(0..7), 5))] pub f3: u8,
}

impl Tt4ooode2 {
    pub const fn f0_min() -> u8 {
        0
    }

    pub const fn f0_max() -> u8 {
        7
    }

    pub const fn f1_min() -> u8 {
        0
    }

    pub const fn f1_max() -> u8 {
        7
    }

    pub const fn f2_min() -> u8 {
        0
    }

    pub const fn f2_max() -> u8 {
        7
    }

    pub const fn f3_min() -> u8 {
        0
    }

    pub const fn f3_max() -> u8 {
        7
    }
}

#[asn(set, extensible_after(f2))]

#[derive(Default, Debug, Clone, PartialEq, Hash)]
pub struct Tt4ooode3 {
    #[asn(optional(integer(0..7)))] pub f0: Option<u8>,
    #[asn(optional(integer(0..7)))] pub f1: Option<u8>,
    #[asn(optional(integer(0..7)))] pub f2: Option<u8>,
    #[asn(default(integer(0..7), 5))] pub f3: u8,
}

impl Tt4ooode3 {
    pub const fn f0_min() -> u8 {
        0
    }

    pub const fn f0_max() -> u8 {
        7
    }

    pub const fn f1_min() -> u8 {
        0
    }

    pub const fn f1_max() -> u8 {
        7
    }

    pub const fn f2_min() -> u8 {
        0
    }

    pub const fn f2_max() -> u8 {
        7
    }

    pub const fn f3_min() -> u8 {
        0
    }

    pub const fn f3_max() -> u8 {
        7
    }
}

#[asn(set, extensible_after(f3))]

#[derive(Default, Debug, Clone, PartialEq, Hash)]
pub struct Tt4ooode4 {
    #[asn(optional(integer(0..7)))] pub f0: Option<u8>,
    #[asn(optional(integer(0..7)))] pub f1: Option<u8>,
    #[asn(optional(integer(0..7)))] pub f2: Option<u8>,
    #[asn(default(integer(0..7), 5))] pub f3: u8,
}

impl Tt4ooode4 {
    pub const fn f0_min() -> u8 {
        0
    }

    pub const fn f0_max() -> u8 {
        7
    }

    pub const fn f1_min() -> u8 {
        0
    }

    pub const fn f1_max() -> u8 {
        7
    }

    pub const fn f2_min() -> u8 {
        0
    }

    pub const fn f2_max() -> u8 {
        7
    }

    pub const fn f3_min() -> u8 {
        0
    }

    pub const fn f3_max() -> u8 {
        7
    }
}

#[asn(set)]

#[derive(Default, Debug, Clone, PartialEq, Hash)]
pub struct Tt4doodn {
    #[asn(default(integer(0..7), 5))] pub f0: u8,
    #[asn(optional(integer(0..7)))] pub f1: Option<u8>,
    #[asn(optional(integer(0..7)))] pub f2: Option<u8>,
    #[asn(default(integer(0..7), 5))] pub f3: u8,
}

impl Tt4doodn {
    pub const fn f0_min() -> u8 {
        0
    }

    pub const fn f0_max() -> u8 {
        7
    }

    pub const fn f1_min() -> u8 {
        0
    }

    pub const fn f1_max() -> u8 {
        7
    }

    pub const fn f2_min() -> u8 {
        0
    }

    pub const fn f2_max() -> u8 {
        7
    }

    pub const fn f3_min() -> u8 {
        0
    }

    pub const fn f3_max() -> u8 {
        7
    }
}

#[asn(set, extensible_after(f0))]

#[derive(Default, Debug, Clone, PartialEq, Hash)]
pub struct Tt4doode0 {
    #[asn(default(integer(0..7), 5))] pub f0: u8,
    #[asn(optional(integer(0..7)))] pub f1: Option<u8>,
    #[asn(optional(integer(0..7)))] pub f2: Option<u8>,
    #[asn(default(integer(0..7), 5))] pub f3: u8,
}

impl Tt4doode0 {
    pub const fn f0_min() -> u8 {
        0
    }

    pub const fn f0_max() -> u8 {
        7
    }

    pub const fn f1_min() -> u8 {
        0
    }

    pub const fn f1_max() -> u8 {
        7
    }

    pub const fn f2_min() -> u8 {
        0
    }

    pub const fn f2_max() -> u8 {
        7
    }

    pub const fn f3_min() -> u8 {
        0
    }

    pub const fn f3_max() -> u8 {
        7
    }
}

#[asn(set, extensible_after(f0))]

#[derive(Default, Debug, Clone, PartialEq, Hash)]
pub struct Tt4doode1 {
    #[asn(default(integer(0..7), 5))] pub f0: u8,
    #[asn(optional(integer(0..7)))] pub f1: Option<u8>,
    #[asn(optional(integer(0..7)))] pub f2: Option<u8>,
    #[asn(default(integer(0..7), 5))] pub f3: u8,
}

impl Tt4doode1 {
    pub const fn f0_min() -> u8 {
        0
    }

    pub const fn f0_max() -> u8 {
        7
    }

    pub const fn f1_min() -> u8 {
        0
    }

    pub const fn f1_max() -> u8 {
        7
    }

    pub const fn f2_min() -> u8 {
        0
    }

    pub const fn f2_max() -> u8 {
        7
    }

    pub const fn f3_min() -> u8 {
        0
    }

    pub const fn f3_max() -> u8 {
        7
    }
}

#[asn(set, extensible_after(f1))]

#[derive(Default, Debug, Clone, PartialEq, Hash)]
pub struct Tt4doode2 {
    #[asn(default(integer(0..7), 5))] pub f0: u8,
    #[asn(optional(integer(0..7)))] pub f1: Option<u8>,
    #[asn(optional(integer(0..7)))] pub f2: Option<u8>,
    #[asn(default(integer(0..7), 5))] pub f3: u8,
}

impl Tt4doode2 {
    pub const fn f0_min() -> u8 {
        0
    }

    pub const fn f0_max() -> u8 {
        7
    }

    pub const fn f1_min() -> u8 {
        0
    }

    pub const fn f1_max() -> u8 {
        7
    }

    pub const fn f2_min() -> u8 {
        0
    }

    pub const fn f2_max() -> u8 {
        7
    }

    pub const fn f3_min() -> u8 {
        0
    }

    pub const fn f3_max() -> u8 {
        7
    }
}

#[asn(set, extensible_after(f2))]

#[derive(Default, Debug, Clone, PartialEq, Hash)]
pub struct Tt4doode3 {
    #[asn(default(integer(0..7), 5))] pub f0: u8,
    #[asn(optional(integer(0..7)))] pub f1: Option<u8>,
    #[asn(optional(integer(0..7)))] pub f2: Option<u8>,
    #[asn(default(integer(0..7), 5))] pub f3: u8,
}

impl Tt4doode3 {
    pub const fn f0_min() -> u8 {
        0
    }

    pub const fn f0_max() -> u8 {
        7
    }

    pub const fn f1_min() -> u8 {
        0
    }

    pub const fn f1_max() -> u8 {
        7
    }

    pub const fn f2_min() -> u8 {
        0
    }

    pub const fn f2_max() -> u8 {
        7
    }

    pub const fn f3_min() -> u8 {
        0
    }

    pub const fn f3_max() -> u8 {
        7
    }
}

#[asn(set, extensible_after(f3))]

#[derive(Default, Debug, Clone, PartialEq, Hash)]
pub struct Tt4doode4 {
    #[asn(default(integer(0..7), 5))] pub f0: u8,
    #[asn(optional(integer(0..7)))] pub f1: Option<u8>,
    #[asn(optional(integer(0..7)))] pub f2: Option<u8>,
    #[asn(default(integer(0..7), 5))] pub f3: u8,
}

impl Tt4doode4 {
    pub const fn f0_min() -> u8 {
        0
    }

    pub const fn f0_max() -> u8 {
        7
    }

    pub const fn f1_min() -> u8 {
        0
    }

    pub const fn f1_max() -> u8 {
        7
    }

    pub const fn f2_min() -> u8 {
        0
    }

    pub const fn f2_max() -> u8 {
        7
    }

    pub const fn f3_min() -> u8 {
        0
    }

    pub const fn f3_max() -> u8 {
        7
    }
}

#[asn(set)]

#[derive(Default, Debug, Clone, PartialEq, Hash)]
pub struct Tt4mdodn {
    #[asn(integer(0..7))] pub f0: u8,
    #[asn(default(integer(0..7), 5))] pub f1: u8,
    #[asn(optional(integer(0..7)))] pub f2: Option<u8>,
    #[asn(default(integer(0..7), 5))] pub f3: u8,
}

impl Tt4mdodn {
    pub const fn f0_min() -> u8 {
        0
    }

    pub const fn f0_max() -> u8 {
        7
    }

    pub const fn f1_min() -> u8 {
        0
    }

    pub const fn f1_max() -> u8 {
        7
    }

    pub const fn f2_min() -> u8 {
        0
    }

    pub const fn f2_max() -> u8 {
        7
    }

    pub const fn f3_min() -> u8 {
        0
    }

    pub const fn f3_max() -> u8 {
        7
    }
}

#[asn(set, extensible_after(f0))]

#[derive(Default, Debug, Clone, PartialEq, Hash)]
pub struct Tt4mdode0 {
    #[asn(integer(0..7))] pub f0: u8,
    #[asn(default(integer(0..7), 5))] pub f1: u8,
    #[asn(optional(integer(0..7)))] pub f2: Option<u8>,
    #[asn(default(integer(0..7), 5))] pub f3: u8,
}

impl Tt4mdode0 {
    pub const fn f0_min() -> u8 {
        0
    }

    pub const fn f0_max() -> u8 {
        7
    }

    pub const fn f1_min() -> u8 {
        0
    }

    pub const fn f1_max() -> u8 {
        7
    }

    pub const fn f2_min() -> u8 {
        0
    }

    pub const fn f2_max() -> u8 {
        7
    }

    pub const fn f3_min() -> u8 {
        0
    }

    pub const fn f3_max() -> u8 {
        7
    }
}

#[asn(set, extensible_after(f0))]

#[derive(Default, Debug, Clone, PartialEq, Hash)]
pub struct Tt4mdode1 {
    #[asn(integer(0..7))] pub f0: u8,
    #[asn(default(integer(0..7), 5))] pub f1: u8,
    #[asn(optional(integer(0..7)))] pub f2: Option<u8>,
    #[asn(default(integer(0..7), 5))] pub f3: u8,
}

impl Tt4mdode1 {
    pub const fn f0_min() -> u8 {
        0
    }

    pub const fn f0_max() -> u8 {
        7
    }

    pub const fn f1_min() -> u8 {
        0
    }

    pub const fn f1_max() -> u8 {
        7
    }

    pub const fn f2_min() -> u8 {
        0
    }

    pub const fn f2_max() -> u8 {
        7
    }

    pub const fn f3_min() -> u8 {
        0
    }

    pub const fn f3_max() -> u8 {
        7
    }
}

#[asn(set, extensible_after(f1))]

#[derive(Default, Debug, Clone, PartialEq, Hash)]
pub struct Tt4mdode2 {
    #[asn(integer(0..7))] pub f0: u8,
    #[asn(default(integer(0..7), 5))] pub f1: u8,
    #[asn(optional(integer(0..7)))] pub f2: Option<u8>,
    #[asn(default(integer(0..7), 5))] pub f3: u8,
}

impl Tt4mdode2 {
    pub const fn f0_min() -> u8 {
        0
    }

    pub const fn f0_max() -> u8 {
        7
    }

    pub const fn f1_min() -> u8 {
        0
    }

    pub const fn f1_max() -> u8 {
        7
    }

    pub const fn f2_min() -> u8 {
        0
    }

    pub const fn f2_max() -> u8 {
        7
    }

    pub const fn f3_min() -> u8 {
        0
    }

    pub const fn f3_max() -> u8 {
        7
    }
}

#[asn(set, extensible_after(f2))]

#[derive(Default, Debug, Clone, PartialEq, Hash)]
pub struct Tt4mdode3 {
    #[asn(integer(0..7))] pub f0: u8,
    #[asn(default(integer(0..7), 5))] pub f1: u8,
    #[asn(optional(integer(0..7)))] pub f2: Option<u8>,
    #[asn(default(integer(0..7), 5))] pub f3: u8,
}

impl Tt4mdode3 {
    pub const fn f0_min() -> u8 {
        0
    }

    pub const fn f0_max() -> u8 {
        7
    }

    pub const fn f1_min() -> u8 {
        0
    }

    pub const fn f1_max() -> u8 {
        7
    }

    pub const fn f2_min() -> u8 {
        0
    }

    pub const fn f2_max() -> u8 {
        7
    }

    pub const fn f3_min() -> u8 {
        0
    }

    pub const fn f3_max() -> u8 {
        7
    }
}

#[asn(set, extensible_after(f3))]

#[derive(Default, Debug, Clone, PartialEq, Hash)]
pub struct Tt4mdode4 {
    #[asn(integer(0..7))] pub f0: u8,
    #[asn(default(integer(0..7), 5))] pub f1: u8,
    #[asn(optional(integer(0..7)))] pub f2: Option<u8>,
    #[asn(default(integer(0..7), 5))] pub f3: u8,
}

impl Tt4mdode4 {
    pub const fn f0_min() -> u8 {
        0
    }

    pub const fn f0_max() -> u8 {
        7
    }

    pub const fn f1_min() -> u8 {
        0
    }

    pub const fn f1_max() -> u8 {
        7
    }

    pub const fn f2_min() -> u8 {
        0
    }

    pub const fn f2_max() -> u8 {
        7
    }

    pub const fn f3_min() -> u8 {
        0
    }

    pub const fn f3_max() -> u8 {
        7
    }
}

#[asn(set)]

#[derive(Default, Debug, Clone, PartialEq, Hash)]
pub struct Tt4ododn {
    #[asn(optional(integer(0..7)))] pub f0: Option<u8>,
    #[asn(default(integer(0..7), 5))] pub f1: u8,
    #[asn(optional(integer(0..7)))] pub f2: Option<u8>,
    #[asn(default(integer(0..7), 5))] pub f3: u8,
}

impl Tt4ododn {
    pub const fn f0_min() -> u8 {
        0
    }

    pub const fn f0_max() -> u8 {
        7
    }

    pub const fn f1_min() -> u8 {
        0
    }

    pub const fn f1_max() -> u8 {
        7
    }

    pub const fn f2_min() -> u8 {
        0
    }

    pub const fn f2_max() -> u8 {
        7
    }

    pub const fn f3_min() -> u8 {
        0
    }

    pub const fn f3_max() -> u8 {
        7
    }
}

#[asn(set, extensible_after(f0))]

#[derive(Default, Debug, Clone, PartialEq, Hash)]
pub struct Tt4odode0 {
    #[asn(optional(integer(0..7)))] pub f0: Option<u8>,
    #[asn(default(integer(0..7), 5))] pub f1: u8,
    #[asn(optional(integer(0..7)))] pub f2: Option<u8>,
    #[asn(default(integer(0..7), 5))] pub f3: u8,
}

impl Tt4odode0 {
    pub const fn f0_min() -> u8 {
        0
    }

    pub const fn f0_max() -> u8 {
        7
    }

    pub const fn f1_min() -> u8 {
        0
    }

    pub const fn f1_max() -> u8 {
        7
    }

    pub const fn f2_min() -> u8 {
        0
    }

    pub const fn f2_max() -> u8 {
        7
    }

    pub const fn f3_min() -> u8 {
        0
    }

    pub const fn f3_max() -> u8 {
        7
    }
}

#[asn(set, extensible_after(f0))]

#[derive(Default, Debug, Clone, PartialEq, Hash)]
pub struct Tt4odode1 {
    #[asn(optional(integer(0..7)))] pub f0: Option<u8>,
    #[asn(default(integer(0..7), 5))] pub f1: u8,
    #[asn(optional(integer(0..7)))] pub f2: Option<u8>,
    #[asn(default(integer(0..7), 5))] pub f3: u8,
}

impl Tt4odode1 {
    pub const fn f0_min() -> u8 {
        0
    }

    pub const fn f0_max() -> u8 {
        7
    }

    pub const fn f1_min() -> u8 {
        0
    }

    pub const fn f1_max() -> u8 {
        7
    }

    pub const fn f2_min() -> u8 {
        0
    }

    pub const fn f2_max() -> u8 {
        7
    }

    pub const fn f3_min() -> u8 {
        0
    }

    pub const fn f3_max() -> u8 {
        7
    }
}

#[asn(set, extensible_after(f1))]

#[derive(Default, Debug, Clone, PartialEq, Hash)]
pub struct Tt4odode2 {
    #[asn(optional(integer(0..7)))] pub f0: Option<u8>,
    #[asn(default(integer(0..7), 5))] pub f1: u8,
    #[asn(optional(integer(0..7)))] pub f2: Option<u8>,
    #[asn(default(integer(0..7), 5))] pub f3: u8,
}

impl Tt4odode2 {
    pub const fn f0_min() -> u8 {
        0
    }

    pub const fn f0_max() -> u8 {
        7
    }

    pub const fn f1_min() -> u8 {
        0
    }

    pub const fn f1_max() -> u8 {
        7
    }

    pub const fn f2_min() -> u8 {
        0
    }

    pub const fn f2_max() -> u8 {
        7
    }

    pub const fn f3_min() -> u8 {
        0
    }

    pub const fn f3_max() -> u8 {
        7
    }
}

#[asn(set, extensible_after(f2))]

#[derive(Default, Debug, Clone, PartialEq, Hash)]
pub struct Tt4odode3 {
    #[asn(optional(integer(0..7)))] pub f0: Option<u8>,
    #[asn(default(integer(0..7), 5))] pub f1: u8,
    #[asn(optional(integer(0..7)))] pub f2: Option<u8>,
    #[asn(default(integer(0..7), 5))] pub f3: u8,
}

impl Tt4odode3 {
    pub const fn f0_min() -> u8 {
        0
    }

    pub const fn f0_max() -> u8 {
        7
    }

    pub const fn f1_min() -> u8 {
        0
    }

    pub const fn f1_max() -> u8 {
        7
    }

    pub const fn f2_min() -> u8 {
        0
    }

    pub const fn f2_max() -> u8 {
        7
    }

    pub const fn f3_min() -> u8 {
        0
    }

    pub const fn f3_max() -> u8 {
        7
    }
}

#[asn(set, extensible_after(f3))]

#[derive(Default, Debug, Clone, PartialEq, Hash)]
pub struct Tt4odode4 {
    #[asn(optional(integer(0..7)))] pub f0: Option<u8>,
    #[asn(default(integer(0..7), 5))] pub f1: u8,
    #[asn(optional(integer(0..7)))] pub f2: Option<u8>,
    #[asn(default(integer(0..7), 5))] pub f3: u8,
}

impl Tt4odode4 {
    pub const fn f0_min() -> u8 {
        0
    }

    pub const fn f0_max() -> u8 {
        7
    }

    pub const fn f1_min() -> u8 {
        0
    }

    pub const fn f1_max() -> u8 {
        7
    }

    pub const fn f2_min() -> u8 {
        0
    }

    pub const fn f2_max() -> u8 {
        7
    }

    pub const fn f3_min() -> u8 {
        0
    }

    pub const fn f3_max() -> u8 {
        7
    }
}

#[asn(set)]

#[derive(Default, Debug, Clone, PartialEq, Hash)]
pub struct Tt4ddodn {
    #[asn(default(integer(0..7), 5))] pub f0: u8,
    #[asn(default(integer(0..7), 5))] pub f1: u8,
    #[asn(optional(integer(0..7)))] pub f2: Option<u8>,
    #[asn(default(integer(0..7), 5))] pub f3: u8,
}

impl Tt4ddodn {
    pub const fn f0_min() -> u8 {
        0
    }

    pub const fn f0_max() -> u8 {
        7
    }

    pub const fn f1_min() -> u8 {
        0
    }

    pub const fn f1_max() -> u8 {
        7
    }

    pub const fn f2_min() -> u8 {
        0
    }

    pub const fn f2_max() -> u8 {
        7
    }

    pub const fn f3_min() -> u8 {
        0
    }

    pub const fn f3_max() -> u8 {
        7
    }
}

#[asn(set, extensible_after(f0))]

#[derive(Default, Debug, Clone, PartialEq, Hash)]
pub struct Tt4ddode0 {
    #[asn(default(integer(0..7), 5))] pub f0: u8,
    #[asn(default(integer(0..7), 5))] pub f1: u8,
    #[asn(optional(integer(0..7)))] pub f2: Option<u8>,
    #[asn(default(integer(0..7), 5))] pub f3: u8,
}

impl Tt4ddode0 {
    pub const fn f0_min() -> u8 {
        0
    }

    pub const fn f0_max() -> u8 {
        7
    }

    pub const fn f1_min() -> u8 {
        0
    }

    pub const fn f1_max() -> u8 {
        7
    }

    pub const fn f2_min() -> u8 {
        0
    }

    pub const fn f2_max() -> u8 {
        7
    }

    pub const fn f3_min() -> u8 {
        0
    }

    pub const fn f3_max() -> u8 {
        7
    }
}

#[asn(set, extensible_after(f0))]

#[derive(Default, Debug, Clone, PartialEq, Hash)]
pub struct Tt4ddode1 {
    #[asn(default(integer(0..7), 5))] pub f0: u8,
    #[asn(default(integer(0..7), 5))] pub f1: u8,
    #[asn(optional(integer(0..7)))] pub f2: Option<u8>,
    #[asn(default(integer(0..7), 5))] pub f3: u8,
}

impl Tt4ddode1 {
    pub const fn f0_min() -> u8 {
        0
    }

    pub const fn f0_max() -> u8 {
        7
    }

    pub const fn f1_min() -> u8 {
        0
    }

    pub const fn f1_max() -> u8 {
        7
    }

    pub const fn f2_min() -> u8 {
        0
    }

    pub const fn f2_max() -> u8 {
        7
    }

    pub const fn f3_min() -> u8 {
        0
    }

    pub const fn f3_max() -> u8 {
        7
    }
}

#[asn(set, extensible_after(f1))]

#[derive(Default, Debug, Clone, PartialEq, Hash)]
pub struct Tt4ddode2 {
    #[asn(default(integer(0..7), 5))] pub f0: u8,
    #[asn(default(integer(0..7), 5))] pub f1: u8,
    #[asn(optional(integer(0..7)))] pub f2: Option<u8>,
    #[asn(default(integer(0..7), 5))] pub f3: u8,
}

impl Tt4ddode2 {
    pub const fn f0_min() -> u8 {
        0
    }

    pub const fn f0_max() -> u8 {
        7
    }

    pub const fn f1_min() -> u8 {
        0
    }

    pub const fn f1_max() -> u8 {
        7
    }

    pub const fn f2_min() -> u8 {
        0
    }

    pub const fn f2_max() -> u8 {
        7
    }

    pub const fn f3_min() -> u8 {
        0
    }

    pub const fn f3_max() -> u8 {
        7
    }
}

#[asn(set, extensible_after(f2))]

#[derive(Default, Debug, Clone, PartialEq, Hash)]
pub struct Tt4ddode3 {
    #[asn(default(integer(0..7), 5))] pub f0: u8,
    #[asn(default(integer(0..7), 5))] pub f1: u8,
    #[asn(optional(integer(0..7)))] pub f2: Option<u8>,
    #[asn(default(integer(0..7), 5))] pub f3: u8,
}

impl Tt4ddode3 {
    pub const fn f0_min() -> u8 {
        0
    }

    pub const fn f0_max() -> u8 {
        7
    }

    pub const fn f1_min() -> u8 {
        0
    }

    pub const fn f1_max() -> u8 {
        7
    }

    pub const fn f2_min() -> u8 {
        0
    }

    pub const fn f2_max() -> u8 {
        7
    }

    pub const fn f3_min() -> u8 {
        0
    }

    pub const fn f3_max() -> u8 {
        7
    }
}

#[asn(set, extensible_after(f3))]

#[derive(Default, Debug, Clone, PartialEq, Hash)]
pub struct Tt4ddode4 {
    #[asn(default(integer(0..7), 5))] pub f0: u8,
    #[asn(default(integer(0..7), 5))] pub f1: u8,
    #[asn(optional(integer(0..7)))] pub f2: Option<u8>,
    #[asn(default(integer(0..7), 5))] pub f3: u8,
}

impl Tt4ddode4 {
    pub const fn f0_min() -> u8 {
        0
    }

    pub const fn f0_max() -> u8 {
        7
    }

    pub const fn f1_min() -> u8 {
        0
    }

    pub const fn f1_max() -> u8 {
        7
    }

    pub const fn f2_min() -> u8 {
        0
    }

    pub const fn f2_max() -> u8 {
        7
    }

    pub const fn f3_min() -> u8 {
        0
    }

    pub const fn f3_max() -> u8 {
        7
    }
}

#[asn(set)]

#[derive(Default, Debug, Clone, PartialEq, Hash)]
pub struct Tt4mmddn {
    #[asn(integer(0..7))] pub f0: u8,
    #[asn(integer(0..7))] pub f1: u8,
    #[asn(default(integer(0..7), 5))] pub f2: u8,
    #[asn(default(integer(0..7), 5))] pub f3: u8,
}

impl Tt4mmddn {
    pub const fn f0_min() -> u8 {
        0
    }

    pub const fn f0_max() -> u8 {
        7
    }

    pub const fn f1_min() -> u8 {
        0
    }

    pub const fn f1_max() -> u8 {
        7
    }

    pub const fn f2_min() -> u8 {
        0
    }

    pub const fn f2_max() -> u8 {
        7
    }

    pub const fn f3_min() -> u8 {
        0
    }

    pub const fn f3_max() -> u8 {
        7
    }
}

#[asn(set, extensible_after(f0))]

#[derive(Default, Debug, Clone, PartialEq, Hash)]
pub struct Tt4mmdde0 {
    #[asn(integer(0..7))] pub f0: u8,
    #[asn(optional(integer(0..7)))] pub f1: Option<u8>,
    #[asn(default(integer(0..7), 5))] pub f2: u8,
    #[asn(default(integer(0..7), 5))] pub f3: u8,
}

impl Tt4mmdde0 {
    pub const fn f0_min() -> u8 {
        0
    }

    pub const fn f0_max() -> u8 {
        7
    }

    pub const fn f1_min() -> u8 {
        0
    }

    pub const fn f1_max() -> u8 {
        7
    }

    pub const fn f2_min() -> u8 {
        0
    }

    pub const fn f2_max() -> u8 {
        7
    }

    pub const fn f3_min() -> u8 {
        0
    }

    pub const fn f3_max() -> u8 {
        7
    }
}

#[asn(set, extensible_after(f0))]

#[derive(Default, Debug, Clone, PartialEq, Hash)]
pub struct Tt4mmdde1 {
    #[asn(integer(0..7))] pub f0: u8,
    #[asn(optional(integer(0..7)))] pub f1: Option<u8>,
    #[asn(default(integer(0..7), 5))] pub f2: u8,
    #[asn(default(integer(0..7), 5))] pub f3: u8,
}

impl Tt4mmdde1 {
    pub const fn f0_min() -> u8 {
        0
    }

    pub const fn f0_max() -> u8 {
        7
    }

    pub const fn f1_min() -> u8 {
        0
    }

    pub const fn f1_max() -> u8 {
        7
    }

    pub const fn f2_min() -> u8 {
        0
    }

    pub const fn f2_max() -> u8 {
        7
    }

    pub const fn f3_min() -> u8 {
        0
    }

    pub const fn f3_max() -> u8 {
        7
    }
}

#[asn(set, extensible_after(f1))]

#[derive(Default, Debug, Clone, PartialEq, Hash)]
pub struct Tt4mmdde2 {
    #[asn(integer(0..7))] pub f0: u8,
    #[asn(integer(0..7))] pub f1: u8,
    #[asn(default(integer(0..7), 5))] pub f2: u8,
    #[asn(default(integer(0..7), 5))] pub f3: u8,
}

impl Tt4mmdde2 {
    pub const fn f0_min() -> u8 {
        0
    }

    pub const fn f0_max() -> u8 {
        7
    }

    pub const fn f1_min() -> u8 {
        0
    }

    pub const fn f1_max() -> u8 {
        7
    }

    pub const fn f2_min() -> u8 {
        0
    }

    pub const fn f2_max() -> u8 {
        7
    }

    pub const fn f3_min() -> u8 {
        0
    }

    pub const fn f3_max() -> u8 {
        7
    }
}

#[asn(set, extensible_after(f2))]

#[derive(Default, Debug, Clone, PartialEq, Hash)]
pub struct Tt4mmdde3 {
    #[asn(integer(0..7))] pub f0: u8,
    #[asn(integer(0..7))] pub f1: u8,
    #[asn(default(integer(0..7), 5))] pub f2: u8,
    #[asn(default(integer(0..7), 5))] pub f3: u8,
}

impl Tt4mmdde3 {
    pub const fn f0_min() -> u8 {
        0
    }

    pub const fn f0_max() -> u8 {
        7
    }

    pub const fn f1_min() -> u8 {
        0
    }

    pub const fn f1_max() -> u8 {
        7
    }

    pub const fn f2_min() -> u8 {
        0
    }

    pub const fn f2_max() -> u8 {
        7
    }

    pub const fn f3_min() -> u8 {
        0
    }

    pub const fn f3_max() -> u8 {
        7
    }
}

#[asn(set, extensible_after(f3))]

#[derive(Default, Debug, Clone, PartialEq, Hash)]
pub struct Tt4mmdde4 {
    #[asn(integer(0..7))] pub f0: u8,
    #[asn(integer(0..7))] pub f1: u8,
    #[asn(default(integer(0..7), 5))] pub f2: u8,
    #[asn(default(integer(0..7), 5))] pub f3: u8,
}

impl Tt4mmdde4 {
    pub const fn f0_min() -> u8 {
        0
    }

    pub const fn f0_max() -> u8 {
        7
    }

    pub const fn f1_min() -> u8 {
        0
    }

    pub const fn f1_max() -> u8 {
        7
    }

    pub const fn f2_min() -> u8 {
        0
    }

    pub const fn f2_max() -> u8 {
        7
    }

    pub const fn f3_min() -> u8 {
        0
    }

    pub const fn f3_max() -> u8 {
        7
    }
}

#[asn(set)]

#[derive(Default, Debug, Clone, PartialEq, Hash)]
pub struct Tt4omddn {
    #[asn(optional(integer(0..7)))] pub f0: Option<u8>,
    #[asn(integer(0..7))] pub f1: u8,
    #[asn(default(integer(0..7), 5))] pub f2: u8,
    #[asn(default(integer(0..7), 5))] pub f3: u8,
}

impl Tt4omddn {
    pub const fn f0_min() -> u8 {
        0
    }

    pub const fn f0_max() -> u8 {
        7
    }

    pub const fn f1_min() -> u8 {
        0
    }

    pub const fn f1_max() -> u8 {
        7
    }

    pub const fn f2_min() -> u8 {
        0
    }

    pub const fn f2_max() -> u8 {
        7
    }

    pub const fn f3_min() -> u8 {
        0
    }

    pub const fn f3_max() -> u8 {
        7
    }
}

#[asn(set, extensible_after(f0))]

#[derive(Default, Debug, Clone, PartialEq, Hash)]
pub struct Tt4omdde0 {
    #[asn(optional(integer(0..7)))] pub f0: Option<u8>,
    #[asn(optional(integer(0..7)))] pub f1: Option<u8>,
    #[asn(default(integer(0..7), 5))] pub f2: u8,
    #[asn(default(integer(0..7), 5))] pub f3: u8,
}

impl Tt4omdde0 {
    pub const fn f0_min() -> u8 {
        0
    }

    pub const fn f0_max() -> u8 {
        7
    }

    pub const fn f1_min() -> u8 {
        0
    }

    pub const fn f1_max() -> u8 {
        7
    }

    pub const fn f2_min() -> u8 {
        0
    }

    pub const fn f2_max() -> u8 {
        7
    }

    pub const fn f3_min() -> u8 {
        0
    }

    pub const fn f3_max() -> u8 {
        7
    }
}

#[asn(set, extensible_after(f0))]

#[derive(Default, Debug, Clone, PartialEq, Hash)]
pub struct Tt4omdde1 {
    #[asn(optional(integer(0..7)))] pub f0: Option<u8>,
    #[asn(optional(integer(0..7)))] pub f1: Option<u8>,
    #[asn(default(integer(0..7), 5))] pub f2: u8,
    #[asn(default(integer(0..7), 5))] pub f3: u8,
}

impl Tt4omdde1 {
    pub const fn f0_min() -> u8 {
        0
    }

    pub const fn f0_max() -> u8 {
        7
    }

    pub const fn f1_min() -> u8 {
        0
    }

    pub const fn f1_max() -> u8 {
        7
    }

    pub const fn f2_min() -> u8 {
        0
    }

    pub const fn f2_max() -> u8 {
        7
    }

    pub const fn f3_min() -> u8 {
        0
    }

    pub const fn f3_max() -> u8 {
        7
    }
}

#[asn(set, extensible_after(f1))]

#[derive(Default, Debug, Clone, PartialEq, Hash)]
pub struct Tt4omdde2 {
    #[asn(optional(integer(0..7)))] pub f0: Option<u8>,
    #[asn(integer(0..7))] pub f1: u8,
    #[asn(default(integer(0..7), 5))] pub f2: u8,
    #[asn(default(integer(0..7), 5))] pub f3: u8,
}

impl Tt4omdde2 {
    pub const fn f0_min() -> u8 {
        0
    }

    pub const fn f0_max() -> u8 {
        7
    }

    pub const fn f1_min() -> u8 {
        0
    }

    pub const fn f1_max() -> u8 {
        7
    }

    pub const fn f2_min() -> u8 {
        0
    }

    pub const fn f2_max() -> u8 {
        7
    }

    pub const fn f3_min() -> u8 {
        0
    }

    pub const fn f3_max() -> u8 {
        7
    }
}

#[asn(set, extensible_after(f2))]

#[derive(Default, Debug, Clone, PartialEq, Hash)]
pub struct Tt4omdde3 {
    #[asn(optional(integer(0..7)))] pub f0: Option<u8>,
    #[asn(integer(0..7))] pub f1: u8,
    #[asn(default(integer(0..7), 5))] pub f2: u8,
    #[asn(default(integer(0..7), 5))] pub f3: u8,
}

impl Tt4omdde3 {
    pub const fn f0_min() -> u8 {
        0
    }

    pub const fn f0_max() -> u8 {
        7
    }

    pub const fn f1_min() -> u8 {
        0
    }

    pub const fn f1_max() -> u8 {
        7
    }

    pub const fn f2_min() -> u8 {
        0
    }

    pub const fn f2_max() -> u8 {
        7
    }

    pub const fn f3_min() -> u8 {
        0
    }

    pub const fn f3_max() -> u8 {
        7
    }
}

#[asn(set, extensible_after(f3))]

#[derive(Default, Debug, Clone, PartialEq, Hash)]
pub struct Tt4omdde4 {
    #[asn(optional(integer(0..7)))] pub f0: Option<u8>,
    #[asn(integer(0..7))] pub f1: u8,
    #[asn(default(integer(0..7), 5))] pub f2: u8,
    #[asn(default(integer(0..7), 5))] pub f3: u8,
}

impl Tt4omdde4 {
    pub const fn f0_min() -> u8 {
        0
    }

    pub const fn f0_max() -> u8 {
        7
    }

    pub const fn f1_min() -> u8 {
        0
    }

    pub const fn f1_max() -> u8 {
        7
    }

    pub const fn f2_min() -> u8 {
        0
    }

    pub const fn f2_max() -> u8 {
        7
    }

    pub const fn f3_min() -> u8 {
        0
    }

    pub const fn f3_max() -> u8 {
        7
    }
}

#[asn(set)]

#[derive(Default, Debug, Clone, PartialEq, Hash)]
pub struct Tt4dmddn {
    #[asn(default(integer(0..7), 5))] pub f0: u8,
    #[asn(integer(0..7))] pub f1: u8,
    #[asn(default(integer(0..7), 5))] pub f2: u8,
    #[asn(default(integer(0..7), 5))] pub f3: u8,
}

impl Tt4dmddn {
    pub const fn f0_min() -> u8 {
        0
    }

    pub const fn f0_max() -> u8 {
        7
    }

    pub const fn f1_min() -> u8 {
        0
    }

    pub const fn f1_max() -> u8 {
        7
    }

    pub const fn f2_min() -> u8 {
        0
    }

    pub const fn f2_max() -> u8 {
        7
    }

    pub const fn f3_min() -> u8 {
        0
    }

    pub const fn f3_max() -> u8 {
        7
    }
}

#[asn(set, extensible_after(f0))]

#[derive(Default, Debug, Clone, PartialEq, Hash)]
pub struct Tt4dmdde0 {
    #[asn(default(integer(0..7), 5))] pub f0: u8,
    #[asn(optional(integer(0..7)))] pub f1: Option<u8>,
    #[asn(default(integer(0..7), 5))] pub f2: u8,
    #[asn(default(integer(0..7), 5))] pub f3: u8,
}

impl Tt4dmdde0 {
    pub const fn f0_min() -> u8 {
        0
    }

    pub const fn f0_max() -> u8 {
        7
    }

    pub const fn f1_min() -> u8 {
        0
    }

    pub const fn f1_max() -> u8 {
        7
    }

    pub const fn f2_min() -> u8 {
        0
    }

    pub const fn f2_max() -> u8 {
        7
    }

    pub const fn f3_min() -> u8 {
        0
    }

    pub const fn f3_max() -> u8 {
        7
    }
}

#[asn(set, extensible_after(f0))]

#[derive(Default, Debug, Clone, PartialEq, Hash)]
pub struct Tt4dmdde1 {
    #[asn(default(integer(0..7), 5))] pub f0: u8,
    #[asn(optional(integer(0..7)))] pub f1: Option<u8>,
    #[asn(default(integer(0..7), 5))] pub f2: u8,
    #[asn(default(integer(0..7), 5))] pub f3: u8,
}

impl Tt4dmdde1 {
    pub const fn f0_min() -> u8 {
        0
    }

    pub const fn f0_max() -> u8 {
        7
    }

    pub const fn f1_min() -> u8 {
        0
    }

    pub const fn f1_max() -> u8 {
        7
    }

    pub const fn f2_min() -> u8 {
        0
    }

    pub const fn f2_max() -> u8 {
        7
    }

    pub const fn f3_min() -> u8 {
        0
    }

    pub const fn f3_max() -> u8 {
        7
    }
}

#[asn(set, extensible_after(f1))]

#[derive(Default, Debug, Clone, PartialEq, Hash)]
pub struct Tt4dmdde2 {
    #[asn(default(integer(0..7), 5))] pub f0: u8,
    #[asn(integer(0..7))] pub f1: u8,
    #[asn(default(integer(0..7), 5))] pub f2: u8,
    #[asn(default(integer(0..7), 5))] pub f3: u8,
}

impl Tt4dmdde2 {
    pub const fn f0_min() -> u8 {
        0
    }

    pub const fn f0_max() -> u8 {
        7
    }

    pub const fn f1_min() -> u8 {
        0
    }

    pub const fn f1_max() -> u8 {
        7
    }

    pub const fn f2_min() -> u8 {
        0
    }

    pub const fn f2_max() -> u8 {
        7
    }

    pub const fn f3_min() -> u8 {
        0
    }

    pub const fn f3_max() -> u8 {
        7
    }
}

#[asn(set, extensible_after(f2))]

#[derive(Default, Debug, Clone, PartialEq, Hash)]
pub struct Tt4dmdde3 {
    #[asn(default(integer(0..7), 5))] pub f0: u8,
    #[asn(integer(0..7))] pub f1: u8,
    #[asn(default(integer(0..7), 5))] pub f2: u8,
    #[asn(default(integer(0..7), 5))] pub f3: u8,
}

impl Tt4dmdde3 {
    pub const fn f0_min() -> u8 {
        0
    }

    pub const fn f0_max() -> u8 {
        7
    }

    pub const fn f1_min() -> u8 {
        0
    }

    pub const fn f1_max() -> u8 {
        7
    }

    pub const fn f2_min() -> u8 {
        0
    }

    pub const fn f2_max() -> u8 {
        7
    }

    pub const fn f3_min() -> u8 {
        0
    }

    pub const fn f3_max() -> u8 {
        7
    }
}

#[asn(set, extensible_after(f3))]

#[derive(Default, Debug, Clone, PartialEq, Hash)]
pub struct Tt4dmdde4 {
    #[asn(default(integer(0..7), 5))] pub f0: u8,
    #[asn(integer(0..7))] pub f1: u8,
    #[asn(default(integer(0..7), 5))] pub f2: u8,
    #[asn(default(integer(0..7), 5))] pub f3: u8,
}

impl Tt4dmdde4 {
    pub const fn f0_min() -> u8 {
        0
    }

    pub const fn f0_max() -> u8 {
        7
    }

    pub const fn f1_min() -> u8 {
        0
    }

    pub const fn f1_max() -> u8 {
        7
    }

    pub const fn f2_min() -> u8 {
        0
    }

    pub const fn f2_max() -> u8 {
        7
    }

    pub const fn f3_min() -> u8 {
        0
    }

    pub const fn f3_max() -> u8 {
        7
    }
}

#[asn(set)]

#[derive(Default, Debug, Clone, PartialEq, Hash)]
pub struct Tt4moddn {
    #[asn(integer(0..7))] pub f0: u8,
    #[asn(optional(integer(0..7)))] pub f1: Option<u8>,
    #[asn(default(integer(0..7), 5))] pub f2: u8,
    #[asn(default(integer(0..7), 5))] pub f3: u8,
}

impl Tt4moddn {
    pub const fn f0_min() -> u8 {
        0
    }

    pub const fn f0_max() -> u8 {
        7
    }

    pub const fn f1_min() -> u8 {
        0
    }

    pub const fn f1_max() -> u8 {
        7
    }

    pub const fn f2_min() -> u8 {
        0
    }

    pub const fn f2_max() -> u8 {
        7
    }

    pub const fn f3_min() -> u8 {
        0
    }

    pub const fn f3_max() -> u8 {
        7
    }
}

#[asn(set, extensible_after(f0))]

#[derive(Default, Debug, Clone, PartialEq, Hash)]
pub struct Tt4modde0 {
    #[asn(integer(0..7))] pub f0: u8,
    #[asn(optional(integer(0..7)))] pub f1: Option<u8>,
    #[asn(default(integer(0..7), 5))] pub f2: u8,
    #[asn(default(integer(0..7), 5))] pub f3: u8,
}

impl Tt4modde0 {
    pub const fn f0_min() -> u8 {
        0
    }

    pub const fn f0_max() -> u8 {
        7
    }

    pub const fn f1_min() -> u8 {
        0
    }

    pub const fn f1_max() -> u8 {
        7
    }

    pub const fn f2_min() -> u8 {
        0
    }

    pub const fn f2_max() -> u8 {
        7
    }

    pub const fn f3_min() -> u8 {
        0
    }

    pub const fn f3_max() -> u8 {
        7
    }
}

#[asn(set, extensible_after(f0))]

#[derive(Default, Debug, Clone, PartialEq, Hash)]
pub struct Tt4modde1 {
    #[asn(integer(0..7))] pub f0: u8,
    #[asn(optional(integer(0..7)))] pub f1: Option<u8>,
    #[asn(default(integer(0..7), 5))] pub f2: u8,
    #[asn(default(integer(0..7), 5))] pub f3: u8,
}

impl Tt4modde1 {
    pub const fn f0_min() -> u8 {
        0
    }

    pub const fn f0_max() -> u8 {
        7
    }

    pub const fn f1_min() -> u8 {
        0
    }

    pub const fn f1_max() -> u8 {
        7
    }

    pub const fn f2_min() -> u8 {
        0
    }

    pub const fn f2_max() -> u8 {
        7
    }

    pub const fn f3_min() -> u8 {
        0
    }

    pub const fn f3_max() -> u8 {
        7
    }
}

#[asn(set, extensible_after(f1))]

#[derive(Default, Debug, Clone, PartialEq, Hash)]
pub struct Tt4modde2 {
    #[asn(integer(0..7))] pub f0: u8,
    #[asn(optional(integer(0..7)))] pub f1: Option<u8>,
    #[asn(default(integer(0..7), 5))] pub f2: u8,
    #[asn(default(integer(0..7), 5))] pub f3: u8,
}

impl Tt4modde2 {
    pub const fn f0_min() -> u8 {
        0
    }

    pub const fn f0_max() -> u8 {
        7
    }

    pub const fn f1_min() -> u8 {
        0
    }

    pub const fn f1_max() -> u8 {
        7
    }

    pub const fn f2_min() -> u8 {
        0
    }

    pub const fn f2_max() -> u8 {
        7
    }

    pub const fn f3_min() -> u8 {
        0
    }

    pub const fn f3_max() -> u8 {
        7
    }
}

#[asn(set, extensible_after(f2))]

#[derive(Default, Debug, Clone, PartialEq, Hash)]
pub struct Tt4modde3 {
    #[asn(integer(0..7))] pub f0: u8,
    #[asn(optional(integer(0..7)))] pub f1: Option<u8>,
    #[asn(default(integer(0..7), 5))] pub f2: u8,
    #[asn(default(integer(0..7), 5))] pub f3: u8,
}

impl Tt4modde3 {
    pub const fn f0_min() -> u8 {
        0
    }

    pub const fn f0_max() -> u8 {
        7
    }

    pub const fn f1_min() -> u8 {
        0
    }

    pub const fn f1_max() -> u8 {
        7
    }

    pub const fn f2_min() -> u8 {
        0
    }

    pub const fn f2_max() -> u8 {
        7
    }

    pub const fn f3_min() -> u8 {
        0
    }

    pub const fn f3_max() -> u8 {
        7
    }
}

#[asn(set, extensible_after(f3))]

#[derive(Default, Debug, Clone, PartialEq, Hash)]
pub struct Tt4modde4 {
    #[asn(integer(0..7))] pub f0: u8,
    #[asn(optional(integer(0..7)))] pub f1: Option<u8>,
    #[asn(default(integer(0..7), 5))] pub f2: u8,
    #[asn(default(integer(0..7), 5))] pub f3: u8,
}

impl Tt4modde4 {
    pub const fn f0_min() -> u8 {
        0
    }

    pub const fn f0_max() -> u8 {
        7
    }

    pub const fn f1_min() -> u8 {
        0
    }

    pub const fn f1_max() -> u8 {
        7
    }

    pub const fn f2_min() -> u8 {
        0
    }

    pub const fn f2_max() -> u8 {
        7
    }

    pub const fn f3_min() -> u8 {
        0
    }

    pub const fn f3_max() -> u8 {
        7
    }
}

#[asn(set)]

#[derive(Default, Debug, Clone, PartialEq, Hash)]
pub struct Tt4ooddn {
    #[asn(optional(integer(0..7)))] pub f0: Option<u8>,
    #[asn(optional(integer(0..7)))] pub f1: Option<u8>,
    #[asn(default(integer(0..7), 5))] pub f2: u8,
    #[asn(default(integer(0..7), 5))] pub f3: u8,
}

impl Tt4ooddn {
    pub const fn f0_min() -> u8 {
        0
    }

    pub const fn f0_max() -> u8 {
        7
    }

    pub const fn f1_min() -> u8 {
        0
    }

    pub const fn f1_max() -> u8 {
        7
    }

    pub const fn f2_min() -> u8 {
        0
    }

    pub const fn f2_max() -> u8 {
        7
    }

    pub const fn f3_min() -> u8 {
        0
    }

    pub const fn f3_max() -> u8 {
        7
    }
}

#[asn(set, extensible_after(f0))]

#[derive(Default, Debug, Clone, PartialEq, Hash)]
pub struct Tt4oodde0 {
    #[asn(optional(integer(0..7)))] pub f0: Option<u8>,
    #[asn(optional(integer(0..7)))] pub f1: Option<u8>,
    #[asn(default(integer(0..7), 5))] pub f2: u8,
    #[asn(default(integer(0..7), 5))] pub f3: u8,
}

impl Tt4oodde0 {
    pub const fn f0_min() -> u8 {
        0
    }

    pub const fn f0_max() -> u8 {
        7
    }

    pub const fn f1_min() -> u8 {
        0
    }

    pub const fn f1_max() -> u8 {
        7
    }

    pub const fn f2_min() -> u8 {
        0
    }

    pub const fn f2_max() -> u8 {
        7
    }

    pub const fn f3_min() -> u8 {
        0
    }

    pub const fn f3_max() -> u8 {
        7
    }
}

#[asn(set, extensible_after(f0))]

#[derive(Default, Debug, Clone, PartialEq, Hash)]
pub struct Tt4oodde1 {
    #[asn(optional(integer(0..7)))] pub f0: Option<u8>,
    #[asn(optional(integer(0..7)))] pub f1: Option<u8>,
    #[asn(default(integer(0..7), 5))] pub f2: u8,
    #[asn(default(integer(0..7), 5))] pub f3: u8,
}

impl Tt4oodde1 {
    pub const fn f0_min() -> u8 {
        0
    }

    pub const fn f0_max() -> u8 {
        7
    }

    pub const fn f1_min() -> u8 {
        0
    }

    pub const fn f1_max() -> u8 {
        7
    }

    pub const fn f2_min() -> u8 {
        0
    }

    pub const fn f2_max() -> u8 {
        7
    }

    pub const fn f3_min() -> u8 {
        0
    }

    pub const fn f3_max() -> u8 {
        7
    }
}

#[asn(set, extensible_after(f1))]

#[derive(Default, Debug, Clone, PartialEq, Hash)]
pub struct Tt4oodde2 {
    #[asn(optional(integer(0..7)))] pub f0: Option<u8>,
    #[asn(optional(integer(0..7)))] pub f1: Option<u8>,
    #[asn(default(integer(0..7), 5))] pub f2: u8,
    #[asn(default(integer(0..7), 5))] pub f3: u8,
}

impl Tt4oodde2 {
    pub const fn f0_min() -> u8 {
        0
    }

    pub const fn f0_max() -> u8 {
        7
    }

    pub const fn f1_min() -> u8 {
        0
    }

    pub const fn f1_max() -> u8 {
        7
    }

    pub const fn f2_min() -> u8 {
        0
    }

    pub const fn f2_max() -> u8 {
        7
    }

    pub const fn f3_min() -> u8 {
        0
    }

    pub const fn f3_max() -> u8 {
        7
    }
}

#[asn(set, extensible_after(f2))]

#[derive(Default, Debug, Clone, PartialEq, Hash)]
pub struct Tt4oodde3 {
    #[asn(optional(integer(0..7)))] pub f0: Option<u8>,
    #[asn(optional(integer(0..7)))] pub f1: Option<u8>,
    #[asn(default(integer(0..7), 5))] pub f2: u8,
    #[asn(default(integer(0..7), 5))] pub f3: u8,
}

impl Tt4oodde3 {
    pub const fn f0_min() -> u8 {
        0
    }

    pub const fn f0_max() -> u8 {
        7
    }

    pub const fn f1_min() -> u8 {
        0
    }

    pub const fn f1_max() -> u8 {
        7
    }

    pub const fn f2_min() -> u8 {
        0
    }

    pub const fn f2_max() -> u8 {
        7
    }

    pub const fn f3_min() -> u8 {
        0
    }

    pub const fn f3_max() -> u8 {
        7
    }
}

#[asn(set, extensible_after(f3))]

#[derive(Default, Debug, Clone, PartialEq, Hash)]
pub struct Tt4oodde4 {
    #[asn(optional(integer(0..7)))] pub f0: Option<u8>,
    #[asn(optional(integer(0..7)))] pub f1: Option<u8>,
    #[asn(default(integer(0..7), 5))] pub f2: u8,
    #[asn(default(integer(0..7), 5))] pub f3: u8,
}

impl Tt4oodde4 {
    pub const fn f0_min() -> u8 {
        0
    }

    pub const fn f0_max() -> u8 {
        7
    }

    pub const fn f1_min() -> u8 {
        0
    }

    pub const fn f1_max() -> u8 {
        7
    }

    pub const fn f2_min() -> u8 {
        0
    }

    pub const fn f2_max() -> u8 {
        7
    }

    pub const fn f3_min() -> u8 {
        0
    }

    pub const fn f3_max() -> u8 {
        7
    }
}

#[asn(set)]

#[derive(Default, Debug, Clone, PartialEq, Hash)]
pub struct Tt4doddn {
    #[asn(default(integer(0..7), 5))] pub f0: u8,
    #[asn(optional(integer(0..7)))] pub f1: Option<u8>,
    #[asn(default(integer(0..7), 5))] pub f2: u8,
    #[asn(default(integer(0..7), 5))] pub f3: u8,
}

impl Tt4doddn {
    pub const fn f0_min() -> u8 {
        0
    }

    pub const fn f0_max() -> u8 {
        7
    }

    pub const fn f1_min() -> u8 {
        0
    }

    pub const fn f1_max() -> u8 {
        7
    }

    pub const fn f2_min() -> u8 {
        0
    }

    pub const fn f2_max() -> u8 {
        7
    }

    pub const fn f3_min() -> u8 {
        0
    }

    pub const fn f3_max() -> u8 {
        7
    }
}

#[asn(set, extensible_after(f0))]

#[derive(Default, Debug, Clone, PartialEq, Hash)]
pub struct Tt4dodde0 {
    #[asn(default(integer(0..7), 5))] pub f0: u8,
    #[asn(optional(integer(0..7)))] pub f1: Option<u8>,
    #[asn(default(integer(0..7), 5))] pub f2: u8,
    #[asn(default(integer(0..7), 5))] pub f3: u8,
}

impl Tt4dodde0 {
    pub const fn f0_min() -> u8 {
        0
    }

    pub const fn f0_max() -> u8 {
        7
    }

    pub const fn f1_min() -> u8 {
        0
    }

    pub const fn f1_max() -> u8 {
        7
    }

    pub const fn f2_min() -> u8 {
        0
    }

    pub const fn f2_max() -> u8 {
        7
    }

    pub const fn f3_min() -> u8 {
        0
    }

    pub const fn f3_max() -> u8 {
        7
    }
}

#[asn(set, extensible_after(f0))]

#[derive(Default, Debug, Clone, PartialEq, Hash)]
pub struct Tt4dodde1 {
    #[asn(default(integer(0..7), 5))] pub f0: u8,
    #[asn(optional(integer(0..7)))] pub f1: Option<u8>,
    #[asn(default(integer(0..7), 5))] pub f2: u8,
    #[asn(default(integer(0..7), 5))] pub f3: u8,
}

impl Tt4dodde1 {
    pub const fn f0_min() -> u8 {
        0
    }

    pub const fn f0_max() -> u8 {
        7
    }

    pub const fn f1_min() -> u8 {
        0
    }

    pub const fn f1_max() -> u8 {
        7
    }

    pub const fn f2_min() -> u8 {
        0
    }

    pub const fn f2_max() -> u8 {
        7
    }

    pub const fn f3_min() -> u8 {
        0
    }

    pub const fn f3_max() -> u8 {
        7
    }
}

#[asn(set, extensible_after(f1))]

#[derive(Default, Debug, Clone, PartialEq, Hash)]
pub struct Tt4dodde2 {
    #[asn(default(integer(0..7), 5))] pub f0: u8,
    #[asn(optional(integer(0..7)))] pub f1: Option<u8>,
    #[asn(default(integer(0..7), 5))] pub f2: u8,
    #[asn(default(integer(0..7), 5))] pub f3: u8,
}

impl Tt4dodde2 {
    pub const fn f0_min() -> u8 {
        0
    }

    pub const fn f0_max() -> u8 {
        7
    }

    pub const fn f1_min() -> u8 {
        0
    }

    pub const fn f1_max() -> u8 {
        7
    }

    pub const fn f2_min() -> u8 {
        0
    }

    pub const fn f2_max() -> u8 {
        7
    }

    pub const fn f3_min() -> u8 {
        0
    }

    pub const fn f3_max() -> u8 {
        7
    }
}

#[asn(set, extensible_after(f2))]

#[derive(Default, Debug, Clone, PartialEq, Hash)]
pub struct Tt4dodde3 {
    #[asn(default(integer(0..7), 5))] pub f0: u8,
    #[asn(optional(integer(0..7)))] pub f1: Option<u8>,
    #[asn(default(integer(0..7), 5))] pub f2: u8,
    #[asn(default(integer(0..7), 5))] pub f3: u8,
}

impl Tt4dodde3 {
    pub const fn f0_min() -> u8 {
        0
    }

    pub const fn f0_max() -> u8 {
        7
    }

    pub const fn f1_min() -> u8 {
        0
    }

    pub const fn f1_max() -> u8 {
        7
    }

    pub const fn f2_min() -> u8 {
        0
    }

    pub const fn f2_max() -> u8 {
        7
    }

    pub const fn f3_min() -> u8 {
        0
    }

    pub const fn f3_max() -> u8 {
        7
    }
}

#[asn(set, extensible_after(f3))]

#[derive(Default, Debug, Clone, PartialEq, Hash)]
pub struct Tt4dodde4 {
    #[asn(default(integer(0..7), 5))] pub f0: u8,
    #[asn(optional(integer(0..7)))] pub f1: Option<u8>,
    #[asn(default(integer(0..7), 5))] pub f2: u8,
    #[asn(default(integer(0..7), 5))] pub f3: u8,
}

impl Tt4dodde4 {
    pub const fn f0_min() -> u8 {
        0
    }

    pub const fn f0_max() -> u8 {
        7
    }

    pub const fn f1_min() -> u8 {
        0
    }

    pub const fn f1_max() -> u8 {
        7
    }

    pub const fn f2_min() -> u8 {
        0
    }

    pub const fn f2_max() -> u8 {
        7
    }

    pub const fn f3_min() -> u8 {
        0
    }

    pub const fn f3_max() -> u8 {
        7
    }
}

#[asn(set)]

#[derive(Default, Debug, Clone, PartialEq, Hash)]
pub struct Tt4mdddn {
    #[asn(integer(0..7))] pub f0: u8,
    #[asn(default(integer(0..7), 5))] pub f1: u8,
    #[asn(default(integer(0..7), 5))] pub f2: u8,
    #[asn(default(integer(0..7), 5))] pub f3: u8,
}

impl Tt4mdddn {
    pub const fn f0_min() -> u8 {
        0
    }

    pub const fn f0_max() -> u8 {
        7
    }

    pub const fn f1_min() -> u8 {
        0
    }

    pub const fn f1_max() -> u8 {
        7
    }

    pub const fn f2_min() -> u8 {
        0
    }

    pub const fn f2_max() -> u8 {
        7
    }

    pub const fn f3_min() -> u8 {
        0
    }

    pub const fn f3_max() -> u8 {
        7
    }
}

#[asn(set, extensible_after(f0))]

#[derive(Default, Debug, Clone, PartialEq, Hash)]
pub struct Tt4mddde0 {
    #[asn(integer(0..7))] pub f0: u8,
    #[asn(default(integer(0..7), 5))] pub f1: u8,
    #[asn(default(integer(0..7), 5))] pub f2: u8,
    #[asn(default(integer(0..7), 5))] pub f3: u8,
}

impl Tt4mddde0 {
    pub const fn f0_min() -> u8 {
        0
    }

    pub const fn f0_max() -> u8 {
        7
    }

    pub const fn f1_min() -> u8 {
        0
    }

    pub const fn f1_max() -> u8 {
        7
    }

    pub const fn f2_min() -> u8 {
        0
    }

    pub const fn f2_max() -> u8 {
        7
    }

    pub const fn f3_min() -> u8 {
        0
    }

    pub const fn f3_max() -> u8 {
        7
    }
}

#[asn(set, extensible_after(f0))]

#[derive(Default, Debug, Clone, PartialEq, Hash)]
pub struct Tt4mddde1 {
    #[asn(integer(0..7))] pub f0: u8,
    #[asn(default(integer(0..7), 5))] pub f1: u8,
    #[asn(default(integer(0..7), 5))] pub f2: u8,
    #[asn(default(integer(0..7), 5))] pub f3: u8,
}

impl Tt4mddde1 {
    pub const fn f0_min() -> u8 {
        0
    }

    pub const fn f0_max() -> u8 {
        7
    }

    pub const fn f1_min() -> u8 {
        0
    }

    pub const fn f1_max() -> u8 {
        7
    }

    pub const fn f2_min() -> u8 {
        0
    }

    pub const fn f2_max() -> u8 {
        7
    }

    pub const fn f3_min() -> u8 {
        0
    }

    pub const fn f3_max() -> u8 {
        7
    }
}

#[asn(set, extensible_after(f1))]

#[derive(Default, Debug, Clone, PartialEq, Hash)]
pub struct Tt4mddde2 {
    #[asn(integer(0..7))] pub f0: u8,
    #[asn(default(integer(0..7), 5))] pub f1: u8,
    #[asn(default(integer(0..7), 5))] pub f2: u8,
    #[asn(default(integer(0..7), 5))] pub f3: u8,
}

impl Tt4mddde2 {
    pub const fn f0_min() -> u8 {
        0
    }

    pub const fn f0_max() -> u8 {
        7
    }

    pub const fn f1_min() -> u8 {
        0
    }

    pub const fn f1_max() -> u8 {
        7
    }

    pub const fn f2_min() -> u8 {
        0
    }

    pub const fn f2_max() -> u8 {
        7
    }

    pub const fn f3_min() -> u8 {
        0
    }

    pub const fn f3_max() -> u8 {
        7
    }
}

#[asn(set, extensible_after(f2))]

#[derive(Default, Debug, Clone, PartialEq, Hash)]
pub struct Tt4mddde3 {
    #[asn(integer(0..7))] pub f0: u8,
    #[asn(default(integer(0..7), 5))] pub f1: u8,
    #[asn(default(integer(0..7), 5))] pub f2: u8,
    #[asn(default(integer(0..7), 5))] pub f3: u8,
}

impl Tt4mddde3 {
    pub const fn f0_min() -> u8 {
        0
    }

    pub const fn f0_max() -> u8 {
        7
    }

    pub const fn f1_min() -> u8 {
        0
    }

    pub const fn f1_max() -> u8 {
        7
    }

    pub const fn f2_min() -> u8 {
        0
    }

    pub const fn f2_max() -> u8 {
        7
    }

    pub const fn f3_min() -> u8 {
        0
    }

    pub const fn f3_max() -> u8 {
        7
    }
}

#[asn(set, extensible_after(f3))]

#[derive(Default, Debug, Clone, PartialEq, Hash)]
pub struct Tt4mddde4 {
    #[asn(integer(0..7))] pub f0: u8,
    #[asn(default(integer(0..7), 5))] pub f1: u8,
    #[asn(default(integer(0..7), 5))] pub f2: u8,
    #[asn(default(integer(0..7), 5))] pub f3: u8,
}

impl Tt4mddde4 {
    pub const fn f0_min() -> u8 {
        0
    }

    pub const fn f0_max() -> u8 {
        7
    }

    pub const fn f1_min() -> u8 {
        0
    }

    pub const fn f1_max() -> u8 {
        7
    }

    pub const fn f2_min() -> u8 {
        0
    }

    pub const fn f2_max() -> u8 {
        7
    }

    pub const fn f3_min() -> u8 {
        0
    }

    pub const fn f3_max() -> u8 {
        7
    }
}

#[asn(set)]

#[derive(Default, Debug, Clone, PartialEq, Hash)]
pub struct Tt4odddn {
    #[asn(optional(integer(0..7)))] pub f0: Option<u8>,
    #[asn(default(integer(0..7), 5))] pub f1: u8,
    #[asn(default(integer(0..7), 5))] pub f2: u8,
    #[asn(default(integer(0..7), 5))] pub f3: u8,
}

impl Tt4odddn {
    pub const fn f0_min() -> u8 {
        0
    }

    pub const fn f0_max() -> u8 {
        7
    }

    pub const fn f1_min() -> u8 {
        0
    }

    pub const fn f1_max() -> u8 {
        7
    }

    pub const fn f2_min() -> u8 {
        0
    }

    pub const fn f2_max() -> u8 {
        7
    }

    pub const fn f3_min() -> u8 {
        0
    }

    pub const fn f3_max() -> u8 {
        7
    }
}

#[asn(set, extensible_after(f0))]

#[derive(Default, Debug, Clone, PartialEq, Hash)]
pub struct Tt4oddde0 {
    #[asn(optional(integer(0..7)))] pub f0: Option<u8>,
    #[asn(default(integer(0..7), 5))] pub f1: u8,
    #[asn(default(integer(0..7), 5))] pub f2: u8,
    #[asn(default(integer(0..7), 5))] pub f3: u8,
}

impl Tt4oddde0 {
    pub const fn f0_min() -> u8 {
        0
    }

    pub const fn f0_max() -> u8 {
        7
    }

    pub const fn f1_min() -> u8 {
        0
    }

    pub const fn f1_max() -> u8 {
        7
    }

    pub const fn f2_min() -> u8 {
        0
    }

    pub const fn f2_max() -> u8 {
        7
    }

    pub const fn f3_min() -> u8 {
        0
    }

    pub const fn f3_max() -> u8 {
        7
    }
}

#[asn(set, extensible_after(f0))]

#[derive(Default, Debug, Clone, PartialEq, Hash)]
pub struct Tt4oddde1 {
    #[asn(optional(integer(0..7)))] pub f0: Option<u8>,
    #[asn(default(integer(0..7), 5))] pub f1: u8,
    #[asn(default(integer(0..7), 5))] pub f2: u8,
    #[asn(default(integer(0..7), 5))] pub f3: u8,
}

impl Tt4oddde1 {
    pub const fn f0_min() -> u8 {
        0
    }

    pub const fn f0_max() -> u8 {
        7
    }

    pub const fn f1_min() -> u8 {
        0
    }

    pub const fn f1_max() -> u8 {
        7
    }

    pub const fn f2_min() -> u8 {
        0
    }

    pub const fn f2_max() -> u8 {
        7
    }

    pub const fn f3_min() -> u8 {
        0
    }

    pub const fn f3_max() -> u8 {
        7
    }
}

#[asn(set, extensible_after(f1))]

#[derive(Default, Debug, Clone, PartialEq, Hash)]
pub struct Tt4oddde2 {
    #[asn(optional(integer(0..7)))] pub f0: Option<u8>,
    #[asn(default(integer(0..7), 5))] pub f1: u8,
    #[asn(default(integer(0..7), 5))] pub f2: u8,
    #[asn(default(integer(0..7), 5))] pub f3: u8,
}

impl Tt4oddde2 {
    pub const fn f0_min() -> u8 {
        0
    }

    pub const fn f0_max() -> u8 {
        7
    }

    pub const fn f1_min() -> u8 {
        0
    }

    pub const fn f1_max() -> u8 {
        7
    }

    pub const fn f2_min() -> u8 {
        0
    }

    pub const fn f2_max() -> u8 {
        7
    }

    pub const fn f3_min() -> u8 {
        0
    }

    pub const fn f3_max() -> u8 {
        7
    }
}

#[asn(set, extensible_after(f2))]

#[derive(Default, Debug, Clone, PartialEq, Hash)]
pub struct Tt4oddde3 {
    #[asn(optional(integer(0..7)))] pub f0: Option<u8>,
    #[asn(default(integer(0..7), 5))] pub f1: u8,
    #[asn(default(integer(0..7), 5))] pub f2: u8,
    #[asn(default(integer(0..7), 5))] pub f3: u8,
}

impl Tt4oddde3 {
    pub const fn f0_min() -> u8 {
        0
    }

    pub const fn f0_max() -> u8 {
        7
    }

    pub const fn f1_min() -> u8 {
        0
    }

    pub const fn f1_max() -> u8 {
        7
    }

    pub const fn f2_min() -> u8 {
        0
    }

    pub const fn f2_max() -> u8 {
        7
    }

    pub const fn f3_min() -> u8 {
        0
    }

    pub const fn f3_max() -> u8 {
        7
    }
}

#[asn(set, extensible_after(f3))]

#[derive(Default, Debug, Clone, PartialEq, Hash)]
pub struct Tt4oddde4 {
    #[asn(optional(integer(0..7)))] pub f0: Option<u8>,
    #[asn(default(integer(0..7), 5))] pub f1: u8,
    #[asn(default(integer(0..7), 5))] pub f2: u8,
    #[asn(default(integer(0..7), 5))] pub f3: u8,
}

impl Tt4oddde4 {
    pub const fn f0_min() -> u8 {
        0
    }

    pub const fn f0_max() -> u8 {
        7
    }

    pub const fn f1_min() -> u8 {
        0
    }

    pub const fn f1_max() -> u8 {
        7
    }

    pub const fn f2_min() -> u8 {
        0
    }

    pub const fn f2_max() -> u8 {
        7
    }

    pub const fn f3_min() -> u8 {
        0
    }

    pub const fn f3_max() -> u8 {
        7
    }
}
// ---- harness conversions (generated by the zoo build script from the items above) ----
impl FromValue for Tt4mdmdn {
    fn from_value(v: &Value) -> Self {
        let s = match v { Value::Seq(s) => s, other => panic!("Tt4mdmdn: expected Seq, got {other:?}") };
        assert_eq!(s.len(), 4, "Tt4mdmdn: component count");
        let _ = s;
        Tt4mdmdn {
            f0: FromValue::from_value(s[0].as_ref().expect("component f0 of Tt4mdmdn must be present")),
            f1: FromValue::from_value(s[1].as_ref().expect("component f1 of Tt4mdmdn must be present")),
            f2: FromValue::from_value(s[2].as_ref().expect("component f2 of Tt4mdmdn must be present")),
            f3: FromValue::from_value(s[3].as_ref().expect("component f3 of Tt4mdmdn must be present")),
        }
    }
}
impl ToValue for Tt4mdmdn {
    fn to_value(&self) -> Value {
        Value::Seq(vec![
            Some(self.f0.to_value()),
            Some(self.f1.to_value()),
            Some(self.f2.to_value()),
            Some(self.f3.to_value()),
        ])
    }
}
impl FromValue for Tt4mdmde0 {
    fn from_value(v: &Value) -> Self {
        let s = match v { Value::Seq(s) => s, other => panic!("Tt4mdmde0: expected Seq, got {other:?}") };
        assert_eq!(s.len(), 4, "Tt4mdmde0: component count");
        let _ = s;
        Tt4mdmde0 {
            f0: FromValue::from_value(s[0].as_ref().expect("component f0 of Tt4mdmde0 must be present")),
            f1: FromValue::from_value(s[1].as_ref().expect("component f1 of Tt4mdmde0 must be present")),
            f2: s[2].as_ref().map(FromValue::from_value),
            f3: FromValue::from_value(s[3].as_ref().expect("component f3 of Tt4mdmde0 must be present")),
        }
    }
}
impl ToValue for Tt4mdmde0 {
    fn to_value(&self) -> Value {
        Value::Seq(vec![
            Some(self.f0.to_value()),
            Some(self.f1.to_value()),
            self.f2.as_ref().map(|x| x.to_value()),
            Some(self.f3.to_value()),
        ])
    }
}
impl FromValue for Tt4mdmde1 {
    fn from_value(v: &Value) -> Self {
        let s = match v { Value::Seq(s) => s, other => panic!("Tt4mdmde1: expected Seq, got {other:?}") };
        assert_eq!(s.len(), 4, "Tt4mdmde1: component count");
        let _ = s;
        Tt4mdmde1 {
            f0: FromValue::from_value(s[0].as_ref().expect("component f0 of Tt4mdmde1 must be present")),
            f1: FromValue::from_value(s[1].as_ref().expect("component f1 of Tt4mdmde1 must be present")),
            f2: s[2].as_ref().map(FromValue::from_value),
            f3: FromValue::from_value(s[3].as_ref().expect("component f3 of Tt4mdmde1 must be present")),
        }
    }
}
impl ToValue for Tt4mdmde1 {
    fn to_value(&self) -> Value {
        Value::Seq(vec![
            Some(self.f0.to_value()),
            Some(self.f1.to_value()),
            self.f2.as_ref().map(|x| x.to_value()),
            Some(self.f3.to_value()),
        ])
    }
}
impl FromValue for Tt4mdmde2 {
    fn from_value(v: &Value) -> Self {
        let s = match v { Value::Seq(s) => s, other => panic!("Tt4mdmde2: expected Seq, got {other:?}") };
        assert_eq!(s.len(), 4, "Tt4mdmde2: component count");
        let _ = s;
        Tt4mdmde2 {
            f0: FromValue::from_value(s[0].as_ref().expect("component f0 of Tt4mdmde2 must be present")),
            f1: FromValue::from_value(s[1].as_ref().expect("component f1 of Tt4mdmde2 must be present")),
            f2: s[2].as_ref().map(FromValue::from_value),
            f3: FromValue::from_value(s[3].as_ref().expect("component f3 of Tt4mdmde2 must be present")),
        }
    }
}
impl ToValue for Tt4mdmde2 {
    fn to_value(&self) -> Value {
        Value::Seq(vec![
            Some(self.f0.to_value()),
            Some(self.f1.to_value()),
            self.f2.as_ref().map(|x| x.to_value()),
            Some(self.f3.to_value()),
        ])
    }
}
impl FromValue for Tt4mdmde3 {
    fn from_value(v: &Value) -> Self {
        let s = match v { Value::Seq(s) => s, other => panic!("Tt4mdmde3: expected Seq, got {other:?}") };
        assert_eq!(s.len(), 4, "Tt4mdmde3: component count");
        let _ = s;
        Tt4mdmde3 {
            f0: FromValue::from_value(s[0].as_ref().expect("component f0 of Tt4mdmde3 must be present")),
            f1: FromValue::from_value(s[1].as_ref().expect("component f1 of Tt4mdmde3 must be present")),
            f2: FromValue::from_value(s[2].as_ref().expect("component f2 of Tt4mdmde3 must be present")),
            f3: FromValue::from_value(s[3].as_ref().expect("component f3 of Tt4mdmde3 must be present")),
        }
    }
}
impl ToValue for Tt4mdmde3 {
    fn to_value(&self) -> Value {
        Value::Seq(vec![
            Some(self.f0.to_value()),
            Some(self.f1.to_value()),
            Some(self.f2.to_value()),
            Some(self.f3.to_value()),
        ])
    }
}
impl FromValue for Tt4mdmde4 {
    fn from_value(v: &Value) -> Self {
        let s = match v { Value::Seq(s) => s, other => panic!("Tt4mdmde4: expected Seq, got {other:?}") };
        assert_eq!(s.len(), 4, "Tt4mdmde4: component count");
        let _ = s;
        Tt4mdmde4 {
            f0: FromValue::from_value(s[0].as_ref().expect("component f0 of Tt4mdmde4 must be present")),
            f1: FromValue::from_value(s[1].as_ref().expect("component f1 of Tt4mdmde4 must be present")),
            f2: FromValue::from_value(s[2].as_ref().expect("component f2 of Tt4mdmde4 must be present")),
            f3: FromValue::from_value(s[3].as_ref().expect("component f3 of Tt4mdmde4 must be present")),
        }
    }
}
impl ToValue for Tt4mdmde4 {
    fn to_value(&self) -> Value {
        Value::Seq(vec![
            Some(self.f0.to_value()),
            Some(self.f1.to_value()),
            Some(self.f2.to_value()),
            Some(self.f3.to_value()),
        ])
    }
}
impl FromValue for Tt4odmdn {
    fn from_value(v: &Value) -> Self {
        let s = match v { Value::Seq(s) => s, other => panic!("Tt4odmdn: expected Seq, got {other:?}") };
        assert_eq!(s.len(), 4, "Tt4odmdn: component count");
        let _ = s;
        Tt4odmdn {
            f0: s[0].as_ref().map(FromValue::from_value),
            f1: FromValue::from_value(s[1].as_ref().expect("component f1 of Tt4odmdn must be present")),
            f2: FromValue::from_value(s[2].as_ref().expect("component f2 of Tt4odmdn must be present")),
            f3: FromValue::from_value(s[3].as_ref().expect("component f3 of Tt4odmdn must be present")),
        }
    }
}
impl ToValue for Tt4odmdn {
    fn to_value(&self) -> Value {
        Value::Seq(vec![
            self.f0.as_ref().map(|x| x.to_value()),
            Some(self.f1.to_value()),
            Some(self.f2.to_value()),
            Some(self.f3.to_value()),
        ])
    }
}
impl FromValue for Tt4odmde0 {
    fn from_value(v: &Value) -> Self {
        let s = match v { Value::Seq(s) => s, other => panic!("Tt4odmde0: expected Seq, got {other:?}") };
        assert_eq!(s.len(), 4, "Tt4odmde0: component count");
        let _ = s;
        Tt4odmde0 {
            f0: s[0].as_ref().map(FromValue::from_value),
            f1: FromValue::from_value(s[1].as_ref().expect("component f1 of Tt4odmde0 must be present")),
            f2: s[2].as_ref().map(FromValue::from_value),
            f3: FromValue::from_value(s[3].as_ref().expect("component f3 of Tt4odmde0 must be present")),
        }
    }
}
impl ToValue for Tt4odmde0 {
    fn to_value(&self) -> Value {
        Value::Seq(vec![
            self.f0.as_ref().map(|x| x.to_value()),
            Some(self.f1.to_value()),
            self.f2.as_ref().map(|x| x.to_value()),
            Some(self.f3.to_value()),
        ])
    }
}
impl FromValue for Tt4odmde1 {
    fn from_value(v: &Value) -> Self {
        let s = match v { Value::Seq(s) => s, other => panic!("Tt4odmde1: expected Seq, got {other:?}") };
        assert_eq!(s.len(), 4, "Tt4odmde1: component count");
        let _ = s;
        Tt4odmde1 {
            f0: s[0].as_ref().map(FromValue::from_value),
            f1: FromValue::from_value(s[1].as_ref().expect("component f1 of Tt4odmde1 must be present")),
            f2: s[2].as_ref().map(FromValue::from_value),
            f3: FromValue::from_value(s[3].as_ref().expect("component f3 of Tt4odmde1 must be present")),
        }
    }
}
impl ToValue for Tt4odmde1 {
    fn to_value(&self) -> Value {
        Value::Seq(vec![
            self.f0.as_ref().map(|x| x.to_value()),
            Some(self.f1.to_value()),
            self.f2.as_ref().map(|x| x.to_value()),
            Some(self.f3.to_value()),
        ])
    }
}
impl FromValue for Tt4odmde2 {
    fn from_value(v: &Value) -> Self {
        let s = match v { Value::Seq(s) => s, other => panic!("Tt4odmde2: expected Seq, got {other:?}") };
        assert_eq!(s.len(), 4, "Tt4odmde2: component count");
        let _ = s;
        Tt4odmde2 {
            f0: s[0].as_ref().map(FromValue::from_value),
            f1: FromValue::from_value(s[1].as_ref().expect("component f1 of Tt4odmde2 must be present")),
            f2: s[2].as_ref().map(FromValue::from_value),
            f3: FromValue::from_value(s[3].as_ref().expect("component f3 of Tt4odmde2 must be present")),
        }
    }
}
impl ToValue for Tt4odmde2 {
    fn to_value(&self) -> Value {
        Value::Seq(vec![
            self.f0.as_ref().map(|x| x.to_value()),
            Some(self.f1.to_value()),
            self.f2.as_ref().map(|x| x.to_value()),
            Some(self.f3.to_value()),
        ])
    }
}
impl FromValue for Tt4odmde3 {
    fn from_value(v: &Value) -> Self {
        let s = match v { Value::Seq(s) => s, other => panic!("Tt4odmde3: expected Seq, got {other:?}") };
        assert_eq!(s.len(), 4, "Tt4odmde3: component count");
        let _ = s;
        Tt4odmde3 {
            f0: s[0].as_ref().map(FromValue::from_value),
            f1: FromValue::from_value(s[1].as_ref().expect("component f1 of Tt4odmde3 must be present")),
            f2: FromValue::from_value(s[2].as_ref().expect("component f2 of Tt4odmde3 must be present")),
            f3: FromValue::from_value(s[3].as_ref().expect("component f3 of Tt4odmde3 must be present")),
        }
    }
}
impl ToValue for Tt4odmde3 {
    fn to_value(&self) -> Value {
        Value::Seq(vec![
            self.f0.as_ref().map(|x| x.to_value()),
            Some(self.f1.to_value()),
            Some(self.f2.to_value()),
            Some(self.f3.to_value()),
        ])
    }
}
impl FromValue for Tt4odmde4 {
    fn from_value(v: &Value) -> Self {
        let s = match v { Value::Seq(s) => s, other => panic!("Tt4odmde4: expected Seq, got {other:?}") };
        assert_eq!(s.len(), 4, "Tt4odmde4: component count");
        let _ = s;
        Tt4odmde4 {
            f0: s[0].as_ref().map(FromValue::from_value),
            f1: FromValue::from_value(s[1].as_ref().expect("component f1 of Tt4odmde4 must be present")),
            f2: FromValue::from_value(s[2].as_ref().expect("component f2 of Tt4odmde4 must be present")),
            f3: FromValue::from_value(s[3].as_ref().expect("component f3 of Tt4odmde4 must be present")),
        }
    }
}
impl ToValue for Tt4odmde4 {
    fn to_value(&self) -> Value {
        Value::Seq(vec![
            self.f0.as_ref().map(|x| x.to_value()),
            Some(self.f1.to_value()),
            Some(self.f2.to_value()),
            Some(self.f3.to_value()),
        ])
    }
}
impl FromValue for Tt4ddmdn {
    fn from_value(v: &Value) -> Self {
        let s = match v { Value::Seq(s) => s, other => panic!("Tt4ddmdn: expected Seq, got {other:?}") };
        assert_eq!(s.len(), 4, "Tt4ddmdn: component count");
        let _ = s;
        Tt4ddmdn {
            f0: FromValue::from_value(s[0].as_ref().expect("component f0 of Tt4ddmdn must be present")),
            f1: FromValue::from_value(s[1].as_ref().expect("component f1 of Tt4ddmdn must be present")),
            f2: FromValue::from_value(s[2].as_ref().expect("component f2 of Tt4ddmdn must be present")),
            f3: FromValue::from_value(s[3].as_ref().expect("component f3 of Tt4ddmdn must be present")),
        }
    }
}
impl ToValue for Tt4ddmdn {
    fn to_value(&self) -> Value {
        Value::Seq(vec![
            Some(self.f0.to_value()),
            Some(self.f1.to_value()),
            Some(self.f2.to_value()),
            Some(self.f3.to_value()),
        ])
    }
}
impl FromValue for Tt4ddmde0 {
    fn from_value(v: &Value) -> Self {
        let s = match v { Value::Seq(s) => s, other => panic!("Tt4ddmde0: expected Seq, got {other:?}") };
        assert_eq!(s.len(), 4, "Tt4ddmde0: component count");
        let _ = s;
        Tt4ddmde0 {
            f0: FromValue::from_value(s[0].as_ref().expect("component f0 of Tt4ddmde0 must be present")),
            f1: FromValue::from_value(s[1].as_ref().expect("component f1 of Tt4ddmde0 must be present")),
            f2: s[2].as_ref().map(FromValue::from_value),
            f3: FromValue::from_value(s[3].as_ref().expect("component f3 of Tt4ddmde0 must be present")),
        }
    }
}
impl ToValue for Tt4ddmde0 {
    fn to_value(&self) -> Value {
        Value::Seq(vec![
            Some(self.f0.to_value()),
            Some(self.f1.to_value()),
            self.f2.as_ref().map(|x| x.to_value()),
            Some(self.f3.to_value()),
        ])
    }
}
impl FromValue for Tt4ddmde1 {
    fn from_value(v: &Value) -> Self {
        let s = match v { Value::Seq(s) => s, other => panic!("Tt4ddmde1: expected Seq, got {other:?}") };
        assert_eq!(s.len(), 4, "Tt4ddmde1: component count");
        let _ = s;
        Tt4ddmde1 {
            f0: FromValue::from_value(s[0].as_ref().expect("component f0 of Tt4ddmde1 must be present")),
            f1: FromValue::from_value(s[1].as_ref().expect("component f1 of Tt4ddmde1 must be present")),
            f2: s[2].as_ref().map(FromValue::from_value),
            f3: FromValue::from_value(s[3].as_ref().expect("component f3 of Tt4ddmde1 must be present")),
        }
    }
}
impl ToValue for Tt4ddmde1 {
    fn to_value(&self) -> Value {
        Value::Seq(vec![
            Some(self.f0.to_value()),
            Some(self.f1.to_value()),
            self.f2.as_ref().map(|x| x.to_value()),
            Some(self.f3.to_value()),
        ])
    }
}
impl FromValue for Tt4ddmde2 {
    fn from_value(v: &Value) -> Self {
        let s = match v { Value::Seq(s) => s, other => panic!("Tt4ddmde2: expected Seq, got {other:?}") };
        assert_eq!(s.len(), 4, "Tt4ddmde2: component count");
        let _ = s;
        Tt4ddmde2 {
            f0: FromValue::from_value(s[0].as_ref().expect("component f0 of Tt4ddmde2 must be present")),
            f1: FromValue::from_value(s[1].as_ref().expect("component f1 of Tt4ddmde2 must be present")),
            f2: s[2].as_ref().map(FromValue::from_value),
            f3: FromValue::from_value(s[3].as_ref().expect("component f3 of Tt4ddmde2 must be present")),
        }
    }
}
impl ToValue for Tt4ddmde2 {
    fn to_value(&self) -> Value {
        Value::Seq(vec![
            Some(self.f0.to_value()),
            Some(self.f1.to_value()),
            self.f2.as_ref().map(|x| x.to_value()),
            Some(self.f3.to_value()),
        ])
    }
}
impl FromValue for Tt4ddmde3 {
    fn from_value(v: &Value) -> Self {
        let s = match v { Value::Seq(s) => s, other => panic!("Tt4ddmde3: expected Seq, got {other:?}") };
        assert_eq!(s.len(), 4, "Tt4ddmde3: component count");
        let _ = s;
        Tt4ddmde3 {
            f0: FromValue::from_value(s[0].as_ref().expect("component f0 of Tt4ddmde3 must be present")),
            f1: FromValue::from_value(s[1].as_ref().expect("component f1 of Tt4ddmde3 must be present")),
            f2: FromValue::from_value(s[2].as_ref().expect("component f2 of Tt4ddmde3 must be present")),
            f3: FromValue::from_value(s[3].as_ref().expect("component f3 of Tt4ddmde3 must be present")),
        }
    }
}
impl ToValue for Tt4ddmde3 {
    fn to_value(&self) -> Value {
        Value::Seq(vec![
            Some(self.f0.to_value()),
            Some(self.f1.to_value()),
            Some(self.f2.to_value()),
            Some(self.f3.to_value()),
        ])
    }
}
impl FromValue for Tt4ddmde4 {
    fn from_value(v: &Value) -> Self {
        let s = match v { Value::Seq(s) => s, other => panic!("Tt4ddmde4: expected Seq, got {other:?}") };
        assert_eq!(s.len(), 4, "Tt4ddmde4: component count");
        let _ = s;
        Tt4ddmde4 {
            f0: FromValue::from_value(s[0].as_ref().expect("component f0 of Tt4ddmde4 must be present")),
            f1: FromValue::from_value(s[1].as_ref().expect("component f1 of Tt4ddmde4 must be present")),
            f2: FromValue::from_value(s[2].as_ref().expect("component f2 of Tt4ddmde4 must be present")),
            f3: FromValue::from_value(s[3].as_ref().expect("component f3 of Tt4ddmde4 must be present")),
        }
    }
}
impl ToValue for Tt4ddmde4 {
    fn to_value(&self) -> Value {
        Value::Seq(vec![
            Some(self.f0.to_value()),
            Some(self.f1.to_value()),
            Some(self.f2.to_value()),
            Some(self.f3.to_value()),
        ])
    }
}
impl FromValue for Tt4mmodn {
    fn from_value(v: &Value) -> Self {
        let s = match v { Value::Seq(s) => s, other => panic!("Tt4mmodn: expected Seq, got {other:?}") };
        assert_eq!(s.len(), 4, "Tt4mmodn: component count");
        let _ = s;
        Tt4mmodn {
            f0: FromValue::from_value(s[0].as_ref().expect("component f0 of Tt4mmodn must be present")),
            f1: FromValue::from_value(s[1].as_ref().expect("component f1 of Tt4mmodn must be present")),
            f2: s[2].as_ref().map(FromValue::from_value),
            f3: FromValue::from_value(s[3].as_ref().expect("component f3 of Tt4mmodn must be present")),
        }
    }
}
impl ToValue for Tt4mmodn {
    fn to_value(&self) -> Value {
        Value::Seq(vec![
            Some(self.f0.to_value()),
            Some(self.f1.to_value()),
            self.f2.as_ref().map(|x| x.to_value()),
            Some(self.f3.to_value()),
        ])
    }
}
impl FromValue for Tt4mmode0 {
    fn from_value(v: &Value) -> Self {
        let s = match v { Value::Seq(s) => s, other => panic!("Tt4mmode0: expected Seq, got {other:?}") };
        assert_eq!(s.len(), 4, "Tt4mmode0: component count");
        let _ = s;
        Tt4mmode0 {
            f0: FromValue::from_value(s[0].as_ref().expect("component f0 of Tt4mmode0 must be present")),
            f1: s[1].as_ref().map(FromValue::from_value),
            f2: s[2].as_ref().map(FromValue::from_value),
            f3: FromValue::from_value(s[3].as_ref().expect("component f3 of Tt4mmode0 must be present")),
        }
    }
}
impl ToValue for Tt4mmode0 {
    fn to_value(&self) -> Value {
        Value::Seq(vec![
            Some(self.f0.to_value()),
            self.f1.as_ref().map(|x| x.to_value()),
            self.f2.as_ref().map(|x| x.to_value()),
            Some(self.f3.to_value()),
        ])
    }
}
impl FromValue for Tt4mmode1 {
    fn from_value(v: &Value) -> Self {
        let s = match v { Value::Seq(s) => s, other => panic!("Tt4mmode1: expected Seq, got {other:?}") };
        assert_eq!(s.len(), 4, "Tt4mmode1: component count");
        let _ = s;
        Tt4mmode1 {
            f0: FromValue::from_value(s[0].as_ref().expect("component f0 of Tt4mmode1 must be present")),
            f1: s[1].as_ref().map(FromValue::from_value),
            f2: s[2].as_ref().map(FromValue::from_value),
            f3: FromValue::from_value(s[3].as_ref().expect("component f3 of Tt4mmode1 must be present")),
        }
    }
}
impl ToValue for Tt4mmode1 {
    fn to_value(&self) -> Value {
        Value::Seq(vec![
            Some(self.f0.to_value()),
            self.f1.as_ref().map(|x| x.to_value()),
            self.f2.as_ref().map(|x| x.to_value()),
            Some(self.f3.to_value()),
        ])
    }
}
impl FromValue for Tt4mmode2 {
    fn from_value(v: &Value) -> Self {
        let s = match v { Value::Seq(s) => s, other => panic!("Tt4mmode2: expected Seq, got {other:?}") };
        assert_eq!(s.len(), 4, "Tt4mmode2: component count");
        let _ = s;
        Tt4mmode2 {
            f0: FromValue::from_value(s[0].as_ref().expect("component f0 of Tt4mmode2 must be present")),
            f1: FromValue::from_value(s[1].as_ref().expect("component f1 of Tt4mmode2 must be present")),
            f2: s[2].as_ref().map(FromValue::from_value),
            f3: FromValue::from_value(s[3].as_ref().expect("component f3 of Tt4mmode2 must be present")),
        }
    }
}
impl ToValue for Tt4mmode2 {
    fn to_value(&self) -> Value {
        Value::Seq(vec![
            Some(self.f0.to_value()),
            Some(self.f1.to_value()),
            self.f2.as_ref().map(|x| x.to_value()),
            Some(self.f3.to_value()),
        ])
    }
}
impl FromValue for Tt4mmode3 {
    fn from_value(v: &Value) -> Self {
        let s = match v { Value::Seq(s) => s, other => panic!("Tt4mmode3: expected Seq, got {other:?}") };
        assert_eq!(s.len(), 4, "Tt4mmode3: component count");
        let _ = s;
        Tt4mmode3 {
            f0: FromValue::from_value(s[0].as_ref().expect("component f0 of Tt4mmode3 must be present")),
            f1: FromValue::from_value(s[1].as_ref().expect("component f1 of Tt4mmode3 must be present")),
            f2: s[2].as_ref().map(FromValue::from_value),
            f3: FromValue::from_value(s[3].as_ref().expect("component f3 of Tt4mmode3 must be present")),
        }
    }
}
impl ToValue for Tt4mmode3 {
    fn to_value(&self) -> Value {
        Value::Seq(vec![
            Some(self.f0.to_value()),
            Some(self.f1.to_value()),
            self.f2.as_ref().map(|x| x.to_value()),
            Some(self.f3.to_value()),
        ])
    }
}
impl FromValue for Tt4mmode4 {
    fn from_value(v: &Value) -> Self {
        let s = match v { Value::Seq(s) => s, other => panic!("Tt4mmode4: expected Seq, got {other:?}") };
        assert_eq!(s.len(), 4, "Tt4mmode4: component count");
        let _ = s;
        Tt4mmode4 {
            f0: FromValue::from_value(s[0].as_ref().expect("component f0 of Tt4mmode4 must be present")),
            f1: FromValue::from_value(s[1].as_ref().expect("component f1 of Tt4mmode4 must be present")),
            f2: s[2].as_ref().map(FromValue::from_value),
            f3: FromValue::from_value(s[3].as_ref().expect("component f3 of Tt4mmode4 must be present")),
        }
    }
}
impl ToValue for Tt4mmode4 {
    fn to_value(&self) -> Value {
        Value::Seq(vec![
            Some(self.f0.to_value()),
            Some(self.f1.to_value()),
            self.f2.as_ref().map(|x| x.to_value()),
            Some(self.f3.to_value()),
        ])
    }
}
impl FromValue for Tt4omodn {
    fn from_value(v: &Value) -> Self {
        let s = match v { Value::Seq(s) => s, other => panic!("Tt4omodn: expected Seq, got {other:?}") };
        assert_eq!(s.len(), 4, "Tt4omodn: component count");
        let _ = s;
        Tt4omodn {
            f0: s[0].as_ref().map(FromValue::from_value),
            f1: FromValue::from_value(s[1].as_ref().expect("component f1 of Tt4omodn must be present")),
            f2: s[2].as_ref().map(FromValue::from_value),
            f3: FromValue::from_value(s[3].as_ref().expect("component f3 of Tt4omodn must be present")),
        }
    }
}
impl ToValue for Tt4omodn {
    fn to_value(&self) -> Value {
        Value::Seq(vec![
            self.f0.as_ref().map(|x| x.to_value()),
            Some(self.f1.to_value()),
            self.f2.as_ref().map(|x| x.to_value()),
            Some(self.f3.to_value()),
        ])
    }
}
impl FromValue for Tt4omode0 {
    fn from_value(v: &Value) -> Self {
        let s = match v { Value::Seq(s) => s, other => panic!("Tt4omode0: expected Seq, got {other:?}") };
        assert_eq!(s.len(), 4, "Tt4omode0: component count");
        let _ = s;
        Tt4omode0 {
            f0: s[0].as_ref().map(FromValue::from_value),
            f1: s[1].as_ref().map(FromValue::from_value),
            f2: s[2].as_ref().map(FromValue::from_value),
            f3: FromValue::from_value(s[3].as_ref().expect("component f3 of Tt4omode0 must be present")),
        }
    }
}
impl ToValue for Tt4omode0 {
    fn to_value(&self) -> Value {
        Value::Seq(vec![
            self.f0.as_ref().map(|x| x.to_value()),
            self.f1.as_ref().map(|x| x.to_value()),
            self.f2.as_ref().map(|x| x.to_value()),
            Some(self.f3.to_value()),
        ])
    }
}
impl FromValue for Tt4omode1 {
    fn from_value(v: &Value) -> Self {
        let s = match v { Value::Seq(s) => s, other => panic!("Tt4omode1: expected Seq, got {other:?}") };
        assert_eq!(s.len(), 4, "Tt4omode1: component count");
        let _ = s;
        Tt4omode1 {
            f0: s[0].as_ref().map(FromValue::from_value),
            f1: s[1].as_ref().map(FromValue::from_value),
            f2: s[2].as_ref().map(FromValue::from_value),
            f3: FromValue::from_value(s[3].as_ref().expect("component f3 of Tt4omode1 must be present")),
        }
    }
}
impl ToValue for Tt4omode1 {
    fn to_value(&self) -> Value {
        Value::Seq(vec![
            self.f0.as_ref().map(|x| x.to_value()),
            self.f1.as_ref().map(|x| x.to_value()),
            self.f2.as_ref().map(|x| x.to_value()),
            Some(self.f3.to_value()),
        ])
    }
}
impl FromValue for Tt4omode2 {
    fn from_value(v: &Value) -> Self {
        let s = match v { Value::Seq(s) => s, other => panic!("Tt4omode2: expected Seq, got {other:?}") };
        assert_eq!(s.len(), 4, "Tt4omode2: component count");
        let _ = s;
        Tt4omode2 {
            f0: s[0].as_ref().map(FromValue::from_value),
            f1: FromValue::from_value(s[1].as_ref().expect("component f1 of Tt4omode2 must be present")),
            f2: s[2].as_ref().map(FromValue::from_value),
            f3: FromValue::from_value(s[3].as_ref().expect("component f3 of Tt4omode2 must be present")),
        }
    }
}
impl ToValue for Tt4omode2 {
    fn to_value(&self) -> Value {
        Value::Seq(vec![
            self.f0.as_ref().map(|x| x.to_value()),
            Some(self.f1.to_value()),
            self.f2.as_ref().map(|x| x.to_value()),
            Some(self.f3.to_value()),
        ])
    }
}
impl FromValue for Tt4omode3 {
    fn from_value(v: &Value) -> Self {
        let s = match v { Value::Seq(s) => s, other => panic!("Tt4omode3: expected Seq, got {other:?}") };
        assert_eq!(s.len(), 4, "Tt4omode3: component count");
        let _ = s;
        Tt4omode3 {
            f0: s[0].as_ref().map(FromValue::from_value),
            f1: FromValue::from_value(s[1].as_ref().expect("component f1 of Tt4omode3 must be present")),
            f2: s[2].as_ref().map(FromValue::from_value),
            f3: FromValue::from_value(s[3].as_ref().expect("component f3 of Tt4omode3 must be present")),
        }
    }
}
impl ToValue for Tt4omode3 {
    fn to_value(&self) -> Value {
        Value::Seq(vec![
            self.f0.as_ref().map(|x| x.to_value()),
            Some(self.f1.to_value()),
            self.f2.as_ref().map(|x| x.to_value()),
            Some(self.f3.to_value()),
        ])
    }
}
impl FromValue for Tt4omode4 {
    fn from_value(v: &Value) -> Self {
        let s = match v { Value::Seq(s) => s, other => panic!("Tt4omode4: expected Seq, got {other:?}") };
        assert_eq!(s.len(), 4, "Tt4omode4: component count");
        let _ = s;
        Tt4omode4 {
            f0: s[0].as_ref().map(FromValue::from_value),
            f1: FromValue::from_value(s[1].as_ref().expect("component f1 of Tt4omode4 must be present")),
            f2: s[2].as_ref().map(FromValue::from_value),
            f3: FromValue::from_value(s[3].as_ref().expect("component f3 of Tt4omode4 must be present")),
        }
    }
}
impl ToValue for Tt4omode4 {
    fn to_value(&self) -> Value {
        Value::Seq(vec![
            self.f0.as_ref().map(|x| x.to_value()),
            Some(self.f1.to_value()),
            self.f2.as_ref().map(|x| x.to_value()),
            Some(self.f3.to_value()),
        ])
    }
}
impl FromValue for Tt4dmodn {
    fn from_value(v: &Value) -> Self {
        let s = match v { Value::Seq(s) => s, other => panic!("Tt4dmodn: expected Seq, got {other:?}") };
        assert_eq!(s.len(), 4, "Tt4dmodn: component count");
        let _ = s;
        Tt4dmodn {
            f0: FromValue::from_value(s[0].as_ref().expect("component f0 of Tt4dmodn must be present")),
            f1: FromValue::from_value(s[1].as_ref().expect("component f1 of Tt4dmodn must be present")),
            f2: s[2].as_ref().map(FromValue::from_value),
            f3: FromValue::from_value(s[3].as_ref().expect("component f3 of Tt4dmodn must be present")),
        }
    }
}
impl ToValue for Tt4dmodn {
    fn to_value(&self) -> Value {
        Value::Seq(vec![
            Some(self.f0.to_value()),
            Some(self.f1.to_value()),
            self.f2.as_ref().map(|x| x.to_value()),
            Some(self.f3.to_value()),
        ])
    }
}
impl FromValue for Tt4dmode0 {
    fn from_value(v: &Value) -> Self {
        let s = match v { Value::Seq(s) => s, other => panic!("Tt4dmode0: expected Seq, got {other:?}") };
        assert_eq!(s.len(), 4, "Tt4dmode0: component count");
        let _ = s;
        Tt4dmode0 {
            f0: FromValue::from_value(s[0].as_ref().expect("component f0 of Tt4dmode0 must be present")),
            f1: s[1].as_ref().map(FromValue::from_value),
            f2: s[2].as_ref().map(FromValue::from_value),
            f3: FromValue::from_value(s[3].as_ref().expect("component f3 of Tt4dmode0 must be present")),
        }
    }
}
impl ToValue for Tt4dmode0 {
    fn to_value(&self) -> Value {
        Value::Seq(vec![
            Some(self.f0.to_value()),
            self.f1.as_ref().map(|x| x.to_value()),
            self.f2.as_ref().map(|x| x.to_value()),
            Some(self.f3.to_value()),
        ])
    }
}
impl FromValue for Tt4dmode1 {
    fn from_value(v: &Value) -> Self {
        let s = match v { Value::Seq(s) => s, other => panic!("Tt4dmode1: expected Seq, got {other:?}") };
        assert_eq!(s.len(), 4, "Tt4dmode1: component count");
        let _ = s;
        Tt4dmode1 {
            f0: FromValue::from_value(s[0].as_ref().expect("component f0 of Tt4dmode1 must be present")),
            f1: s[1].as_ref().map(FromValue::from_value),
            f2: s[2].as_ref().map(FromValue::from_value),
            f3: FromValue::from_value(s[3].as_ref().expect("component f3 of Tt4dmode1 must be present")),
        }
    }
}
impl ToValue for Tt4dmode1 {
    fn to_value(&self) -> Value {
        Value::Seq(vec![
            Some(self.f0.to_value()),
            self.f1.as_ref().map(|x| x.to_value()),
            self.f2.as_ref().map(|x| x.to_value()),
            Some(self.f3.to_value()),
        ])
    }
}
impl FromValue for Tt4dmode2 {
    fn from_value(v: &Value) -> Self {
        let s = match v { Value::Seq(s) => s, other => panic!("Tt4dmode2: expected Seq, got {other:?}") };
        assert_eq!(s.len(), 4, "Tt4dmode2: component count");
        let _ = s;
        Tt4dmode2 {
            f0: FromValue::from_value(s[0].as_ref().expect("component f0 of Tt4dmode2 must be present")),
            f1: FromValue::from_value(s[1].as_ref().expect("component f1 of Tt4dmode2 must be present")),
            f2: s[2].as_ref().map(FromValue::from_value),
            f3: FromValue::from_value(s[3].as_ref().expect("component f3 of Tt4dmode2 must be present")),
        }
    }
}
impl ToValue for Tt4dmode2 {
    fn to_value(&self) -> Value {
        Value::Seq(vec![
            Some(self.f0.to_value()),
            Some(self.f1.to_value()),
            self.f2.as_ref().map(|x| x.to_value()),
            Some(self.f3.to_value()),
        ])
    }
}
impl FromValue for Tt4dmode3 {
    fn from_value(v: &Value) -> Self {
        let s = match v { Value::Seq(s) => s, other => panic!("Tt4dmode3: expected Seq, got {other:?}") };
        assert_eq!(s.len(), 4, "Tt4dmode3: component count");
        let _ = s;
        Tt4dmode3 {
            f0: FromValue::from_value(s[0].as_ref().expect("component f0 of Tt4dmode3 must be present")),
            f1: FromValue::from_value(s[1].as_ref().expect("component f1 of Tt4dmode3 must be present")),
            f2: s[2].as_ref().map(FromValue::from_value),
            f3: FromValue::from_value(s[3].as_ref().expect("component f3 of Tt4dmode3 must be present")),
        }
    }
}
impl ToValue for Tt4dmode3 {
    fn to_value(&self) -> Value {
        Value::Seq(vec![
            Some(self.f0.to_value()),
            Some(self.f1.to_value()),
            self.f2.as_ref().map(|x| x.to_value()),
            Some(self.f3.to_value()),
        ])
    }
}
impl FromValue for Tt4dmode4 {
    fn from_value(v: &Value) -> Self {
        let s = match v { Value::Seq(s) => s, other => panic!("Tt4dmode4: expected Seq, got {other:?}") };
        assert_eq!(s.len(), 4, "Tt4dmode4: component count");
        let _ = s;
        Tt4dmode4 {
            f0: FromValue::from_value(s[0].as_ref().expect("component f0 of Tt4dmode4 must be present")),
            f1: FromValue::from_value(s[1].as_ref().expect("component f1 of Tt4dmode4 must be present")),
            f2: s[2].as_ref().map(FromValue::from_value),
            f3: FromValue::from_value(s[3].as_ref().expect("component f3 of Tt4dmode4 must be present")),
        }
    }
}
impl ToValue for Tt4dmode4 {
    fn to_value(&self) -> Value {
        Value::Seq(vec![
            Some(self.f0.to_value()),
            Some(self.f1.to_value()),
            self.f2.as_ref().map(|x| x.to_value()),
            Some(self.f3.to_value()),
        ])
    }
}
impl FromValue for Tt4moodn {
    fn from_value(v: &Value) -> Self {
        let s = match v { Value::Seq(s) => s, other => panic!("Tt4moodn: expected Seq, got {other:?}") };
        assert_eq!(s.len(), 4, "Tt4moodn: component count");
        let _ = s;
        Tt4moodn {
            f0: FromValue::from_value(s[0].as_ref().expect("component f0 of Tt4moodn must be present")),
            f1: s[1].as_ref().map(FromValue::from_value),
            f2: s[2].as_ref().map(FromValue::from_value),
            f3: FromValue::from_value(s[3].as_ref().expect("component f3 of Tt4moodn must be present")),
        }
    }
}
impl ToValue for Tt4moodn {
    fn to_value(&self) -> Value {
        Value::Seq(vec![
            Some(self.f0.to_value()),
            self.f1.as_ref().map(|x| x.to_value()),
            self.f2.as_ref().map(|x| x.to_value()),
            Some(self.f3.to_value()),
        ])
    }
}
impl FromValue for Tt4moode0 {
    fn from_value(v: &Value) -> Self {
        let s = match v { Value::Seq(s) => s, other => panic!("Tt4moode0: expected Seq, got {other:?}") };
        assert_eq!(s.len(), 4, "Tt4moode0: component count");
        let _ = s;
        Tt4moode0 {
            f0: FromValue::from_value(s[0].as_ref().expect("component f0 of Tt4moode0 must be present")),
            f1: s[1].as_ref().map(FromValue::from_value),
            f2: s[2].as_ref().map(FromValue::from_value),
            f3: FromValue::from_value(s[3].as_ref().expect("component f3 of Tt4moode0 must be present")),
        }
    }
}
impl ToValue for Tt4moode0 {
    fn to_value(&self) -> Value {
        Value::Seq(vec![
            Some(self.f0.to_value()),
            self.f1.as_ref().map(|x| x.to_value()),
            self.f2.as_ref().map(|x| x.to_value()),
            Some(self.f3.to_value()),
        ])
    }
}
impl FromValue for Tt4moode1 {
    fn from_value(v: &Value) -> Self {
        let s = match v { Value::Seq(s) => s, other => panic!("Tt4moode1: expected Seq, got {other:?}") };
        assert_eq!(s.len(), 4, "Tt4moode1: component count");
        let _ = s;
        Tt4moode1 {
            f0: FromValue::from_value(s[0].as_ref().expect("component f0 of Tt4moode1 must be present")),
            f1: s[1].as_ref().map(FromValue::from_value),
            f2: s[2].as_ref().map(FromValue::from_value),
            f3: FromValue::from_value(s[3].as_ref().expect("component f3 of Tt4moode1 must be present")),
        }
    }
}
impl ToValue for Tt4moode1 {
    fn to_value(&self) -> Value {
        Value::Seq(vec![
            Some(self.f0.to_value()),
            self.f1.as_ref().map(|x| x.to_value()),
            self.f2.as_ref().map(|x| x.to_value()),
            Some(self.f3.to_value()),
        ])
    }
}
impl FromValue for Tt4moode2 {
    fn from_value(v: &Value) -> Self {
        let s = match v { Value::Seq(s) => s, other => panic!("Tt4moode2: expected Seq, got {other:?}") };
        assert_eq!(s.len(), 4, "Tt4moode2: component count");
        let _ = s;
        Tt4moode2 {
            f0: FromValue::from_value(s[0].as_ref().expect("component f0 of Tt4moode2 must be present")),
            f1: s[1].as_ref().map(FromValue::from_value),
            f2: s[2].as_ref().map(FromValue::from_value),
            f3: FromValue::from_value(s[3].as_ref().expect("component f3 of Tt4moode2 must be present")),
        }
    }
}
impl ToValue for Tt4moode2 {
    fn to_value(&self) -> Value {
        Value::Seq(vec![
            Some(self.f0.to_value()),
            self.f1.as_ref().map(|x| x.to_value()),
            self.f2.as_ref().map(|x| x.to_value()),
            Some(self.f3.to_value()),
        ])
    }
}
impl FromValue for Tt4moode3 {
    fn from_value(v: &Value) -> Self {
        let s = match v { Value::Seq(s) => s, other => panic!("Tt4moode3: expected Seq, got {other:?}") };
        assert_eq!(s.len(), 4, "Tt4moode3: component count");
        let _ = s;
        Tt4moode3 {
            f0: FromValue::from_value(s[0].as_ref().expect("component f0 of Tt4moode3 must be present")),
            f1: s[1].as_ref().map(FromValue::from_value),
            f2: s[2].as_ref().map(FromValue::from_value),
            f3: FromValue::from_value(s[3].as_ref().expect("component f3 of Tt4moode3 must be present")),
        }
    }
}
impl ToValue for Tt4moode3 {
    fn to_value(&self) -> Value {
        Value::Seq(vec![
            Some(self.f0.to_value()),
            self.f1.as_ref().map(|x| x.to_value()),
            self.f2.as_ref().map(|x| x.to_value()),
            Some(self.f3.to_value()),
        ])
    }
}
impl FromValue for Tt4moode4 {
    fn from_value(v: &Value) -> Self {
        let s = match v { Value::Seq(s) => s, other => panic!("Tt4moode4: expected Seq, got {other:?}") };
        assert_eq!(s.len(), 4, "Tt4moode4: component count");
        let _ = s;
        Tt4moode4 {
            f0: FromValue::from_value(s[0].as_ref().expect("component f0 of Tt4moode4 must be present")),
            f1: s[1].as_ref().map(FromValue::from_value),
            f2: s[2].as_ref().map(FromValue::from_value),
            f3: FromValue::from_value(s[3].as_ref().expect("component f3 of Tt4moode4 must be present")),
        }
    }
}
impl ToValue for Tt4moode4 {
    fn to_value(&self) -> Value {
        Value::Seq(vec![
            Some(self.f0.to_value()),
            self.f1.as_ref().map(|x| x.to_value()),
            self.f2.as_ref().map(|x| x.to_value()),
            Some(self.f3.to_value()),
        ])
    }
}
impl FromValue for Tt4ooodn {
    fn from_value(v: &Value) -> Self {
        let s = match v { Value::Seq(s) => s, other => panic!("Tt4ooodn: expected Seq, got {other:?}") };
        assert_eq!(s.len(), 4, "Tt4ooodn: component count");
        let _ = s;
        Tt4ooodn {
            f0: s[0].as_ref().map(FromValue::from_value),
            f1: s[1].as_ref().map(FromValue::from_value),
            f2: s[2].as_ref().map(FromValue::from_value),
            f3: FromValue::from_value(s[3].as_ref().expect("component f3 of Tt4ooodn must be present")),
        }
    }
}
impl ToValue for Tt4ooodn {
    fn to_value(&self) -> Value {
        Value::Seq(vec![
            self.f0.as_ref().map(|x| x.to_value()),
            self.f1.as_ref().map(|x| x.to_value()),
            self.f2.as_ref().map(|x| x.to_value()),
            Some(self.f3.to_value()),
        ])
    }
}
impl FromValue for Tt4ooode0 {
    fn from_value(v: &Value) -> Self {
        let s = match v { Value::Seq(s) => s, other => panic!("Tt4ooode0: expected Seq, got {other:?}") };
        assert_eq!(s.len(), 4, "Tt4ooode0: component count");
        let _ = s;
        Tt4ooode0 {
            f0: s[0].as_ref().map(FromValue::from_value),
            f1: s[1].as_ref().map(FromValue::from_value),
            f2: s[2].as_ref().map(FromValue::from_value),
            f3: FromValue::from_value(s[3].as_ref().expect("component f3 of Tt4ooode0 must be present")),
        }
    }
}
impl ToValue for Tt4ooode0 {
    fn to_value(&self) -> Value {
        Value::Seq(vec![
            self.f0.as_ref().map(|x| x.to_value()),
            self.f1.as_ref().map(|x| x.to_value()),
            self.f2.as_ref().map(|x| x.to_value()),
            Some(self.f3.to_value()),
        ])
    }
}
impl FromValue for Tt4ooode1 {
    fn from_value(v: &Value) -> Self {
        let s = match v { Value::Seq(s) => s, other => panic!("Tt4ooode1: expected Seq, got {other:?}") };
        assert_eq!(s.len(), 4, "Tt4ooode1: component count");
        let _ = s;
        Tt4ooode1 {
            f0: s[0].as_ref().map(FromValue::from_value),
            f1: s[1].as_ref().map(FromValue::from_value),
            f2: s[2].as_ref().map(FromValue::from_value),
            f3: FromValue::from_value(s[3].as_ref().expect("component f3 of Tt4ooode1 must be present")),
        }
    }
}
impl ToValue for Tt4ooode1 {
    fn to_value(&self) -> Value {
        Value::Seq(vec![
            self.f0.as_ref().map(|x| x.to_value()),
            self.f1.as_ref().map(|x| x.to_value()),
            self.f2.as_ref().map(|x| x.to_value()),
            Some(self.f3.to_value()),
        ])
    }
}
impl FromValue for Tt4ooode2 {
    fn from_value(v: &Value) -> Self {
        let s = match v { Value::Seq(s) => s, other => panic!("Tt4ooode2: expected Seq, got {other:?}") };
        assert_eq!(s.len(), 4, "Tt4ooode2: component count");
        let _ = s;
        Tt4ooode2 {
            f0: s[0].as_ref().map(FromValue::from_value),
            f1: s[1].as_ref().map(FromValue::from_value),
            f2: s[2].as_ref().map(FromValue::from_value),
            f3: FromValue::from_value(s[3].as_ref().expect("component f3 of Tt4ooode2 must be present")),
        }
    }
}
impl ToValue for Tt4ooode2 {
    fn to_value(&self) -> Value {
        Value::Seq(vec![
            self.f0.as_ref().map(|x| x.to_value()),
            self.f1.as_ref().map(|x| x.to_value()),
            self.f2.as_ref().map(|x| x.to_value()),
            Some(self.f3.to_value()),
        ])
    }
}
impl FromValue for Tt4ooode3 {
    fn from_value(v: &Value) -> Self {
        let s = match v { Value::Seq(s) => s, other => panic!("Tt4ooode3: expected Seq, got {other:?}") };
        assert_eq!(s.len(), 4, "Tt4ooode3: component count");
        let _ = s;
        Tt4ooode3 {
            f0: s[0].as_ref().map(FromValue::from_value),
            f1: s[1].as_ref().map(FromValue::from_value),
            f2: s[2].as_ref().map(FromValue::from_value),
            f3: FromValue::from_value(s[3].as_ref().expect("component f3 of Tt4ooode3 must be present")),
        }
    }
}
impl ToValue for Tt4ooode3 {
    fn to_value(&self) -> Value {
        Value::Seq(vec![
            self.f0.as_ref().map(|x| x.to_value()),
            self.f1.as_ref().map(|x| x.to_value()),
            self.f2.as_ref().map(|x| x.to_value()),
            Some(self.f3.to_value()),
        ])
    }
}
impl FromValue for Tt4ooode4 {
    fn from_value(v: &Value) -> Self {
        let s = match v { Value::Seq(s) => s, other => panic!("Tt4ooode4: expected Seq, got {other:?}") };
        assert_eq!(s.len(), 4, "Tt4ooode4: component count");
        let _ = s;
        Tt4ooode4 {
            f0: s[0].as_ref().map(FromValue::from_value),
            f1: s[1].as_ref().map(FromValue::from_value),
            f2: s[2].as_ref().map(FromValue::from_value),
            f3: FromValue::from_value(s[3].as_ref().expect("component f3 of Tt4ooode4 must be present")),
        }
    }
}
impl ToValue for Tt4ooode4 {
    fn to_value(&self) -> Value {
        Value::Seq(vec![
            self.f0.as_ref().map(|x| x.to_value()),
            self.f1.as_ref().map(|x| x.to_value()),
            self.f2.as_ref().map(|x| x.to_value()),
            Some(self.f3.to_value()),
        ])
    }
}
impl FromValue for Tt4doodn {
    fn from_value(v: &Value) -> Self {
        let s = match v { Value::Seq(s) => s, other => panic!("Tt4doodn: expected Seq, got {other:?}") };
        assert_eq!(s.len(), 4, "Tt4doodn: component count");
        let _ = s;
        Tt4doodn {
            f0: FromValue::from_value(s[0].as_ref().expect("component f0 of Tt4doodn must be present")),
            f1: s[1].as_ref().map(FromValue::from_value),
            f2: s[2].as_ref().map(FromValue::from_value),
            f3: FromValue::from_value(s[3].as_ref().expect("component f3 of Tt4doodn must be present")),
        }
    }
}
impl ToValue for Tt4doodn {
    fn to_value(&self) -> Value {
        Value::Seq(vec![
            Some(self.f0.to_value()),
            self.f1.as_ref().map(|x| x.to_value()),
            self.f2.as_ref().map(|x| x.to_value()),
            Some(self.f3.to_value()),
        ])
    }
}
impl FromValue for Tt4doode0 {
    fn from_value(v: &Value) -> Self {
        let s = match v { Value::Seq(s) => s, other => panic!("Tt4doode0: expected Seq, got {other:?}") };
        assert_eq!(s.len(), 4, "Tt4doode0: component count");
        let _ = s;
        Tt4doode0 {
            f0: FromValue::from_value(s[0].as_ref().expect("component f0 of Tt4doode0 must be present")),
            f1: s[1].as_ref().map(FromValue::from_value),
            f2: s[2].as_ref().map(FromValue::from_value),
            f3: FromValue::from_value(s[3].as_ref().expect("component f3 of Tt4doode0 must be present")),
        }
    }
}
impl ToValue for Tt4doode0 {
    fn to_value(&self) -> Value {
        Value::Seq(vec![
            Some(self.f0.to_value()),
            self.f1.as_ref().map(|x| x.to_value()),
            self.f2.as_ref().map(|x| x.to_value()),
            Some(self.f3.to_value()),
        ])
    }
}
impl FromValue for Tt4doode1 {
    fn from_value(v: &Value) -> Self {
        let s = match v { Value::Seq(s) => s, other => panic!("Tt4doode1: expected Seq, got {other:?}") };
        assert_eq!(s.len(), 4, "Tt4doode1: component count");
        let _ = s;
        Tt4doode1 {
            f0: FromValue::from_value(s[0].as_ref().expect("component f0 of Tt4doode1 must be present")),
            f1: s[1].as_ref().map(FromValue::from_value),
            f2: s[2].as_ref().map(FromValue::from_value),
            f3: FromValue::from_value(s[3].as_ref().expect("component f3 of Tt4doode1 must be present")),
        }
    }
}
impl ToValue for Tt4doode1 {
    fn to_value(&self) -> Value {
        Value::Seq(vec![
            Some(self.f0.to_value()),
            self.f1.as_ref().map(|x| x.to_value()),
            self.f2.as_ref().map(|x| x.to_value()),
            Some(self.f3.to_value()),
        ])
    }
}
impl FromValue for Tt4doode2 {
    fn from_value(v: &Value) -> Self {
        let s = match v { Value::Seq(s) => s, other => panic!("Tt4doode2: expected Seq, got {other:?}") };
        assert_eq!(s.len(), 4, "Tt4doode2: component count");
        let _ = s;
        Tt4doode2 {
            f0: FromValue::from_value(s[0].as_ref().expect("component f0 of Tt4doode2 must be present")),
            f1: s[1].as_ref().map(FromValue::from_value),
            f2: s[2].as_ref().map(FromValue::from_value),
            f3: FromValue::from_value(s[3].as_ref().expect("component f3 of Tt4doode2 must be present")),
        }
    }
}
impl ToValue for Tt4doode2 {
    fn to_value(&self) -> Value {
        Value::Seq(vec![
            Some(self.f0.to_value()),
            self.f1.as_ref().map(|x| x.to_value()),
            self.f2.as_ref().map(|x| x.to_value()),
            Some(self.f3.to_value()),
        ])
    }
}
impl FromValue for Tt4doode3 {
    fn from_value(v: &Value) -> Self {
        let s = match v { Value::Seq(s) => s, other => panic!("Tt4doode3: expected Seq, got {other:?}") };
        assert_eq!(s.len(), 4, "Tt4doode3: component count");
        let _ = s;
        Tt4doode3 {
            f0: FromValue::from_value(s[0].as_ref().expect("component f0 of Tt4doode3 must be present")),
            f1: s[1].as_ref().map(FromValue::from_value),
            f2: s[2].as_ref().map(FromValue::from_value),
            f3: FromValue::from_value(s[3].as_ref().expect("component f3 of Tt4doode3 must be present")),
        }
    }
}
impl ToValue for Tt4doode3 {
    fn to_value(&self) -> Value {
        Value::Seq(vec![
            Some(self.f0.to_value()),
            self.f1.as_ref().map(|x| x.to_value()),
            self.f2.as_ref().map(|x| x.to_value()),
            Some(self.f3.to_value()),
        ])
    }
}
impl FromValue for Tt4doode4 {
    fn from_value(v: &Value) -> Self {
        let s = match v { Value::Seq(s) => s, other => panic!("Tt4doode4: expected Seq, got {other:?}") };
        assert_eq!(s.len(), 4, "Tt4doode4: component count");
        let _ = s;
        Tt4doode4 {
            f0: FromValue::from_value(s[0].as_ref().expect("component f0 of Tt4doode4 must be present")),
            f1: s[1].as_ref().map(FromValue::from_value),
            f2: s[2].as_ref().map(FromValue::from_value),
            f3: FromValue::from_value(s[3].as_ref().expect("component f3 of Tt4doode4 must be present")),
        }
    }
}
impl ToValue for Tt4doode4 {
    fn to_value(&self) -> Value {
        Value::Seq(vec![
            Some(self.f0.to_value()),
            self.f1.as_ref().map(|x| x.to_value()),
            self.f2.as_ref().map(|x| x.to_value()),
            Some(self.f3.to_value()),
        ])
    }
}
impl FromValue for Tt4mdodn {
    fn from_value(v: &Value) -> Self {
        let s = match v { Value::Seq(s) => s, other => panic!("Tt4mdodn: expected Seq, got {other:?}") };
        assert_eq!(s.len(), 4, "Tt4mdodn: component count");
        let _ = s;
        Tt4mdodn {
            f0: FromValue::from_value(s[0].as_ref().expect("component f0 of Tt4mdodn must be present")),
            f1: FromValue::from_value(s[1].as_ref().expect("component f1 of Tt4mdodn must be present")),
            f2: s[2].as_ref().map(FromValue::from_value),
            f3: FromValue::from_value(s[3].as_ref().expect("component f3 of Tt4mdodn must be present")),
        }
    }
}
impl ToValue for Tt4mdodn {
    fn to_value(&self) -> Value {
        Value::Seq(vec![
            Some(self.f0.to_value()),
            Some(self.f1.to_value()),
            self.f2.as_ref().map(|x| x.to_value()),
            Some(self.f3.to_value()),
        ])
    }
}
impl FromValue for Tt4mdode0 {
    fn from_value(v: &Value) -> Self {
        let s = match v { Value::Seq(s) => s, other => panic!("Tt4mdode0: expected Seq, got {other:?}") };
        assert_eq!(s.len(), 4, "Tt4mdode0: component count");
        let _ = s;
        Tt4mdode0 {
            f0: FromValue::from_value(s[0].as_ref().expect("component f0 of Tt4mdode0 must be present")),
            f1: FromValue::from_value(s[1].as_ref().expect("component f1 of Tt4mdode0 must be present")),
            f2: s[2].as_ref().map(FromValue::from_value),
            f3: FromValue::from_value(s[3].as_ref().expect("component f3 of Tt4mdode0 must be present")),
        }
    }
}
impl ToValue for Tt4mdode0 {
    fn to_value(&self) -> Value {
        Value::Seq(vec![
            Some(self.f0.to_value()),
            Some(self.f1.to_value()),
            self.f2.as_ref().map(|x| x.to_value()),
            Some(self.f3.to_value()),
        ])
    }
}
impl FromValue for Tt4mdode1 {
    fn from_value(v: &Value) -> Self {
        let s = match v { Value::Seq(s) => s, other => panic!("Tt4mdode1: expected Seq, got {other:?}") };
        assert_eq!(s.len(), 4, "Tt4mdode1: component count");
        let _ = s;
        Tt4mdode1 {
            f0: FromValue::from_value(s[0].as_ref().expect("component f0 of Tt4mdode1 must be present")),
            f1: FromValue::from_value(s[1].as_ref().expect("component f1 of Tt4mdode1 must be present")),
            f2: s[2].as_ref().map(FromValue::from_value),
            f3: FromValue::from_value(s[3].as_ref().expect("component f3 of Tt4mdode1 must be present")),
        }
    }
}
impl ToValue for Tt4mdode1 {
    fn to_value(&self) -> Value {
        Value::Seq(vec![
            Some(self.f0.to_value()),
            Some(self.f1.to_value()),
            self.f2.as_ref().map(|x| x.to_value()),
            Some(self.f3.to_value()),
        ])
    }
}
impl FromValue for Tt4mdode2 {
    fn from_value(v: &Value) -> Self {
        let s = match v { Value::Seq(s) => s, other => panic!("Tt4mdode2: expected Seq, got {other:?}") };
        assert_eq!(s.len(), 4, "Tt4mdode2: component count");
        let _ = s;
        Tt4mdode2 {
            f0: FromValue::from_value(s[0].as_ref().expect("component f0 of Tt4mdode2 must be present")),
            f1: FromValue::from_value(s[1].as_ref().expect("component f1 of Tt4mdode2 must be present")),
            f2: s[2].as_ref().map(FromValue::from_value),
            f3: FromValue::from_value(s[3].as_ref().expect("component f3 of Tt4mdode2 must be present")),
        }
    }
}
impl ToValue for Tt4mdode2 {
    fn to_value(&self) -> Value {
        Value::Seq(vec![
            Some(self.f0.to_value()),
            Some(self.f1.to_value()),
            self.f2.as_ref().map(|x| x.to_value()),
            Some(self.f3.to_value()),
        ])
    }
}
impl FromValue for Tt4mdode3 {
    fn from_value(v: &Value) -> Self {
        let s = match v { Value::Seq(s) => s, other => panic!("Tt4mdode3: expected Seq, got {other:?}") };
        assert_eq!(s.len(), 4, "Tt4mdode3: component count");
        let _ = s;
        Tt4mdode3 {
            f0: FromValue::from_value(s[0].as_ref().expect("component f0 of Tt4mdode3 must be present")),
            f1: FromValue::from_value(s[1].as_ref().expect("component f1 of Tt4mdode3 must be present")),
            f2: s[2].as_ref().map(FromValue::from_value),
            f3: FromValue::from_value(s[3].as_ref().expect("component f3 of Tt4mdode3 must be present")),
        }
    }
}
impl ToValue for Tt4mdode3 {
    fn to_value(&self) -> Value {
        Value::Seq(vec![
            Some(self.f0.to_value()),
            Some(self.f1.to_value()),
            self.f2.as_ref().map(|x| x.to_value()),
            Some(self.f3.to_value()),
        ])
    }
}
impl FromValue for Tt4mdode4 {
    fn from_value(v: &Value) -> Self {
        let s = match v { Value::Seq(s) => s, other => panic!("Tt4mdode4: expected Seq, got {other:?}") };
        assert_eq!(s.len(), 4, "Tt4mdode4: component count");
        let _ = s;
        Tt4mdode4 {
            f0: FromValue::from_value(s[0].as_ref().expect("component f0 of Tt4mdode4 must be present")),
            f1: FromValue::from_value(s[1].as_ref().expect("component f1 of Tt4mdode4 must be present")),
            f2: s[2].as_ref().map(FromValue::from_value),
            f3: FromValue::from_value(s[3].as_ref().expect("component f3 of Tt4mdode4 must be present")),
        }
    }
}
impl ToValue for Tt4mdode4 {
    fn to_value(&self) -> Value {
        Value::Seq(vec![
            Some(self.f0.to_value()),
            Some(self.f1.to_value()),
            self.f2.as_ref().map(|x| x.to_value()),
            Some(self.f3.to_value()),
        ])
    }
}
impl FromValue for Tt4ododn {
    fn from_value(v: &Value) -> Self {
        let s = match v { Value::Seq(s) => s, other => panic!("Tt4ododn: expected Seq, got {other:?}") };
        assert_eq!(s.len(), 4, "Tt4ododn: component count");
        let _ = s;
        Tt4ododn {
            f0: s[0].as_ref().map(FromValue::from_value),
            f1: FromValue::from_value(s[1].as_ref().expect("component f1 of Tt4ododn must be present")),
            f2: s[2].as_ref().map(FromValue::from_value),
            f3: FromValue::from_value(s[3].as_ref().expect("component f3 of Tt4ododn must be present")),
        }
    }
}
impl ToValue for Tt4ododn {
    fn to_value(&self) -> Value {
        Value::Seq(vec![
            self.f0.as_ref().map(|x| x.to_value()),
            Some(self.f1.to_value()),
            self.f2.as_ref().map(|x| x.to_value()),
            Some(self.f3.to_value()),
        ])
    }
}
impl FromValue for Tt4odode0 {
    fn from_value(v: &Value) -> Self {
        let s = match v { Value::Seq(s) => s, other => panic!("Tt4odode0: expected Seq, got {other:?}") };
        assert_eq!(s.len(), 4, "Tt4odode0: component count");
        let _ = s;
        Tt4odode0 {
            f0: s[0].as_ref().map(FromValue::from_value),
            f1: FromValue::from_value(s[1].as_ref().expect("component f1 of Tt4odode0 must be present")),
            f2: s[2].as_ref().map(FromValue::from_value),
            f3: FromValue::from_value(s[3].as_ref().expect("component f3 of Tt4odode0 must be present")),
        }
    }
}
impl ToValue for Tt4odode0 {
    fn to_value(&self) -> Value {
        Value::Seq(vec![
            self.f0.as_ref().map(|x| x.to_value()),
            Some(self.f1.to_value()),
            self.f2.as_ref().map(|x| x.to_value()),
            Some(self.f3.to_value()),
        ])
    }
}
impl FromValue for Tt4odode1 {
    fn from_value(v: &Value) -> Self {
        let s = match v { Value::Seq(s) => s, other => panic!("Tt4odode1: expected Seq, got {other:?}") };
        assert_eq!(s.len(), 4, "Tt4odode1: component count");
        let _ = s;
        Tt4odode1 {
            f0: s[0].as_ref().map(FromValue::from_value),
            f1: FromValue::from_value(s[1].as_ref().expect("component f1 of Tt4odode1 must be present")),
            f2: s[2].as_ref().map(FromValue::from_value),
            f3: FromValue::from_value(s[3].as_ref().expect("component f3 of Tt4odode1 must be present")),
        }
    }
}
impl ToValue for Tt4odode1 {
    fn to_value(&self) -> Value {
        Value::Seq(vec![
            self.f0.as_ref().map(|x| x.to_value()),
            Some(self.f1.to_value()),
            self.f2.as_ref().map(|x| x.to_value()),
            Some(self.f3.to_value()),
        ])
    }
}
impl FromValue for Tt4odode2 {
    fn from_value(v: &Value) -> Self {
        let s = match v { Value::Seq(s) => s, other => panic!("Tt4odode2: expected Seq, got {other:?}") };
        assert_eq!(s.len(), 4, "Tt4odode2: component count");
        let _ = s;
        Tt4odode2 {
            f0: s[0].as_ref().map(FromValue::from_value),
            f1: FromValue::from_value(s[1].as_ref().expect("component f1 of Tt4odode2 must be present")),
            f2: s[2].as_ref().map(FromValue::from_value),
            f3: FromValue::from_value(s[3].as_ref().expect("component f3 of Tt4odode2 must be present")),
        }
    }
}
impl ToValue for Tt4odode2 {
    fn to_value(&self) -> Value {
        Value::Seq(vec![
            self.f0.as_ref().map(|x| x.to_value()),
            Some(self.f1.to_value()),
            self.f2.as_ref().map(|x| x.to_value()),
            Some(self.f3.to_value()),
        ])
    }
}
impl FromValue for Tt4odode3 {
    fn from_value(v: &Value) -> Self {
        let s = match v { Value::Seq(s) => s, other => panic!("Tt4odode3: expected Seq, got {other:?}") };
        assert_eq!(s.len(), 4, "Tt4odode3: component count");
        let _ = s;
        Tt4odode3 {
            f0: s[0].as_ref().map(FromValue::from_value),
            f1: FromValue::from_value(s[1].as_ref().expect("component f1 of Tt4odode3 must be present")),
            f2: s[2].as_ref().map(FromValue::from_value),
            f3: FromValue::from_value(s[3].as_ref().expect("component f3 of Tt4odode3 must be present")),
        }
    }
}
impl ToValue for Tt4odode3 {
    fn to_value(&self) -> Value {
        Value::Seq(vec![
            self.f0.as_ref().map(|x| x.to_value()),
            Some(self.f1.to_value()),
            self.f2.as_ref().map(|x| x.to_value()),
            Some(self.f3.to_value()),
        ])
    }
}
impl FromValue for Tt4odode4 {
    fn from_value(v: &Value) -> Self {
        let s = match v { Value::Seq(s) => s, other => panic!("Tt4odode4: expected Seq, got {other:?}") };
        assert_eq!(s.len(), 4, "Tt4odode4: component count");
        let _ = s;
        Tt4odode4 {
            f0: s[0].as_ref().map(FromValue::from_value),
            f1: FromValue::from_value(s[1].as_ref().expect("component f1 of Tt4odode4 must be present")),
            f2: s[2].as_ref().map(FromValue::from_value),
            f3: FromValue::from_value(s[3].as_ref().expect("component f3 of Tt4odode4 must be present")),
        }
    }
}
impl ToValue for Tt4odode4 {
    fn to_value(&self) -> Value {
        Value::Seq(vec![
            self.f0.as_ref().map(|x| x.to_value()),
            Some(self.f1.to_value()),
            self.f2.as_ref().map(|x| x.to_value()),
            Some(self.f3.to_value()),
        ])
    }
}
impl FromValue for Tt4ddodn {
    fn from_value(v: &Value) -> Self {
        let s = match v { Value::Seq(s) => s, other => panic!("Tt4ddodn: expected Seq, got {other:?}") };
        assert_eq!(s.len(), 4, "Tt4ddodn: component count");
        let _ = s;
        Tt4ddodn {
            f0: FromValue::from_value(s[0].as_ref().expect("component f0 of Tt4ddodn must be present")),
            f1: FromValue::from_value(s[1].as_ref().expect("component f1 of Tt4ddodn must be present")),
            f2: s[2].as_ref().map(FromValue::from_value),
            f3: FromValue::from_value(s[3].as_ref().expect("component f3 of Tt4ddodn must be present")),
        }
    }
}
impl ToValue for Tt4ddodn {
    fn to_value(&self) -> Value {
        Value::Seq(vec![
            Some(self.f0.to_value()),
            Some(self.f1.to_value()),
            self.f2.as_ref().map(|x| x.to_value()),
            Some(self.f3.to_value()),
        ])
    }
}
impl FromValue for Tt4ddode0 {
    fn from_value(v: &Value) -> Self {
        let s = match v { Value::Seq(s) => s, other => panic!("Tt4ddode0: expected Seq, got {other:?}") };
        assert_eq!(s.len(), 4, "Tt4ddode0: component count");
        let _ = s;
        Tt4ddode0 {
            f0: FromValue::from_value(s[0].as_ref().expect("component f0 of Tt4ddode0 must be present")),
            f1: FromValue::from_value(s[1].as_ref().expect("component f1 of Tt4ddode0 must be present")),
            f2: s[2].as_ref().map(FromValue::from_value),
            f3: FromValue::from_value(s[3].as_ref().expect("component f3 of Tt4ddode0 must be present")),
        }
    }
}
impl ToValue for Tt4ddode0 {
    fn to_value(&self) -> Value {
        Value::Seq(vec![
            Some(self.f0.to_value()),
            Some(self.f1.to_value()),
            self.f2.as_ref().map(|x| x.to_value()),
            Some(self.f3.to_value()),
        ])
    }
}
impl FromValue for Tt4ddode1 {
    fn from_value(v: &Value) -> Self {
        let s = match v { Value::Seq(s) => s, other => panic!("Tt4ddode1: expected Seq, got {other:?}") };
        assert_eq!(s.len(), 4, "Tt4ddode1: component count");
        let _ = s;
        Tt4ddode1 {
            f0: FromValue::from_value(s[0].as_ref().expect("component f0 of Tt4ddode1 must be present")),
            f1: FromValue::from_value(s[1].as_ref().expect("component f1 of Tt4ddode1 must be present")),
            f2: s[2].as_ref().map(FromValue::from_value),
            f3: FromValue::from_value(s[3].as_ref().expect("component f3 of Tt4ddode1 must be present")),
        }
    }
}
impl ToValue for Tt4ddode1 {
    fn to_value(&self) -> Value {
        Value::Seq(vec![
            Some(self.f0.to_value()),
            Some(self.f1.to_value()),
            self.f2.as_ref().map(|x| x.to_value()),
            Some(self.f3.to_value()),
        ])
    }
}
impl FromValue for Tt4ddode2 {
    fn from_value(v: &Value) -> Self {
        let s = match v { Value::Seq(s) => s, other => panic!("Tt4ddode2: expected Seq, got {other:?}") };
        assert_eq!(s.len(), 4, "Tt4ddode2: component count");
        let _ = s;
        Tt4ddode2 {
            f0: FromValue::from_value(s[0].as_ref().expect("component f0 of Tt4ddode2 must be present")),
            f1: FromValue::from_value(s[1].as_ref().expect("component f1 of Tt4ddode2 must be present")),
            f2: s[2].as_ref().map(FromValue::from_value),
            f3: FromValue::from_value(s[3].as_ref().expect("component f3 of Tt4ddode2 must be present")),
        }
    }
}
impl ToValue for Tt4ddode2 {
    fn to_value(&self) -> Value {
        Value::Seq(vec![
            Some(self.f0.to_value()),
            Some(self.f1.to_value()),
            self.f2.as_ref().map(|x| x.to_value()),
            Some(self.f3.to_value()),
        ])
    }
}
impl FromValue for Tt4ddode3 {
    fn from_value(v: &Value) -> Self {
        let s = match v { Value::Seq(s) => s, other => panic!("Tt4ddode3: expected Seq, got {other:?}") };
        assert_eq!(s.len(), 4, "Tt4ddode3: component count");
        let _ = s;
        Tt4ddode3 {
            f0: FromValue::from_value(s[0].as_ref().expect("component f0 of Tt4ddode3 must be present")),
            f1: FromValue::from_value(s[1].as_ref().expect("component f1 of Tt4ddode3 must be present")),
            f2: s[2].as_ref().map(FromValue::from_value),
            f3: FromValue::from_value(s[3].as_ref().expect("component f3 of Tt4ddode3 must be present")),
        }
    }
}
impl ToValue for Tt4ddode3 {
    fn to_value(&self) -> Value {
        Value::Seq(vec![
            Some(self.f0.to_value()),
            Some(self.f1.to_value()),
            self.f2.as_ref().map(|x| x.to_value()),
            Some(self.f3.to_value()),
        ])
    }
}
impl FromValue for Tt4ddode4 {
    fn from_value(v: &Value) -> Self {
        let s = match v { Value::Seq(s) => s, other => panic!("Tt4ddode4: expected Seq, got {other:?}") };
        assert_eq!(s.len(), 4, "Tt4ddode4: component count");
        let _ = s;
        Tt4ddode4 {
            f0: FromValue::from_value(s[0].as_ref().expect("component f0 of Tt4ddode4 must be present")),
            f1: FromValue::from_value(s[1].as_ref().expect("component f1 of Tt4ddode4 must be present")),
            f2: s[2].as_ref().map(FromValue::from_value),
            f3: FromValue::from_value(s[3].as_ref().expect("component f3 of Tt4ddode4 must be present")),
        }
    }
}
impl ToValue for Tt4ddode4 {
    fn to_value(&self) -> Value {
        Value::Seq(vec![
            Some(self.f0.to_value()),
            Some(self.f1.to_value()),
            self.f2.as_ref().map(|x| x.to_value()),
            Some(self.f3.to_value()),
        ])
    }
}
impl FromValue for Tt4mmddn {
    fn from_value(v: &Value) -> Self {
        let s = match v { Value::Seq(s) => s, other => panic!("Tt4mmddn: expected Seq, got {other:?}") };
        assert_eq!(s.len(), 4, "Tt4mmddn: component count");
        let _ = s;
        Tt4mmddn {
            f0: FromValue::from_value(s[0].as_ref().expect("component f0 of Tt4mmddn must be present")),
            f1: FromValue::from_value(s[1].as_ref().expect("component f1 of Tt4mmddn must be present")),
            f2: FromValue::from_value(s[2].as_ref().expect("component f2 of Tt4mmddn must be present")),
            f3: FromValue::from_value(s[3].as_ref().expect("component f3 of Tt4mmddn must be present")),
        }
    }
}
impl ToValue for Tt4mmddn {
    fn to_value(&self) -> Value {
        Value::Seq(vec![
            Some(self.f0.to_value()),
            Some(self.f1.to_value()),
            Some(self.f2.to_value()),
            Some(self.f3.to_value()),
        ])
    }
}
impl FromValue for Tt4mmdde0 {
    fn from_value(v: &Value) -> Self {
        let s = match v { Value::Seq(s) => s, other => panic!("Tt4mmdde0: expected Seq, got {other:?}") };
        assert_eq!(s.len(), 4, "Tt4mmdde0: component count");
        let _ = s;
        Tt4mmdde0 {
            f0: FromValue::from_value(s[0].as_ref().expect("component f0 of Tt4mmdde0 must be present")),
            f1: s[1].as_ref().map(FromValue::from_value),
            f2: FromValue::from_value(s[2].as_ref().expect("component f2 of Tt4mmdde0 must be present")),
            f3: FromValue::from_value(s[3].as_ref().expect("component f3 of Tt4mmdde0 must be present")),
        }
    }
}
impl ToValue for Tt4mmdde0 {
    fn to_value(&self) -> Value {
        Value::Seq(vec![
            Some(self.f0.to_value()),
            self.f1.as_ref().map(|x| x.to_value()),
            Some(self.f2.to_value()),
            Some(self.f3.to_value()),
        ])
    }
}
impl FromValue for Tt4mmdde1 {
    fn from_value(v: &Value) -> Self {
        let s = match v { Value::Seq(s) => s, other => panic!("Tt4mmdde1: expected Seq, got {other:?}") };
        assert_eq!(s.len(), 4, "Tt4mmdde1: component count");
        let _ = s;
        Tt4mmdde1 {
            f0: FromValue::from_value(s[0].as_ref().expect("component f0 of Tt4mmdde1 must be present")),
            f1: s[1].as_ref().map(FromValue::from_value),
            f2: FromValue::from_value(s[2].as_ref().expect("component f2 of Tt4mmdde1 must be present")),
            f3: FromValue::from_value(s[3].as_ref().expect("component f3 of Tt4mmdde1 must be present")),
        }
    }
}
impl ToValue for Tt4mmdde1 {
    fn to_value(&self) -> Value {
        Value::Seq(vec![
            Some(self.f0.to_value()),
            self.f1.as_ref().map(|x| x.to_value()),
            Some(self.f2.to_value()),
            Some(self.f3.to_value()),
        ])
    }
}
impl FromValue for Tt4mmdde2 {
    fn from_value(v: &Value) -> Self {
        let s = match v { Value::Seq(s) => s, other => panic!("Tt4mmdde2: expected Seq, got {other:?}") };
        assert_eq!(s.len(), 4, "Tt4mmdde2: component count");
        let _ = s;
        Tt4mmdde2 {
            f0: FromValue::from_value(s[0].as_ref().expect("component f0 of Tt4mmdde2 must be present")),
            f1: FromValue::from_value(s[1].as_ref().expect("component f1 of Tt4mmdde2 must be present")),
            f2: FromValue::from_value(s[2].as_ref().expect("component f2 of Tt4mmdde2 must be present")),
            f3: FromValue::from_value(s[3].as_ref().expect("component f3 of Tt4mmdde2 must be present")),
        }
    }
}
impl ToValue for Tt4mmdde2 {
    fn to_value(&self) -> Value {
        Value::Seq(vec![
            Some(self.f0.to_value()),
            Some(self.f1.to_value()),
            Some(self.f2.to_value()),
            Some(self.f3.to_value()),
        ])
    }
}
impl FromValue for Tt4mmdde3 {
    fn from_value(v: &Value) -> Self {
        let s = match v { Value::Seq(s) => s, other => panic!("Tt4mmdde3: expected Seq, got {other:?}") };
        assert_eq!(s.len(), 4, "Tt4mmdde3: component count");
        let _ = s;
        Tt4mmdde3 {
            f0: FromValue::from_value(s[0].as_ref().expect("component f0 of Tt4mmdde3 must be present")),
            f1: FromValue::from_value(s[1].as_ref().expect("component f1 of Tt4mmdde3 must be present")),
            f2: FromValue::from_value(s[2].as_ref().expect("component f2 of Tt4mmdde3 must be present")),
            f3: FromValue::from_value(s[3].as_ref().expect("component f3 of Tt4mmdde3 must be present")),
        }
    }
}
impl ToValue for Tt4mmdde3 {
    fn to_value(&self) -> Value {
        Value::Seq(vec![
            Some(self.f0.to_value()),
            Some(self.f1.to_value()),
            Some(self.f2.to_value()),
            Some(self.f3.to_value()),
        ])
    }
}
impl FromValue for Tt4mmdde4 {
    fn from_value(v: &Value) -> Self {
        let s = match v { Value::Seq(s) => s, other => panic!("Tt4mmdde4: expected Seq, got {other:?}") };
        assert_eq!(s.len(), 4, "Tt4mmdde4: component count");
        let _ = s;
        Tt4mmdde4 {
            f0: FromValue::from_value(s[0].as_ref().expect("component f0 of Tt4mmdde4 must be present")),
            f1: FromValue::from_value(s[1].as_ref().expect("component f1 of Tt4mmdde4 must be present")),
            f2: FromValue::from_value(s[2].as_ref().expect("component f2 of Tt4mmdde4 must be present")),
            f3: FromValue::from_value(s[3].as_ref().expect("component f3 of Tt4mmdde4 must be present")),
        }
    }
}
impl ToValue for Tt4mmdde4 {
    fn to_value(&self) -> Value {
        Value::Seq(vec![
            Some(self.f0.to_value()),
            Some(self.f1.to_value()),
            Some(self.f2.to_value()),
            Some(self.f3.to_value()),
        ])
    }
}
impl FromValue for Tt4omddn {
    fn from_value(v: &Value) -> Self {
        let s = match v { Value::Seq(s) => s, other => panic!("Tt4omddn: expected Seq, got {other:?}") };
        assert_eq!(s.len(), 4, "Tt4omddn: component count");
        let _ = s;
        Tt4omddn {
            f0: s[0].as_ref().map(FromValue::from_value),
            f1: FromValue::from_value(s[1].as_ref().expect("component f1 of Tt4omddn must be present")),
            f2: FromValue::from_value(s[2].as_ref().expect("component f2 of Tt4omddn must be present")),
            f3: FromValue::from_value(s[3].as_ref().expect("component f3 of Tt4omddn must be present")),
        }
    }
}
impl ToValue for Tt4omddn {
    fn to_value(&self) -> Value {
        Value::Seq(vec![
            self.f0.as_ref().map(|x| x.to_value()),
            Some(self.f1.to_value()),
            Some(self.f2.to_value()),
            Some(self.f3.to_value()),
        ])
    }
}
impl FromValue for Tt4omdde0 {
    fn from_value(v: &Value) -> Self {
        let s = match v { Value::Seq(s) => s, other => panic!("Tt4omdde0: expected Seq, got {other:?}") };
        assert_eq!(s.len(), 4, "Tt4omdde0: component count");
        let _ = s;
        Tt4omdde0 {
            f0: s[0].as_ref().map(FromValue::from_value),
            f1: s[1].as_ref().map(FromValue::from_value),
            f2: FromValue::from_value(s[2].as_ref().expect("component f2 of Tt4omdde0 must be present")),
            f3: FromValue::from_value(s[3].as_ref().expect("component f3 of Tt4omdde0 must be present")),
        }
    }
}
impl ToValue for Tt4omdde0 {
    fn to_value(&self) -> Value {
        Value::Seq(vec![
            self.f0.as_ref().map(|x| x.to_value()),
            self.f1.as_ref().map(|x| x.to_value()),
            Some(self.f2.to_value()),
            Some(self.f3.to_value()),
        ])
    }
}
impl FromValue for Tt4omdde1 {
    fn from_value(v: &Value) -> Self {
        let s = match v { Value::Seq(s) => s, other => panic!("Tt4omdde1: expected Seq, got {other:?}") };
        assert_eq!(s.len(), 4, "Tt4omdde1: component count");
        let _ = s;
        Tt4omdde1 {
            f0: s[0].as_ref().map(FromValue::from_value),
            f1: s[1].as_ref().map(FromValue::from_value),
            f2: FromValue::from_value(s[2].as_ref().expect("component f2 of Tt4omdde1 must be present")),
            f3: FromValue::from_value(s[3].as_ref().expect("component f3 of Tt4omdde1 must be present")),
        }
    }
}
impl ToValue for Tt4omdde1 {
    fn to_value(&self) -> Value {
        Value::Seq(vec![
            self.f0.as_ref().map(|x| x.to_value()),
            self.f1.as_ref().map(|x| x.to_value()),
            Some(self.f2.to_value()),
            Some(self.f3.to_value()),
        ])
    }
}
impl FromValue for Tt4omdde2 {
    fn from_value(v: &Value) -> Self {
        let s = match v { Value::Seq(s) => s, other => panic!("Tt4omdde2: expected Seq, got {other:?}") };
        assert_eq!(s.len(), 4, "Tt4omdde2: component count");
        let _ = s;
        Tt4omdde2 {
            f0: s[0].as_ref().map(FromValue::from_value),
            f1: FromValue::from_value(s[1].as_ref().expect("component f1 of Tt4omdde2 must be present")),
            f2: FromValue::from_value(s[2].as_ref().expect("component f2 of Tt4omdde2 must be present")),
            f3: FromValue::from_value(s[3].as_ref().expect("component f3 of Tt4omdde2 must be present")),
        }
    }
}
impl ToValue for Tt4omdde2 {
    fn to_value(&self) -> Value {
        Value::Seq(vec![
            self.f0.as_ref().map(|x| x.to_value()),
            Some(self.f1.to_value()),
            Some(self.f2.to_value()),
            Some(self.f3.to_value()),
        ])
    }
}
impl FromValue for Tt4omdde3 {
    fn from_value(v: &Value) -> Self {
        let s = match v { Value::Seq(s) => s, other => panic!("Tt4omdde3: expected Seq, got {other:?}") };
        assert_eq!(s.len(), 4, "Tt4omdde3: component count");
        let _ = s;
        Tt4omdde3 {
            f0: s[0].as_ref().map(FromValue::from_value),
            f1: FromValue::from_value(s[1].as_ref().expect("component f1 of Tt4omdde3 must be present")),
            f2: FromValue::from_value(s[2].as_ref().expect("component f2 of Tt4omdde3 must be present")),
            f3: FromValue::from_value(s[3].as_ref().expect("component f3 of Tt4omdde3 must be present")),
        }
    }
}
impl ToValue for Tt4omdde3 {
    fn to_value(&self) -> Value {
        Value::Seq(vec![
            self.f0.as_ref().map(|x| x.to_value()),
            Some(self.f1.to_value()),
            Some(self.f2.to_value()),
            Some(self.f3.to_value()),
        ])
    }
}
impl FromValue for Tt4omdde4 {
    fn from_value(v: &Value) -> Self {
        let s = match v { Value::Seq(s) => s, other => panic!("Tt4omdde4: expected Seq, got {other:?}") };
        assert_eq!(s.len(), 4, "Tt4omdde4: component count");
        let _ = s;
        Tt4omdde4 {
            f0: s[0].as_ref().map(FromValue::from_value),
            f1: FromValue::from_value(s[1].as_ref().expect("component f1 of Tt4omdde4 must be present")),
            f2: FromValue::from_value(s[2].as_ref().expect("component f2 of Tt4omdde4 must be present")),
            f3: FromValue::from_value(s[3].as_ref().expect("component f3 of Tt4omdde4 must be present")),
        }
    }
}
impl ToValue for Tt4omdde4 {
    fn to_value(&self) -> Value {
        Value::Seq(vec![
            self.f0.as_ref().map(|x| x.to_value()),
            Some(self.f1.to_value()),
            Some(self.f2.to_value()),
            Some(self.f3.to_value()),
        ])
    }
}
impl FromValue for Tt4dmddn {
    fn from_value(v: &Value) -> Self {
        let s = match v { Value::Seq(s) => s, other => panic!("Tt4dmddn: expected Seq, got {other:?}") };
        assert_eq!(s.len(), 4, "Tt4dmddn: component count");
        let _ = s;
        Tt4dmddn {
            f0: FromValue::from_value(s[0].as_ref().expect("component f0 of Tt4dmddn must be present")),
            f1: FromValue::from_value(s[1].as_ref().expect("component f1 of Tt4dmddn must be present")),
            f2: FromValue::from_value(s[2].as_ref().expect("component f2 of Tt4dmddn must be present")),
            f3: FromValue::from_value(s[3].as_ref().expect("component f3 of Tt4dmddn must be present")),
        }
    }
}
impl ToValue for Tt4dmddn {
    fn to_value(&self) -> Value {
        Value::Seq(vec![
            Some(self.f0.to_value()),
            Some(self.f1.to_value()),
            Some(self.f2.to_value()),
            Some(self.f3.to_value()),
        ])
    }
}
impl FromValue for Tt4dmdde0 {
    fn from_value(v: &Value) -> Self {
        let s = match v { Value::Seq(s) => s, other => panic!("Tt4dmdde0: expected Seq, got {other:?}") };
        assert_eq!(s.len(), 4, "Tt4dmdde0: component count");
        let _ = s;
        Tt4dmdde0 {
            f0: FromValue::from_value(s[0].as_ref().expect("component f0 of Tt4dmdde0 must be present")),
            f1: s[1].as_ref().map(FromValue::from_value),
            f2: FromValue::from_value(s[2].as_ref().expect("component f2 of Tt4dmdde0 must be present")),
            f3: FromValue::from_value(s[3].as_ref().expect("component f3 of Tt4dmdde0 must be present")),
        }
    }
}
impl ToValue for Tt4dmdde0 {
    fn to_value(&self) -> Value {
        Value::Seq(vec![
            Some(self.f0.to_value()),
            self.f1.as_ref().map(|x| x.to_value()),
            Some(self.f2.to_value()),
            Some(self.f3.to_value()),
        ])
    }
}
impl FromValue for Tt4dmdde1 {
    fn from_value(v: &Value) -> Self {
        let s = match v { Value::Seq(s) => s, other => panic!("Tt4dmdde1: expected Seq, got {other:?}") };
        assert_eq!(s.len(), 4, "Tt4dmdde1: component count");
        let _ = s;
        Tt4dmdde1 {
            f0: FromValue::from_value(s[0].as_ref().expect("component f0 of Tt4dmdde1 must be present")),
            f1: s[1].as_ref().map(FromValue::from_value),
            f2: FromValue::from_value(s[2].as_ref().expect("component f2 of Tt4dmdde1 must be present")),
            f3: FromValue::from_value(s[3].as_ref().expect("component f3 of Tt4dmdde1 must be present")),
        }
    }
}
impl ToValue for Tt4dmdde1 {
    fn to_value(&self) -> Value {
        Value::Seq(vec![
            Some(self.f0.to_value()),
            self.f1.as_ref().map(|x| x.to_value()),
            Some(self.f2.to_value()),
            Some(self.f3.to_value()),
        ])
    }
}
impl FromValue for Tt4dmdde2 {
    fn from_value(v: &Value) -> Self {
        let s = match v { Value::Seq(s) => s, other => panic!("Tt4dmdde2: expected Seq, got {other:?}") };
        assert_eq!(s.len(), 4, "Tt4dmdde2: component count");
        let _ = s;
        Tt4dmdde2 {
            f0: FromValue::from_value(s[0].as_ref().expect("component f0 of Tt4dmdde2 must be present")),
            f1: FromValue::from_value(s[1].as_ref().expect("component f1 of Tt4dmdde2 must be present")),
            f2: FromValue::from_value(s[2].as_ref().expect("component f2 of Tt4dmdde2 must be present")),
            f3: FromValue::from_value(s[3].as_ref().expect("component f3 of Tt4dmdde2 must be present")),
        }
    }
}
impl ToValue for Tt4dmdde2 {
    fn to_value(&self) -> Value {
        Value::Seq(vec![
            Some(self.f0.to_value()),
            Some(self.f1.to_value()),
            Some(self.f2.to_value()),
            Some(self.f3.to_value()),
        ])
    }
}
impl FromValue for Tt4dmdde3 {
    fn from_value(v: &Value) -> Self {
        let s = match v { Value::Seq(s) => s, other => panic!("Tt4dmdde3: expected Seq, got {other:?}") };
        assert_eq!(s.len(), 4, "Tt4dmdde3: component count");
        let _ = s;
        Tt4dmdde3 {
            f0: FromValue::from_value(s[0].as_ref().expect("component f0 of Tt4dmdde3 must be present")),
            f1: FromValue::from_value(s[1].as_ref().expect("component f1 of Tt4dmdde3 must be present")),
            f2: FromValue::from_value(s[2].as_ref().expect("component f2 of Tt4dmdde3 must be present")),
            f3: FromValue::from_value(s[3].as_ref().expect("component f3 of Tt4dmdde3 must be present")),
        }
    }
}
impl ToValue for Tt4dmdde3 {
    fn to_value(&self) -> Value {
        Value::Seq(vec![
            Some(self.f0.to_value()),
            Some(self.f1.to_value()),
            Some(self.f2.to_value()),
            Some(self.f3.to_value()),
        ])
    }
}
impl FromValue for Tt4dmdde4 {
    fn from_value(v: &Value) -> Self {
        let s = match v { Value::Seq(s) => s, other => panic!("Tt4dmdde4: expected Seq, got {other:?}") };
        assert_eq!(s.len(), 4, "Tt4dmdde4: component count");
        let _ = s;
        Tt4dmdde4 {
            f0: FromValue::from_value(s[0].as_ref().expect("component f0 of Tt4dmdde4 must be present")),
            f1: FromValue::from_value(s[1].as_ref().expect("component f1 of Tt4dmdde4 must be present")),
            f2: FromValue::from_value(s[2].as_ref().expect("component f2 of Tt4dmdde4 must be present")),
            f3: FromValue::from_value(s[3].as_ref().expect("component f3 of Tt4dmdde4 must be present")),
        }
    }
}
impl ToValue for Tt4dmdde4 {
    fn to_value(&self) -> Value {
        Value::Seq(vec![
            Some(self.f0.to_value()),
            Some(self.f1.to_value()),
            Some(self.f2.to_value()),
            Some(self.f3.to_value()),
        ])
    }
}
impl FromValue for Tt4moddn {
    fn from_value(v: &Value) -> Self {
        let s = match v { Value::Seq(s) => s, other => panic!("Tt4moddn: expected Seq, got {other:?}") };
        assert_eq!(s.len(), 4, "Tt4moddn: component count");
        let _ = s;
        Tt4moddn {
            f0: FromValue::from_value(s[0].as_ref().expect("component f0 of Tt4moddn must be present")),
            f1: s[1].as_ref().map(FromValue::from_value),
            f2: FromValue::from_value(s[2].as_ref().expect("component f2 of Tt4moddn must be present")),
            f3: FromValue::from_value(s[3].as_ref().expect("component f3 of Tt4moddn must be present")),
        }
    }
}
impl ToValue for Tt4moddn {
    fn to_value(&self) -> Value {
        Value::Seq(vec![
            Some(self.f0.to_value()),
            self.f1.as_ref().map(|x| x.to_value()),
            Some(self.f2.to_value()),
            Some(self.f3.to_value()),
        ])
    }
}
impl FromValue for Tt4modde0 {
    fn from_value(v: &Value) -> Self {
        let s = match v { Value::Seq(s) => s, other => panic!("Tt4modde0: expected Seq, got {other:?}") };
        assert_eq!(s.len(), 4, "Tt4modde0: component count");
        let _ = s;
        Tt4modde0 {
            f0: FromValue::from_value(s[0].as_ref().expect("component f0 of Tt4modde0 must be present")),
            f1: s[1].as_ref().map(FromValue::from_value),
            f2: FromValue::from_value(s[2].as_ref().expect("component f2 of Tt4modde0 must be present")),
            f3: FromValue::from_value(s[3].as_ref().expect("component f3 of Tt4modde0 must be present")),
        }
    }
}
impl ToValue for Tt4modde0 {
    fn to_value(&self) -> Value {
        Value::Seq(vec![
            Some(self.f0.to_value()),
            self.f1.as_ref().map(|x| x.to_value()),
            Some(self.f2.to_value()),
            Some(self.f3.to_value()),
        ])
    }
}
impl FromValue for Tt4modde1 {
    fn from_value(v: &Value) -> Self {
        let s = match v { Value::Seq(s) => s, other => panic!("Tt4modde1: expected Seq, got {other:?}") };
        assert_eq!(s.len(), 4, "Tt4modde1: component count");
        let _ = s;
        Tt4modde1 {
            f0: FromValue::from_value(s[0].as_ref().expect("component f0 of Tt4modde1 must be present")),
            f1: s[1].as_ref().map(FromValue::from_value),
            f2: FromValue::from_value(s[2].as_ref().expect("component f2 of Tt4modde1 must be present")),
            f3: FromValue::from_value(s[3].as_ref().expect("component f3 of Tt4modde1 must be present")),
        }
    }
}
impl ToValue for Tt4modde1 {
    fn to_value(&self) -> Value {
        Value::Seq(vec![
            Some(self.f0.to_value()),
            self.f1.as_ref().map(|x| x.to_value()),
            Some(self.f2.to_value()),
            Some(self.f3.to_value()),
        ])
    }
}
impl FromValue for Tt4modde2 {
    fn from_value(v: &Value) -> Self {
        let s = match v { Value::Seq(s) => s, other => panic!("Tt4modde2: expected Seq, got {other:?}") };
        assert_eq!(s.len(), 4, "Tt4modde2: component count");
        let _ = s;
        Tt4modde2 {
            f0: FromValue::from_value(s[0].as_ref().expect("component f0 of Tt4modde2 must be present")),
            f1: s[1].as_ref().map(FromValue::from_value),
            f2: FromValue::from_value(s[2].as_ref().expect("component f2 of Tt4modde2 must be present")),
            f3: FromValue::from_value(s[3].as_ref().expect("component f3 of Tt4modde2 must be present")),
        }
    }
}
impl ToValue for Tt4modde2 {
    fn to_value(&self) -> Value {
        Value::Seq(vec![
            Some(self.f0.to_value()),
            self.f1.as_ref().map(|x| x.to_value()),
            Some(self.f2.to_value()),
            Some(self.f3.to_value()),
        ])
    }
}
impl FromValue for Tt4modde3 {
    fn from_value(v: &Value) -> Self {
        let s = match v { Value::Seq(s) => s, other => panic!("Tt4modde3: expected Seq, got {other:?}") };
        assert_eq!(s.len(), 4, "Tt4modde3: component count");
        let _ = s;
        Tt4modde3 {
            f0: FromValue::from_value(s[0].as_ref().expect("component f0 of Tt4modde3 must be present")),
            f1: s[1].as_ref().map(FromValue::from_value),
            f2: FromValue::from_value(s[2].as_ref().expect("component f2 of Tt4modde3 must be present")),
            f3: FromValue::from_value(s[3].as_ref().expect("component f3 of Tt4modde3 must be present")),
        }
    }
}
impl ToValue for Tt4modde3 {
    fn to_value(&self) -> Value {
        Value::Seq(vec![
            Some(self.f0.to_value()),
            self.f1.as_ref().map(|x| x.to_value()),
            Some(self.f2.to_value()),
            Some(self.f3.to_value()),
        ])
    }
}
impl FromValue for Tt4modde4 {
    fn from_value(v: &Value) -> Self {
        let s = match v { Value::Seq(s) => s, other => panic!("Tt4modde4: expected Seq, got {other:?}") };
        assert_eq!(s.len(), 4, "Tt4modde4: component count");
        let _ = s;
        Tt4modde4 {
            f0: FromValue::from_value(s[0].as_ref().expect("component f0 of Tt4modde4 must be present")),
            f1: s[1].as_ref().map(FromValue::from_value),
            f2: FromValue::from_value(s[2].as_ref().expect("component f2 of Tt4modde4 must be present")),
            f3: FromValue::from_value(s[3].as_ref().expect("component f3 of Tt4modde4 must be present")),
        }
    }
}
impl ToValue for Tt4modde4 {
    fn to_value(&self) -> Value {
        Value::Seq(vec![
            Some(self.f0.to_value()),
            self.f1.as_ref().map(|x| x.to_value()),
            Some(self.f2.to_value()),
            Some(self.f3.to_value()),
        ])
    }
}
impl FromValue for Tt4ooddn {
    fn from_value(v: &Value) -> Self {
        let s = match v { Value::Seq(s) => s, other => panic!("Tt4ooddn: expected Seq, got {other:?}") };
        assert_eq!(s.len(), 4, "Tt4ooddn: component count");
        let _ = s;
        Tt4ooddn {
            f0: s[0].as_ref().map(FromValue::from_value),
            f1: s[1].as_ref().map(FromValue::from_value),
            f2: FromValue::from_value(s[2].as_ref().expect("component f2 of Tt4ooddn must be present")),
            f3: FromValue::from_value(s[3].as_ref().expect("component f3 of Tt4ooddn must be present")),
        }
    }
}
impl ToValue for Tt4ooddn {
    fn to_value(&self) -> Value {
        Value::Seq(vec![
            self.f0.as_ref().map(|x| x.to_value()),
            self.f1.as_ref().map(|x| x.to_value()),
            Some(self.f2.to_value()),
            Some(self.f3.to_value()),
        ])
    }
}
impl FromValue for Tt4oodde0 {
    fn from_value(v: &Value) -> Self {
        let s = match v { Value::Seq(s) => s, other => panic!("Tt4oodde0: expected Seq, got {other:?}") };
        assert_eq!(s.len(), 4, "Tt4oodde0: component count");
        let _ = s;
        Tt4oodde0 {
            f0: s[0].as_ref().map(FromValue::from_value),
            f1: s[1].as_ref().map(FromValue::from_value),
            f2: FromValue::from_value(s[2].as_ref().expect("component f2 of Tt4oodde0 must be present")),
            f3: FromValue::from_value(s[3].as_ref().expect("component f3 of Tt4oodde0 must be present")),
        }
    }
}
impl ToValue for Tt4oodde0 {
    fn to_value(&self) -> Value {
        Value::Seq(vec![
            self.f0.as_ref().map(|x| x.to_value()),
            self.f1.as_ref().map(|x| x.to_value()),
            Some(self.f2.to_value()),
            Some(self.f3.to_value()),
        ])
    }
}
impl FromValue for Tt4oodde1 {
    fn from_value(v: &Value) -> Self {
        let s = match v { Value::Seq(s) => s, other => panic!("Tt4oodde1: expected Seq, got {other:?}") };
        assert_eq!(s.len(), 4, "Tt4oodde1: component count");
        let _ = s;
        Tt4oodde1 {
            f0: s[0].as_ref().map(FromValue::from_value),
            f1: s[1].as_ref().map(FromValue::from_value),
            f2: FromValue::from_value(s[2].as_ref().expect("component f2 of Tt4oodde1 must be present")),
            f3: FromValue::from_value(s[3].as_ref().expect("component f3 of Tt4oodde1 must be present")),
        }
    }
}
impl ToValue for Tt4oodde1 {
    fn to_value(&self) -> Value {
        Value::Seq(vec![
            self.f0.as_ref().map(|x| x.to_value()),
            self.f1.as_ref().map(|x| x.to_value()),
            Some(self.f2.to_value()),
            Some(self.f3.to_value()),
        ])
    }
}
impl FromValue for Tt4oodde2 {
    fn from_value(v: &Value) -> Self {
        let s = match v { Value::Seq(s) => s, other => panic!("Tt4oodde2: expected Seq, got {other:?}") };
        assert_eq!(s.len(), 4, "Tt4oodde2: component count");
        let _ = s;
        Tt4oodde2 {
            f0: s[0].as_ref().map(FromValue::from_value),
            f1: s[1].as_ref().map(FromValue::from_value),
            f2: FromValue::from_value(s[2].as_ref().expect("component f2 of Tt4oodde2 must be present")),
            f3: FromValue::from_value(s[3].as_ref().expect("component f3 of Tt4oodde2 must be present")),
        }
    }
}
impl ToValue for Tt4oodde2 {
    fn to_value(&self) -> Value {
        Value::Seq(vec![
            self.f0.as_ref().map(|x| x.to_value()),
            self.f1.as_ref().map(|x| x.to_value()),
            Some(self.f2.to_value()),
            Some(self.f3.to_value()),
        ])
    }
}
impl FromValue for Tt4oodde3 {
    fn from_value(v: &Value) -> Self {
        let s = match v { Value::Seq(s) => s, other => panic!("Tt4oodde3: expected Seq, got {other:?}") };
        assert_eq!(s.len(), 4, "Tt4oodde3: component count");
        let _ = s;
        Tt4oodde3 {
            f0: s[0].as_ref().map(FromValue::from_value),
            f1: s[1].as_ref().map(FromValue::from_value),
            f2: FromValue::from_value(s[2].as_ref().expect("component f2 of Tt4oodde3 must be present")),
            f3: FromValue::from_value(s[3].as_ref().expect("component f3 of Tt4oodde3 must be present")),
        }
    }
}
impl ToValue for Tt4oodde3 {
    fn to_value(&self) -> Value {
        Value::Seq(vec![
            self.f0.as_ref().map(|x| x.to_value()),
            self.f1.as_ref().map(|x| x.to_value()),
            Some(self.f2.to_value()),
            Some(self.f3.to_value()),
        ])
    }
}
impl FromValue for Tt4oodde4 {
    fn from_value(v: &Value) -> Self {
        let s = match v { Value::Seq(s) => s, other => panic!("Tt4oodde4: expected Seq, got {other:?}") };
        assert_eq!(s.len(), 4, "Tt4oodde4: component count");
        let _ = s;
        Tt4oodde4 {
            f0: s[0].as_ref().map(FromValue::from_value),
            f1: s[1].as_ref().map(FromValue::from_value),
            f2: FromValue::from_value(s[2].as_ref().expect("component f2 of Tt4oodde4 must be present")),
            f3: FromValue::from_value(s[3].as_ref().expect("component f3 of Tt4oodde4 must be present")),
        }
    }
}
impl ToValue for Tt4oodde4 {
    fn to_value(&self) -> Value {
        Value::Seq(vec![
            self.f0.as_ref().map(|x| x.to_value()),
            self.f1.as_ref().map(|x| x.to_value()),
            Some(self.f2.to_value()),
            Some(self.f3.to_value()),
        ])
    }
}
impl FromValue for Tt4doddn {
    fn from_value(v: &Value) -> Self {
        let s = match v { Value::Seq(s) => s, other => panic!("Tt4doddn: expected Seq, got {other:?}") };
        assert_eq!(s.len(), 4, "Tt4doddn: component count");
        let _ = s;
        Tt4doddn {
            f0: FromValue::from_value(s[0].as_ref().expect("component f0 of Tt4doddn must be present")),
            f1: s[1].as_ref().map(FromValue::from_value),
            f2: FromValue::from_value(s[2].as_ref().expect("component f2 of Tt4doddn must be present")),
            f3: FromValue::from_value(s[3].as_ref().expect("component f3 of Tt4doddn must be present")),
        }
    }
}
impl ToValue for Tt4doddn {
    fn to_value(&self) -> Value {
        Value::Seq(vec![
            Some(self.f0.to_value()),
            self.f1.as_ref().map(|x| x.to_value()),
            Some(self.f2.to_value()),
            Some(self.f3.to_value()),
        ])
    }
}
impl FromValue for Tt4dodde0 {
    fn from_value(v: &Value) -> Self {
        let s = match v { Value::Seq(s) => s, other => panic!("Tt4dodde0: expected Seq, got {other:?}") };
        assert_eq!(s.len(), 4, "Tt4dodde0: component count");
        let _ = s;
        Tt4dodde0 {
            f0: FromValue::from_value(s[0].as_ref().expect("component f0 of Tt4dodde0 must be present")),
            f1: s[1].as_ref().map(FromValue::from_value),
            f2: FromValue::from_value(s[2].as_ref().expect("component f2 of Tt4dodde0 must be present")),
            f3: FromValue::from_value(s[3].as_ref().expect("component f3 of Tt4dodde0 must be present")),
        }
    }
}
impl ToValue for Tt4dodde0 {
    fn to_value(&self) -> Value {
        Value::Seq(vec![
            Some(self.f0.to_value()),
            self.f1.as_ref().map(|x| x.to_value()),
            Some(self.f2.to_value()),
            Some(self.f3.to_value()),
        ])
    }
}
impl FromValue for Tt4dodde1 {
    fn from_value(v: &Value) -> Self {
        let s = match v { Value::Seq(s) => s, other => panic!("Tt4dodde1: expected Seq, got {other:?}") };
        assert_eq!(s.len(), 4, "Tt4dodde1: component count");
        let _ = s;
        Tt4dodde1 {
            f0: FromValue::from_value(s[0].as_ref().expect("component f0 of Tt4dodde1 must be present")),
            f1: s[1].as_ref().map(FromValue::from_value),
            f2: FromValue::from_value(s[2].as_ref().expect("component f2 of Tt4dodde1 must be present")),
            f3: FromValue::from_value(s[3].as_ref().expect("component f3 of Tt4dodde1 must be present")),
        }
    }
}
impl ToValue for Tt4dodde1 {
    fn to_value(&self) -> Value {
        Value::Seq(vec![
            Some(self.f0.to_value()),
            self.f1.as_ref().map(|x| x.to_value()),
            Some(self.f2.to_value()),
            Some(self.f3.to_value()),
        ])
    }
}
impl FromValue for Tt4dodde2 {
    fn from_value(v: &Value) -> Self {
        let s = match v { Value::Seq(s) => s, other => panic!("Tt4dodde2: expected Seq, got {other:?}") };
        assert_eq!(s.len(), 4, "Tt4dodde2: component count");
        let _ = s;
        Tt4dodde2 {
            f0: FromValue::from_value(s[0].as_ref().expect("component f0 of Tt4dodde2 must be present")),
            f1: s[1].as_ref().map(FromValue::from_value),
            f2: FromValue::from_value(s[2].as_ref().expect("component f2 of Tt4dodde2 must be present")),
            f3: FromValue::from_value(s[3].as_ref().expect("component f3 of Tt4dodde2 must be present")),
        }
    }
}
impl ToValue for Tt4dodde2 {
    fn to_value(&self) -> Value {
        Value::Seq(vec![
            Some(self.f0.to_value()),
            self.f1.as_ref().map(|x| x.to_value()),
            Some(self.f2.to_value()),
            Some(self.f3.to_value()),
        ])
    }
}
impl FromValue for Tt4dodde3 {
    fn from_value(v: &Value) -> Self {
        let s = match v { Value::Seq(s) => s, other => panic!("Tt4dodde3: expected Seq, got {other:?}") };
        assert_eq!(s.len(), 4, "Tt4dodde3: component count");
        let _ = s;
        Tt4dodde3 {
            f0: FromValue::from_value(s[0].as_ref().expect("component f0 of Tt4dodde3 must be present")),
            f1: s[1].as_ref().map(FromValue::from_value),
            f2: FromValue::from_value(s[2].as_ref().expect("component f2 of Tt4dodde3 must be present")),
            f3: FromValue::from_value(s[3].as_ref().expect("component f3 of Tt4dodde3 must be present")),
        }
    }
}
impl ToValue for Tt4dodde3 {
    fn to_value(&self) -> Value {
        Value::Seq(vec![
            Some(self.f0.to_value()),
            self.f1.as_ref().map(|x| x.to_value()),
            Some(self.f2.to_value()),
            Some(self.f3.to_value()),
        ])
    }
}
impl FromValue for Tt4dodde4 {
    fn from_value(v: &Value) -> Self {
        let s = match v { Value::Seq(s) => s, other => panic!("Tt4dodde4: expected Seq, got {other:?}") };
        assert_eq!(s.len(), 4, "Tt4dodde4: component count");
        let _ = s;
        Tt4dodde4 {
            f0: FromValue::from_value(s[0].as_ref().expect("component f0 of Tt4dodde4 must be present")),
            f1: s[1].as_ref().map(FromValue::from_value),
            f2: FromValue::from_value(s[2].as_ref().expect("component f2 of Tt4dodde4 must be present")),
            f3: FromValue::from_value(s[3].as_ref().expect("component f3 of Tt4dodde4 must be present")),
        }
    }
}
impl ToValue for Tt4dodde4 {
    fn to_value(&self) -> Value {
        Value::Seq(vec![
            Some(self.f0.to_value()),
            self.f1.as_ref().map(|x| x.to_value()),
            Some(self.f2.to_value()),
            Some(self.f3.to_value()),
        ])
    }
}
impl FromValue for Tt4mdddn {
    fn from_value(v: &Value) -> Self {
        let s = match v { Value::Seq(s) => s, other => panic!("Tt4mdddn: expected Seq, got {other:?}") };
        assert_eq!(s.len(), 4, "Tt4mdddn: component count");
        let _ = s;
        Tt4mdddn {
            f0: FromValue::from_value(s[0].as_ref().expect("component f0 of Tt4mdddn must be present")),
            f1: FromValue::from_value(s[1].as_ref().expect("component f1 of Tt4mdddn must be present")),
            f2: FromValue::from_value(s[2].as_ref().expect("component f2 of Tt4mdddn must be present")),
            f3: FromValue::from_value(s[3].as_ref().expect("component f3 of Tt4mdddn must be present")),
        }
    }
}
impl ToValue for Tt4mdddn {
    fn to_value(&self) -> Value {
        Value::Seq(vec![
            Some(self.f0.to_value()),
            Some(self.f1.to_value()),
            Some(self.f2.to_value()),
            Some(self.f3.to_value()),
        ])
    }
}
impl FromValue for Tt4mddde0 {
    fn from_value(v: &Value) -> Self {
        let s = match v { Value::Seq(s) => s, other => panic!("Tt4mddde0: expected Seq, got {other:?}") };
        assert_eq!(s.len(), 4, "Tt4mddde0: component count");
        let _ = s;
        Tt4mddde0 {
            f0: FromValue::from_value(s[0].as_ref().expect("component f0 of Tt4mddde0 must be present")),
            f1: FromValue::from_value(s[1].as_ref().expect("component f1 of Tt4mddde0 must be present")),
            f2: FromValue::from_value(s[2].as_ref().expect("component f2 of Tt4mddde0 must be present")),
            f3: FromValue::from_value(s[3].as_ref().expect("component f3 of Tt4mddde0 must be present")),
        }
    }
}
impl ToValue for Tt4mddde0 {
    fn to_value(&self) -> Value {
        Value::Seq(vec![
            Some(self.f0.to_value()),
            Some(self.f1.to_value()),
            Some(self.f2.to_value()),
            Some(self.f3.to_value()),
        ])
    }
}
impl FromValue for Tt4mddde1 {
    fn from_value(v: &Value) -> Self {
        let s = match v { Value::Seq(s) => s, other => panic!("Tt4mddde1: expected Seq, got {other:?}") };
        assert_eq!(s.len(), 4, "Tt4mddde1: component count");
        let _ = s;
        Tt4mddde1 {
            f0: FromValue::from_value(s[0].as_ref().expect("component f0 of Tt4mddde1 must be present")),
            f1: FromValue::from_value(s[1].as_ref().expect("component f1 of Tt4mddde1 must be present")),
            f2: FromValue::from_value(s[2].as_ref().expect("component f2 of Tt4mddde1 must be present")),
            f3: FromValue::from_value(s[3].as_ref().expect("component f3 of Tt4mddde1 must be present")),
        }
    }
}
impl ToValue for Tt4mddde1 {
    fn to_value(&self) -> Value {
        Value::Seq(vec![
            Some(self.f0.to_value()),
            Some(self.f1.to_value()),
            Some(self.f2.to_value()),
            Some(self.f3.to_value()),
        ])
    }
}
impl FromValue for Tt4mddde2 {
    fn from_value(v: &Value) -> Self {
        let s = match v { Value::Seq(s) => s, other => panic!("Tt4mddde2: expected Seq, got {other:?}") };
        assert_eq!(s.len(), 4, "Tt4mddde2: component count");
        let _ = s;
        Tt4mddde2 {
            f0: FromValue::from_value(s[0].as_ref().expect("component f0 of Tt4mddde2 must be present")),
            f1: FromValue::from_value(s[1].as_ref().expect("component f1 of Tt4mddde2 must be present")),
            f2: FromValue::from_value(s[2].as_ref().expect("component f2 of Tt4mddde2 must be present")),
            f3: FromValue::from_value(s[3].as_ref().expect("component f3 of Tt4mddde2 must be present")),
        }
    }
}
impl ToValue for Tt4mddde2 {
    fn to_value(&self) -> Value {
        Value::Seq(vec![
            Some(self.f0.to_value()),
            Some(self.f1.to_value()),
            Some(self.f2.to_value()),
            Some(self.f3.to_value()),
        ])
    }
}
impl FromValue for Tt4mddde3 {
    fn from_value(v: &Value) -> Self {
        let s = match v { Value::Seq(s) => s, other => panic!("Tt4mddde3: expected Seq, got {other:?}") };
        assert_eq!(s.len(), 4, "Tt4mddde3: component count");
        let _ = s;
        Tt4mddde3 {
            f0: FromValue::from_value(s[0].as_ref().expect("component f0 of Tt4mddde3 must be present")),
            f1: FromValue::from_value(s[1].as_ref().expect("component f1 of Tt4mddde3 must be present")),
            f2: FromValue::from_value(s[2].as_ref().expect("component f2 of Tt4mddde3 must be present")),
            f3: FromValue::from_value(s[3].as_ref().expect("component f3 of Tt4mddde3 must be present")),
        }
    }
}
impl ToValue for Tt4mddde3 {
    fn to_value(&self) -> Value {
        Value::Seq(vec![
            Some(self.f0.to_value()),
            Some(self.f1.to_value()),
            Some(self.f2.to_value()),
            Some(self.f3.to_value()),
        ])
    }
}
impl FromValue for Tt4mddde4 {
    fn from_value(v: &Value) -> Self {
        let s = match v { Value::Seq(s) => s, other => panic!("Tt4mddde4: expected Seq, got {other:?}") };
        assert_eq!(s.len(), 4, "Tt4mddde4: component count");
        let _ = s;
        Tt4mddde4 {
            f0: FromValue::from_value(s[0].as_ref().expect("component f0 of Tt4mddde4 must be present")),
            f1: FromValue::from_value(s[1].as_ref().expect("component f1 of Tt4mddde4 must be present")),
            f2: FromValue::from_value(s[2].as_ref().expect("component f2 of Tt4mddde4 must be present")),
            f3: FromValue::from_value(s[3].as_ref().expect("component f3 of Tt4mddde4 must be present")),
        }
    }
}
impl ToValue for Tt4mddde4 {
    fn to_value(&self) -> Value {
        Value::Seq(vec![
            Some(self.f0.to_value()),
            Some(self.f1.to_value()),
            Some(self.f2.to_value()),
            Some(self.f3.to_value()),
        ])
    }
}
impl FromValue for Tt4odddn {
    fn from_value(v: &Value) -> Self {
        let s = match v { Value::Seq(s) => s, other => panic!("Tt4odddn: expected Seq, got {other:?}") };
        assert_eq!(s.len(), 4, "Tt4odddn: component count");
        let _ = s;
        Tt4odddn {
            f0: s[0].as_ref().map(FromValue::from_value),
            f1: FromValue::from_value(s[1].as_ref().expect("component f1 of Tt4odddn must be present")),
            f2: FromValue::from_value(s[2].as_ref().expect("component f2 of Tt4odddn must be present")),
            f3: FromValue::from_value(s[3].as_ref().expect("component f3 of Tt4odddn must be present")),
        }
    }
}
impl ToValue for Tt4odddn {
    fn to_value(&self) -> Value {
        Value::Seq(vec![
            self.f0.as_ref().map(|x| x.to_value()),
            Some(self.f1.to_value()),
            Some(self.f2.to_value()),
            Some(self.f3.to_value()),
        ])
    }
}
impl FromValue for Tt4oddde0 {
    fn from_value(v: &Value) -> Self {
        let s = match v { Value::Seq(s) => s, other => panic!("Tt4oddde0: expected Seq, got {other:?}") };
        assert_eq!(s.len(), 4, "Tt4oddde0: component count");
        let _ = s;
        Tt4oddde0 {
            f0: s[0].as_ref().map(FromValue::from_value),
            f1: FromValue::from_value(s[1].as_ref().expect("component f1 of Tt4oddde0 must be present")),
            f2: FromValue::from_value(s[2].as_ref().expect("component f2 of Tt4oddde0 must be present")),
            f3: FromValue::from_value(s[3].as_ref().expect("component f3 of Tt4oddde0 must be present")),
        }
    }
}
impl ToValue for Tt4oddde0 {
    fn to_value(&self) -> Value {
        Value::Seq(vec![
            self.f0.as_ref().map(|x| x.to_value()),
            Some(self.f1.to_value()),
            Some(self.f2.to_value()),
            Some(self.f3.to_value()),
        ])
    }
}
impl FromValue for Tt4oddde1 {
    fn from_value(v: &Value) -> Self {
        let s = match v { Value::Seq(s) => s, other => panic!("Tt4oddde1: expected Seq, got {other:?}") };
        assert_eq!(s.len(), 4, "Tt4oddde1: component count");
        let _ = s;
        Tt4oddde1 {
            f0: s[0].as_ref().map(FromValue::from_value),
            f1: FromValue::from_value(s[1].as_ref().expect("component f1 of Tt4oddde1 must be present")),
            f2: FromValue::from_value(s[2].as_ref().expect("component f2 of Tt4oddde1 must be present")),
            f3: FromValue::from_value(s[3].as_ref().expect("component f3 of Tt4oddde1 must be present")),
        }
    }
}
impl ToValue for Tt4oddde1 {
    fn to_value(&self) -> Value {
        Value::Seq(vec![
            self.f0.as_ref().map(|x| x.to_value()),
            Some(self.f1.to_value()),
            Some(self.f2.to_value()),
            Some(self.f3.to_value()),
        ])
    }
}
impl FromValue for Tt4oddde2 {
    fn from_value(v: &Value) -> Self {
        let s = match v { Value::Seq(s) => s, other => panic!("Tt4oddde2: expected Seq, got {other:?}") };
        assert_eq!(s.len(), 4, "Tt4oddde2: component count");
        let _ = s;
        Tt4oddde2 {
            f0: s[0].as_ref().map(FromValue::from_value),
            f1: FromValue::from_value(s[1].as_ref().expect("component f1 of Tt4oddde2 must be present")),
            f2: FromValue::from_value(s[2].as_ref().expect("component f2 of Tt4oddde2 must be present")),
            f3: FromValue::from_value(s[3].as_ref().expect("component f3 of Tt4oddde2 must be present")),
        }
    }
}
impl ToValue for Tt4oddde2 {
    fn to_value(&self) -> Value {
        Value::Seq(vec![
            self.f0.as_ref().map(|x| x.to_value()),
            Some(self.f1.to_value()),
            Some(self.f2.to_value()),
            Some(self.f3.to_value()),
        ])
    }
}
impl FromValue for Tt4oddde3 {
    fn from_value(v: &Value) -> Self {
        let s = match v { Value::Seq(s) => s, other => panic!("Tt4oddde3: expected Seq, got {other:?}") };
        assert_eq!(s.len(), 4, "Tt4oddde3: component count");
        let _ = s;
        Tt4oddde3 {
            f0: s[0].as_ref().map(FromValue::from_value),
            f1: FromValue::from_value(s[1].as_ref().expect("component f1 of Tt4oddde3 must be present")),
            f2: FromValue::from_value(s[2].as_ref().expect("component f2 of Tt4oddde3 must be present")),
            f3: FromValue::from_value(s[3].as_ref().expect("component f3 of Tt4oddde3 must be present")),
        }
    }
}
impl ToValue for Tt4oddde3 {
    fn to_value(&self) -> Value {
        Value::Seq(vec![
            self.f0.as_ref().map(|x| x.to_value()),
            Some(self.f1.to_value()),
            Some(self.f2.to_value()),
            Some(self.f3.to_value()),
        ])
    }
}
impl FromValue for Tt4oddde4 {
    fn from_value(v: &Value) -> Self {
        let s = match v { Value::Seq(s) => s, other => panic!("Tt4oddde4: expected Seq, got {other:?}") };
        assert_eq!(s.len(), 4, "Tt4oddde4: component count");
        let _ = s;
        Tt4oddde4 {
            f0: s[0].as_ref().map(FromValue::from_value),
            f1: FromValue::from_value(s[1].as_ref().expect("component f1 of Tt4oddde4 must be present")),
            f2: FromValue::from_value(s[2].as_ref().expect("component f2 of Tt4oddde4 must be present")),
            f3: FromValue::from_value(s[3].as_ref().expect("component f3 of Tt4oddde4 must be present")),
        }
    }
}
impl ToValue for Tt4oddde4 {
    fn to_value(&self) -> Value {
        Value::Seq(vec![
            self.f0.as_ref().map(|x| x.to_value()),
            Some(self.f1.to_value()),
            Some(self.f2.to_value()),
            Some(self.f3.to_value()),
        ])
    }
}

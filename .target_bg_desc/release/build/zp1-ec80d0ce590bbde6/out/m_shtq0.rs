use asn1rs::prelude::*;

#[asn(set)]

#[derive(Default, Debug, Clone, PartialEq, Hash)]
pub struct Tt0n;

impl Tt0n {
}

#[asn(set)]

#[derive(Default, Debug, Clone, PartialEq, Hash)]
pub struct Tt1mn {
    #[asn(integer(0..7))] pub f0: u8,
}

impl Tt1mn {
    pub const fn f0_min() -> u8 {
        0
    }

    pub const fn f0_max() -> u8 {
        7
    }
}

#[asn(set, extensible_after(f0))]

#[derive(Default, Debug, Clone, PartialEq, Hash)]
pub struct Tt1me0 {
    #[asn(integer(0..7))] pub f0: u8,
}

impl Tt1me0 {
    pub const fn f0_min() -> u8 {
        0
    }

    pub const fn f0_max() -> u8 {
        7
    }
}

#[asn(set, extensible_after(f0))]

#[derive(Default, Debug, Clone, PartialEq, Hash)]
pub struct Tt1me1 {
    #[asn(integer(0..7))] pub f0: u8,
}

impl Tt1me1 {
    pub const fn f0_min() -> u8 {
        0
    }

    pub const fn f0_max() -> u8 {
        7
    }
}

#[asn(set)]

#[derive(Default, Debug, Clone, PartialEq, Hash)]
pub struct Tt1on {
    #[asn(optional(integer(0..7)))] pub f0: Option<u8>,
}

impl Tt1on {
    pub const fn f0_min() -> u8 {
        0
    }

    pub const fn f0_max() -> u8 {
        7
    }
}

#[asn(set, extensible_after(f0))]

#[derive(Default, Debug, Clone, PartialEq, Hash)]
pub struct Tt1oe0 {
    #[asn(optional(integer(0..7)))] pub f0: Option<u8>,
}

impl Tt1oe0 {
    pub const fn f0_min() -> u8 {
        0
    }

    pub const fn f0_max() -> u8 {
        7
    }
}

#[asn(set, extensible_after(f0))]

#[derive(Default, Debug, Clone, PartialEq, Hash)]
pub struct Tt1oe1 {
    #[asn(optional(integer(0..7)))] pub f0: Option<u8>,
}

impl Tt1oe1 {
    pub const fn f0_min() -> u8 {
        0
    }

    pub const fn f0_max() -> u8 {
        7
    }
}

#[asn(set)]

#[derive(Default, Debug, Clone, PartialEq, Hash)]
pub struct Tt1dn {
    #[asn(default(integer(0..7), 5))] pub f0: u8,
}

impl Tt1dn {
    pub const fn f0_min() -> u8 {
        0
    }

    pub const fn f0_max() -> u8 {
        7
    }
}

#[asn(set, extensible_after(f0))]

#[derive(Default, Debug, Clone, PartialEq, Hash)]
pub struct Tt1de0 {
    #[asn(default(integer(0..7), 5))] pub f0: u8,
}

impl Tt1de0 {
    pub const fn f0_min() -> u8 {
        0
    }

    pub const fn f0_max() -> u8 {
        7
    }
}

#[asn(set, extensible_after(f0))]

#[derive(Default, Debug, Clone, PartialEq, Hash)]
pub struct Tt1de1 {
    #[asn(default(integer(0..7), 5))] pub f0: u8,
}

impl Tt1de1 {
    pub const fn f0_min() -> u8 {
        0
    }

    pub const fn f0_max() -> u8 {
        7
    }
}

#[asn(set)]

#[derive(Default, Debug, Clone, PartialEq, Hash)]
pub struct Tt2mmn {
    #[asn(integer(0..7))] pub f0: u8,
    #[asn(integer(0..7))] pub f1: u8,
}

impl Tt2mmn {
    pub const fn f0_min() -> u8 {
        0
    }

    pub const fn f0_max() -> u8 {
        7
    }

    pub const fn f1_min() -> u8 {
        0
    }

    pub const fn f1_max() -> u8 {
        7
    }
}

#[asn(set, extensible_after(f0))]

#[derive(Default, Debug, Clone, PartialEq, Hash)]
pub struct Tt2mme0 {
    #[asn(integer(0..7))] pub f0: u8,
    #[asn(optional(integer(0..7)))] pub f1: Option<u8>,
}

impl Tt2mme0 {
    pub const fn f0_min() -> u8 {
        0
    }

    pub const fn f0_max() -> u8 {
        7
    }

    pub const fn f1_min() -> u8 {
        0
    }

    pub const fn f1_max() -> u8 {
        7
    }
}

#[asn(set, extensible_after(f0))]

#[derive(Default, Debug, Clone, PartialEq, Hash)]
pub struct Tt2mme1 {
    #[asn(integer(0..7))] pub f0: u8,
    #[asn(optional(integer(0..7)))] pub f1: Option<u8>,
}

impl Tt2mme1 {
    pub const fn f0_min() -> u8 {
        0
    }

    pub const fn f0_max() -> u8 {
        7
    }

    pub const fn f1_min() -> u8 {
        0
    }

    pub const fn f1_max() -> u8 {
        7
    }
}

#[asn(set, extensible_after(f1))]

#[derive(Default, Debug, Clone, PartialEq, Hash)]
pub struct Tt2mme2 {
    #[asn(integer(0..7))] pub f0: u8,
    #[asn(integer(0..7))] pub f1: u8,
}

impl Tt2mme2 {
    pub const fn f0_min() -> u8 {
        0
    }

    pub const fn f0_max() -> u8 {
        7
    }

    pub const fn f1_min() -> u8 {
        0
    }

    pub const fn f1_max() -> u8 {
        7
    }
}

#[asn(set)]

#[derive(Default, Debug, Clone, PartialEq, Hash)]
pub struct Tt2omn {
    #[asn(optional(integer(0..7)))] pub f0: Option<u8>,
    #[asn(integer(0..7))] pub f1: u8,
}

impl Tt2omn {
    pub const fn f0_min() -> u8 {
        0
    }

    pub const fn f0_max() -> u8 {
        7
    }

    pub const fn f1_min() -> u8 {
        0
    }

    pub const fn f1_max() -> u8 {
        7
    }
}

#[asn(set, extensible_after(f0))]

#[derive(Default, Debug, Clone, PartialEq, Hash)]
pub struct Tt2ome0 {
    #[asn(optional(integer(0..7)))] pub f0: Option<u8>,
    #[asn(optional(integer(0..7)))] pub f1: Option<u8>,
}

impl Tt2ome0 {
    pub const fn f0_min() -> u8 {
        0
    }

    pub const fn f0_max() -> u8 {
        7
    }

    pub const fn f1_min() -> u8 {
        0
    }

    pub const fn f1_max() -> u8 {
        7
    }
}

#[asn(set, extensible_after(f0))]

#[derive(Default, Debug, Clone, PartialEq, Hash)]
pub struct Tt2ome1 {
    #[asn(optional(integer(0..7)))] pub f0: Option<u8>,
    #[asn(optional(integer(0..7)))] pub f1: Option<u8>,
}

impl Tt2ome1 {
    pub const fn f0_min() -> u8 {
        0
    }

    pub const fn f0_max() -> u8 {
        7
    }

    pub const fn f1_min() -> u8 {
        0
    }

    pub const fn f1_max() -> u8 {
        7
    }
}

#[asn(set, extensible_after(f1))]

#[derive(Default, Debug, Clone, PartialEq, Hash)]
pub struct Tt2ome2 {
    #[asn(optional(integer(0..7)))] pub f0: Option<u8>,
    #[asn(integer(0..7))] pub f1: u8,
}

impl Tt2ome2 {
    pub const fn f0_min() -> u8 {
        0
    }

    pub const fn f0_max() -> u8 {
        7
    }

    pub const fn f1_min() -> u8 {
        0
    }

    pub const fn f1_max() -> u8 {
        7
    }
}

#[asn(set)]

#[derive(Default, Debug, Clone, PartialEq, Hash)]
pub struct Tt2dmn {
    #[asn(default(integer(0..7), 5))] pub f0: u8,
    #[asn(integer(0..7))] pub f1: u8,
}

impl Tt2dmn {
    pub const fn f0_min() -> u8 {
        0
    }

    pub const fn f0_max() -> u8 {
        7
    }

    pub const fn f1_min() -> u8 {
        0
    }

    pub const fn f1_max() -> u8 {
        7
    }
}

#[asn(set, extensible_after(f0))]

#[derive(Default, Debug, Clone, PartialEq, Hash)]
pub struct Tt2dme0 {
    #[asn(default(integer(0..7), 5))] pub f0: u8,
    #[asn(optional(integer(0..7)))] pub f1: Option<u8>,
}

impl Tt2dme0 {
    pub const fn f0_min() -> u8 {
        0
    }

    pub const fn f0_max() -> u8 {
        7
    }

    pub const fn f1_min() -> u8 {
        0
    }

    pub const fn f1_max() -> u8 {
        7
    }
}

#[asn(set, extensible_after(f0))]

#[derive(Default, Debug, Clone, PartialEq, Hash)]
pub struct Tt2dme1 {
    #[asn(default(integer(0..7), 5))] pub f0: u8,
    #[asn(optional(integer(0..7)))] pub f1: Option<u8>,
}

impl Tt2dme1 {
    pub const fn f0_min() -> u8 {
        0
    }

    pub const fn f0_max() -> u8 {
        7
    }

    pub const fn f1_min() -> u8 {
        0
    }

    pub const fn f1_max() -> u8 {
        7
    }
}

#[asn(set, extensible_after(f1))]

#[derive(Default, Debug, Clone, PartialEq, Hash)]
pub struct Tt2dme2 {
    #[asn(default(integer(0..7), 5))] pub f0: u8,
    #[asn(integer(0..7))] pub f1: u8,
}

impl Tt2dme2 {
    pub const fn f0_min() -> u8 {
        0
    }

    pub const fn f0_max() -> u8 {
        7
    }

    pub const fn f1_min() -> u8 {
        0
    }

    pub const fn f1_max() -> u8 {
        7
    }
}

#[asn(set)]

#[derive(Default, Debug, Clone, PartialEq, Hash)]
pub struct Tt2mon {
    #[asn(integer(0..7))] pub f0: u8,
    #[asn(optional(integer(0..7)))] pub f1: Option<u8>,
}

impl Tt2mon {
    pub const fn f0_min() -> u8 {
        0
    }

    pub const fn f0_max() -> u8 {
        7
    }

    pub const fn f1_min() -> u8 {
        0
    }

    pub const fn f1_max() -> u8 {
        7
    }
}

#[asn(set, extensible_after(f0))]

#[derive(Default, Debug, Clone, PartialEq, Hash)]
pub struct Tt2moe0 {
    #[asn(integer(0..7))] pub f0: u8,
    #[asn(optional(integer(0..7)))] pub f1: Option<u8>,
}

impl Tt2moe0 {
    pub const fn f0_min() -> u8 {
        0
    }

    pub const fn f0_max() -> u8 {
        7
    }

    pub const fn f1_min() -> u8 {
        0
    }

    pub const fn f1_max() -> u8 {
        7
    }
}

#[asn(set, extensible_after(f0))]

#[derive(Default, Debug, Clone, PartialEq, Hash)]
pub struct Tt2moe1 {
    #[asn(integer(0..7))] pub f0: u8,
    #[asn(optional(integer(0..7)))] pub f1: Option<u8>,
}

impl Tt2moe1 {
    pub const fn f0_min() -> u8 {
        0
    }

    pub const fn f0_max() -> u8 {
        7
    }

    pub const fn f1_min() -> u8 {
        0
    }

    pub const fn f1_max() -> u8 {
        7
    }
}

#[asn(set, extensible_after(f1))]

#[derive(Default, Debug, Clone, PartialEq, Hash)]
pub struct Tt2moe2 {
    #[asn(integer(0..7))] pub f0: u8,
    #[asn(optional(integer(0..7)))] pub f1: Option<u8>,
}

impl Tt2moe2 {
    pub const fn f0_min() -> u8 {
        0
    }

    pub const fn f0_max() -> u8 {
        7
    }

    pub const fn f1_min() -> u8 {
        0
    }

    pub const fn f1_max() -> u8 {
        7
    }
}

#[asn(set)]

#[derive(Default, Debug, Clone, PartialEq, Hash)]
pub struct Tt2oon {
    #[asn(optional(integer(0..7)))] pub f0: Option<u8>,
    #[asn(optional(integer(0..7)))] pub f1: Option<u8>,
}

impl Tt2oon {
    pub const fn f0_min() -> u8 {
        0
    }

    pub const fn f0_max() -> u8 {
        7
    }

    pub const fn f1_min() -> u8 {
        0
    }

    pub const fn f1_max() -> u8 {
        7
    }
}

#[asn(set, extensible_after(f0))]

#[derive(Default, Debug, Clone, PartialEq, Hash)]
pub struct Tt2ooe0 {
    #[asn(optional(integer(0..7)))] pub f0: Option<u8>,
    #[asn(optional(integer(0..7)))] pub f1: Option<u8>,
}

impl Tt2ooe0 {
    pub const fn f0_min() -> u8 {
        0
    }

    pub const fn f0_max() -> u8 {
        7
    }

    pub const fn f1_min() -> u8 {
        0
    }

    pub const fn f1_max() -> u8 {
        7
    }
}

#[asn(set, extensible_after(f0))]

#[derive(Default, Debug, Clone, PartialEq, Hash)]
pub struct Tt2ooe1 {
    #[asn(optional(integer(0..7)))] pub f0: Option<u8>,
    #[asn(optional(integer(0..7)))] pub f1: Option<u8>,
}

impl Tt2ooe1 {
    pub const fn f0_min() -> u8 {
        0
    }

    pub const fn f0_max() -> u8 {
        7
    }

    pub const fn f1_min() -> u8 {
        0
    }

    pub const fn f1_max() -> u8 {
        7
    }
}

#[asn(set, extensible_after(f1))]

#[derive(Default, Debug, Clone, PartialEq, Hash)]
pub struct Tt2ooe2 {
    #[asn(optional(integer(0..7)))] pub f0: Option<u8>,
    #[asn(optional(integer(0..7)))] pub f1: Option<u8>,
}

impl Tt2ooe2 {
    pub const fn f0_min() -> u8 {
        0
    }

    pub const fn f0_max() -> u8 {
        7
    }

    pub const fn f1_min() -> u8 {
        0
    }

    pub const fn f1_max() -> u8 {
        7
    }
}

#[asn(set)]

#[derive(Default, Debug, Clone, PartialEq, Hash)]
pub struct Tt2don {
    #[asn(default(integer(0..7), 5))] pub f0: u8,
    #[asn(optional(integer(0..7)))] pub f1: Option<u8>,
}

impl Tt2don {
    pub const fn f0_min() -> u8 {
        0
    }

    pub const fn f0_max() -> u8 {
        7
    }

    pub const fn f1_min() -> u8 {
        0
    }

    pub const fn f1_max() -> u8 {
        7
    }
}

#[asn(set, extensible_after(f0))]

#[derive(Default, Debug, Clone, PartialEq, Hash)]
pub struct Tt2doe0 {
    #[asn(default(integer(0..7), 5))] pub f0: u8,
    #[asn(optional(integer(0..7)))] pub f1: Option<u8>,
}

impl Tt2doe0 {
    pub const fn f0_min() -> u8 {
        0
    }

    pub const fn f0_max() -> u8 {
        7
    }

    pub const fn f1_min() -> u8 {
        0
    }

    pub const fn f1_max() -> u8 {
        7
    }
}

#[asn(set, extensible_after(f0))]

#[derive(Default, Debug, Clone, PartialEq, Hash)]
pub struct Tt2doe1 {
    #[asn(default(integer(0..7), 5))] pub f0: u8,
    #[asn(optional(integer(0..7)))] pub f1: Option<u8>,
}

impl Tt2doe1 {
    pub const fn f0_min() -> u8 {
        0
    }

    pub const fn f0_max() -> u8 {
        7
    }

    pub const fn f1_min() -> u8 {
        0
    }

    pub const fn f1_max() -> u8 {
        7
    }
}

#[asn(set, extensible_after(f1))]

#[derive(Default, Debug, Clone, PartialEq, Hash)]
pub struct Tt2doe2 {
    #[asn(default(integer(0..7), 5))] pub f0: u8,
    #[asn(optional(integer(0..7)))] pub f1: Option<u8>,
}

impl Tt2doe2 {
    pub const fn f0_min() -> u8 {
        0
    }

    pub const fn f0_max() -> u8 {
        7
    }

    pub const fn f1_min() -> u8 {
        0
    }

    pub const fn f1_max() -> u8 {
        7
    }
}

#[asn(set)]

#[derive(Default, Debug, Clone, PartialEq, Hash)]
pub struct Tt2mdn {
    #[asn(integer(0..7))] pub f0: u8,
    #[asn(default(integer(0..7), 5))] pub f1: u8,
}

impl Tt2mdn {
    pub const fn f0_min() -> u8 {
        0
    }

    pub const fn f0_max() -> u8 {
        7
    }

    pub const fn f1_min() -> u8 {
        0
    }

    pub const fn f1_max() -> u8 {
        7
    }
}

#[asn(set, extensible_after(f0))]

#[derive(Default, Debug, Clone, PartialEq, Hash)]
pub struct Tt2mde0 {
    #[asn(integer(0..7))] pub f0: u8,
    #[asn(default(integer(0..7), 5))] pub f1: u8,
}

impl Tt2mde0 {
    pub const fn f0_min() -> u8 {
        0
    }

    pub const fn f0_max() -> u8 {
        7
    }

    pub const fn f1_min() -> u8 {
        0
    }

    pub const fn f1_max() -> u8 {
        7
    }
}

#[asn(set, extensible_after(f0))]

#[derive(Default, Debug, Clone, PartialEq, Hash)]
pub struct Tt2mde1 {
    #[asn(integer(0..7))] pub f0: u8,
    #[asn(default(integer(0..7), 5))] pub f1: u8,
}

impl Tt2mde1 {
    pub const fn f0_min() -> u8 {
        0
    }

    pub const fn f0_max() -> u8 {
        7
    }

    pub const fn f1_min() -> u8 {
        0
    }

    pub const fn f1_max() -> u8 {
        7
    }
}

#[asn(set, extensible_after(f1))]

#[derive(Default, Debug, Clone, PartialEq, Hash)]
pub struct Tt2mde2 {
    #[asn(integer(0..7))] pub f0: u8,
    #[asn(default(integer(0..7), 5))] pub f1: u8,
}

impl Tt2mde2 {
    pub const fn f0_min() -> u8 {
        0
    }

    pub const fn f0_max() -> u8 {
        7
    }

    pub const fn f1_min() -> u8 {
        0
    }

    pub const fn f1_max() -> u8 {
        7
    }
}

#[asn(set)]

#[derive(Default, Debug, Clone, PartialEq, Hash)]
pub struct Tt2odn {
    #[asn(optional(integer(0..7)))] pub f0: Option<u8>,
    #[asn(default(integer(0..7), 5))] pub f1: u8,
}

impl Tt2odn {
    pub const fn f0_min() -> u8 {
        0
    }

    pub const fn f0_max() -> u8 {
        7
    }

    pub const fn f1_min() -> u8 {
        0
    }

    pub const fn f1_max() -> u8 {
        7
    }
}

#[asn(set, extensible_after(f0))]

#[derive(Default, Debug, Clone, PartialEq, Hash)]
pub struct Tt2ode0 {
    #[asn(optional(integer(0..7)))] pub f0: Option<u8>,
    #[asn(default(integer(0..7), 5))] pub f1: u8,
}

impl Tt2ode0 {
    pub const fn f0_min() -> u8 {
        0
    }

    pub const fn f0_max() -> u8 {
        7
    }

    pub const fn f1_min() -> u8 {
        0
    }

    pub const fn f1_max() -> u8 {
        7
    }
}

#[asn(set, extensible_after(f0))]

#[derive(Default, Debug, Clone, PartialEq, Hash)]
pub struct Tt2ode1 {
    #[asn(optional(integer(0..7)))] pub f0: Option<u8>,
    #[asn(default(integer(0..7), 5))] pub f1: u8,
}

impl Tt2ode1 {
    pub const fn f0_min() -> u8 {
        0
    }

    pub const fn f0_max() -> u8 {
        7
    }

    pub const fn f1_min() -> u8 {
        0
    }

    pub const fn f1_max() -> u8 {
        7
    }
}

#[asn(set, extensible_after(f1))]

#[derive(Default, Debug, Clone, PartialEq, Hash)]
pub struct Tt2ode2 {
    #[asn(optional(integer(0..7)))] pub f0: Option<u8>,
    #[asn(default(integer(0..7), 5))] pub f1: u8,
}

impl Tt2ode2 {
    pub const fn f0_min() -> u8 {
        0
    }

    pub const fn f0_max() -> u8 {
        7
    }

    pub const fn f1_min() -> u8 {
        0
    }

    pub const fn f1_max() -> u8 {
        7
    }
}

#[asn(set)]

#[derive(Default, Debug, Clone, PartialEq, Hash)]
pub struct Tt2ddn {
    #[asn(default(integer(0..7), 5))] pub f0: u8,
    #[asn(default(integer(0..7), 5))] pub f1: u8,
}

impl Tt2ddn {
    pub const fn f0_min() -> u8 {
        0
    }

    pub const fn f0_max() -> u8 {
        7
    }

    pub const fn f1_min() -> u8 {
        0
    }

    pub const fn f1_max() -> u8 {
        7
    }
}

#[asn(set, extensible_after(f0))]

#[derive(Default, Debug, Clone, PartialEq, Hash)]
pub struct Tt2dde0 {
    #[asn(default(integer(0..7), 5))] pub f0: u8,
    #[asn(default(integer(0..7), 5))] pub f1: u8,
}

impl Tt2dde0 {
    pub const fn f0_min() -> u8 {
        0
    }

    pub const fn f0_max() -> u8 {
        7
    }

    pub const fn f1_min() -> u8 {
        0
    }

    pub const fn f1_max() -> u8 {
        7
    }
}

#[asn(set, extensible_after(f0))]

#[derive(Default, Debug, Clone, PartialEq, Hash)]
pub struct Tt2dde1 {
    #[asn(default(integer(0..7), 5))] pub f0: u8,
    #[asn(default(integer(0..7), 5))] pub f1: u8,
}

impl Tt2dde1 {
    pub const fn f0_min() -> u8 {
        0
    }

    pub const fn f0_max() -> u8 {
        7
    }

    pub const fn f1_min() -> u8 {
        0
    }

    pub const fn f1_max() -> u8 {
        7
    }
}

#[asn(set, extensible_after(f1))]

#[derive(Default, Debug, Clone, PartialEq, Hash)]
pub struct Tt2dde2 {
    #[asn(default(integer(0..7), 5))] pub f0: u8,
    #[asn(default(integer(0..7), 5))] pub f1: u8,
}

impl Tt2dde2 {
    pub const fn f0_min() -> u8 {
        0
    }

    pub const fn f0_max() -> u8 {
        7
    }

    pub const fn f1_min() -> u8 {
        0
    }

    pub const fn f1_max() -> u8 {
        7
    }
}

#[asn(set)]

#[derive(Default, Debug, Clone, PartialEq, Hash)]
pub struct Tt3mmmn {
    #[asn(integer(0..7))] pub f0: u8,
    #[asn(integer(0..7))] pub f1: u8,
    #[asn(integer(0..7))] pub f2: u8,
}

impl Tt3mmmn {
    pub const fn f0_min() -> u8 {
        0
    }

    pub const fn f0_max() -> u8 {
        7
    }

    pub const fn f1_min() -> u8 {
        0
    }

    pub const fn f1_max() -> u8 {
        7
    }

    pub const fn f2_min() -> u8 {
        0
    }

    pub const fn f2_max() -> u8 {
        7
    }
}

#[asn(set, extensible_after(f0))]

#[derive(Default, Debug, Clone, PartialEq, Hash)]
pub struct Tt3mmme0 {
    #[asn(integer(0..7))] pub f0: u8,
    #[asn(optional(integer(0..7)))] pub f1: Option<u8>,
    #[asn(optional(integer(0..7)))] pub f2: Option<u8>,
}

impl Tt3mmme0 {
    pub const fn f0_min() -> u8 {
        0
    }

    pub const fn f0_max() -> u8 {
        7
    }

    pub const fn f1_min() -> u8 {
        0
    }

    pub const fn f1_max() -> u8 {
        7
    }

    pub const fn f2_min() -> u8 {
        0
    }

    pub const fn f2_max() -> u8 {
        7
    }
}

#[asn(set, extensible_after(f0))]

#[derive(Default, Debug, Clone, PartialEq, Hash)]
pub struct Tt3mmme1 {
    #[asn(integer(0..7))] pub f0: u8,
    #[asn(optional(integer(0..7)))] pub f1: Option<u8>,
    #[asn(optional(integer(0..7)))] pub f2: Option<u8>,
}

impl Tt3mmme1 {
    pub const fn f0_min() -> u8 {
        0
    }

    pub const fn f0_max() -> u8 {
        7
    }

    pub const fn f1_min() -> u8 {
        0
    }

    pub const fn f1_max() -> u8 {
        7
    }

    pub const fn f2_min() -> u8 {
        0
    }

    pub const fn f2_max() -> u8 {
        7
    }
}

#[asn(set, extensible_after(f1))]

#[derive(Default, Debug, Clone, PartialEq, Hash)]
pub struct Tt3mmme2 {
    #[asn(integer(0..7))] pub f0: u8,
    #[asn(integer(0..7))] pub f1: u8,
    #[asn(optional(integer(0..7)))] pub f2: Option<u8>,
}

impl Tt3mmme2 {
    pub const fn f0_min() -> u8 {
        0
    }

    pub const fn f0_max() -> u8 {
        7
    }

    pub const fn f1_min() -> u8 {
        0
    }

    pub const fn f1_max() -> u8 {
        7
    }

    pub const fn f2_min() -> u8 {
        0
    }

    pub const fn f2_max() -> u8 {
        7
    }
}

#[asn(set, extensible_after(f2))]

#[derive(Default, Debug, Clone, PartialEq, Hash)]
pub struct Tt3mmme3 {
    #[asn(integer(0..7))] pub f0: u8,
    #[asn(integer(0..7))] pub f1: u8,
    #[asn(integer(0..7))] pub f2: u8,
}

impl Tt3mmme3 {
    pub const fn f0_min() -> u8 {
        0
    }

    pub const fn f0_max() -> u8 {
        7
    }

    pub const fn f1_min() -> u8 {
        0
    }

    pub const fn f1_max() -> u8 {
        7
    }

    pub const fn f2_min() -> u8 {
        0
    }

    pub const fn f2_max() -> u8 {
        7
    }
}

#[asn(set)]

#[derive(Default, Debug, Clone, PartialEq, Hash)]
pub struct Tt3ommn {
    #[asn(optional(integer(0..7)))] pub f0: Option<u8>,
    #[asn(integer(0..7))] pub f1: u8,
    #[asn(integer(0..7))] pub f2: u8,
}

impl Tt3ommn {
    pub const fn f0_min() -> u8 {
        0
    }

    pub const fn f0_max() -> u8 {
        7
    }

    pub const fn f1_min() -> u8 {
        0
    }

    pub const fn f1_max() -> u8 {
        7
    }

    pub const fn f2_min() -> u8 {
        0
    }

    pub const fn f2_max() -> u8 {
        7
    }
}

#[asn(set, extensible_after(f0))]

#[derive(Default, Debug, Clone, PartialEq, Hash)]
pub struct Tt3omme0 {
    #[asn(optional(integer(0..7)))] pub f0: Option<u8>,
    #[asn(optional(integer(0..7)))] pub f1: Option<u8>,
    #[asn(optional(integer(0..7)))] pub f2: Option<u8>,
}

impl Tt3omme0 {
    pub const fn f0_min() -> u8 {
        0
    }

    pub const fn f0_max() -> u8 {
        7
    }

    pub const fn f1_min() -> u8 {
        0
    }

    pub const fn f1_max() -> u8 {
        7
    }

    pub const fn f2_min() -> u8 {
        0
    }

    pub const fn f2_max() -> u8 {
        7
    }
}

#[asn(set, extensible_after(f0))]

#[derive(Default, Debug, Clone, PartialEq, Hash)]
pub struct Tt3omme1 {
    #[asn(optional(integer(0..7)))] pub f0: Option<u8>,
    #[asn(optional(integer(0..7)))] pub f1: Option<u8>,
    #[asn(optional(integer(0..7)))] pub f2: Option<u8>,
}

impl Tt3omme1 {
    pub const fn f0_min() -> u8 {
        0
    }

    pub const fn f0_max() -> u8 {
        7
    }

    pub const fn f1_min() -> u8 {
        0
    }

    pub const fn f1_max() -> u8 {
        7
    }

    pub const fn f2_min() -> u8 {
        0
    }

    pub const fn f2_max() -> u8 {
        7
    }
}

#[asn(set, extensible_after(f1))]

#[derive(Default, Debug, Clone, PartialEq, Hash)]
pub struct Tt3omme2 {
    #[asn(optional(integer(0..7)))] pub f0: Option<u8>,
    #[asn(integer(0..7))] pub f1: u8,
    #[asn(optional(integer(0..7)))] pub f2: Option<u8>,
}

impl Tt3omme2 {
    pub const fn f0_min() -> u8 {
        0
    }

    pub const fn f0_max() -> u8 {
        7
    }

    pub const fn f1_min() -> u8 {
        0
    }

    pub const fn f1_max() -> u8 {
        7
    }

    pub const fn f2_min() -> u8 {
        0
    }

    pub const fn f2_max() -> u8 {
        7
    }
}

#[asn(set, extensible_after(f2))]

#[derive(Default, Debug, Clone, PartialEq, Hash)]
pub struct Tt3omme3 {
    #[asn(optional(integer(0..7)))] pub f0: Option<u8>,
    #[asn(integer(0..7))] pub f1: u8,
    #[asn(integer(0..7))] pub f2: u8,
}

impl Tt3omme3 {
    pub const fn f0_min() -> u8 {
        0
    }

    pub const fn f0_max() -> u8 {
        7
    }

    pub const fn f1_min() -> u8 {
        0
    }

    pub const fn f1_max() -> u8 {
        7
    }

    pub const fn f2_min() -> u8 {
        0
    }

    pub const fn f2_max() -> u8 {
        7
    }
}

#[asn(set)]

#[derive(Default, Debug, Clone, PartialEq, Hash)]
pub struct Tt3dmmn {
    #[asn(default(integer(0..7), 5))] pub f0: u8,
    #[asn(integer(0..7))] pub f1: u8,
    #[asn(integer(0..7))] pub f2: u8,
}

impl Tt3dmmn {
    pub const fn f0_min() -> u8 {
        0
    }

    pub const fn f0_max() -> u8 {
        7
    }

    pub const fn f1_min() -> u8 {
        0
    }

    pub const fn f1_max() -> u8 {
        7
    }

    pub const fn f2_min() -> u8 {
        0
    }

    pub const fn f2_max() -> u8 {
        7
    }
}

#[asn(set, extensible_after(f0))]

#[derive(Default, Debug, Clone, PartialEq, Hash)]
pub struct Tt3dmme0 {
    #[asn(default(integer(0..7), 5))] pub f0: u8,
    #[asn(optional(integer(0..7)))] pub f1: Option<u8>,
    #[asn(optional(integer(0..7)))] pub f2: Option<u8>,
}

impl Tt3dmme0 {
    pub const fn f0_min() -> u8 {
        0
    }

    pub const fn f0_max() -> u8 {
        7
    }

    pub const fn f1_min() -> u8 {
        0
    }

    pub const fn f1_max() -> u8 {
        7
    }

    pub const fn f2_min() -> u8 {
        0
    }

    pub const fn f2_max() -> u8 {
        7
    }
}

#[asn(set, extensible_after(f0))]

#[derive(Default, Debug, Clone, PartialEq, Hash)]
pub struct Tt3dmme1 {
    #[asn(default(integer(0..7), 5))] pub f0: u8,
    #[asn(optional(integer(0..7)))] pub f1: Option<u8>,
    #[asn(optional(integer(0..7)))] pub f2: Option<u8>,
}

impl Tt3dmme1 {
    pub const fn f0_min() -> u8 {
        0
    }

    pub const fn f0_max() -> u8 {
        7
    }

    pub const fn f1_min() -> u8 {
        0
    }

    pub const fn f1_max() -> u8 {
        7
    }

    pub const fn f2_min() -> u8 {
        0
    }

    pub const fn f2_max() -> u8 {
        7
    }
}

#[asn(set, extensible_after(f1))]

#[derive(Default, Debug, Clone, PartialEq, Hash)]
pub struct Tt3dmme2 {
    #[asn(default(integer(0..7), 5))] pub f0: u8,
    #[asn(integer(0..7))] pub f1: u8,
    #[asn(optional(integer(0..7)))] pub f2: Option<u8>,
}

impl Tt3dmme2 {
    pub const fn f0_min() -> u8 {
        0
    }

    pub const fn f0_max() -> u8 {
        7
    }

    pub const fn f1_min() -> u8 {
        0
    }

    pub const fn f1_max() -> u8 {
        7
    }

    pub const fn f2_min() -> u8 {
        0
    }

    pub const fn f2_max() -> u8 {
        7
    }
}

#[asn(set, extensible_after(f2))]

#[derive(Default, Debug, Clone, PartialEq, Hash)]
pub struct Tt3dmme3 {
    #[asn(default(integer(0..7), 5))] pub f0: u8,
    #[asn(integer(0..7))] pub f1: u8,
    #[asn(integer(0..7))] pub f2: u8,
}

impl Tt3dmme3 {
    pub const fn f0_min() -> u8 {
        0
    }

    pub const fn f0_max() -> u8 {
        7
    }

    pub const fn f1_min() -> u8 {
        0
    }

    pub const fn f1_max() -> u8 {
        7
    }

    pub const fn f2_min() -> u8 {
        0
    }

    pub const fn f2_max() -> u8 {
        7
    }
}

#[asn(set)]

#[derive(Default, Debug, Clone, PartialEq, Hash)]
pub struct Tt3momn {
    #[asn(integer(0..7))] pub f0: u8,
    #[asn(optional(integer(0..7)))] pub f1: Option<u8>,
    #[asn(integer(0..7))] pub f2: u8,
}

impl Tt3momn {
    pub const fn f0_min() -> u8 {
        0
    }

    pub const fn f0_max() -> u8 {
        7
    }

    pub const fn f1_min() -> u8 {
        0
    }

    pub const fn f1_max() -> u8 {
        7
    }

    pub const fn f2_min() -> u8 {
        0
    }

    pub const fn f2_max() -> u8 {
        7
    }
}

#[asn(set, extensible_after(f0))]

#[derive(Default, Debug, Clone, PartialEq, Hash)]
pub struct Tt3mome0 {
    #[asn(integer(0..7))] pub f0: u8,
    #[asn(optional(integer(0..7)))] pub f1: Option<u8>,
    #[asn(optional(integer(0..7)))] pub f2: Option<u8>,
}

impl Tt3mome0 {
    pub const fn f0_min() -> u8 {
        0
    }

    pub const fn f0_max() -> u8 {
        7
    }

    pub const fn f1_min() -> u8 {
        0
    }

    pub const fn f1_max() -> u8 {
        7
    }

    pub const fn f2_min() -> u8 {
        0
    }

    pub const fn f2_max() -> u8 {
        7
    }
}

#[asn(set, extensible_after(f0))]

#[derive(Default, Debug, Clone, PartialEq, Hash)]
pub struct Tt3mome1 {
    #[asn(integer(0..7))] pub f0: u8,
    #[asn(optional(integer(0..7)))] pub f1: Option<u8>,
    #[asn(optional(integer(0..7)))] pub f2: Option<u8>,
}

impl Tt3mome1 {
    pub const fn f0_min() -> u8 {
        0
    }

    pub const fn f0_max() -> u8 {
        7
    }

    pub const fn f1_min() -> u8 {
        0
    }

    pub const fn f1_max() -> u8 {
        7
    }

    pub const fn f2_min() -> u8 {
        0
    }

    pub const fn f2_max() -> u8 {
        7
    }
}

#[asn(set, extensible_after(f1))]

#[derive(Default, Debug, Clone, PartialEq, Hash)]
pub struct Tt3mome2 {
    #[asn(integer(0..7))] pub f0: u8,
    #[asn(optional(integer(0..7)))] pub f1: Option<u8>,
    #[asn(optional(integer(0..7)))] pub f2: Option<u8>,
}

impl Tt3mome2 {
    pub const fn f0_min() -> u8 {
        0
    }

    pub const fn f0_max() -> u8 {
        7
    }

    pub const fn f1_min() -> u8 {
        0
    }

    pub const fn f1_max() -> u8 {
        7
    }

    pub const fn f2_min() -> u8 {
        0
    }

    pub const fn f2_max() -> u8 {
        7
    }
}

#[asn(set, extensible_after(f2))]

#[derive(Default, Debug, Clone, PartialEq, Hash)]
pub struct Tt3mome3 {
    #[asn(integer(0..7))] pub f0: u8,
    #[asn(optional(integer(0..7)))] pub f1: Option<u8>,
    #[asn(integer(0..7))] pub f2: u8,
}

impl Tt3mome3 {
    pub const fn f0_min() -> u8 {
        0
    }

    pub const fn f0_max() -> u8 {
        7
    }

    pub const fn f1_min() -> u8 {
        0
    }

    pub const fn f1_max() -> u8 {
        7
    }

    pub const fn f2_min() -> u8 {
        0
    }

    pub const fn f2_max() -> u8 {
        7
    }
}

#[asn(set)]

#[derive(Default, Debug, Clone, PartialEq, Hash)]
pub struct Tt3oomn {
    #[asn(optional(integer(0..7)))] pub f0: Option<u8>,
    #[asn(optional(integer(0..7)))] pub f1: Option<u8>,
    #[asn(integer(0..7))] pub f2: u8,
}

impl Tt3oomn {
    pub const fn f0_min() -> u8 {
        0
    }

    pub const fn f0_max() -> u8 {
        7
    }

    pub const fn f1_min() -> u8 {
        0
    }

    pub const fn f1_max() -> u8 {
        7
    }

    pub const fn f2_min() -> u8 {
        0
    }

    pub const fn f2_max() -> u8 {
        7
    }
}

#[asn(set, extensible_after(f0))]

#[derive(Default, Debug, Clone, PartialEq, Hash)]
pub struct Tt3oome0 {
    #[asn(optional(integer(0..7)))] pub f0: Option<u8>,
    #[asn(optional(integer(0..7)))] pub f1: Option<u8>,
    #[asn(optional(integer(0..7)))] pub f2: Option<u8>,
}

impl Tt3oome0 {
    pub const fn f0_min() -> u8 {
        0
    }

    pub const fn f0_max() -> u8 {
        7
    }

    pub const fn f1_min() -> u8 {
        0
    }

    pub const fn f1_max() -> u8 {
        7
    }

    pub const fn f2_min() -> u8 {
        0
    }

    pub const fn f2_max() -> u8 {
        7
    }
}

#[asn(set, extensible_after(f0))]

#[derive(Default, Debug, Clone, PartialEq, Hash)]
pub struct Tt3oome1 {
    #[asn(optional(integer(0..7)))] pub f0: Option<u8>,
    #[asn(optional(integer(0..7)))] pub f1: Option<u8>,
    #[asn(optional(integer(0..7)))] pub f2: Option<u8>,
}

impl Tt3oome1 {
    pub const fn f0_min() -> u8 {
        0
    }

    pub const fn f0_max() -> u8 {
        7
    }

    pub const fn f1_min() -> u8 {
        0
    }

    pub const fn f1_max() -> u8 {
        7
    }

    pub const fn f2_min() -> u8 {
        0
    }

    pub const fn f2_max() -> u8 {
        7
    }
}

#[asn(set, extensible_after(f1))]

#[derive(Default, Debug, Clone, PartialEq, Hash)]
pub struct Tt3oome2 {
    #[asn(optional(integer(0..7)))] pub f0: Option<u8>,
    #[asn(optional(integer(0..7)))] pub f1: Option<u8>,
    #[asn(optional(integer(0..7)))] pub f2: Option<u8>,
}

impl Tt3oome2 {
    pub const fn f0_min() -> u8 {
        0
    }

    pub const fn f0_max() -> u8 {
        7
    }

    pub const fn f1_min() -> u8 {
        0
    }

    pub const fn f1_max() -> u8 {
        7
    }

    pub const fn f2_min() -> u8 {
        0
    }

    pub const fn f2_max() -> u8 {
        7
    }
}

#[asn(set, extensible_after(f2))]

#[derive(Default, Debug, Clone, PartialEq, Hash)]
pub struct Tt3oome3 {
    #[asn(optional(integer(0..7)))] pub f0: Option<u8>,
    #[asn(optional(integer(0..7)))] pub f1: Option<u8>,
    #[asn(integer(0..7))] pub f2: u8,
}

impl Tt3oome3 {
    pub const fn f0_min() -> u8 {
        0
    }

    pub const fn f0_max() -> u8 {
        7
    }

    pub const fn f1_min() -> u8 {
        0
    }

    pub const fn f1_max() -> u8 {
        7
    }

    pub const fn f2_min() -> u8 {
        0
    }

    pub const fn f2_max() -> u8 {
        7
    }
}

#[asn(set)]

#[derive(Default, Debug, Clone, PartialEq, Hash)]
pub struct Tt3domn {
    #[asn(default(integer(0..7), 5))] pub f0: u8,
    #[asn(optional(integer(0..7)))] pub f1: Option<u8>,
    #[asn(integer(0..7))] pub f2: u8,
}

impl Tt3domn {
    pub const fn f0_min() -> u8 {
        0
    }

    pub const fn f0_max() -> u8 {
        7
    }

    pub const fn f1_min() -> u8 {
        0
    }

    pub const fn f1_max() -> u8 {
        7
    }

    pub const fn f2_min() -> u8 {
        0
    }

    pub const fn f2_max() -> u8 {
        7
    }
}

#[asn(set, extensible_after(f0))]

#[derive(Default, Debug, Clone, PartialEq, Hash)]
pub struct Tt3dome0 {
    #[asn(default(integer(0..7), 5))] pub f0: u8,
    #[asn(optional(integer(0..7)))] pub f1: Option<u8>,
    #[asn(optional(integer(0..7)))] pub f2: Option<u8>,
}

impl Tt3dome0 {
    pub const fn f0_min() -> u8 {
        0
    }

    pub const fn f0_max() -> u8 {
        7
    }

    pub const fn f1_min() -> u8 {
        0
    }

    pub const fn f1_max() -> u8 {
        7
    }

    pub const fn f2_min() -> u8 {
        0
    }

    pub const fn f2_max() -> u8 {
        7
    }
}

#[asn(set, extensible_after(f0))]

#[derive(Default, Debug, Clone, PartialEq, Hash)]
pub struct Tt3dome1 {
    #[asn(default(integer(0..7), 5))] pub f0: u8,
    #[asn(optional(integer(0..7)))] pub f1: Option<u8>,
    #[asn(optional(integer(0..7)))] pub f2: Option<u8>,
}

impl Tt3dome1 {
    pub const fn f0_min() -> u8 {
        0
    }

    pub const fn f0_max() -> u8 {
        7
    }

    pub const fn f1_min() -> u8 {
        0
    }

    pub const fn f1_max() -> u8 {
        7
    }

    pub const fn f2_min() -> u8 {
        0
    }

    pub const fn f2_max() -> u8 {
        7
    }
}

#[asn(set, extensible_after(f1))]

#[derive(Default, Debug, Clone, PartialEq, Hash)]
pub struct Tt3dome2 {
    #[asn(default(integer(0..7), 5))] pub f0: u8,
    #[asn(optional(integer(0..7)))] pub f1: Option<u8>,
    #[asn(optional(integer(0..7)))] pub f2: Option<u8>,
}

impl Tt3dome2 {
    pub const fn f0_min() -> u8 {
        0
    }

    pub const fn f0_max() -> u8 {
        7
    }

    pub const fn f1_min() -> u8 {
        0
    }

    pub const fn f1_max() -> u8 {
        7
    }

    pub const fn f2_min() -> u8 {
        0
    }

    pub const fn f2_max() -> u8 {
        7
    }
}

#[asn(set, extensible_after(f2))]

#[derive(Default, Debug, Clone, PartialEq, Hash)]
pub struct Tt3dome3 {
    #[asn(default(integer(0..7), 5))] pub f0: u8,
    #[asn(optional(integer(0..7)))] pub f1: Option<u8>,
    #[asn(integer(0..7))] pub f2: u8,
}

impl Tt3dome3 {
    pub const fn f0_min() -> u8 {
        0
    }

    pub const fn f0_max() -> u8 {
        7
    }

    pub const fn f1_min() -> u8 {
        0
    }

    pub const fn f1_max() -> u8 {
        7
    }

    pub const fn f2_min() -> u8 {
        0
    }

    pub const fn f2_max() -> u8 {
        7
    }
}

#[asn(set)]

#[derive(Default, Debug, Clone, PartialEq, Hash)]
pub struct Tt3mdmn {
    #[asn(integer(0..7))] pub f0: u8,
    #[asn(default(integer(0..7), 5))] pub f1: u8,
    #[asn(integer(0..7))] pub f2: u8,
}

impl Tt3mdmn {
    pub const fn f0_min() -> u8 {
        0
    }

    pub const fn f0_max() -> u8 {
        7
    }

    pub const fn f1_min() -> u8 {
        0
    }

    pub const fn f1_max() -> u8 {
        7
    }

    pub const fn f2_min() -> u8 {
        0
    }

    pub const fn f2_max() -> u8 {
        7
    }
}

#[asn(set, extensible_after(f0))]

#[derive(Default, Debug, Clone, PartialEq, Hash)]
pub struct Tt3mdme0 {
    #[asn(integer(0..7))] pub f0: u8,
    #[asn(default(integer(0..7), 5))] pub f1: u8,
    #[asn(optional(integer(0..7)))] pub f2: Option<u8>,
}

impl Tt3mdme0 {
    pub const fn f0_min() -> u8 {
        0
    }

    pub const fn f0_max() -> u8 {
        7
    }

    pub const fn f1_min() -> u8 {
        0
    }

    pub const fn f1_max() -> u8 {
        7
    }

    pub const fn f2_min() -> u8 {
        0
    }

    pub const fn f2_max() -> u8 {
        7
    }
}

#[asn(set, extensible_after(f0))]

#[derive(Default, Debug, Clone, PartialEq, Hash)]
pub struct Tt3mdme1 {
    #[asn(integer(0..7))] pub f0: u8,
    #[asn(default(integer(0..7), 5))] pub f1: u8,
    #[asn(optional(integer(0..7)))] pub f2: Option<u8>,
}

impl Tt3mdme1 {
    pub const fn f0_min() -> u8 {
        0
    }

    pub const fn f0_max() -> u8 {
        7
    }

    pub const fn f1_min() -> u8 {
        0
    }

    pub const fn f1_max() -> u8 {
        7
    }

    pub const fn f2_min() -> u8 {
        0
    }

    pub const fn f2_max() -> u8 {
        7
    }
}

#[asn(set, extensible_after(f1))]

#[derive(Default, Debug, Clone, PartialEq, Hash)]
pub struct Tt3mdme2 {
    #[asn(integer(0..7))] pub f0: u8,
    #[asn(default(integer(0..7), 5))] pub f1: u8,
    #[asn(optional(integer(0..7)))] pub f2: Option<u8>,
}

impl Tt3mdme2 {
    pub const fn f0_min() -> u8 {
        0
    }

    pub const fn f0_max() -> u8 {
        7
    }

    pub const fn f1_min() -> u8 {
        0
    }

    pub const fn f1_max() -> u8 {
        7
    }

    pub const fn f2_min() -> u8 {
        0
    }

    pub const fn f2_max() -> u8 {
        7
    }
}

#[asn(set, extensible_after(f2))]

#[derive(Default, Debug, Clone, PartialEq, Hash)]
pub struct Tt3mdme3 {
    #[asn(integer(0..7))] pub f0: u8,
    #[asn(default(integer(0..7), 5))] pub f1: u8,
    #[asn(integer(0..7))] pub f2: u8,
}

impl Tt3mdme3 {
    pub const fn f0_min() -> u8 {
        0
    }

    pub const fn f0_max() -> u8 {
        7
    }

    pub const fn f1_min() -> u8 {
        0
    }

    pub const fn f1_max() -> u8 {
        7
    }

    pub const fn f2_min() -> u8 {
        0
    }

    pub const fn f2_max() -> u8 {
        7
    }
}

#[asn(set)]

#[derive(Default, Debug, Clone, PartialEq, Hash)]
pub struct Tt3odmn {
    #[asn(optional(integer(0..7)))] pub f0: Option<u8>,
    #[asn(default(integer(0..7), 5))] pub f1: u8,
    #[asn(integer(0..7))] pub f2: u8,
}

impl Tt3odmn {
    pub const fn f0_min() -> u8 {
        0
    }

    pub const fn f0_max() -> u8 {
        7
    }

    pub const fn f1_min() -> u8 {
        0
    }

    pub const fn f1_max() -> u8 {
        7
    }

    pub const fn f2_min() -> u8 {
        0
    }

    pub const fn f2_max() -> u8 {
        7
    }
}

#[asn(set, extensible_after(f0))]

#[derive(Default, Debug, Clone, PartialEq, Hash)]
pub struct Tt3odme0 {
    #[asn(optional(integer(0..7)))] pub f0: Option<u8>,
    #[asn(default(integer(0..7), 5))] pub f1: u8,
    #[asn(optional(integer(0..7)))] pub f2: Option<u8>,
}

impl Tt3odme0 {
    pub const fn f0_min() -> u8 {
        0
    }

    pub const fn f0_max() -> u8 {
        7
    }

    pub const fn f1_min() -> u8 {
        0
    }

    pub const fn f1_max() -> u8 {
        7
    }

    pub const fn f2_min() -> u8 {
        0
    }

    pub const fn f2_max() -> u8 {
        7
    }
}

#[asn(set, extensible_after(f0))]

#[derive(Default, Debug, Clone, PartialEq, Hash)]
pub struct Tt3odme1 {
    #[asn(optional(integer(0..7)))] pub f0: Option<u8>,
    #[asn(default(integer(0..7), 5))] pub f1: u8,
    #[asn(optional(integer(0..7)))] pub f2: Option<u8>,
}

impl Tt3odme1 {
    pub const fn f0_min() -> u8 {
        0
    }

    pub const fn f0_max() -> u8 {
        7
    }

    pub const fn f1_min() -> u8 {
        0
    }

    pub const fn f1_max() -> u8 {
        7
    }

    pub const fn f2_min() -> u8 {
        0
    }

    pub const fn f2_max() -> u8 {
        7
    }
}

#[asn(set, extensible_after(f1))]

#[derive(Default, Debug, Clone, PartialEq, Hash)]
pub struct Tt3odme2 {
    #[asn(optional(integer(0..7)))] pub f0: Option<u8>,
    #[asn(default(integer(0..7), 5))] pub f1: u8,
    #[asn(optional(integer(0..7)))] pub f2: Option<u8>,
}

impl Tt3odme2 {
    pub const fn f0_min() -> u8 {
        0
    }

    pub const fn f0_max() -> u8 {
        7
    }

    pub const fn f1_min() -> u8 {
        0
    }

    pub const fn f1_max() -> u8 {
        7
    }

    pub const fn f2_min() -> u8 {
        0
    }

    pub const fn f2_max() -> u8 {
        7
    }
}

#[asn(set, extensible_after(f2))]

#[derive(Default, Debug, Clone, PartialEq, Hash)]
pub struct Tt3odme3 {
    #[asn(optional(integer(0..7)))] pub f0: Option<u8>,
    #[asn(default(integer(0..7), 5))] pub f1: u8,
    #[asn(integer(0..7))] pub f2: u8,
}

impl Tt3odme3 {
    pub const fn f0_min() -> u8 {
        0
    }

    pub const fn f0_max() -> u8 {
        7
    }

    pub const fn f1_min() -> u8 {
        0
    }

    pub const fn f1_max() -> u8 {
        7
    }

    pub const fn f2_min() -> u8 {
        0
    }

    pub const fn f2_max() -> u8 {
        7
    }
}

#[asn(set)]

#[derive(Default, Debug, Clone, PartialEq, Hash)]
pub struct Tt3ddmn {
    #[asn(default(integer(0..7), 5))] pub f0: u8,
    #[asn(default(integer(0..7), 5))] pub f1: u8,
    #[asn(integer(0..7))] pub f2: u8,
}

impl Tt3ddmn {
    pub const fn f0_min() -> u8 {
        0
    }

    pub const fn f0_max() -> u8 {
        7
    }

    pub const fn f1_min() -> u8 {
        0
    }

    pub const fn f1_max() -> u8 {
        7
    }

    pub const fn f2_min() -> u8 {
        0
    }

    pub const fn f2_max() -> u8 {
        7
    }
}

#[asn(set, extensible_after(f0))]

#[derive(Default, Debug, Clone, PartialEq, Hash)]
pub struct Tt3ddme0 {
    #[asn(default(integer(0..7), 5))] pub f0: u8,
    #[asn(default(integer(0..7), 5))] pub f1: u8,
    #[asn(optional(integer(0..7)))] pub f2: Option<u8>,
}

impl Tt3ddme0 {
    pub const fn f0_min() -> u8 {
        0
    }

    pub const fn f0_max() -> u8 {
        7
    }

    pub const fn f1_min() -> u8 {
        0
    }

    pub const fn f1_max() -> u8 {
        7
    }

    pub const fn f2_min() -> u8 {
        0
    }

    pub const fn f2_max() -> u8 {
        7
    }
}

#[asn(set, extensible_after(f0))]

#[derive(Default, Debug, Clone, PartialEq, Hash)]
pub struct Tt3ddme1 {
    #[asn(default(integer(0..7), 5))] pub f0: u8,
    #[asn(default(integer(0..7), 5))] pub f1: u8,
    #[asn(optional(integer(0..7)))] pub f2: Option<u8>,
}

impl Tt3ddme1 {
    pub const fn f0_min() -> u8 {
        0
    }

    pub const fn f0_max() -> u8 {
        7
    }

    pub const fn f1_min() -> u8 {
        0
    }

    pub const fn f1_max() -> u8 {
        7
    }

    pub const fn f2_min() -> u8 {
        0
    }

    pub const fn f2_max() -> u8 {
        7
    }
}

#[asn(set, extensible_after(f1))]

#[derive(Default, Debug, Clone, PartialEq, Hash)]
pub struct Tt3ddme2 {
    #[asn(default(integer(0..7), 5))] pub f0: u8,
    #[asn(default(integer(0..7), 5))] pub f1: u8,
    #[asn(optional(integer(0..7)))] pub f2: Option<u8>,
}

impl Tt3ddme2 {
    pub const fn f0_min() -> u8 {
        0
    }

    pub const fn f0_max() -> u8 {
        7
    }

    pub const fn f1_min() -> u8 {
        0
    }

    pub const fn f1_max() -> u8 {
        7
    }

    pub const fn f2_min() -> u8 {
        0
    }

    pub const fn f2_max() -> u8 {
        7
    }
}

#[asn(set, extensible_after(f2))]

#[derive(Default, Debug, Clone, PartialEq, Hash)]
pub struct Tt3ddme3 {
    #[asn(default(integer(0..7), 5))] pub f0: u8,
    #[asn(default(integer(0..7), 5))] pub f1: u8,
    #[asn(integer(0..7))] pub f2: u8,
}

impl Tt3ddme3 {
    pub const fn f0_min() -> u8 {
        0
    }

    pub const fn f0_max() -> u8 {
        7
    }

    pub const fn f1_min() -> u8 {
        0
    }

    pub const fn f1_max() -> u8 {
        7
    }

    pub const fn f2_min() -> u8 {
        0
    }

    pub const fn f2_max() -> u8 {
        7
    }
}

#[asn(set)]

#[derive(Default, Debug, Clone, PartialEq, Hash)]
pub struct Tt3mmon {
    #[asn(integer(0..7))] pub f0: u8,
    #[asn(integer(0..7))] pub f1: u8,
    #[asn(optional(integer(0..7)))] pub f2: Option<u8>,
}

impl Tt3mmon {
    pub const fn f0_min() -> u8 {
        0
    }

    pub const fn f0_max() -> u8 {
        7
    }

    pub const fn f1_min() -> u8 {
        0
    }

    pub const fn f1_max() -> u8 {
        7
    }

    pub const fn f2_min() -> u8 {
        0
    }

    pub const fn f2_max() -> u8 {
        7
    }
}

#[asn(set, extensible_after(f0))]

#[derive(Default, Debug, Clone, PartialEq, Hash)]
pub struct Tt3mmoe0 {
    #[asn(integer(0..7))] pub f0: u8,
    #[asn(optional(integer(0..7)))] pub f1: Option<u8>,
    #[asn(optional(integer(0..7)))] pub f2: Option<u8>,
}

impl Tt3mmoe0 {
    pub const fn f0_min() -> u8 {
        0
    }

    pub const fn f0_max() -> u8 {
        7
    }

    pub const fn f1_min() -> u8 {
        0
    }

    pub const fn f1_max() -> u8 {
        7
    }

    pub const fn f2_min() -> u8 {
        0
    }

    pub const fn f2_max() -> u8 {
        7
    }
}

#[asn(set, extensible_after(f0))]

#[derive(Default, Debug, Clone, PartialEq, Hash)]
pub struct Tt3mmoe1 {
    #[asn(integer(0..7))] pub f0: u8,
    #[asn(optional(integer(0..7)))] pub f1: Option<u8>,
    #[asn(optional(integer(0..7)))] pub f2: Option<u8>,
}

impl Tt3mmoe1 {
    pub const fn f0_min() -> u8 {
        0
    }

    pub const fn f0_max() -> u8 {
        7
    }

    pub const fn f1_min() -> u8 {
        0
    }

    pub const fn f1_max() -> u8 {
        7
    }

    pub const fn f2_min() -> u8 {
        0
    }

    pub const fn f2_max() -> u8 {
        7
    }
}

#[asn(set, extensible_after(f1))]

#[derive(Default, Debug, Clone, PartialEq, Hash)]
pub struct Tt3mmoe2 {
    #[asn(integer(0..7))] pub f0: u8,
    #[asn(integer(0..7))] pub f1: u8,
    #[asn(optional(integer(0..7)))] pub f2: Option<u8>,
}

impl Tt3mmoe2 {
    pub const fn f0_min() -> u8 {
        0
    }

    pub const fn f0_max() -> u8 {
        7
    }

    pub const fn f1_min() -> u8 {
        0
    }

    pub const fn f1_max() -> u8 {
        7
    }

    pub const fn f2_min() -> u8 {
        0
    }

    pub const fn f2_max() -> u8 {
        7
    }
}

#[asn(set, extensible_after(f2))]

#[derive(Default, Debug, Clone, PartialEq, Hash)]
pub struct Tt3mmoe3 {
    #[asn(integer(0..7))] pub f0: u8,
    #[asn(integer(0..7))] pub f1: u8,
    #[asn(optional(integer(0..7)))] pub f2: Option<u8>,
}

impl Tt3mmoe3 {
    pub const fn f0_min() -> u8 {
        0
    }

    pub const fn f0_max() -> u8 {
        7
    }

    pub const fn f1_min() -> u8 {
        0
    }

    pub const fn f1_max() -> u8 {
        7
    }

    pub const fn f2_min() -> u8 {
        0
    }

    pub const fn f2_max() -> u8 {
        7
    }
}

#[asn(set)]

#[derive(Default, Debug, Clone, PartialEq, Hash)]
pub struct Tt3omon {
    #[asn(optional(integer(0..7)))] pub f0: Option<u8>,
    #[asn(integer(0..7))] pub f1: u8,
    #[asn(optional(integer(0..7)))] pub f2: Option<u8>,
}

impl Tt3omon {
    pub const fn f0_min() -> u8 {
        0
    }

    pub const fn f0_max() -> u8 {
        7
    }

    pub const fn f1_min() -> u8 {
        0
    }

    pub const fn f1_max() -> u8 {
        7
    }

    pub const fn f2_min() -> u8 {
        0
    }

    pub const fn f2_max() -> u8 {
        7
    }
}

#[asn(set, extensible_after(f0))]

#[derive(Default, Debug, Clone, PartialEq, Hash)]
pub struct Tt3omoe0 {
    #[asn(optional(integer(0..7)))] pub f0: Option<u8>,
    #[asn(optional(integer(0..7)))] pub f1: Option<u8>,
    #[asn(optional(integer(0..7)))] pub f2: Option<u8>,
}

impl Tt3omoe0 {
    pub const fn f0_min() -> u8 {
        0
    }

    pub const fn f0_max() -> u8 {
        7
    }

    pub const fn f1_min() -> u8 {
        0
    }

    pub const fn f1_max() -> u8 {
        7
    }

    pub const fn f2_min() -> u8 {
        0
    }

    pub const fn f2_max() -> u8 {
        7
    }
}

#[asn(set, extensible_after(f0))]

#[derive(Default, Debug, Clone, PartialEq, Hash)]
pub struct Tt3omoe1 {
    #[asn(optional(integer(0..7)))] pub f0: Option<u8>,
    #[asn(optional(integer(0..7)))] pub f1: Option<u8>,
    #[asn(optional(integer(0..7)))] pub f2: Option<u8>,
}

impl Tt3omoe1 {
    pub const fn f0_min() -> u8 {
        0
    }

    pub const fn f0_max() -> u8 {
        7
    }

    pub const fn f1_min() -> u8 {
        0
    }

    pub const fn f1_max() -> u8 {
        7
    }

    pub const fn f2_min() -> u8 {
        0
    }

    pub const fn f2_max() -> u8 {
        7
    }
}

#[asn(set, extensible_after(f1))]

#[derive(Default, Debug, Clone, PartialEq, Hash)]
pub struct Tt3omoe2 {
    #[asn(optional(integer(0..7)))] pub f0: Option<u8>,
    #[asn(integer(0..7))] pub f1: u8,
    #[asn(optional(integer(0..7)))] pub f2: Option<u8>,
}

impl Tt3omoe2 {
    pub const fn f0_min() -> u8 {
        0
    }

    pub const fn f0_max() -> u8 {
        7
    }

    pub const fn f1_min() -> u8 {
        0
    }

    pub const fn f1_max() -> u8 {
        7
    }

    pub const fn f2_min() -> u8 {
        0
    }

    pub const fn f2_max() -> u8 {
        7
    }
}

#[asn(set, extensible_after(f2))]

#[derive(Default, Debug, Clone, PartialEq, Hash)]
pub struct Tt3omoe3 {
    #[asn(optional(integer(0..7)))] pub f0: Option<u8>,
    #[asn(integer(0..7))] pub f1: u8,
    #[asn(optional(integer(0..7)))] pub f2: Option<u8>,
}

impl Tt3omoe3 {
    pub const fn f0_min() -> u8 {
        0
    }

    pub const fn f0_max() -> u8 {
        7
    }

    pub const fn f1_min() -> u8 {
        0
    }

    pub const fn f1_max() -> u8 {
        7
    }

    pub const fn f2_min() -> u8 {
        0
    }

    pub const fn f2_max() -> u8 {
        7
    }
}

#[asn(set)]

#[derive(Default, Debug, Clone, PartialEq, Hash)]
pub struct Tt3dmon {
    #[asn(default(integer(0..7), 5))] pub f0: u8,
    #[asn(integer(0..7))] pub f1: u8,
    #[asn(optional(integer(0..7)))] pub f2: Option<u8>,
}

impl Tt3dmon {
    pub const fn f0_min() -> u8 {
        0
    }

    pub const fn f0_max() -> u8 {
        7
    }

    pub const fn f1_min() -> u8 {
        0
    }

    pub const fn f1_max() -> u8 {
        7
    }

    pub const fn f2_min() -> u8 {
        0
    }

    pub const fn f2_max() -> u8 {
        7
    }
}

#[asn(set, extensible_after(f0))]

#[derive(Default, Debug, Clone, PartialEq, Hash)]
pub struct Tt3dmoe0 {
    #[asn(default(integer(0..7), 5))] pub f0: u8,
    #[asn(optional(integer(0..7)))] pub f1: Option<u8>,
    #[asn(optional(integer(0..7)))] pub f2: Option<u8>,
}

impl Tt3dmoe0 {
    pub const fn f0_min() -> u8 {
        0
    }

    pub const fn f0_max() -> u8 {
        7
    }

    pub const fn f1_min() -> u8 {
        0
    }

    pub const fn f1_max() -> u8 {
        7
    }

    pub const fn f2_min() -> u8 {
        0
    }

    pub const fn f2_max() -> u8 {
        7
    }
}

#[asn(set, extensible_after(f0))]

#[derive(Default, Debug, Clone, PartialEq, Hash)]
pub struct Tt3dmoe1 {
    #[asn(default(integer(0..7), 5))] pub f0: u8,
    #[asn(optional(integer(0..7)))] pub f1: Option<u8>,
    #[asn(optional(integer(0..7)))] pub f2: Option<u8>,
}

impl Tt3dmoe1 {
    pub const fn f0_min() -> u8 {
        0
    }

    pub const fn f0_max() -> u8 {
        7
    }

    pub const fn f1_min() -> u8 {
        0
    }

    pub const fn f1_max() -> u8 {
        7
    }

    pub const fn f2_min() -> u8 {
        0
    }

    pub const fn f2_max() -> u8 {
        7
    }
}

#[asn(set, extensible_after(f1))]

#[derive(Default, Debug, Clone, PartialEq, Hash)]
pub struct Tt3dmoe2 {
    #[asn(default(integer(0..7), 5))] pub f0: u8,
    #[asn(integer(0..7))] pub f1: u8,
    #[asn(optional(integer(0..7)))] pub f2: Option<u8>,
}

impl Tt3dmoe2 {
    pub const fn f0_min() -> u8 {
        0
    }

    pub const fn f0_max() -> u8 {
        7
    }

    pub const fn f1_min() -> u8 {
        0
    }

    pub const fn f1_max() -> u8 {
        7
    }

    pub const fn f2_min() -> u8 {
        0
    }

    pub const fn f2_max() -> u8 {
        7
    }
}

#[asn(set, extensible_after(f2))]

#[derive(Default, Debug, Clone, PartialEq, Hash)]
pub struct Tt3dmoe3 {
    #[asn(default(integer(0..7), 5))] pub f0: u8,
    #[asn(integer(0..7))] pub f1: u8,
    #[asn(optional(integer(0..7)))] pub f2: Option<u8>,
}

impl Tt3dmoe3 {
    pub const fn f0_min() -> u8 {
        0
    }

    pub const fn f0_max() -> u8 {
        7
    }

    pub const fn f1_min() -> u8 {
        0
    }

    pub const fn f1_max() -> u8 {
        7
    }

    pub const fn f2_min() -> u8 {
        0
    }

    pub const fn f2_max() -> u8 {
        7
    }
}

#[asn(set)]

#[derive(Default, Debug, Clone, PartialEq, Hash)]
pub struct Tt3moon {
    #[asn(integer(0..7))] pub f0: u8,
    #[asn(optional(integer(0..7)))] pub f1: Option<u8>,
    #[asn(optional(integer(0..7)))] pub f2: Option<u8>,
}

impl Tt3moon {
    pub const fn f0_min() -> u8 {
        0
    }

    pub const fn f0_max() -> u8 {
        7
    }

    pub const fn f1_min() -> u8 {
        0
    }

    pub const fn f1_max() -> u8 {
        7
    }

    pub const fn f2_min() -> u8 {
        0
    }

    pub const fn f2_max() -> u8 {
        7
    }
}

#[asn(set, extensible_after(f0))]

#[derive(Default, Debug, Clone, PartialEq, Hash)]
pub struct Tt3mooe0 {
    #[asn(integer(0..7))] pub f0: u8,
    #[asn(optional(integer(0..7)))] pub f1: Option<u8>,
    #[asn(optional(integer(0..7)))] pub f2: Option<u8>,
}

impl Tt3mooe0 {
    pub const fn f0_min() -> u8 {
        0
    }

    pub const fn f0_max() -> u8 {
        7
    }

    pub const fn f1_min() -> u8 {
        0
    }

    pub const fn f1_max() -> u8 {
        7
    }

    pub const fn f2_min() -> u8 {
        0
    }

    pub const fn f2_max() -> u8 {
        7
    }
}

#[asn(set, extensible_after(f0))]

#[derive(Default, Debug, Clone, PartialEq, Hash)]
pub struct Tt3mooe1 {
    #[asn(integer(0..7))] pub f0: u8,
    #[asn(optional(integer(0..7)))] pub f1: Option<u8>,
    #[asn(optional(integer(0..7)))] pub f2: Option<u8>,
}

impl Tt3mooe1 {
    pub const fn f0_min() -> u8 {
        0
    }

    pub const fn f0_max() -> u8 {
        7
    }

    pub const fn f1_min() -> u8 {
        0
    }

    pub const fn f1_max() -> u8 {
        7
    }

    pub const fn f2_min() -> u8 {
        0
    }

    pub const fn f2_max() -> u8 {
        7
    }
}

#[asn(set, extensible_after(f1))]

#[derive(Default, Debug, Clone, PartialEq, Hash)]
pub struct Tt3mooe2 {
    #[asn(integer(0..7))] pub f0: u8,
    #[asn(optional(integer(0..7)))] pub f1: Option<u8>,
    #[asn(optional(integer(0..7)))] pub f2: Option<u8>,
}

impl Tt3mooe2 {
    pub const fn f0_min() -> u8 {
        0
    }

    pub const fn f0_max() -> u8 {
        7
    }

    pub const fn f1_min() -> u8 {
        0
    }

    pub const fn f1_max() -> u8 {
        7
    }

    pub const fn f2_min() -> u8 {
        0
    }

    pub const fn f2_max() -> u8 {
        7
    }
}

#[asn(set, extensible_after(f2))]

#[derive(Default, Debug, Clone, PartialEq, Hash)]
pub struct Tt3mooe3 {
    #[asn(integer(0..7))] pub f0: u8,
    #[asn(optional(integer(0..7)))] pub f1: Option<u8>,
    #[asn(optional(integer(0..7)))] pub f2: Option<u8>,
}

impl Tt3mooe3 {
    pub const fn f0_min() -> u8 {
        0
    }

    pub const fn f0_max() -> u8 {
        7
    }

    pub const fn f1_min() -> u8 {
        0
    }

    pub const fn f1_max() -> u8 {
        7
    }

    pub const fn f2_min() -> u8 {
        0
    }

    pub const fn f2_max() -> u8 {
        7
    }
}

#[asn(set)]

#[derive(Default, Debug, Clone, PartialEq, Hash)]
pub struct Tt3ooon {
    #[asn(optional(integer(0..7)))] pub f0: Option<u8>,
    #[asn(optional(integer(0..7)))] pub f1: Option<u8>,
    #[asn(optional(integer(0..7)))] pub f2: Option<u8>,
}

impl Tt3ooon {
    pub const fn f0_min() -> u8 {
        0
    }

    pub const fn f0_max() -> u8 {
        7
    }

    pub const fn f1_min() -> u8 {
        0
    }

    pub const fn f1_max() -> u8 {
        7
    }

    pub const fn f2_min() -> u8 {
        0
    }

    pub const fn f2_max() -> u8 {
        7
    }
}

#[asn(set, extensible_after(f0))]

#[derive(Default, Debug, Clone, PartialEq, Hash)]
pub struct Tt3oooe0 {
    #[asn(optional(integer(0..7)))] pub f0: Option<u8>,
    #[asn(optional(integer(0..7)))] pub f1: Option<u8>,
    #[asn(optional(integer(0..7)))] pub f2: Option<u8>,
}

impl Tt3oooe0 {
    pub const fn f0_min() -> u8 {
        0
    }

    pub const fn f0_max() -> u8 {
        7
    }

    pub const fn f1_min() -> u8 {
        0
    }

    pub const fn f1_max() -> u8 {
        7
    }

    pub const fn f2_min() -> u8 {
        0
    }

    pub const fn f2_max() -> u8 {
        7
    }
}

#[asn(set, extensible_after(f0))]

#[derive(Default, Debug, Clone, PartialEq, Hash)]
pub struct Tt3oooe1 {
    #[asn(optional(integer(0..7)))] pub f0: Option<u8>,
    #[asn(optional(integer(0..7)))] pub f1: Option<u8>,
    #[asn(optional(integer(0..7)))] pub f2: Option<u8>,
}

impl Tt3oooe1 {
    pub const fn f0_min() -> u8 {
        0
    }

    pub const fn f0_max() -> u8 {
        7
    }

    pub const fn f1_min() -> u8 {
        0
    }

    pub const fn f1_max() -> u8 {
        7
    }

    pub const fn f2_min() -> u8 {
        0
    }

    pub const fn f2_max() -> u8 {
        7
    }
}

#[asn(set, extensible_after(f1))]

#[derive(Default, Debug, Clone, PartialEq, Hash)]
pub struct Tt3oooe2 {
    #[asn(optional(integer(0..7)))] pub f0: Option<u8>,
    #[asn(optional(integer(0..7)))] pub f1: Option<u8>,
    #[asn(optional(integer(0..7)))] pub f2: Option<u8>,
}

impl Tt3oooe2 {
    pub const fn f0_min() -> u8 {
        0
    }

    pub const fn f0_max() -> u8 {
        7
    }

    pub const fn f1_min() -> u8 {
        0
    }

    pub const fn f1_max() -> u8 {
        7
    }

    pub const fn f2_min() -> u8 {
        0
    }

    pub const fn f2_max() -> u8 {
        7
    }
}

#[asn(set, extensible_after(f2))]

#[derive(Default, Debug, Clone, PartialEq, Hash)]
pub struct Tt3oooe3 {
    #[asn(optional(integer(0..7)))] pub f0: Option<u8>,
    #[asn(optional(integer(0..7)))] pub f1: Option<u8>,
    #[asn(optional(integer(0..7)))] pub f2: Option<u8>,
}

impl Tt3oooe3 {
    pub const fn f0_min() -> u8 {
        0
    }

    pub const fn f0_max() -> u8 {
        7
    }

    pub const fn f1_min() -> u8 {
        0
    }

    pub const fn f1_max() -> u8 {
        7
    }

    pub const fn f2_min() -> u8 {
        0
    }

    pub const fn f2_max() -> u8 {
        7
    }
}

#[asn(set)]

#[derive(Default, Debug, Clone, PartialEq, Hash)]
pub struct Tt3doon {
    #[asn(default(integer(0..7), 5))] pub f0: u8,
    #[asn(optional(integer(0..7)))] pub f1: Option<u8>,
    #[asn(optional(integer(0..7)))] pub f2: Option<u8>,
}

impl Tt3doon {
    pub const fn f0_min() -> u8 {
        0
    }

    pub const fn f0_max() -> u8 {
        7
    }

    pub const fn f1_min() -> u8 {
        0
    }

    pub const fn f1_max() -> u8 {
        7
    }

    pub const fn f2_min() -> u8 {
        0
    }

    pub const fn f2_max() -> u8 {
        7
    }
}

#[asn(set, extensible_after(f0))]

#[derive(Default, Debug, Clone, PartialEq, Hash)]
pub struct Tt3dooe0 {
    #[asn(default(integer(0..7), 5))] pub f0: u8,
    #[asn(optional(integer(0..7)))] pub f1: Option<u8>,
    #[asn(optional(integer(0..7)))] pub f2: Option<u8>,
}

impl Tt3dooe0 {
    pub const fn f0_min() -> u8 {
        0
    }

    pub const fn f0_max() -> u8 {
        7
    }

    pub const fn f1_min() -> u8 {
        0
    }

    pub const fn f1_max() -> u8 {
        7
    }

    pub const fn f2_min() -> u8 {
        0
    }

    pub const fn f2_max() -> u8 {
        7
    }
}

#[asn(set, extensible_after(f0))]

#[derive(Default, Debug, Clone, PartialEq, Hash)]
pub struct Tt3dooe1 {
    #[asn(default(integer(0..7), 5))] pub f0: u8,
    #[asn(optional(integer(0..7)))] pub f1: Option<u8>,
    #[asn(optional(integer(0..7)))] pub f2: Option<u8>,
}

impl Tt3dooe1 {
    pub const fn f0_min() -> u8 {
        0
    }

    pub const fn f0_max() -> u8 {
        7
    }

    pub const fn f1_min() -> u8 {
        0
    }

    pub const fn f1_max() -> u8 {
        7
    }

    pub const fn f2_min() -> u8 {
        0
    }

    pub const fn f2_max() -> u8 {
        7
    }
}

#[asn(set, extensible_after(f1))]

#[derive(Default, Debug, Clone, PartialEq, Hash)]
pub struct Tt3dooe2 {
    #[asn(default(integer(0..7), 5))] pub f0: u8,
    #[asn(optional(integer(0..7)))] pub f1: Option<u8>,
    #[asn(optional(integer(0..7)))] pub f2: Option<u8>,
}

impl Tt3dooe2 {
    pub const fn f0_min() -> u8 {
        0
    }

    pub const fn f0_max() -> u8 {
        7
    }

    pub const fn f1_min() -> u8 {
        0
    }

    pub const fn f1_max() -> u8 {
        7
    }

    pub const fn f2_min() -> u8 {
        0
    }

    pub const fn f2_max() -> u8 {
        7
    }
}
// ---- harness conversions (generated by the zoo build script from the items above) ----
impl FromValue for Tt0n { fn from_value(_: &Value) -> Self { Tt0n } }
impl ToValue for Tt0n { fn to_value(&self) -> Value { Value::Seq(vec![]) } }
impl FromValue for Tt1mn {
    fn from_value(v: &Value) -> Self {
        let s = match v { Value::Seq(s) => s, other => panic!("Tt1mn: expected Seq, got {other:?}") };
        assert_eq!(s.len(), 1, "Tt1mn: component count");
        let _ = s;
        Tt1mn {
            f0: FromValue::from_value(s[0].as_ref().expect("component f0 of Tt1mn must be present")),
        }
    }
}
impl ToValue for Tt1mn {
    fn to_value(&self) -> Value {
        Value::Seq(vec![
            Some(self.f0.to_value()),
        ])
    }
}
impl FromValue for Tt1me0 {
    fn from_value(v: &Value) -> Self {
        let s = match v { Value::Seq(s) => s, other => panic!("Tt1me0: expected Seq, got {other:?}") };
        assert_eq!(s.len(), 1, "Tt1me0: component count");
        let _ = s;
        Tt1me0 {
            f0: FromValue::from_value(s[0].as_ref().expect("component f0 of Tt1me0 must be present")),
        }
    }
}
impl ToValue for Tt1me0 {
    fn to_value(&self) -> Value {
        Value::Seq(vec![
            Some(self.f0.to_value()),
        ])
    }
}
impl FromValue for Tt1me1 {
    fn from_value(v: &Value) -> Self {
        let s = match v { Value::Seq(s) => s, other => panic!("Tt1me1: expected Seq, got {other:?}") };
        assert_eq!(s.len(), 1, "Tt1me1: component count");
        let _ = s;
        Tt1me1 {
            f0: FromValue::from_value(s[0].as_ref().expect("component f0 of Tt1me1 must be present")),
        }
    }
}
impl ToValue for Tt1me1 {
    fn to_value(&self) -> Value {
        Value::Seq(vec![
            Some(self.f0.to_value()),
        ])
    }
}
impl FromValue for Tt1on {
    fn from_value(v: &Value) -> Self {
        let s = match v { Value::Seq(s) => s, other => panic!("Tt1on: expected Seq, got {other:?}") };
        assert_eq!(s.len(), 1, "Tt1on: component count");
        let _ = s;
        Tt1on {
            f0: s[0].as_ref().map(FromValue::from_value),
        }
    }
}
impl ToValue for Tt1on {
    fn to_value(&self) -> Value {
        Value::Seq(vec![
            self.f0.as_ref().map(|x| x.to_value()),
        ])
    }
}
impl FromValue for Tt1oe0 {
    fn from_value(v: &Value) -> Self {
        let s = match v { Value::Seq(s) => s, other => panic!("Tt1oe0: expected Seq, got {other:?}") };
        assert_eq!(s.len(), 1, "Tt1oe0: component count");
        let _ = s;
        Tt1oe0 {
            f0: s[0].as_ref().map(FromValue::from_value),
        }
    }
}
impl ToValue for Tt1oe0 {
    fn to_value(&self) -> Value {
        Value::Seq(vec![
            self.f0.as_ref().map(|x| x.to_value()),
        ])
    }
}
impl FromValue for Tt1oe1 {
    fn from_value(v: &Value) -> Self {
        let s = match v { Value::Seq(s) => s, other => panic!("Tt1oe1: expected Seq, got {other:?}") };
        assert_eq!(s.len(), 1, "Tt1oe1: component count");
        let _ = s;
        Tt1oe1 {
            f0: s[0].as_ref().map(FromValue::from_value),
        }
    }
}
impl ToValue for Tt1oe1 {
    fn to_value(&self) -> Value {
        Value::Seq(vec![
            self.f0.as_ref().map(|x| x.to_value()),
        ])
    }
}
impl FromValue for Tt1dn {
    fn from_value(v: &Value) -> Self {
        let s = match v { Value::Seq(s) => s, other => panic!("Tt1dn: expected Seq, got {other:?}") };
        assert_eq!(s.len(), 1, "Tt1dn: component count");
        let _ = s;
        Tt1dn {
            f0: FromValue::from_value(s[0].as_ref().expect("component f0 of Tt1dn must be present")),
        }
    }
}
impl ToValue for Tt1dn {
    fn to_value(&self) -> Value {
        Value::Seq(vec![
            Some(self.f0.to_value()),
        ])
    }
}
impl FromValue for Tt1de0 {
    fn from_value(v: &Value) -> Self {
        let s = match v { Value::Seq(s) => s, other => panic!("Tt1de0: expected Seq, got {other:?}") };
        assert_eq!(s.len(), 1, "Tt1de0: component count");
        let _ = s;
        Tt1de0 {
            f0: FromValue::from_value(s[0].as_ref().expect("component f0 of Tt1de0 must be present")),
        }
    }
}
impl ToValue for Tt1de0 {
    fn to_value(&self) -> Value {
        Value::Seq(vec![
            Some(self.f0.to_value()),
        ])
    }
}
impl FromValue for Tt1de1 {
    fn from_value(v: &Value) -> Self {
        let s = match v { Value::Seq(s) => s, other => panic!("Tt1de1: expected Seq, got {other:?}") };
        assert_eq!(s.len(), 1, "Tt1de1: component count");
        let _ = s;
        Tt1de1 {
            f0: FromValue::from_value(s[0].as_ref().expect("component f0 of Tt1de1 must be present")),
        }
    }
}
impl ToValue for Tt1de1 {
    fn to_value(&self) -> Value {
        Value::Seq(vec![
            Some(self.f0.to_value()),
        ])
    }
}
impl FromValue for Tt2mmn {
    fn from_value(v: &Value) -> Self {
        let s = match v { Value::Seq(s) => s, other => panic!("Tt2mmn: expected Seq, got {other:?}") };
        assert_eq!(s.len(), 2, "Tt2mmn: component count");
        let _ = s;
        Tt2mmn {
            f0: FromValue::from_value(s[0].as_ref().expect("component f0 of Tt2mmn must be present")),
            f1: FromValue::from_value(s[1].as_ref().expect("component f1 of Tt2mmn must be present")),
        }
    }
}
impl ToValue for Tt2mmn {
    fn to_value(&self) -> Value {
        Value::Seq(vec![
            Some(self.f0.to_value()),
            Some(self.f1.to_value()),
        ])
    }
}
impl FromValue for Tt2mme0 {
    fn from_value(v: &Value) -> Self {
        let s = match v { Value::Seq(s) => s, other => panic!("Tt2mme0: expected Seq, got {other:?}") };
        assert_eq!(s.len(), 2, "Tt2mme0: component count");
        let _ = s;
        Tt2mme0 {
            f0: FromValue::from_value(s[0].as_ref().expect("component f0 of Tt2mme0 must be present")),
            f1: s[1].as_ref().map(FromValue::from_value),
        }
    }
}
impl ToValue for Tt2mme0 {
    fn to_value(&self) -> Value {
        Value::Seq(vec![
            Some(self.f0.to_value()),
            self.f1.as_ref().map(|x| x.to_value()),
        ])
    }
}
impl FromValue for Tt2mme1 {
    fn from_value(v: &Value) -> Self {
        let s = match v { Value::Seq(s) => s, other => panic!("Tt2mme1: expected Seq, got {other:?}") };
        assert_eq!(s.len(), 2, "Tt2mme1: component count");
        let _ = s;
        Tt2mme1 {
            f0: FromValue::from_value(s[0].as_ref().expect("component f0 of Tt2mme1 must be present")),
            f1: s[1].as_ref().map(FromValue::from_value),
        }
    }
}
impl ToValue for Tt2mme1 {
    fn to_value(&self) -> Value {
        Value::Seq(vec![
            Some(self.f0.to_value()),
            self.f1.as_ref().map(|x| x.to_value()),
        ])
    }
}
impl FromValue for Tt2mme2 {
    fn from_value(v: &Value) -> Self {
        let s = match v { Value::Seq(s) => s, other => panic!("Tt2mme2: expected Seq, got {other:?}") };
        assert_eq!(s.len(), 2, "Tt2mme2: component count");
        let _ = s;
        Tt2mme2 {
            f0: FromValue::from_value(s[0].as_ref().expect("component f0 of Tt2mme2 must be present")),
            f1: FromValue::from_value(s[1].as_ref().expect("component f1 of Tt2mme2 must be present")),
        }
    }
}
impl ToValue for Tt2mme2 {
    fn to_value(&self) -> Value {
        Value::Seq(vec![
            Some(self.f0.to_value()),
            Some(self.f1.to_value()),
        ])
    }
}
impl FromValue for Tt2omn {
    fn from_value(v: &Value) -> Self {
        let s = match v { Value::Seq(s) => s, other => panic!("Tt2omn: expected Seq, got {other:?}") };
        assert_eq!(s.len(), 2, "Tt2omn: component count");
        let _ = s;
        Tt2omn {
            f0: s[0].as_ref().map(FromValue::from_value),
            f1: FromValue::from_value(s[1].as_ref().expect("component f1 of Tt2omn must be present")),
        }
    }
}
impl ToValue for Tt2omn {
    fn to_value(&self) -> Value {
        Value::Seq(vec![
            self.f0.as_ref().map(|x| x.to_value()),
            Some(self.f1.to_value()),
        ])
    }
}
impl FromValue for Tt2ome0 {
    fn from_value(v: &Value) -> Self {
        let s = match v { Value::Seq(s) => s, other => panic!("Tt2ome0: expected Seq, got {other:?}") };
        assert_eq!(s.len(), 2, "Tt2ome0: component count");
        let _ = s;
        Tt2ome0 {
            f0: s[0].as_ref().map(FromValue::from_value),
            f1: s[1].as_ref().map(FromValue::from_value),
        }
    }
}
impl ToValue for Tt2ome0 {
    fn to_value(&self) -> Value {
        Value::Seq(vec![
            self.f0.as_ref().map(|x| x.to_value()),
            self.f1.as_ref().map(|x| x.to_value()),
        ])
    }
}
impl FromValue for Tt2ome1 {
    fn from_value(v: &Value) -> Self {
        let s = match v { Value::Seq(s) => s, other => panic!("Tt2ome1: expected Seq, got {other:?}") };
        assert_eq!(s.len(), 2, "Tt2ome1: component count");
        let _ = s;
        Tt2ome1 {
            f0: s[0].as_ref().map(FromValue::from_value),
            f1: s[1].as_ref().map(FromValue::from_value),
        }
    }
}
impl ToValue for Tt2ome1 {
    fn to_value(&self) -> Value {
        Value::Seq(vec![
            self.f0.as_ref().map(|x| x.to_value()),
            self.f1.as_ref().map(|x| x.to_value()),
        ])
    }
}
impl FromValue for Tt2ome2 {
    fn from_value(v: &Value) -> Self {
        let s = match v { Value::Seq(s) => s, other => panic!("Tt2ome2: expected Seq, got {other:?}") };
        assert_eq!(s.len(), 2, "Tt2ome2: component count");
        let _ = s;
        Tt2ome2 {
            f0: s[0].as_ref().map(FromValue::from_value),
            f1: FromValue::from_value(s[1].as_ref().expect("component f1 of Tt2ome2 must be present")),
        }
    }
}
impl ToValue for Tt2ome2 {
    fn to_value(&self) -> Value {
        Value::Seq(vec![
            self.f0.as_ref().map(|x| x.to_value()),
            Some(self.f1.to_value()),
        ])
    }
}
impl FromValue for Tt2dmn {
    fn from_value(v: &Value) -> Self {
        let s = match v { Value::Seq(s) => s, other => panic!("Tt2dmn: expected Seq, got {other:?}") };
        assert_eq!(s.len(), 2, "Tt2dmn: component count");
        let _ = s;
        Tt2dmn {
            f0: FromValue::from_value(s[0].as_ref().expect("component f0 of Tt2dmn must be present")),
            f1: FromValue::from_value(s[1].as_ref().expect("component f1 of Tt2dmn must be present")),
        }
    }
}
impl ToValue for Tt2dmn {
    fn to_value(&self) -> Value {
        Value::Seq(vec![
            Some(self.f0.to_value()),
            Some(self.f1.to_value()),
        ])
    }
}
impl FromValue for Tt2dme0 {
    fn from_value(v: &Value) -> Self {
        let s = match v { Value::Seq(s) => s, other => panic!("Tt2dme0: expected Seq, got {other:?}") };
        assert_eq!(s.len(), 2, "Tt2dme0: component count");
        let _ = s;
        Tt2dme0 {
            f0: FromValue::from_value(s[0].as_ref().expect("component f0 of Tt2dme0 must be present")),
            f1: s[1].as_ref().map(FromValue::from_value),
        }
    }
}
impl ToValue for Tt2dme0 {
    fn to_value(&self) -> Value {
        Value::Seq(vec![
            Some(self.f0.to_value()),
            self.f1.as_ref().map(|x| x.to_value()),
        ])
    }
}
impl FromValue for Tt2dme1 {
    fn from_value(v: &Value) -> Self {
        let s = match v { Value::Seq(s) => s, other => panic!("Tt2dme1: expected Seq, got {other:?}") };
        assert_eq!(s.len(), 2, "Tt2dme1: component count");
        let _ = s;
        Tt2dme1 {
            f0: FromValue::from_value(s[0].as_ref().expect("component f0 of Tt2dme1 must be present")),
            f1: s[1].as_ref().map(FromValue::from_value),
        }
    }
}
impl ToValue for Tt2dme1 {
    fn to_value(&self) -> Value {
        Value::Seq(vec![
            Some(self.f0.to_value()),
            self.f1.as_ref().map(|x| x.to_value()),
        ])
    }
}
impl FromValue for Tt2dme2 {
    fn from_value(v: &Value) -> Self {
        let s = match v { Value::Seq(s) => s, other => panic!("Tt2dme2: expected Seq, got {other:?}") };
        assert_eq!(s.len(), 2, "Tt2dme2: component count");
        let _ = s;
        Tt2dme2 {
            f0: FromValue::from_value(s[0].as_ref().expect("component f0 of Tt2dme2 must be present")),
            f1: FromValue::from_value(s[1].as_ref().expect("component f1 of Tt2dme2 must be present")),
        }
    }
}
impl ToValue for Tt2dme2 {
    fn to_value(&self) -> Value {
        Value::Seq(vec![
            Some(self.f0.to_value()),
            Some(self.f1.to_value()),
        ])
    }
}
impl FromValue for Tt2mon {
    fn from_value(v: &Value) -> Self {
        let s = match v { Value::Seq(s) => s, other => panic!("Tt2mon: expected Seq, got {other:?}") };
        assert_eq!(s.len(), 2, "Tt2mon: component count");
        let _ = s;
        Tt2mon {
            f0: FromValue::from_value(s[0].as_ref().expect("component f0 of Tt2mon must be present")),
            f1: s[1].as_ref().map(FromValue::from_value),
        }
    }
}
impl ToValue for Tt2mon {
    fn to_value(&self) -> Value {
        Value::Seq(vec![
            Some(self.f0.to_value()),
            self.f1.as_ref().map(|x| x.to_value()),
        ])
    }
}
impl FromValue for Tt2moe0 {
    fn from_value(v: &Value) -> Self {
        let s = match v { Value::Seq(s) => s, other => panic!("Tt2moe0: expected Seq, got {other:?}") };
        assert_eq!(s.len(), 2, "Tt2moe0: component count");
        let _ = s;
        Tt2moe0 {
            f0: FromValue::from_value(s[0].as_ref().expect("component f0 of Tt2moe0 must be present")),
            f1: s[1].as_ref().map(FromValue::from_value),
        }
    }
}
impl ToValue for Tt2moe0 {
    fn to_value(&self) -> Value {
        Value::Seq(vec![
            Some(self.f0.to_value()),
            self.f1.as_ref().map(|x| x.to_value()),
        ])
    }
}
impl FromValue for Tt2moe1 {
    fn from_value(v: &Value) -> Self {
        let s = match v { Value::Seq(s) => s, other => panic!("Tt2moe1: expected Seq, got {other:?}") };
        assert_eq!(s.len(), 2, "Tt2moe1: component count");
        let _ = s;
        Tt2moe1 {
            f0: FromValue::from_value(s[0].as_ref().expect("component f0 of Tt2moe1 must be present")),
            f1: s[1].as_ref().map(FromValue::from_value),
        }
    }
}
impl ToValue for Tt2moe1 {
    fn to_value(&self) -> Value {
        Value::Seq(vec![
            Some(self.f0.to_value()),
            self.f1.as_ref().map(|x| x.to_value()),
        ])
    }
}
impl FromValue for Tt2moe2 {
    fn from_value(v: &Value) -> Self {
        let s = match v { Value::Seq(s) => s, other => panic!("Tt2moe2: expected Seq, got {other:?}") };
        assert_eq!(s.len(), 2, "Tt2moe2: component count");
        let _ = s;
        Tt2moe2 {
            f0: FromValue::from_value(s[0].as_ref().expect("component f0 of Tt2moe2 must be present")),
            f1: s[1].as_ref().map(FromValue::from_value),
        }
    }
}
impl ToValue for Tt2moe2 {
    fn to_value(&self) -> Value {
        Value::Seq(vec![
            Some(self.f0.to_value()),
            self.f1.as_ref().map(|x| x.to_value()),
        ])
    }
}
impl FromValue for Tt2oon {
    fn from_value(v: &Value) -> Self {
        let s = match v { Value::Seq(s) => s, other => panic!("Tt2oon: expected Seq, got {other:?}") };
        assert_eq!(s.len(), 2, "Tt2oon: component count");
        let _ = s;
        Tt2oon {
            f0: s[0].as_ref().map(FromValue::from_value),
            f1: s[1].as_ref().map(FromValue::from_value),
        }
    }
}
impl ToValue for Tt2oon {
    fn to_value(&self) -> Value {
        Value::Seq(vec![
            self.f0.as_ref().map(|x| x.to_value()),
            self.f1.as_ref().map(|x| x.to_value()),
        ])
    }
}
impl FromValue for Tt2ooe0 {
    fn from_value(v: &Value) -> Self {
        let s = match v { Value::Seq(s) => s, other => panic!("Tt2ooe0: expected Seq, got {other:?}") };
        assert_eq!(s.len(), 2, "Tt2ooe0: component count");
        let _ = s;
        Tt2ooe0 {
            f0: s[0].as_ref().map(FromValue::from_value),
            f1: s[1].as_ref().map(FromValue::from_value),
        }
    }
}
impl ToValue for Tt2ooe0 {
    fn to_value(&self) -> Value {
        Value::Seq(vec![
            self.f0.as_ref().map(|x| x.to_value()),
            self.f1.as_ref().map(|x| x.to_value()),
        ])
    }
}
impl FromValue for Tt2ooe1 {
    fn from_value(v: &Value) -> Self {
        let s = match v { Value::Seq(s) => s, other => panic!("Tt2ooe1: expected Seq, got {other:?}") };
        assert_eq!(s.len(), 2, "Tt2ooe1: component count");
        let _ = s;
        Tt2ooe1 {
            f0: s[0].as_ref().map(FromValue::from_value),
            f1: s[1].as_ref().map(FromValue::from_value),
        }
    }
}
impl ToValue for Tt2ooe1 {
    fn to_value(&self) -> Value {
        Value::Seq(vec![
            self.f0.as_ref().map(|x| x.to_value()),
            self.f1.as_ref().map(|x| x.to_value()),
        ])
    }
}
impl FromValue for Tt2ooe2 {
    fn from_value(v: &Value) -> Self {
        let s = match v { Value::Seq(s) => s, other => panic!("Tt2ooe2: expected Seq, got {other:?}") };
        assert_eq!(s.len(), 2, "Tt2ooe2: component count");
        let _ = s;
        Tt2ooe2 {
            f0: s[0].as_ref().map(FromValue::from_value),
            f1: s[1].as_ref().map(FromValue::from_value),
        }
    }
}
impl ToValue for Tt2ooe2 {
    fn to_value(&self) -> Value {
        Value::Seq(vec![
            self.f0.as_ref().map(|x| x.to_value()),
            self.f1.as_ref().map(|x| x.to_value()),
        ])
    }
}
impl FromValue for Tt2don {
    fn from_value(v: &Value) -> Self {
        let s = match v { Value::Seq(s) => s, other => panic!("Tt2don: expected Seq, got {other:?}") };
        assert_eq!(s.len(), 2, "Tt2don: component count");
        let _ = s;
        Tt2don {
            f0: FromValue::from_value(s[0].as_ref().expect("component f0 of Tt2don must be present")),
            f1: s[1].as_ref().map(FromValue::from_value),
        }
    }
}
impl ToValue for Tt2don {
    fn to_value(&self) -> Value {
        Value::Seq(vec![
            Some(self.f0.to_value()),
            self.f1.as_ref().map(|x| x.to_value()),
        ])
    }
}
impl FromValue for Tt2doe0 {
    fn from_value(v: &Value) -> Self {
        let s = match v { Value::Seq(s) => s, other => panic!("Tt2doe0: expected Seq, got {other:?}") };
        assert_eq!(s.len(), 2, "Tt2doe0: component count");
        let _ = s;
        Tt2doe0 {
            f0: FromValue::from_value(s[0].as_ref().expect("component f0 of Tt2doe0 must be present")),
            f1: s[1].as_ref().map(FromValue::from_value),
        }
    }
}
impl ToValue for Tt2doe0 {
    fn to_value(&self) -> Value {
        Value::Seq(vec![
            Some(self.f0.to_value()),
            self.f1.as_ref().map(|x| x.to_value()),
        ])
    }
}
impl FromValue for Tt2doe1 {
    fn from_value(v: &Value) -> Self {
        let s = match v { Value::Seq(s) => s, other => panic!("Tt2doe1: expected Seq, got {other:?}") };
        assert_eq!(s.len(), 2, "Tt2doe1: component count");
        let _ = s;
        Tt2doe1 {
            f0: FromValue::from_value(s[0].as_ref().expect("component f0 of Tt2doe1 must be present")),
            f1: s[1].as_ref().map(FromValue::from_value),
        }
    }
}
impl ToValue for Tt2doe1 {
    fn to_value(&self) -> Value {
        Value::Seq(vec![
            Some(self.f0.to_value()),
            self.f1.as_ref().map(|x| x.to_value()),
        ])
    }
}
impl FromValue for Tt2doe2 {
    fn from_value(v: &Value) -> Self {
        let s = match v { Value::Seq(s) => s, other => panic!("Tt2doe2: expected Seq, got {other:?}") };
        assert_eq!(s.len(), 2, "Tt2doe2: component count");
        let _ = s;
        Tt2doe2 {
            f0: FromValue::from_value(s[0].as_ref().expect("component f0 of Tt2doe2 must be present")),
            f1: s[1].as_ref().map(FromValue::from_value),
        }
    }
}
impl ToValue for Tt2doe2 {
    fn to_value(&self) -> Value {
        Value::Seq(vec![
            Some(self.f0.to_value()),
            self.f1.as_ref().map(|x| x.to_value()),
        ])
    }
}
impl FromValue for Tt2mdn {
    fn from_value(v: &Value) -> Self {
        let s = match v { Value::Seq(s) => s, other => panic!("Tt2mdn: expected Seq, got {other:?}") };
        assert_eq!(s.len(), 2, "Tt2mdn: component count");
        let _ = s;
        Tt2mdn {
            f0: FromValue::from_value(s[0].as_ref().expect("component f0 of Tt2mdn must be present")),
            f1: FromValue::from_value(s[1].as_ref().expect("component f1 of Tt2mdn must be present")),
        }
    }
}
impl ToValue for Tt2mdn {
    fn to_value(&self) -> Value {
        Value::Seq(vec![
            Some(self.f0.to_value()),
            Some(self.f1.to_value()),
        ])
    }
}
impl FromValue for Tt2mde0 {
    fn from_value(v: &Value) -> Self {
        let s = match v { Value::Seq(s) => s, other => panic!("Tt2mde0: expected Seq, got {other:?}") };
        assert_eq!(s.len(), 2, "Tt2mde0: component count");
        let _ = s;
        Tt2mde0 {
            f0: FromValue::from_value(s[0].as_ref().expect("component f0 of Tt2mde0 must be present")),
            f1: FromValue::from_value(s[1].as_ref().expect("component f1 of Tt2mde0 must be present")),
        }
    }
}
impl ToValue for Tt2mde0 {
    fn to_value(&self) -> Value {
        Value::Seq(vec![
            Some(self.f0.to_value()),
            Some(self.f1.to_value()),
        ])
    }
}
impl FromValue for Tt2mde1 {
    fn from_value(v: &Value) -> Self {
        let s = match v { Value::Seq(s) => s, other => panic!("Tt2mde1: expected Seq, got {other:?}") };
        assert_eq!(s.len(), 2, "Tt2mde1: component count");
        let _ = s;
        Tt2mde1 {
            f0: FromValue::from_value(s[0].as_ref().expect("component f0 of Tt2mde1 must be present")),
            f1: FromValue::from_value(s[1].as_ref().expect("component f1 of Tt2mde1 must be present")),
        }
    }
}
impl ToValue for Tt2mde1 {
    fn to_value(&self) -> Value {
        Value::Seq(vec![
            Some(self.f0.to_value()),
            Some(self.f1.to_value()),
        ])
    }
}
impl FromValue for Tt2mde2 {
    fn from_value(v: &Value) -> Self {
        let s = match v { Value::Seq(s) => s, other => panic!("Tt2mde2: expected Seq, got {other:?}") };
        assert_eq!(s.len(), 2, "Tt2mde2: component count");
        let _ = s;
        Tt2mde2 {
            f0: FromValue::from_value(s[0].as_ref().expect("component f0 of Tt2mde2 must be present")),
            f1: FromValue::from_value(s[1].as_ref().expect("component f1 of Tt2mde2 must be present")),
        }
    }
}
impl ToValue for Tt2mde2 {
    fn to_value(&self) -> Value {
        Value::Seq(vec![
            Some(self.f0.to_value()),
            Some(self.f1.to_value()),
        ])
    }
}
impl FromValue for Tt2odn {
    fn from_value(v: &Value) -> Self {
        let s = match v { Value::Seq(s) => s, other => panic!("Tt2odn: expected Seq, got {other:?}") };
        assert_eq!(s.len(), 2, "Tt2odn: component count");
        let _ = s;
        Tt2odn {
            f0: s[0].as_ref().map(FromValue::from_value),
            f1: FromValue::from_value(s[1].as_ref().expect("component f1 of Tt2odn must be present")),
        }
    }
}
impl ToValue for Tt2odn {
    fn to_value(&self) -> Value {
        Value::Seq(vec![
            self.f0.as_ref().map(|x| x.to_value()),
            Some(self.f1.to_value()),
        ])
    }
}
impl FromValue for Tt2ode0 {
    fn from_value(v: &Value) -> Self {
        let s = match v { Value::Seq(s) => s, other => panic!("Tt2ode0: expected Seq, got {other:?}") };
        assert_eq!(s.len(), 2, "Tt2ode0: component count");
        let _ = s;
        Tt2ode0 {
            f0: s[0].as_ref().map(FromValue::from_value),
            f1: FromValue::from_value(s[1].as_ref().expect("component f1 of Tt2ode0 must be present")),
        }
    }
}
impl ToValue for Tt2ode0 {
    fn to_value(&self) -> Value {
        Value::Seq(vec![
            self.f0.as_ref().map(|x| x.to_value()),
            Some(self.f1.to_value()),
        ])
    }
}
impl FromValue for Tt2ode1 {
    fn from_value(v: &Value) -> Self {
        let s = match v { Value::Seq(s) => s, other => panic!("Tt2ode1: expected Seq, got {other:?}") };
        assert_eq!(s.len(), 2, "Tt2ode1: component count");
        let _ = s;
        Tt2ode1 {
            f0: s[0].as_ref().map(FromValue::from_value),
            f1: FromValue::from_value(s[1].as_ref().expect("component f1 of Tt2ode1 must be present")),
        }
    }
}
impl ToValue for Tt2ode1 {
    fn to_value(&self) -> Value {
        Value::Seq(vec![
            self.f0.as_ref().map(|x| x.to_value()),
            Some(self.f1.to_value()),
        ])
    }
}
impl FromValue for Tt2ode2 {
    fn from_value(v: &Value) -> Self {
        let s = match v { Value::Seq(s) => s, other => panic!("Tt2ode2: expected Seq, got {other:?}") };
        assert_eq!(s.len(), 2, "Tt2ode2: component count");
        let _ = s;
        Tt2ode2 {
            f0: s[0].as_ref().map(FromValue::from_value),
            f1: FromValue::from_value(s[1].as_ref().expect("component f1 of Tt2ode2 must be present")),
        }
    }
}
impl ToValue for Tt2ode2 {
    fn to_value(&self) -> Value {
        Value::Seq(vec![
            self.f0.as_ref().map(|x| x.to_value()),
            Some(self.f1.to_value()),
        ])
    }
}
impl FromValue for Tt2ddn {
    fn from_value(v: &Value) -> Self {
        let s = match v { Value::Seq(s) => s, other => panic!("Tt2ddn: expected Seq, got {other:?}") };
        assert_eq!(s.len(), 2, "Tt2ddn: component count");
        let _ = s;
        Tt2ddn {
            f0: FromValue::from_value(s[0].as_ref().expect("component f0 of Tt2ddn must be present")),
            f1: FromValue::from_value(s[1].as_ref().expect("component f1 of Tt2ddn must be present")),
        }
    }
}
impl ToValue for Tt2ddn {
    fn to_value(&self) -> Value {
        Value::Seq(vec![
            Some(self.f0.to_value()),
            Some(self.f1.to_value()),
        ])
    }
}
impl FromValue for Tt2dde0 {
    fn from_value(v: &Value) -> Self {
        let s = match v { Value::Seq(s) => s, other => panic!("Tt2dde0: expected Seq, got {other:?}") };
        assert_eq!(s.len(), 2, "Tt2dde0: component count");
        let _ = s;
        Tt2dde0 {
            f0: FromValue::from_value(s[0].as_ref().expect("component f0 of Tt2dde0 must be present")),
            f1: FromValue::from_value(s[1].as_ref().expect("component f1 of Tt2dde0 must be present")),
        }
    }
}
impl ToValue for Tt2dde0 {
    fn to_value(&self) -> Value {
        Value::Seq(vec![
            Some(self.f0.to_value()),
            Some(self.f1.to_value()),
        ])
    }
}
impl FromValue for Tt2dde1 {
    fn from_value(v: &Value) -> Self {
        let s = match v { Value::Seq(s) => s, other => panic!("Tt2dde1: expected Seq, got {other:?}") };
        assert_eq!(s.len(), 2, "Tt2dde1: component count");
        let _ = s;
        Tt2dde1 {
            f0: FromValue::from_value(s[0].as_ref().expect("component f0 of Tt2dde1 must be present")),
            f1: FromValue::from_value(s[1].as_ref().expect("component f1 of Tt2dde1 must be present")),
        }
    }
}
impl ToValue for Tt2dde1 {
    fn to_value(&self) -> Value {
        Value::Seq(vec![
            Some(self.f0.to_value()),
            Some(self.f1.to_value()),
        ])
    }
}
impl FromValue for Tt2dde2 {
    fn from_value(v: &Value) -> Self {
        let s = match v { Value::Seq(s) => s, other => panic!("Tt2dde2: expected Seq, got {other:?}") };
        assert_eq!(s.len(), 2, "Tt2dde2: component count");
        let _ = s;
        Tt2dde2 {
            f0: FromValue::from_value(s[0].as_ref().expect("component f0 of Tt2dde2 must be present")),
            f1: FromValue::from_value(s[1].as_ref().expect("component f1 of Tt2dde2 must be present")),
        }
    }
}
impl ToValue for Tt2dde2 {
    fn to_value(&self) -> Value {
        Value::Seq(vec![
            Some(self.f0.to_value()),
            Some(self.f1.to_value()),
        ])
    }
}
impl FromValue for Tt3mmmn {
    fn from_value(v: &Value) -> Self {
        let s = match v { Value::Seq(s) => s, other => panic!("Tt3mmmn: expected Seq, got {other:?}") };
        assert_eq!(s.len(), 3, "Tt3mmmn: component count");
        let _ = s;
        Tt3mmmn {
            f0: FromValue::from_value(s[0].as_ref().expect("component f0 of Tt3mmmn must be present")),
            f1: FromValue::from_value(s[1].as_ref().expect("component f1 of Tt3mmmn must be present")),
            f2: FromValue::from_value(s[2].as_ref().expect("component f2 of Tt3mmmn must be present")),
        }
    }
}
impl ToValue for Tt3mmmn {
    fn to_value(&self) -> Value {
        Value::Seq(vec![
            Some(self.f0.to_value()),
            Some(self.f1.to_value()),
            Some(self.f2.to_value()),
        ])
    }
}
impl FromValue for Tt3mmme0 {
    fn from_value(v: &Value) -> Self {
        let s = match v { Value::Seq(s) => s, other => panic!("Tt3mmme0: expected Seq, got {other:?}") };
        assert_eq!(s.len(), 3, "Tt3mmme0: component count");
        let _ = s;
        Tt3mmme0 {
            f0: FromValue::from_value(s[0].as_ref().expect("component f0 of Tt3mmme0 must be present")),
            f1: s[1].as_ref().map(FromValue::from_value),
            f2: s[2].as_ref().map(FromValue::from_value),
        }
    }
}
impl ToValue for Tt3mmme0 {
    fn to_value(&self) -> Value {
        Value::Seq(vec![
            Some(self.f0.to_value()),
            self.f1.as_ref().map(|x| x.to_value()),
            self.f2.as_ref().map(|x| x.to_value()),
        ])
    }
}
impl FromValue for Tt3mmme1 {
    fn from_value(v: &Value) -> Self {
        let s = match v { Value::Seq(s) => s, other => panic!("Tt3mmme1: expected Seq, got {other:?}") };
        assert_eq!(s.len(), 3, "Tt3mmme1: component count");
        let _ = s;
        Tt3mmme1 {
            f0: FromValue::from_value(s[0].as_ref().expect("component f0 of Tt3mmme1 must be present")),
            f1: s[1].as_ref().map(FromValue::from_value),
            f2: s[2].as_ref().map(FromValue::from_value),
        }
    }
}
impl ToValue for Tt3mmme1 {
    fn to_value(&self) -> Value {
        Value::Seq(vec![
            Some(self.f0.to_value()),
            self.f1.as_ref().map(|x| x.to_value()),
            self.f2.as_ref().map(|x| x.to_value()),
        ])
    }
}
impl FromValue for Tt3mmme2 {
    fn from_value(v: &Value) -> Self {
        let s = match v { Value::Seq(s) => s, other => panic!("Tt3mmme2: expected Seq, got {other:?}") };
        assert_eq!(s.len(), 3, "Tt3mmme2: component count");
        let _ = s;
        Tt3mmme2 {
            f0: FromValue::from_value(s[0].as_ref().expect("component f0 of Tt3mmme2 must be present")),
            f1: FromValue::from_value(s[1].as_ref().expect("component f1 of Tt3mmme2 must be present")),
            f2: s[2].as_ref().map(FromValue::from_value),
        }
    }
}
impl ToValue for Tt3mmme2 {
    fn to_value(&self) -> Value {
        Value::Seq(vec![
            Some(self.f0.to_value()),
            Some(self.f1.to_value()),
            self.f2.as_ref().map(|x| x.to_value()),
        ])
    }
}
impl FromValue for Tt3mmme3 {
    fn from_value(v: &Value) -> Self {
        let s = match v { Value::Seq(s) => s, other => panic!("Tt3mmme3: expected Seq, got {other:?}") };
        assert_eq!(s.len(), 3, "Tt3mmme3: component count");
        let _ = s;
        Tt3mmme3 {
            f0: FromValue::from_value(s[0].as_ref().expect("component f0 of Tt3mmme3 must be present")),
            f1: FromValue::from_value(s[1].as_ref().expect("component f1 of Tt3mmme3 must be present")),
            f2: FromValue::from_value(s[2].as_ref().expect("component f2 of Tt3mmme3 must be present")),
        }
    }
}
impl ToValue for Tt3mmme3 {
    fn to_value(&self) -> Value {
        Value::Seq(vec![
            Some(self.f0.to_value()),
            Some(self.f1.to_value()),
            Some(self.f2.to_value()),
        ])
    }
}
impl FromValue for Tt3ommn {
    fn from_value(v: &Value) -> Self {
        let s = match v { Value::Seq(s) => s, other => panic!("Tt3ommn: expected Seq, got {other:?}") };
        assert_eq!(s.len(), 3, "Tt3ommn: component count");
        let _ = s;
        Tt3ommn {
            f0: s[0].as_ref().map(FromValue::from_value),
            f1: FromValue::from_value(s[1].as_ref().expect("component f1 of Tt3ommn must be present")),
            f2: FromValue::from_value(s[2].as_ref().expect("component f2 of Tt3ommn must be present")),
        }
    }
}
impl ToValue for Tt3ommn {
    fn to_value(&self) -> Value {
        Value::Seq(vec![
            self.f0.as_ref().map(|x| x.to_value()),
            Some(self.f1.to_value()),
            Some(self.f2.to_value()),
        ])
    }
}
impl FromValue for Tt3omme0 {
    fn from_value(v: &Value) -> Self {
        let s = match v { Value::Seq(s) => s, other => panic!("Tt3omme0: expected Seq, got {other:?}") };
        assert_eq!(s.len(), 3, "Tt3omme0: component count");
        let _ = s;
        Tt3omme0 {
            f0: s[0].as_ref().map(FromValue::from_value),
            f1: s[1].as_ref().map(FromValue::from_value),
            f2: s[2].as_ref().map(FromValue::from_value),
        }
    }
}
impl ToValue for Tt3omme0 {
    fn to_value(&self) -> Value {
        Value::Seq(vec![
            self.f0.as_ref().map(|x| x.to_value()),
            self.f1.as_ref().map(|x| x.to_value()),
            self.f2.as_ref().map(|x| x.to_value()),
        ])
    }
}
impl FromValue for Tt3omme1 {
    fn from_value(v: &Value) -> Self {
        let s = match v { Value::Seq(s) => s, other => panic!("Tt3omme1: expected Seq, got {other:?}") };
        assert_eq!(s.len(), 3, "Tt3omme1: component count");
        let _ = s;
        Tt3omme1 {
            f0: s[0].as_ref().map(FromValue::from_value),
            f1: s[1].as_ref().map(FromValue::from_value),
            f2: s[2].as_ref().map(FromValue::from_value),
        }
    }
}
impl ToValue for Tt3omme1 {
    fn to_value(&self) -> Value {
        Value::Seq(vec![
            self.f0.as_ref().map(|x| x.to_value()),
            self.f1.as_ref().map(|x| x.to_value()),
            self.f2.as_ref().map(|x| x.to_value()),
        ])
    }
}
impl FromValue for Tt3omme2 {
    fn from_value(v: &Value) -> Self {
        let s = match v { Value::Seq(s) => s, other => panic!("Tt3omme2: expected Seq, got {other:?}") };
        assert_eq!(s.len(), 3, "Tt3omme2: component count");
        let _ = s;
        Tt3omme2 {
            f0: s[0].as_ref().map(FromValue::from_value),
            f1: FromValue::from_value(s[1].as_ref().expect("component f1 of Tt3omme2 must be present")),
            f2: s[2].as_ref().map(FromValue::from_value),
        }
    }
}
impl ToValue for Tt3omme2 {
    fn to_value(&self) -> Value {
        Value::Seq(vec![
            self.f0.as_ref().map(|x| x.to_value()),
            Some(self.f1.to_value()),
            self.f2.as_ref().map(|x| x.to_value()),
        ])
    }
}
impl FromValue for Tt3omme3 {
    fn from_value(v: &Value) -> Self {
        let s = match v { Value::Seq(s) => s, other => panic!("Tt3omme3: expected Seq, got {other:?}") };
        assert_eq!(s.len(), 3, "Tt3omme3: component count");
        let _ = s;
        Tt3omme3 {
            f0: s[0].as_ref().map(FromValue::from_value),
            f1: FromValue::from_value(s[1].as_ref().expect("component f1 of Tt3omme3 must be present")),
            f2: FromValue::from_value(s[2].as_ref().expect("component f2 of Tt3omme3 must be present")),
        }
    }
}
impl ToValue for Tt3omme3 {
    fn to_value(&self) -> Value {
        Value::Seq(vec![
            self.f0.as_ref().map(|x| x.to_value()),
            Some(self.f1.to_value()),
            Some(self.f2.to_value()),
        ])
    }
}
impl FromValue for Tt3dmmn {
    fn from_value(v: &Value) -> Self {
        let s = match v { Value::Seq(s) => s, other => panic!("Tt3dmmn: expected Seq, got {other:?}") };
        assert_eq!(s.len(), 3, "Tt3dmmn: component count");
        let _ = s;
        Tt3dmmn {
            f0: FromValue::from_value(s[0].as_ref().expect("component f0 of Tt3dmmn must be present")),
            f1: FromValue::from_value(s[1].as_ref().expect("component f1 of Tt3dmmn must be present")),
            f2: FromValue::from_value(s[2].as_ref().expect("component f2 of Tt3dmmn must be present")),
        }
    }
}
impl ToValue for Tt3dmmn {
    fn to_value(&self) -> Value {
        Value::Seq(vec![
            Some(self.f0.to_value()),
            Some(self.f1.to_value()),
            Some(self.f2.to_value()),
        ])
    }
}
impl FromValue for Tt3dmme0 {
    fn from_value(v: &Value) -> Self {
        let s = match v { Value::Seq(s) => s, other => panic!("Tt3dmme0: expected Seq, got {other:?}") };
        assert_eq!(s.len(), 3, "Tt3dmme0: component count");
        let _ = s;
        Tt3dmme0 {
            f0: FromValue::from_value(s[0].as_ref().expect("component f0 of Tt3dmme0 must be present")),
            f1: s[1].as_ref().map(FromValue::from_value),
            f2: s[2].as_ref().map(FromValue::from_value),
        }
    }
}
impl ToValue for Tt3dmme0 {
    fn to_value(&self) -> Value {
        Value::Seq(vec![
            Some(self.f0.to_value()),
            self.f1.as_ref().map(|x| x.to_value()),
            self.f2.as_ref().map(|x| x.to_value()),
        ])
    }
}
impl FromValue for Tt3dmme1 {
    fn from_value(v: &Value) -> Self {
        let s = match v { Value::Seq(s) => s, other => panic!("Tt3dmme1: expected Seq, got {other:?}") };
        assert_eq!(s.len(), 3, "Tt3dmme1: component count");
        let _ = s;
        Tt3dmme1 {
            f0: FromValue::from_value(s[0].as_ref().expect("component f0 of Tt3dmme1 must be present")),
            f1: s[1].as_ref().map(FromValue::from_value),
            f2: s[2].as_ref().map(FromValue::from_value),
        }
    }
}
impl ToValue for Tt3dmme1 {
    fn to_value(&self) -> Value {
        Value::Seq(vec![
            Some(self.f0.to_value()),
            self.f1.as_ref().map(|x| x.to_value()),
            self.f2.as_ref().map(|x| x.to_value()),
        ])
    }
}
impl FromValue for Tt3dmme2 {
    fn from_value(v: &Value) -> Self {
        let s = match v { Value::Seq(s) => s, other => panic!("Tt3dmme2: expected Seq, got {other:?}") };
        assert_eq!(s.len(), 3, "Tt3dmme2: component count");
        let _ = s;
        Tt3dmme2 {
            f0: FromValue::from_value(s[0].as_ref().expect("component f0 of Tt3dmme2 must be present")),
            f1: FromValue::from_value(s[1].as_ref().expect("component f1 of Tt3dmme2 must be present")),
            f2: s[2].as_ref().map(FromValue::from_value),
        }
    }
}
impl ToValue for Tt3dmme2 {
    fn to_value(&self) -> Value {
        Value::Seq(vec![
            Some(self.f0.to_value()),
            Some(self.f1.to_value()),
            self.f2.as_ref().map(|x| x.to_value()),
        ])
    }
}
impl FromValue for Tt3dmme3 {
    fn from_value(v: &Value) -> Self {
        let s = match v { Value::Seq(s) => s, other => panic!("Tt3dmme3: expected Seq, got {other:?}") };
        assert_eq!(s.len(), 3, "Tt3dmme3: component count");
        let _ = s;
        Tt3dmme3 {
            f0: FromValue::from_value(s[0].as_ref().expect("component f0 of Tt3dmme3 must be present")),
            f1: FromValue::from_value(s[1].as_ref().expect("component f1 of Tt3dmme3 must be present")),
            f2: FromValue::from_value(s[2].as_ref().expect("component f2 of Tt3dmme3 must be present")),
        }
    }
}
impl ToValue for Tt3dmme3 {
    fn to_value(&self) -> Value {
        Value::Seq(vec![
            Some(self.f0.to_value()),
            Some(self.f1.to_value()),
            Some(self.f2.to_value()),
        ])
    }
}
impl FromValue for Tt3momn {
    fn from_value(v: &Value) -> Self {
        let s = match v { Value::Seq(s) => s, other => panic!("Tt3momn: expected Seq, got {other:?}") };
        assert_eq!(s.len(), 3, "Tt3momn: component count");
        let _ = s;
        Tt3momn {
            f0: FromValue::from_value(s[0].as_ref().expect("component f0 of Tt3momn must be present")),
            f1: s[1].as_ref().map(FromValue::from_value),
            f2: FromValue::from_value(s[2].as_ref().expect("component f2 of Tt3momn must be present")),
        }
    }
}
impl ToValue for Tt3momn {
    fn to_value(&self) -> Value {
        Value::Seq(vec![
            Some(self.f0.to_value()),
            self.f1.as_ref().map(|x| x.to_value()),
            Some(self.f2.to_value()),
        ])
    }
}
impl FromValue for Tt3mome0 {
    fn from_value(v: &Value) -> Self {
        let s = match v { Value::Seq(s) => s, other => panic!("Tt3mome0: expected Seq, got {other:?}") };
        assert_eq!(s.len(), 3, "Tt3mome0: component count");
        let _ = s;
        Tt3mome0 {
            f0: FromValue::from_value(s[0].as_ref().expect("component f0 of Tt3mome0 must be present")),
            f1: s[1].as_ref().map(FromValue::from_value),
            f2: s[2].as_ref().map(FromValue::from_value),
        }
    }
}
impl ToValue for Tt3mome0 {
    fn to_value(&self) -> Value {
        Value::Seq(vec![
            Some(self.f0.to_value()),
            self.f1.as_ref().map(|x| x.to_value()),
            self.f2.as_ref().map(|x| x.to_value()),
        ])
    }
}
impl FromValue for Tt3mome1 {
    fn from_value(v: &Value) -> Self {
        let s = match v { Value::Seq(s) => s, other => panic!("Tt3mome1: expected Seq, got {other:?}") };
        assert_eq!(s.len(), 3, "Tt3mome1: component count");
        let _ = s;
        Tt3mome1 {
            f0: FromValue::from_value(s[0].as_ref().expect("component f0 of Tt3mome1 must be present")),
            f1: s[1].as_ref().map(FromValue::from_value),
            f2: s[2].as_ref().map(FromValue::from_value),
        }
    }
}
impl ToValue for Tt3mome1 {
    fn to_value(&self) -> Value {
        Value::Seq(vec![
            Some(self.f0.to_value()),
            self.f1.as_ref().map(|x| x.to_value()),
            self.f2.as_ref().map(|x| x.to_value()),
        ])
    }
}
impl FromValue for Tt3mome2 {
    fn from_value(v: &Value) -> Self {
        let s = match v { Value::Seq(s) => s, other => panic!("Tt3mome2: expected Seq, got {other:?}") };
        assert_eq!(s.len(), 3, "Tt3mome2: component count");
        let _ = s;
        Tt3mome2 {
            f0: FromValue::from_value(s[0].as_ref().expect("component f0 of Tt3mome2 must be present")),
            f1: s[1].as_ref().map(FromValue::from_value),
            f2: s[2].as_ref().map(FromValue::from_value),
        }
    }
}
impl ToValue for Tt3mome2 {
    fn to_value(&self) -> Value {
        Value::Seq(vec![
            Some(self.f0.to_value()),
            self.f1.as_ref().map(|x| x.to_value()),
            self.f2.as_ref().map(|x| x.to_value()),
        ])
    }
}
impl FromValue for Tt3mome3 {
    fn from_value(v: &Value) -> Self {
        let s = match v { Value::Seq(s) => s, other => panic!("Tt3mome3: expected Seq, got {other:?}") };
        assert_eq!(s.len(), 3, "Tt3mome3: component count");
        let _ = s;
        Tt3mome3 {
            f0: FromValue::from_value(s[0].as_ref().expect("component f0 of Tt3mome3 must be present")),
            f1: s[1].as_ref().map(FromValue::from_value),
            f2: FromValue::from_value(s[2].as_ref().expect("component f2 of Tt3mome3 must be present")),
        }
    }
}
impl ToValue for Tt3mome3 {
    fn to_value(&self) -> Value {
        Value::Seq(vec![
            Some(self.f0.to_value()),
            self.f1.as_ref().map(|x| x.to_value()),
            Some(self.f2.to_value()),
        ])
    }
}
impl FromValue for Tt3oomn {
    fn from_value(v: &Value) -> Self {
        let s = match v { Value::Seq(s) => s, other => panic!("Tt3oomn: expected Seq, got {other:?}") };
        assert_eq!(s.len(), 3, "Tt3oomn: component count");
        let _ = s;
        Tt3oomn {
            f0: s[0].as_ref().map(FromValue::from_value),
            f1: s[1].as_ref().map(FromValue::from_value),
            f2: FromValue::from_value(s[2].as_ref().expect("component f2 of Tt3oomn must be present")),
        }
    }
}
impl ToValue for Tt3oomn {
    fn to_value(&self) -> Value {
        Value::Seq(vec![
            self.f0.as_ref().map(|x| x.to_value()),
            self.f1.as_ref().map(|x| x.to_value()),
            Some(self.f2.to_value()),
        ])
    }
}
impl FromValue for Tt3oome0 {
    fn from_value(v: &Value) -> Self {
        let s = match v { Value::Seq(s) => s, other => panic!("Tt3oome0: expected Seq, got {other:?}") };
        assert_eq!(s.len(), 3, "Tt3oome0: component count");
        let _ = s;
        Tt3oome0 {
            f0: s[0].as_ref().map(FromValue::from_value),
            f1: s[1].as_ref().map(FromValue::from_value),
            f2: s[2].as_ref().map(FromValue::from_value),
        }
    }
}
impl ToValue for Tt3oome0 {
    fn to_value(&self) -> Value {
        Value::Seq(vec![
            self.f0.as_ref().map(|x| x.to_value()),
            self.f1.as_ref().map(|x| x.to_value()),
            self.f2.as_ref().map(|x| x.to_value()),
        ])
    }
}
impl FromValue for Tt3oome1 {
    fn from_value(v: &Value) -> Self {
        let s = match v { Value::Seq(s) => s, other => panic!("Tt3oome1: expected Seq, got {other:?}") };
        assert_eq!(s.len(), 3, "Tt3oome1: component count");
        let _ = s;
        Tt3oome1 {
            f0: s[0].as_ref().map(FromValue::from_value),
            f1: s[1].as_ref().map(FromValue::from_value),
            f2: s[2].as_ref().map(FromValue::from_value),
        }
    }
}
impl ToValue for Tt3oome1 {
    fn to_value(&self) -> Value {
        Value::Seq(vec![
            self.f0.as_ref().map(|x| x.to_value()),
            self.f1.as_ref().map(|x| x.to_value()),
            self.f2.as_ref().map(|x| x.to_value()),
        ])
    }
}
impl FromValue for Tt3oome2 {
    fn from_value(v: &Value) -> Self {
        let s = match v { Value::Seq(s) => s, other => panic!("Tt3oome2: expected Seq, got {other:?}") };
        assert_eq!(s.len(), 3, "Tt3oome2: component count");
        let _ = s;
        Tt3oome2 {
            f0: s[0].as_ref().map(FromValue::from_value),
            f1: s[1].as_ref().map(FromValue::from_value),
            f2: s[2].as_ref().map(FromValue::from_value),
        }
    }
}
impl ToValue for Tt3oome2 {
    fn to_value(&self) -> Value {
        Value::Seq(vec![
            self.f0.as_ref().map(|x| x.to_value()),
            self.f1.as_ref().map(|x| x.to_value()),
            self.f2.as_ref().map(|x| x.to_value()),
        ])
    }
}
impl FromValue for Tt3oome3 {
    fn from_value(v: &Value) -> Self {
        let s = match v { Value::Seq(s) => s, other => panic!("Tt3oome3: expected Seq, got {other:?}") };
        assert_eq!(s.len(), 3, "Tt3oome3: component count");
        let _ = s;
        Tt3oome3 {
            f0: s[0].as_ref().map(FromValue::from_value),
            f1: s[1].as_ref().map(FromValue::from_value),
            f2: FromValue::from_value(s[2].as_ref().expect("component f2 of Tt3oome3 must be present")),
        }
    }
}
impl ToValue for Tt3oome3 {
    fn to_value(&self) -> Value {
        Value::Seq(vec![
            self.f0.as_ref().map(|x| x.to_value()),
            self.f1.as_ref().map(|x| x.to_value()),
            Some(self.f2.to_value()),
        ])
    }
}
impl FromValue for Tt3domn {
    fn from_value(v: &Value) -> Self {
        let s = match v { Value::Seq(s) => s, other => panic!("Tt3domn: expected Seq, got {other:?}") };
        assert_eq!(s.len(), 3, "Tt3domn: component count");
        let _ = s;
        Tt3domn {
            f0: FromValue::from_value(s[0].as_ref().expect("component f0 of Tt3domn must be present")),
            f1: s[1].as_ref().map(FromValue::from_value),
            f2: FromValue::from_value(s[2].as_ref().expect("component f2 of Tt3domn must be present")),
        }
    }
}
impl ToValue for Tt3domn {
    fn to_value(&self) -> Value {
        Value::Seq(vec![
            Some(self.f0.to_value()),
            self.f1.as_ref().map(|x| x.to_value()),
            Some(self.f2.to_value()),
        ])
    }
}
impl FromValue for Tt3dome0 {
    fn from_value(v: &Value) -> Self {
        let s = match v { Value::Seq(s) => s, other => panic!("Tt3dome0: expected Seq, got {other:?}") };
        assert_eq!(s.len(), 3, "Tt3dome0: component count");
        let _ = s;
        Tt3dome0 {
            f0: FromValue::from_value(s[0].as_ref().expect("component f0 of Tt3dome0 must be present")),
            f1: s[1].as_ref().map(FromValue::from_value),
            f2: s[2].as_ref().map(FromValue::from_value),
        }
    }
}
impl ToValue for Tt3dome0 {
    fn to_value(&self) -> Value {
        Value::Seq(vec![
            Some(self.f0.to_value()),
            self.f1.as_ref().map(|x| x.to_value()),
            self.f2.as_ref().map(|x| x.to_value()),
        ])
    }
}
impl FromValue for Tt3dome1 {
    fn from_value(v: &Value) -> Self {
        let s = match v { Value::Seq(s) => s, other => panic!("Tt3dome1: expected Seq, got {other:?}") };
        assert_eq!(s.len(), 3, "Tt3dome1: component count");
        let _ = s;
        Tt3dome1 {
            f0: FromValue::from_value(s[0].as_ref().expect("component f0 of Tt3dome1 must be present")),
            f1: s[1].as_ref().map(FromValue::from_value),
            f2: s[2].as_ref().map(FromValue::from_value),
        }
    }
}
impl ToValue for Tt3dome1 {
    fn to_value(&self) -> Value {
        Value::Seq(vec![
            Some(self.f0.to_value()),
            self.f1.as_ref().map(|x| x.to_value()),
            self.f2.as_ref().map(|x| x.to_value()),
        ])
    }
}
impl FromValue for Tt3dome2 {
    fn from_value(v: &Value) -> Self {
        let s = match v { Value::Seq(s) => s, other => panic!("Tt3dome2: expected Seq, got {other:?}") };
        assert_eq!(s.len(), 3, "Tt3dome2: component count");
        let _ = s;
        Tt3dome2 {
            f0: FromValue::from_value(s[0].as_ref().expect("component f0 of Tt3dome2 must be present")),
            f1: s[1].as_ref().map(FromValue::from_value),
            f2: s[2].as_ref().map(FromValue::from_value),
        }
    }
}
impl ToValue for Tt3dome2 {
    fn to_value(&self) -> Value {
        Value::Seq(vec![
            Some(self.f0.to_value()),
            self.f1.as_ref().map(|x| x.to_value()),
            self.f2.as_ref().map(|x| x.to_value()),
        ])
    }
}
impl FromValue for Tt3dome3 {
    fn from_value(v: &Value) -> Self {
        let s = match v { Value::Seq(s) => s, other => panic!("Tt3dome3: expected Seq, got {other:?}") };
        assert_eq!(s.len(), 3, "Tt3dome3: component count");
        let _ = s;
        Tt3dome3 {
            f0: FromValue::from_value(s[0].as_ref().expect("component f0 of Tt3dome3 must be present")),
            f1: s[1].as_ref().map(FromValue::from_value),
            f2: FromValue::from_value(s[2].as_ref().expect("component f2 of Tt3dome3 must be present")),
        }
    }
}
impl ToValue for Tt3dome3 {
    fn to_value(&self) -> Value {
        Value::Seq(vec![
            Some(self.f0.to_value()),
            self.f1.as_ref().map(|x| x.to_value()),
            Some(self.f2.to_value()),
        ])
    }
}
impl FromValue for Tt3mdmn {
    fn from_value(v: &Value) -> Self {
        let s = match v { Value::Seq(s) => s, other => panic!("Tt3mdmn: expected Seq, got {other:?}") };
        assert_eq!(s.len(), 3, "Tt3mdmn: component count");
        let _ = s;
        Tt3mdmn {
            f0: FromValue::from_value(s[0].as_ref().expect("component f0 of Tt3mdmn must be present")),
            f1: FromValue::from_value(s[1].as_ref().expect("component f1 of Tt3mdmn must be present")),
            f2: FromValue::from_value(s[2].as_ref().expect("component f2 of Tt3mdmn must be present")),
        }
    }
}
impl ToValue for Tt3mdmn {
    fn to_value(&self) -> Value {
        Value::Seq(vec![
            Some(self.f0.to_value()),
            Some(self.f1.to_value()),
            Some(self.f2.to_value()),
        ])
    }
}
impl FromValue for Tt3mdme0 {
    fn from_value(v: &Value) -> Self {
        let s = match v { Value::Seq(s) => s, other => panic!("Tt3mdme0: expected Seq, got {other:?}") };
        assert_eq!(s.len(), 3, "Tt3mdme0: component count");
        let _ = s;
        Tt3mdme0 {
            f0: FromValue::from_value(s[0].as_ref().expect("component f0 of Tt3mdme0 must be present")),
            f1: FromValue::from_value(s[1].as_ref().expect("component f1 of Tt3mdme0 must be present")),
            f2: s[2].as_ref().map(FromValue::from_value),
        }
    }
}
impl ToValue for Tt3mdme0 {
    fn to_value(&self) -> Value {
        Value::Seq(vec![
            Some(self.f0.to_value()),
            Some(self.f1.to_value()),
            self.f2.as_ref().map(|x| x.to_value()),
        ])
    }
}
impl FromValue for Tt3mdme1 {
    fn from_value(v: &Value) -> Self {
        let s = match v { Value::Seq(s) => s, other => panic!("Tt3mdme1: expected Seq, got {other:?}") };
        assert_eq!(s.len(), 3, "Tt3mdme1: component count");
        let _ = s;
        Tt3mdme1 {
            f0: FromValue::from_value(s[0].as_ref().expect("component f0 of Tt3mdme1 must be present")),
            f1: FromValue::from_value(s[1].as_ref().expect("component f1 of Tt3mdme1 must be present")),
            f2: s[2].as_ref().map(FromValue::from_value),
        }
    }
}
impl ToValue for Tt3mdme1 {
    fn to_value(&self) -> Value {
        Value::Seq(vec![
            Some(self.f0.to_value()),
            Some(self.f1.to_value()),
            self.f2.as_ref().map(|x| x.to_value()),
        ])
    }
}
impl FromValue for Tt3mdme2 {
    fn from_value(v: &Value) -> Self {
        let s = match v { Value::Seq(s) => s, other => panic!("Tt3mdme2: expected Seq, got {other:?}") };
        assert_eq!(s.len(), 3, "Tt3mdme2: component count");
        let _ = s;
        Tt3mdme2 {
            f0: FromValue::from_value(s[0].as_ref().expect("component f0 of Tt3mdme2 must be present")),
            f1: FromValue::from_value(s[1].as_ref().expect("component f1 of Tt3mdme2 must be present")),
            f2: s[2].as_ref().map(FromValue::from_value),
        }
    }
}
impl ToValue for Tt3mdme2 {
    fn to_value(&self) -> Value {
        Value::Seq(vec![
            Some(self.f0.to_value()),
            Some(self.f1.to_value()),
            self.f2.as_ref().map(|x| x.to_value()),
        ])
    }
}
impl FromValue for Tt3mdme3 {
    fn from_value(v: &Value) -> Self {
        let s = match v { Value::Seq(s) => s, other => panic!("Tt3mdme3: expected Seq, got {other:?}") };
        assert_eq!(s.len(), 3, "Tt3mdme3: component count");
        let _ = s;
        Tt3mdme3 {
            f0: FromValue::from_value(s[0].as_ref().expect("component f0 of Tt3mdme3 must be present")),
            f1: FromValue::from_value(s[1].as_ref().expect("component f1 of Tt3mdme3 must be present")),
            f2: FromValue::from_value(s[2].as_ref().expect("component f2 of Tt3mdme3 must be present")),
        }
    }
}
impl ToValue for Tt3mdme3 {
    fn to_value(&self) -> Value {
        Value::Seq(vec![
            Some(self.f0.to_value()),
            Some(self.f1.to_value()),
            Some(self.f2.to_value()),
        ])
    }
}
impl FromValue for Tt3odmn {
    fn from_value(v: &Value) -> Self {
        let s = match v { Value::Seq(s) => s, other => panic!("Tt3odmn: expected Seq, got {other:?}") };
        assert_eq!(s.len(), 3, "Tt3odmn: component count");
        let _ = s;
        Tt3odmn {
            f0: s[0].as_ref().map(FromValue::from_value),
            f1: FromValue::from_value(s[1].as_ref().expect("component f1 of Tt3odmn must be present")),
            f2: FromValue::from_value(s[2].as_ref().expect("component f2 of Tt3odmn must be present")),
        }
    }
}
impl ToValue for Tt3odmn {
    fn to_value(&self) -> Value {
        Value::Seq(vec![
            self.f0.as_ref().map(|x| x.to_value()),
            Some(self.f1.to_value()),
            Some(self.f2.to_value()),
        ])
    }
}
impl FromValue for Tt3odme0 {
    fn from_value(v: &Value) -> Self {
        let s = match v { Value::Seq(s) => s, other => panic!("Tt3odme0: expected Seq, got {other:?}") };
        assert_eq!(s.len(), 3, "Tt3odme0: component count");
        let _ = s;
        Tt3odme0 {
            f0: s[0].as_ref().map(FromValue::from_value),
            f1: FromValue::from_value(s[1].as_ref().expect("component f1 of Tt3odme0 must be present")),
            f2: s[2].as_ref().map(FromValue::from_value),
        }
    }
}
impl ToValue for Tt3odme0 {
    fn to_value(&self) -> Value {
        Value::Seq(vec![
            self.f0.as_ref().map(|x| x.to_value()),
            Some(self.f1.to_value()),
            self.f2.as_ref().map(|x| x.to_value()),
        ])
    }
}
impl FromValue for Tt3odme1 {
    fn from_value(v: &Value) -> Self {
        let s = match v { Value::Seq(s) => s, other => panic!("Tt3odme1: expected Seq, got {other:?}") };
        assert_eq!(s.len(), 3, "Tt3odme1: component count");
        let _ = s;
        Tt3odme1 {
            f0: s[0].as_ref().map(FromValue::from_value),
            f1: FromValue::from_value(s[1].as_ref().expect("component f1 of Tt3odme1 must be present")),
            f2: s[2].as_ref().map(FromValue::from_value),
        }
    }
}
impl ToValue for Tt3odme1 {
    fn to_value(&self) -> Value {
        Value::Seq(vec![
            self.f0.as_ref().map(|x| x.to_value()),
            Some(self.f1.to_value()),
            self.f2.as_ref().map(|x| x.to_value()),
        ])
    }
}
impl FromValue for Tt3odme2 {
    fn from_value(v: &Value) -> Self {
        let s = match v { Value::Seq(s) => s, other => panic!("Tt3odme2: expected Seq, got {other:?}") };
        assert_eq!(s.len(), 3, "Tt3odme2: component count");
        let _ = s;
        Tt3odme2 {
            f0: s[0].as_ref().map(FromValue::from_value),
            f1: FromValue::from_value(s[1].as_ref().expect("component f1 of Tt3odme2 must be present")),
            f2: s[2].as_ref().map(FromValue::from_value),
        }
    }
}
impl ToValue for Tt3odme2 {
    fn to_value(&self) -> Value {
        Value::Seq(vec![
            self.f0.as_ref().map(|x| x.to_value()),
            Some(self.f1.to_value()),
            self.f2.as_ref().map(|x| x.to_value()),
        ])
    }
}
impl FromValue for Tt3odme3 {
    fn from_value(v: &Value) -> Self {
        let s = match v { Value::Seq(s) => s, other => panic!("Tt3odme3: expected Seq, got {other:?}") };
        assert_eq!(s.len(), 3, "Tt3odme3: component count");
        let _ = s;
        Tt3odme3 {
            f0: s[0].as_ref().map(FromValue::from_value),
            f1: FromValue::from_value(s[1].as_ref().expect("component f1 of Tt3odme3 must be present")),
            f2: FromValue::from_value(s[2].as_ref().expect("component f2 of Tt3odme3 must be present")),
        }
    }
}
impl ToValue for Tt3odme3 {
    fn to_value(&self) -> Value {
        Value::Seq(vec![
            self.f0.as_ref().map(|x| x.to_value()),
            Some(self.f1.to_value()),
            Some(self.f2.to_value()),
        ])
    }
}
impl FromValue for Tt3ddmn {
    fn from_value(v: &Value) -> Self {
        let s = match v { Value::Seq(s) => s, other => panic!("Tt3ddmn: expected Seq, got {other:?}") };
        assert_eq!(s.len(), 3, "Tt3ddmn: component count");
        let _ = s;
        Tt3ddmn {
            f0: FromValue::from_value(s[0].as_ref().expect("component f0 of Tt3ddmn must be present")),
            f1: FromValue::from_value(s[1].as_ref().expect("component f1 of Tt3ddmn must be present")),
            f2: FromValue::from_value(s[2].as_ref().expect("component f2 of Tt3ddmn must be present")),
        }
    }
}
impl ToValue for Tt3ddmn {
    fn to_value(&self) -> Value {
        Value::Seq(vec![
            Some(self.f0.to_value()),
            Some(self.f1.to_value()),
            Some(self.f2.to_value()),
        ])
    }
}
impl FromValue for Tt3ddme0 {
    fn from_value(v: &Value) -> Self {
        let s = match v { Value::Seq(s) => s, other => panic!("Tt3ddme0: expected Seq, got {other:?}") };
        assert_eq!(s.len(), 3, "Tt3ddme0: component count");
        let _ = s;
        Tt3ddme0 {
            f0: FromValue::from_value(s[0].as_ref().expect("component f0 of Tt3ddme0 must be present")),
            f1: FromValue::from_value(s[1].as_ref().expect("component f1 of Tt3ddme0 must be present")),
            f2: s[2].as_ref().map(FromValue::from_value),
        }
    }
}
impl ToValue for Tt3ddme0 {
    fn to_value(&self) -> Value {
        Value::Seq(vec![
            Some(self.f0.to_value()),
            Some(self.f1.to_value()),
            self.f2.as_ref().map(|x| x.to_value()),
        ])
    }
}
impl FromValue for Tt3ddme1 {
    fn from_value(v: &Value) -> Self {
        let s = match v { Value::Seq(s) => s, other => panic!("Tt3ddme1: expected Seq, got {other:?}") };
        assert_eq!(s.len(), 3, "Tt3ddme1: component count");
        let _ = s;
        Tt3ddme1 {
            f0: FromValue::from_value(s[0].as_ref().expect("component f0 of Tt3ddme1 must be present")),
            f1: FromValue::from_value(s[1].as_ref().expect("component f1 of Tt3ddme1 must be present")),
            f2: s[2].as_ref().map(FromValue::from_value),
        }
    }
}
impl ToValue for Tt3ddme1 {
    fn to_value(&self) -> Value {
        Value::Seq(vec![
            Some(self.f0.to_value()),
            Some(self.f1.to_value()),
            self.f2.as_ref().map(|x| x.to_value()),
        ])
    }
}
impl FromValue for Tt3ddme2 {
    fn from_value(v: &Value) -> Self {
        let s = match v { Value::Seq(s) => s, other => panic!("Tt3ddme2: expected Seq, got {other:?}") };
        assert_eq!(s.len(), 3, "Tt3ddme2: component count");
        let _ = s;
        Tt3ddme2 {
            f0: FromValue::from_value(s[0].as_ref().expect("component f0 of Tt3ddme2 must be present")),
            f1: FromValue::from_value(s[1].as_ref().expect("component f1 of Tt3ddme2 must be present")),
            f2: s[2].as_ref().map(FromValue::from_value),
        }
    }
}
impl ToValue for Tt3ddme2 {
    fn to_value(&self) -> Value {
        Value::Seq(vec![
            Some(self.f0.to_value()),
            Some(self.f1.to_value()),
            self.f2.as_ref().map(|x| x.to_value()),
        ])
    }
}
impl FromValue for Tt3ddme3 {
    fn from_value(v: &Value) -> Self {
        let s = match v { Value::Seq(s) => s, other => panic!("Tt3ddme3: expected Seq, got {other:?}") };
        assert_eq!(s.len(), 3, "Tt3ddme3: component count");
        let _ = s;
        Tt3ddme3 {
            f0: FromValue::from_value(s[0].as_ref().expect("component f0 of Tt3ddme3 must be present")),
            f1: FromValue::from_value(s[1].as_ref().expect("component f1 of Tt3ddme3 must be present")),
            f2: FromValue::from_value(s[2].as_ref().expect("component f2 of Tt3ddme3 must be present")),
        }
    }
}
impl ToValue for Tt3ddme3 {
    fn to_value(&self) -> Value {
        Value::Seq(vec![
            Some(self.f0.to_value()),
            Some(self.f1.to_value()),
            Some(self.f2.to_value()),
        ])
    }
}
impl FromValue for Tt3mmon {
    fn from_value(v: &Value) -> Self {
        let s = match v { Value::Seq(s) => s, other => panic!("Tt3mmon: expected Seq, got {other:?}") };
        assert_eq!(s.len(), 3, "Tt3mmon: component count");
        let _ = s;
        Tt3mmon {
            f0: FromValue::from_value(s[0].as_ref().expect("component f0 of Tt3mmon must be present")),
            f1: FromValue::from_value(s[1].as_ref().expect("component f1 of Tt3mmon must be present")),
            f2: s[2].as_ref().map(FromValue::from_value),
        }
    }
}
impl ToValue for Tt3mmon {
    fn to_value(&self) -> Value {
        Value::Seq(vec![
            Some(self.f0.to_value()),
            Some(self.f1.to_value()),
            self.f2.as_ref().map(|x| x.to_value()),
        ])
    }
}
impl FromValue for Tt3mmoe0 {
    fn from_value(v: &Value) -> Self {
        let s = match v { Value::Seq(s) => s, other => panic!("Tt3mmoe0: expected Seq, got {other:?}") };
        assert_eq!(s.len(), 3, "Tt3mmoe0: component count");
        let _ = s;
        Tt3mmoe0 {
            f0: FromValue::from_value(s[0].as_ref().expect("component f0 of Tt3mmoe0 must be present")),
            f1: s[1].as_ref().map(FromValue::from_value),
            f2: s[2].as_ref().map(FromValue::from_value),
        }
    }
}
impl ToValue for Tt3mmoe0 {
    fn to_value(&self) -> Value {
        Value::Seq(vec![
            Some(self.f0.to_value()),
            self.f1.as_ref().map(|x| x.to_value()),
            self.f2.as_ref().map(|x| x.to_value()),
        ])
    }
}
impl FromValue for Tt3mmoe1 {
    fn from_value(v: &Value) -> Self {
        let s = match v { Value::Seq(s) => s, other => panic!("Tt3mmoe1: expected Seq, got {other:?}") };
        assert_eq!(s.len(), 3, "Tt3mmoe1: component count");
        let _ = s;
        Tt3mmoe1 {
            f0: FromValue::from_value(s[0].as_ref().expect("component f0 of Tt3mmoe1 must be present")),
            f1: s[1].as_ref().map(FromValue::from_value),
            f2: s[2].as_ref().map(FromValue::from_value),
        }
    }
}
impl ToValue for Tt3mmoe1 {
    fn to_value(&self) -> Value {
        Value::Seq(vec![
            Some(self.f0.to_value()),
            self.f1.as_ref().map(|x| x.to_value()),
            self.f2.as_ref().map(|x| x.to_value()),
        ])
    }
}
impl FromValue for Tt3mmoe2 {
    fn from_value(v: &Value) -> Self {
        let s = match v { Value::Seq(s) => s, other => panic!("Tt3mmoe2: expected Seq, got {other:?}") };
        assert_eq!(s.len(), 3, "Tt3mmoe2: component count");
        let _ = s;
        Tt3mmoe2 {
            f0: FromValue::from_value(s[0].as_ref().expect("component f0 of Tt3mmoe2 must be present")),
            f1: FromValue::from_value(s[1].as_ref().expect("component f1 of Tt3mmoe2 must be present")),
            f2: s[2].as_ref().map(FromValue::from_value),
        }
    }
}
impl ToValue for Tt3mmoe2 {
    fn to_value(&self) -> Value {
        Value::Seq(vec![
            Some(self.f0.to_value()),
            Some(self.f1.to_value()),
            self.f2.as_ref().map(|x| x.to_value()),
        ])
    }
}
impl FromValue for Tt3mmoe3 {
    fn from_value(v: &Value) -> Self {
        let s = match v { Value::Seq(s) => s, other => panic!("Tt3mmoe3: expected Seq, got {other:?}") };
        assert_eq!(s.len(), 3, "Tt3mmoe3: component count");
        let _ = s;
        Tt3mmoe3 {
            f0: FromValue::from_value(s[0].as_ref().expect("component f0 of Tt3mmoe3 must be present")),
            f1: FromValue::from_value(s[1].as_ref().expect("component f1 of Tt3mmoe3 must be present")),
            f2: s[2].as_ref().map(FromValue::from_value),
        }
    }
}
impl ToValue for Tt3mmoe3 {
    fn to_value(&self) -> Value {
        Value::Seq(vec![
            Some(self.f0.to_value()),
            Some(self.f1.to_value()),
            self.f2.as_ref().map(|x| x.to_value()),
        ])
    }
}
impl FromValue for Tt3omon {
    fn from_value(v: &Value) -> Self {
        let s = match v { Value::Seq(s) => s, other => panic!("Tt3omon: expected Seq, got {other:?}") };
        assert_eq!(s.len(), 3, "Tt3omon: component count");
        let _ = s;
        Tt3omon {
            f0: s[0].as_ref().map(FromValue::from_value),
            f1: FromValue::from_value(s[1].as_ref().expect("component f1 of Tt3omon must be present")),
            f2: s[2].as_ref().map(FromValue::from_value),
        }
    }
}
impl ToValue for Tt3omon {
    fn to_value(&self) -> Value {
        Value::Seq(vec![
            self.f0.as_ref().map(|x| x.to_value()),
            Some(self.f1.to_value()),
            self.f2.as_ref().map(|x| x.to_value()),
        ])
    }
}
impl FromValue for Tt3omoe0 {
    fn from_value(v: &Value) -> Self {
        let s = match v { Value::Seq(s) => s, other => panic!("Tt3omoe0: expected Seq, got {other:?}") };
        assert_eq!(s.len(), 3, "Tt3omoe0: component count");
        let _ = s;
        Tt3omoe0 {
            f0: s[0].as_ref().map(FromValue::from_value),
            f1: s[1].as_ref().map(FromValue::from_value),
            f2: s[2].as_ref().map(FromValue::from_value),
        }
    }
}
impl ToValue for Tt3omoe0 {
    fn to_value(&self) -> Value {
        Value::Seq(vec![
            self.f0.as_ref().map(|x| x.to_value()),
            self.f1.as_ref().map(|x| x.to_value()),
            self.f2.as_ref().map(|x| x.to_value()),
        ])
    }
}
impl FromValue for Tt3omoe1 {
    fn from_value(v: &Value) -> Self {
        let s = match v { Value::Seq(s) => s, other => panic!("Tt3omoe1: expected Seq, got {other:?}") };
        assert_eq!(s.len(), 3, "Tt3omoe1: component count");
        let _ = s;
        Tt3omoe1 {
            f0: s[0].as_ref().map(FromValue::from_value),
            f1: s[1].as_ref().map(FromValue::from_value),
            f2: s[2].as_ref().map(FromValue::from_value),
        }
    }
}
impl ToValue for Tt3omoe1 {
    fn to_value(&self) -> Value {
        Value::Seq(vec![
            self.f0.as_ref().map(|x| x.to_value()),
            self.f1.as_ref().map(|x| x.to_value()),
            self.f2.as_ref().map(|x| x.to_value()),
        ])
    }
}
impl FromValue for Tt3omoe2 {
    fn from_value(v: &Value) -> Self {
        let s = match v { Value::Seq(s) => s, other => panic!("Tt3omoe2: expected Seq, got {other:?}") };
        assert_eq!(s.len(), 3, "Tt3omoe2: component count");
        let _ = s;
        Tt3omoe2 {
            f0: s[0].as_ref().map(FromValue::from_value),
            f1: FromValue::from_value(s[1].as_ref().expect("component f1 of Tt3omoe2 must be present")),
            f2: s[2].as_ref().map(FromValue::from_value),
        }
    }
}
impl ToValue for Tt3omoe2 {
    fn to_value(&self) -> Value {
        Value::Seq(vec![
            self.f0.as_ref().map(|x| x.to_value()),
            Some(self.f1.to_value()),
            self.f2.as_ref().map(|x| x.to_value()),
        ])
    }
}
impl FromValue for Tt3omoe3 {
    fn from_value(v: &Value) -> Self {
        let s = match v { Value::Seq(s) => s, other => panic!("Tt3omoe3: expected Seq, got {other:?}") };
        assert_eq!(s.len(), 3, "Tt3omoe3: component count");
        let _ = s;
        Tt3omoe3 {
            f0: s[0].as_ref().map(FromValue::from_value),
            f1: FromValue::from_value(s[1].as_ref().expect("component f1 of Tt3omoe3 must be present")),
            f2: s[2].as_ref().map(FromValue::from_value),
        }
    }
}
impl ToValue for Tt3omoe3 {
    fn to_value(&self) -> Value {
        Value::Seq(vec![
            self.f0.as_ref().map(|x| x.to_value()),
            Some(self.f1.to_value()),
            self.f2.as_ref().map(|x| x.to_value()),
        ])
    }
}
impl FromValue for Tt3dmon {
    fn from_value(v: &Value) -> Self {
        let s = match v { Value::Seq(s) => s, other => panic!("Tt3dmon: expected Seq, got {other:?}") };
        assert_eq!(s.len(), 3, "Tt3dmon: component count");
        let _ = s;
        Tt3dmon {
            f0: FromValue::from_value(s[0].as_ref().expect("component f0 of Tt3dmon must be present")),
            f1: FromValue::from_value(s[1].as_ref().expect("component f1 of Tt3dmon must be present")),
            f2: s[2].as_ref().map(FromValue::from_value),
        }
    }
}
impl ToValue for Tt3dmon {
    fn to_value(&self) -> Value {
        Value::Seq(vec![
            Some(self.f0.to_value()),
            Some(self.f1.to_value()),
            self.f2.as_ref().map(|x| x.to_value()),
        ])
    }
}
impl FromValue for Tt3dmoe0 {
    fn from_value(v: &Value) -> Self {
        let s = match v { Value::Seq(s) => s, other => panic!("Tt3dmoe0: expected Seq, got {other:?}") };
        assert_eq!(s.len(), 3, "Tt3dmoe0: component count");
        let _ = s;
        Tt3dmoe0 {
            f0: FromValue::from_value(s[0].as_ref().expect("component f0 of Tt3dmoe0 must be present")),
            f1: s[1].as_ref().map(FromValue::from_value),
            f2: s[2].as_ref().map(FromValue::from_value),
        }
    }
}
impl ToValue for Tt3dmoe0 {
    fn to_value(&self) -> Value {
        Value::Seq(vec![
            Some(self.f0.to_value()),
            self.f1.as_ref().map(|x| x.to_value()),
            self.f2.as_ref().map(|x| x.to_value()),
        ])
    }
}
impl FromValue for Tt3dmoe1 {
    fn from_value(v: &Value) -> Self {
        let s = match v { Value::Seq(s) => s, other => panic!("Tt3dmoe1: expected Seq, got {other:?}") };
        assert_eq!(s.len(), 3, "Tt3dmoe1: component count");
        let _ = s;
        Tt3dmoe1 {
            f0: FromValue::from_value(s[0].as_ref().expect("component f0 of Tt3dmoe1 must be present")),
            f1: s[1].as_ref().map(FromValue::from_value),
            f2: s[2].as_ref().map(FromValue::from_value),
        }
    }
}
impl ToValue for Tt3dmoe1 {
    fn to_value(&self) -> Value {
        Value::Seq(vec![
            Some(self.f0.to_value()),
            self.f1.as_ref().map(|x| x.to_value()),
            self.f2.as_ref().map(|x| x.to_value()),
        ])
    }
}
impl FromValue for Tt3dmoe2 {
    fn from_value(v: &Value) -> Self {
        let s = match v { Value::Seq(s) => s, other => panic!("Tt3dmoe2: expected Seq, got {other:?}") };
        assert_eq!(s.len(), 3, "Tt3dmoe2: component count");
        let _ = s;
        Tt3dmoe2 {
            f0: FromValue::from_value(s[0].as_ref().expect("component f0 of Tt3dmoe2 must be present")),
            f1: FromValue::from_value(s[1].as_ref().expect("component f1 of Tt3dmoe2 must be present")),
            f2: s[2].as_ref().map(FromValue::from_value),
        }
    }
}
impl ToValue for Tt3dmoe2 {
    fn to_value(&self) -> Value {
        Value::Seq(vec![
            Some(self.f0.to_value()),
            Some(self.f1.to_value()),
            self.f2.as_ref().map(|x| x.to_value()),
        ])
    }
}
impl FromValue for Tt3dmoe3 {
    fn from_value(v: &Value) -> Self {
        let s = match v { Value::Seq(s) => s, other => panic!("Tt3dmoe3: expected Seq, got {other:?}") };
        assert_eq!(s.len(), 3, "Tt3dmoe3: component count");
        let _ = s;
        Tt3dmoe3 {
            f0: FromValue::from_value(s[0].as_ref().expect("component f0 of Tt3dmoe3 must be present")),
            f1: FromValue::from_value(s[1].as_ref().expect("component f1 of Tt3dmoe3 must be present")),
            f2: s[2].as_ref().map(FromValue::from_value),
        }
    }
}
impl ToValue for Tt3dmoe3 {
    fn to_value(&self) -> Value {
        Value::Seq(vec![
            Some(self.f0.to_value()),
            Some(self.f1.to_value()),
            self.f2.as_ref().map(|x| x.to_value()),
        ])
    }
}
impl FromValue for Tt3moon {
    fn from_value(v: &Value) -> Self {
        let s = match v { Value::Seq(s) => s, other => panic!("Tt3moon: expected Seq, got {other:?}") };
        assert_eq!(s.len(), 3, "Tt3moon: component count");
        let _ = s;
        Tt3moon {
            f0: FromValue::from_value(s[0].as_ref().expect("component f0 of Tt3moon must be present")),
            f1: s[1].as_ref().map(FromValue::from_value),
            f2: s[2].as_ref().map(FromValue::from_value),
        }
    }
}
impl ToValue for Tt3moon {
    fn to_value(&self) -> Value {
        Value::Seq(vec![
            Some(self.f0.to_value()),
            self.f1.as_ref().map(|x| x.to_value()),
            self.f2.as_ref().map(|x| x.to_value()),
        ])
    }
}
impl FromValue for Tt3mooe0 {
    fn from_value(v: &Value) -> Self {
        let s = match v { Value::Seq(s) => s, other => panic!("Tt3mooe0: expected Seq, got {other:?}") };
        assert_eq!(s.len(), 3, "Tt3mooe0: component count");
        let _ = s;
        Tt3mooe0 {
            f0: FromValue::from_value(s[0].as_ref().expect("component f0 of Tt3mooe0 must be present")),
            f1: s[1].as_ref().map(FromValue::from_value),
            f2: s[2].as_ref().map(FromValue::from_value),
        }
    }
}
impl ToValue for Tt3mooe0 {
    fn to_value(&self) -> Value {
        Value::Seq(vec![
            Some(self.f0.to_value()),
            self.f1.as_ref().map(|x| x.to_value()),
            self.f2.as_ref().map(|x| x.to_value()),
        ])
    }
}
impl FromValue for Tt3mooe1 {
    fn from_value(v: &Value) -> Self {
        let s = match v { Value::Seq(s) => s, other => panic!("Tt3mooe1: expected Seq, got {other:?}") };
        assert_eq!(s.len(), 3, "Tt3mooe1: component count");
        let _ = s;
        Tt3mooe1 {
            f0: FromValue::from_value(s[0].as_ref().expect("component f0 of Tt3mooe1 must be present")),
            f1: s[1].as_ref().map(FromValue::from_value),
            f2: s[2].as_ref().map(FromValue::from_value),
        }
    }
}
impl ToValue for Tt3mooe1 {
    fn to_value(&self) -> Value {
        Value::Seq(vec![
            Some(self.f0.to_value()),
            self.f1.as_ref().map(|x| x.to_value()),
            self.f2.as_ref().map(|x| x.to_value()),
        ])
    }
}
impl FromValue for Tt3mooe2 {
    fn from_value(v: &Value) -> Self {
        let s = match v { Value::Seq(s) => s, other => panic!("Tt3mooe2: expected Seq, got {other:?}") };
        assert_eq!(s.len(), 3, "Tt3mooe2: component count");
        let _ = s;
        Tt3mooe2 {
            f0: FromValue::from_value(s[0].as_ref().expect("component f0 of Tt3mooe2 must be present")),
            f1: s[1].as_ref().map(FromValue::from_value),
            f2: s[2].as_ref().map(FromValue::from_value),
        }
    }
}
impl ToValue for Tt3mooe2 {
    fn to_value(&self) -> Value {
        Value::Seq(vec![
            Some(self.f0.to_value()),
            self.f1.as_ref().map(|x| x.to_value()),
            self.f2.as_ref().map(|x| x.to_value()),
        ])
    }
}
impl FromValue for Tt3mooe3 {
    fn from_value(v: &Value) -> Self {
        let s = match v { Value::Seq(s) => s, other => panic!("Tt3mooe3: expected Seq, got {other:?}") };
        assert_eq!(s.len(), 3, "Tt3mooe3: component count");
        let _ = s;
        Tt3mooe3 {
            f0: FromValue::from_value(s[0].as_ref().expect("component f0 of Tt3mooe3 must be present")),
            f1: s[1].as_ref().map(FromValue::from_value),
            f2: s[2].as_ref().map(FromValue::from_value),
        }
    }
}
impl ToValue for Tt3mooe3 {
    fn to_value(&self) -> Value {
        Value::Seq(vec![
            Some(self.f0.to_value()),
            self.f1.as_ref().map(|x| x.to_value()),
            self.f2.as_ref().map(|x| x.to_value()),
        ])
    }
}
impl FromValue for Tt3ooon {
    fn from_value(v: &Value) -> Self {
        let s = match v { Value::Seq(s) => s, other => panic!("Tt3ooon: expected Seq, got {other:?}") };
        assert_eq!(s.len(), 3, "Tt3ooon: component count");
        let _ = s;
        Tt3ooon {
            f0: s[0].as_ref().map(FromValue::from_value),
            f1: s[1].as_ref().map(FromValue::from_value),
            f2: s[2].as_ref().map(FromValue::from_value),
        }
    }
}
impl ToValue for Tt3ooon {
    fn to_value(&self) -> Value {
        Value::Seq(vec![
            self.f0.as_ref().map(|x| x.to_value()),
            self.f1.as_ref().map(|x| x.to_value()),
            self.f2.as_ref().map(|x| x.to_value()),
        ])
    }
}
impl FromValue for Tt3oooe0 {
    fn from_value(v: &Value) -> Self {
        let s = match v { Value::Seq(s) => s, other => panic!("Tt3oooe0: expected Seq, got {other:?}") };
        assert_eq!(s.len(), 3, "Tt3oooe0: component count");
        let _ = s;
        Tt3oooe0 {
            f0: s[0].as_ref().map(FromValue::from_value),
            f1: s[1].as_ref().map(FromValue::from_value),
            f2: s[2].as_ref().map(FromValue::from_value),
        }
    }
}
impl ToValue for Tt3oooe0 {
    fn to_value(&self) -> Value {
        Value::Seq(vec![
            self.f0.as_ref().map(|x| x.to_value()),
            self.f1.as_ref().map(|x| x.to_value()),
            self.f2.as_ref().map(|x| x.to_value()),
        ])
    }
}
impl FromValue for Tt3oooe1 {
    fn from_value(v: &Value) -> Self {
        let s = match v { Value::Seq(s) => s, other => panic!("Tt3oooe1: expected Seq, got {other:?}") };
        assert_eq!(s.len(), 3, "Tt3oooe1: component count");
        let _ = s;
        Tt3oooe1 {
            f0: s[0].as_ref().map(FromValue::from_value),
            f1: s[1].as_ref().map(FromValue::from_value),
            f2: s[2].as_ref().map(FromValue::from_value),
        }
    }
}
impl ToValue for Tt3oooe1 {
    fn to_value(&self) -> Value {
        Value::Seq(vec![
            self.f0.as_ref().map(|x| x.to_value()),
            self.f1.as_ref().map(|x| x.to_value()),
            self.f2.as_ref().map(|x| x.to_value()),
        ])
    }
}
impl FromValue for Tt3oooe2 {
    fn from_value(v: &Value) -> Self {
        let s = match v { Value::Seq(s) => s, other => panic!("Tt3oooe2: expected Seq, got {other:?}") };
        assert_eq!(s.len(), 3, "Tt3oooe2: component count");
        let _ = s;
        Tt3oooe2 {
            f0: s[0].as_ref().map(FromValue::from_value),
            f1: s[1].as_ref().map(FromValue::from_value),
            f2: s[2].as_ref().map(FromValue::from_value),
        }
    }
}
impl ToValue for Tt3oooe2 {
    fn to_value(&self) -> Value {
        Value::Seq(vec![
            self.f0.as_ref().map(|x| x.to_value()),
            self.f1.as_ref().map(|x| x.to_value()),
            self.f2.as_ref().map(|x| x.to_value()),
        ])
    }
}
impl FromValue for Tt3oooe3 {
    fn from_value(v: &Value) -> Self {
        let s = match v { Value::Seq(s) => s, other => panic!("Tt3oooe3: expected Seq, got {other:?}") };
        assert_eq!(s.len(), 3, "Tt3oooe3: component count");
        let _ = s;
        Tt3oooe3 {
            f0: s[0].as_ref().map(FromValue::from_value),
            f1: s[1].as_ref().map(FromValue::from_value),
            f2: s[2].as_ref().map(FromValue::from_value),
        }
    }
}
impl ToValue for Tt3oooe3 {
    fn to_value(&self) -> Value {
        Value::Seq(vec![
            self.f0.as_ref().map(|x| x.to_value()),
            self.f1.as_ref().map(|x| x.to_value()),
            self.f2.as_ref().map(|x| x.to_value()),
        ])
    }
}
impl FromValue for Tt3doon {
    fn from_value(v: &Value) -> Self {
        let s = match v { Value::Seq(s) => s, other => panic!("Tt3doon: expected Seq, got {other:?}") };
        assert_eq!(s.len(), 3, "Tt3doon: component count");
        let _ = s;
        Tt3doon {
            f0: FromValue::from_value(s[0].as_ref().expect("component f0 of Tt3doon must be present")),
            f1: s[1].as_ref().map(FromValue::from_value),
            f2: s[2].as_ref().map(FromValue::from_value),
        }
    }
}
impl ToValue for Tt3doon {
    fn to_value(&self) -> Value {
        Value::Seq(vec![
            Some(self.f0.to_value()),
            self.f1.as_ref().map(|x| x.to_value()),
            self.f2.as_ref().map(|x| x.to_value()),
        ])
    }
}
impl FromValue for Tt3dooe0 {
    fn from_value(v: &Value) -> Self {
        let s = match v { Value::Seq(s) => s, other => panic!("Tt3dooe0: expected Seq, got {other:?}") };
        assert_eq!(s.len(), 3, "Tt3dooe0: component count");
        let _ = s;
        Tt3dooe0 {
            f0: FromValue::from_value(s[0].as_ref().expect("component f0 of Tt3dooe0 must be present")),
            f1: s[1].as_ref().map(FromValue::from_value),
            f2: s[2].as_ref().map(FromValue::from_value),
        }
    }
}
impl ToValue for Tt3dooe0 {
    fn to_value(&self) -> Value {
        Value::Seq(vec![
            Some(self.f0.to_value()),
            self.f1.as_ref().map(|x| x.to_value()),
            self.f2.as_ref().map(|x| x.to_value()),
        ])
    }
}
impl FromValue for Tt3dooe1 {
    fn from_value(v: &Value) -> Self {
        let s = match v { Value::Seq(s) => s, other => panic!("Tt3dooe1: expected Seq, got {other:?}") };
        assert_eq!(s.len(), 3, "Tt3dooe1: component count");
        let _ = s;
        Tt3dooe1 {
            f0: FromValue::from_value(s[0].as_ref().expect("component f0 of Tt3dooe1 must be present")),
            f1: s[1].as_ref().map(FromValue::from_value),
            f2: s[2].as_ref().map(FromValue::from_value),
        }
    }
}
impl ToValue for Tt3dooe1 {
    fn to_value(&self) -> Value {
        Value::Seq(vec![
            Some(self.f0.to_value()),
            self.f1.as_ref().map(|x| x.to_value()),
            self.f2.as_ref().map(|x| x.to_value()),
        ])
    }
}
impl FromValue for Tt3dooe2 {
    fn from_value(v: &Value) -> Self {
        let s = match v { Value::Seq(s) => s, other => panic!("Tt3dooe2: expected Seq, got {other:?}") };
        assert_eq!(s.len(), 3, "Tt3dooe2: component count");
        let _ = s;
        Tt3dooe2 {
            f0: FromValue::from_value(s[0].as_ref().expect("component f0 of Tt3dooe2 must be present")),
            f1: s[1].as_ref().map(FromValue::from_value),
            f2: s[2].as_ref().map(FromValue::from_value),
        }
    }
}
impl ToValue for Tt3dooe2 {
    fn to_value(&self) -> Value {
        Value::Seq(vec![
            Some(self.f0.to_value()),
            self.f1.as_ref().map(|x| x.to_value()),
            self.f2.as_ref().map(|x| x.to_value()),
        ])
    }
}

use asn1rs::prelude::*;

#[asn(sequence)]

#[derive(Default, Debug, Clone, PartialEq, Hash)]
pub struct Twideo64 {
    #[asn(optional(integer(0..7)))] pub f0: Option<u8>,
    #[asn(optional(integer(0..7)))] pub f1: Option<u8>,
    #[asn(optional(integer(0..7)))] pub f2: Option<u8>,
    #[asn(optional(integer(0..7)))] pub f3: Option<u8>,
    #[asn(optional(integer(0..7)))] pub f4: Option<u8>,
    #[asn(optional(integer(0..7)))] pub f5: Option<u8>,
    #[asn(optional(integer(0..7)))] pub f6: Option<u8>,
    #[asn(optional(integer(0..7)))] pub f7: Option<u8>,
    #[asn(optional(integer(0..7)))] pub f8: Option<u8>,
    #[asn(optional(integer(0..7)))] pub f9: Option<u8>,
    #[asn(optional(integer(0..7)))] pub f10: Option<u8>,
    #[asn(optional(integer(0..7)))] pub f11: Option<u8>,
    #[asn(optional(integer(0..7)))] pub f12: Option<u8>,
    #[asn(optional(integer(0..7)))] pub f13: Option<u8>,
    #[asn(optional(integer(0..7)))] pub f14: Option<u8>,
    #[asn(optional(integer(0..7)))] pub f15: Option<u8>,
    #[asn(optional(integer(0..7)))] pub f16: Option<u8>,
    #[asn(optional(integer(0..7)))] pub f17: Option<u8>,
    #[asn(optional(integer(0..7)))] pub f18: Option<u8>,
    #[asn(optional(integer(0..7)))] pub f19: Option<u8>,
    #[asn(optional(integer(0..7)))] pub f20: Option<u8>,
    #[asn(optional(integer(0..7)))] pub f21: Option<u8>,
    #[asn(optional(integer(0..7)))] pub f22: Option<u8>,
    #[asn(optional(integer(0..7)))] pub f23: Option<u8>,
    #[asn(optional(integer(0..7)))] pub f24: Option<u8>,
    #[asn(optional(integer(0..7)))] pub f25: Option<u8>,
    #[asn(optional(integer(0..7)))] pub f26: Option<u8>,
    #[asn(optional(integer(0..7)))] pub f27: Option<u8>,
    #[asn(optional(integer(0..7)))] pub f28: Option<u8>,
    #[asn(optional(integer(0..7)))] pub f29: Option<u8>,
    #[asn(optional(integer(0..7)))] pub f30: Option<u8>,
    #[asn(optional(integer(0..7)))] pub f31: Option<u8>,
    #[asn(optional(integer(0..7)))] pub f32: Option<u8>,
    #[asn(optional(integer(0..7)))] pub f33: Option<u8>,
    #[asn(optional(integer(0..7)))] pub f34: Option<u8>,
    #[asn(optional(integer(0..7)))] pub f35: Option<u8>,
    #[asn(optional(integer(0..7)))] pub f36: Option<u8>,
    #[asn(optional(integer(0..7)))] pub f37: Option<u8>,
    #[asn(optional(integer(0..7)))] pub f38: Option<u8>,
    #[asn(optional(integer(0..7)))] pub f39: Option<u8>,
    #[asn(optional(integer(0..7)))] pub f40: Option<u8>,
    #[asn(optional(integer(0..7)))] pub f41: Option<u8>,
    #[asn(optional(integer(0..7)))] pub f42: Option<u8>,
    #[asn(optional(integer(0..7)))] pub f43: Option<u8>,
    #[asn(optional(integer(0..7)))] pub f44: Option<u8>,
    #[asn(optional(integer(0..7)))] pub f45: Option<u8>,
    #[asn(optional(integer(0..7)))] pub f46: Option<u8>,
    #[asn(optional(integer(0..7)))] pub f47: Option<u8>,
    #[asn(optional(integer(0..7)))] pub f48: Option<u8>,
    #[asn(optional(integer(0..7)))] pub f49: Option<u8>,
    #[asn(optional(integer(0..7)))] pub f50: Option<u8>,
    #[asn(optional(integer(0..7)))] pub f51: Option<u8>,
    #[asn(optional(integer(0..7)))] pub f52: Option<u8>,
    #[asn(optional(integer(0..7)))] pub f53: Option<u8>,
    #[asn(optional(integer(0..7)))] pub f54: Option<u8>,
    #[asn(optional(integer(0..7)))] pub f55: Option<u8>,
    #[asn(optional(integer(0..7)))] pub f56: Option<u8>,
    #[asn(optional(integer(0..7)))] pub f57: Option<u8>,
    #[asn(optional(integer(0..7)))] pub f58: Option<u8>,
    #[asn(optional(integer(0..7)))] pub f59: Option<u8>,
    #[asn(optional(integer(0..7)))] pub f60: Option<u8>,
    #[asn(optional(integer(0..7)))] pub f61: Option<u8>,
    #[asn(optional(integer(0..7)))] pub f62: Option<u8>,
    #[asn(optional(integer(0..7)))] pub f63: Option<u8>,
}

impl Twideo64 {
    pub const fn f0_min() -> u8 {
        0
    }

    pub const fn f0_max() -> u8 {
        7
    }

    pub const fn f1_min() -> u8 {
        0
    }

    pub const fn f1_max() -> u8 {
        7
    }

    pub const fn f2_min() -> u8 {
        0
    }

    pub const fn f2_max() -> u8 {
        7
    }

    pub const fn f3_min() -> u8 {
        0
    }

    pub const fn f3_max() -> u8 {
        7
    }

    pub const fn f4_min() -> u8 {
        0
    }

    pub const fn f4_max() -> u8 {
        7
    }

    pub const fn f5_min() -> u8 {
        0
    }

    pub const fn f5_max() -> u8 {
        7
    }

    pub const fn f6_min() -> u8 {
        0
    }

    pub const fn f6_max() -> u8 {
        7
    }

    pub const fn f7_min() -> u8 {
        0
    }

    pub const fn f7_max() -> u8 {
        7
    }

    pub const fn f8_min() -> u8 {
        0
    }

    pub const fn f8_max() -> u8 {
        7
    }

    pub const fn f9_min() -> u8 {
        0
    }

    pub const fn f9_max() -> u8 {
        7
    }

    pub const fn f10_min() -> u8 {
        0
    }

    pub const fn f10_max() -> u8 {
        7
    }

    pub const fn f11_min() -> u8 {
        0
    }

    pub const fn f11_max() -> u8 {
        7
    }

    pub const fn f12_min() -> u8 {
        0
    }

    pub const fn f12_max() -> u8 {
        7
    }

    pub const fn f13_min() -> u8 {
        0
    }

    pub const fn f13_max() -> u8 {
        7
    }

    pub const fn f14_min() -> u8 {
        0
    }

    pub const fn f14_max() -> u8 {
        7
    }

    pub const fn f15_min() -> u8 {
        0
    }

    pub const fn f15_max() -> u8 {
        7
    }

    pub const fn f16_min() -> u8 {
        0
    }

    pub const fn f16_max() -> u8 {
        7
    }

    pub const fn f17_min() -> u8 {
        0
    }

    pub const fn f17_max() -> u8 {
        7
    }

    pub const fn f18_min() -> u8 {
        0
    }

    pub const fn f18_max() -> u8 {
        7
    }

    pub const fn f19_min() -> u8 {
        0
    }

    pub const fn f19_max() -> u8 {
        7
    }

    pub const fn f20_min() -> u8 {
        0
    }

    pub const fn f20_max() -> u8 {
        7
    }

    pub const fn f21_min() -> u8 {
        0
    }

    pub const fn f21_max() -> u8 {
        7
    }

    pub const fn f22_min() -> u8 {
        0
    }

    pub const fn f22_max() -> u8 {
        7
    }

    pub const fn f23_min() -> u8 {
        0
    }

    pub const fn f23_max() -> u8 {
        7
    }

    pub const fn f24_min() -> u8 {
        0
    }

    pub const fn f24_max() -> u8 {
        7
    }

    pub const fn f25_min() -> u8 {
        0
    }

    pub const fn f25_max() -> u8 {
        7
    }

    pub const fn f26_min() -> u8 {
        0
    }

    pub const fn f26_max() -> u8 {
        7
    }

    pub const fn f27_min() -> u8 {
        0
    }

    pub const fn f27_max() -> u8 {
        7
    }

    pub const fn f28_min() -> u8 {
        0
    }

    pub const fn f28_max() -> u8 {
        7
    }

    pub const fn f29_min() -> u8 {
        0
    }

    pub const fn f29_max() -> u8 {
        7
    }

    pub const fn f30_min() -> u8 {
        0
    }

    pub const fn f30_max() -> u8 {
        7
    }

    pub const fn f31_min() -> u8 {
        0
    }

    pub const fn f31_max() -> u8 {
        7
    }

    pub const fn f32_min() -> u8 {
        0
    }

    pub const fn f32_max() -> u8 {
        7
    }

    pub const fn f33_min() -> u8 {
        0
    }

    pub const fn f33_max() -> u8 {
        7
    }

    pub const fn f34_min() -> u8 {
        0
    }

    pub const fn f34_max() -> u8 {
        7
    }

    pub const fn f35_min() -> u8 {
        0
    }

    pub const fn f35_max() -> u8 {
        7
    }

    pub const fn f36_min() -> u8 {
        0
    }

    pub const fn f36_max() -> u8 {
        7
    }

    pub const fn f37_min() -> u8 {
        0
    }

    pub const fn f37_max() -> u8 {
        7
    }

    pub const fn f38_min() -> u8 {
        0
    }

    pub const fn f38_max() -> u8 {
        7
    }

    pub const fn f39_min() -> u8 {
        0
    }

    pub const fn f39_max() -> u8 {
        7
    }

    pub const fn f40_min() -> u8 {
        0
    }

    pub const fn f40_max() -> u8 {
        7
    }

    pub const fn f41_min() -> u8 {
        0
    }

    pub const fn f41_max() -> u8 {
        7
    }

    pub const fn f42_min() -> u8 {
        0
    }

    pub const fn f42_max() -> u8 {
        7
    }

    pub const fn f43_min() -> u8 {
        0
    }

    pub const fn f43_max() -> u8 {
        7
    }

    pub const fn f44_min() -> u8 {
        0
    }

    pub const fn f44_max() -> u8 {
        7
    }

    pub const fn f45_min() -> u8 {
        0
    }

    pub const fn f45_max() -> u8 {
        7
    }

    pub const fn f46_min() -> u8 {
        0
    }

    pub const fn f46_max() -> u8 {
        7
    }

    pub const fn f47_min() -> u8 {
        0
    }

    pub const fn f47_max() -> u8 {
        7
    }

    pub const fn f48_min() -> u8 {
        0
    }

    pub const fn f48_max() -> u8 {
        7
    }

    pub const fn f49_min() -> u8 {
        0
    }

    pub const fn f49_max() -> u8 {
        7
    }

    pub const fn f50_min() -> u8 {
        0
    }

    pub const fn f50_max() -> u8 {
        7
    }

    pub const fn f51_min() -> u8 {
        0
    }

    pub const fn f51_max() -> u8 {
        7
    }

    pub const fn f52_min() -> u8 {
        0
    }

    pub const fn f52_max() -> u8 {
        7
    }

    pub const fn f53_min() -> u8 {
        0
    }

    pub const fn f53_max() -> u8 {
        7
    }

    pub const fn f54_min() -> u8 {
        0
    }

    pub const fn f54_max() -> u8 {
        7
    }

    pub const fn f55_min() -> u8 {
        0
    }

    pub const fn f55_max() -> u8 {
        7
    }

    pub const fn f56_min() -> u8 {
        0
    }

    pub const fn f56_max() -> u8 {
        7
    }

    pub const fn f57_min() -> u8 {
        0
    }

    pub const fn f57_max() -> u8 {
        7
    }

    pub const fn f58_min() -> u8 {
        0
    }

    pub const fn f58_max() -> u8 {
        7
    }

    pub const fn f59_min() -> u8 {
        0
    }

    pub const fn f59_max() -> u8 {
        7
    }

    pub const fn f60_min() -> u8 {
        0
    }

    pub const fn f60_max() -> u8 {
        7
    }

    pub const fn f61_min() -> u8 {
        0
    }

    pub const fn f61_max() -> u8 {
        7
    }

    pub const fn f62_min() -> u8 {
        0
    }

    pub const fn f62_max() -> u8 {
        7
    }

    pub const fn f63_min() -> u8 {
        0
    }

    pub const fn f63_max() -> u8 {
        7
    }
}

#[asn(sequence, extensible_after(r))]

#[derive(Default, Debug, Clone, PartialEq, Hash)]
pub struct Twidex64 {
    #[asn(integer(0..7))] pub r: u8,
    #[asn(optional(integer(0..7)))] pub x0: Option<u8>,
    #[asn(optional(integer(0..7)))] pub x1: Option<u8>,
    #[asn(optional(integer(0..7)))] pub x2: Option<u8>,
    #[asn(optional(integer(0..7)))] pub x3: Option<u8>,
    #[asn(optional(integer(0..7)))] pub x4: Option<u8>,
    #[asn(optional(integer(0..7)))] pub x5: Option<u8>,
    #[asn(optional(integer(0..7)))] pub x6: Option<u8>,
    #[asn(optional(integer(0..7)))] pub x7: Option<u8>,
    #[asn(optional(integer(0..7)))] pub x8: Option<u8>,
    #[asn(optional(integer(0..7)))] pub x9: Option<u8>,
    #[asn(optional(integer(0..7)))] pub x10: Option<u8>,
    #[asn(optional(integer(0..7)))] pub x11: Option<u8>,
    #[asn(optional(integer(0..7)))] pub x12: Option<u8>,
    #[asn(optional(integer(0..7)))] pub x13: Option<u8>,
    #[asn(optional(integer(0..7)))] pub x14: Option<u8>,
    #[asn(optional(integer(0..7)))] pub x15: Option<u8>,
    #[asn(optional(integer(0..7)))] pub x16: Option<u8>,
    #[asn(optional(integer(0..7)))] pub x17: Option<u8>,
    #[asn(optional(integer(0..7)))] pub x18: Option<u8>,
    #[asn(optional(integer(0..7)))] pub x19: Option<u8>,
    #[asn(optional(integer(0..7)))] pub x20: Option<u8>,
    #[asn(optional(integer(0..7)))] pub x21: Option<u8>,
    #[asn(optional(integer(0..7)))] pub x22: Option<u8>,
    #[asn(optional(integer(0..7)))] pub x23: Option<u8>,
    #[asn(optional(integer(0..7)))] pub x24: Option<u8>,
    #[asn(optional(integer(0..7)))] pub x25: Option<u8>,
    #[asn(optional(integer(0..7)))] pub x26: Option<u8>,
    #[asn(optional(integer(0..7)))] pub x27: Option<u8>,
    #[asn(optional(integer(0..7)))] pub x28: Option<u8>,
    #[asn(optional(integer(0..7)))] pub x29: Option<u8>,
    #[asn(optional(integer(0..7)))] pub x30: Option<u8>,
    #[asn(optional(integer(0..7)))] pub x31: Option<u8>,
    #[asn(optional(integer(0..7)))] pub x32: Option<u8>,
    #[asn(optional(integer(0..7)))] pub x33: Option<u8>,
    #[asn(optional(integer(0..7)))] pub x34: Option<u8>,
    #[asn(optional(integer(0..7)))] pub x35: Option<u8>,
    #[asn(optional(integer(0..7)))] pub x36: Option<u8>,
    #[asn(optional(integer(0..7)))] pub x37: Option<u8>,
    #[asn(optional(integer(0..7)))] pub x38: Option<u8>,
    #[asn(optional(integer(0..7)))] pub x39: Option<u8>,
    #[asn(optional(integer(0..7)))] pub x40: Option<u8>,
    #[asn(optional(integer(0..7)))] pub x41: Option<u8>,
    #[asn(optional(integer(0..7)))] pub x42: Option<u8>,
    #[asn(optional(integer(0..7)))] pub x43: Option<u8>,
    #[asn(optional(integer(0..7)))] pub x44: Option<u8>,
    #[asn(optional(integer(0..7)))] pub x45: Option<u8>,
    #[asn(optional(integer(0..7)))] pub x46: Option<u8>,
    #[asn(optional(integer(0..7)))] pub x47: Option<u8>,
    #[asn(optional(integer(0..7)))] pub x48: Option<u8>,
    #[asn(optional(integer(0..7)))] pub x49: Option<u8>,
    #[asn(optional(integer(0..7)))] pub x50: Option<u8>,
    #[asn(optional(integer(0..7)))] pub x51: Option<u8>,
    #[asn(optional(integer(0..7)))] pub x52: Option<u8>,
    #[asn(optional(integer(0..7)))] pub x53: Option<u8>,
    #[asn(optional(integer(0..7)))] pub x54: Option<u8>,
    #[asn(optional(integer(0..7)))] pub x55: Option<u8>,
    #[asn(optional(integer(0..7)))] pub x56: Option<u8>,
    #[asn(optional(integer(0..7)))] pub x57: Option<u8>,
    #[asn(optional(integer(0..7)))] pub x58: Option<u8>,
    #[asn(optional(integer(0..7)))] pub x59: Option<u8>,
    #[asn(optional(integer(0..7)))] pub x60: Option<u8>,
    #[asn(optional(integer(0..7)))] pub x61: Option<u8>,
    #[asn(optional(integer(0..7)))] pub x62: Option<u8>,
    #[asn(optional(integer(0..7)))] pub x63: Option<u8>,
}

impl Twidex64 {
    pub const fn r_min() -> u8 {
        0
    }

    pub const fn r_max() -> u8 {
        7
    }

    pub const fn x0_min() -> u8 {
        0
    }

    pub const fn x0_max() -> u8 {
        7
    }

    pub const fn x1_min() -> u8 {
        0
    }

    pub const fn x1_max() -> u8 {
        7
    }

    pub const fn x2_min() -> u8 {
        0
    }

    pub const fn x2_max() -> u8 {
        7
    }

    pub const fn x3_min() -> u8 {
        0
    }

    pub const fn x3_max() -> u8 {
        7
    }

    pub const fn x4_min() -> u8 {
        0
    }

    pub const fn x4_max() -> u8 {
        7
    }

    pub const fn x5_min() -> u8 {
        0
    }

    pub const fn x5_max() -> u8 {
        7
    }

    pub const fn x6_min() -> u8 {
        0
    }

    pub const fn x6_max() -> u8 {
        7
    }

    pub const fn x7_min() -> u8 {
        0
    }

    pub const fn x7_max() -> u8 {
        7
    }

    pub const fn x8_min() -> u8 {
        0
    }

    pub const fn x8_max() -> u8 {
        7
    }

    pub const fn x9_min() -> u8 {
        0
    }

    pub const fn x9_max() -> u8 {
        7
    }

    pub const fn x10_min() -> u8 {
        0
    }

    pub const fn x10_max() -> u8 {
        7
    }

    pub const fn x11_min() -> u8 {
        0
    }

    pub const fn x11_max() -> u8 {
        7
    }

    pub const fn x12_min() -> u8 {
        0
    }

    pub const fn x12_max() -> u8 {
        7
    }

    pub const fn x13_min() -> u8 {
        0
    }

    pub const fn x13_max() -> u8 {
        7
    }

    pub const fn x14_min() -> u8 {
        0
    }

    pub const fn x14_max() -> u8 {
        7
    }

    pub const fn x15_min() -> u8 {
        0
    }

    pub const fn x15_max() -> u8 {
        7
    }

    pub const fn x16_min() -> u8 {
        0
    }

    pub const fn x16_max() -> u8 {
        7
    }

    pub const fn x17_min() -> u8 {
        0
    }

    pub const fn x17_max() -> u8 {
        7
    }

    pub const fn x18_min() -> u8 {
        0
    }

    pub const fn x18_max() -> u8 {
        7
    }

    pub const fn x19_min() -> u8 {
        0
    }

    pub const fn x19_max() -> u8 {
        7
    }

    pub const fn x20_min() -> u8 {
        0
    }

    pub const fn x20_max() -> u8 {
        7
    }

    pub const fn x21_min() -> u8 {
        0
    }

    pub const fn x21_max() -> u8 {
        7
    }

    pub const fn x22_min() -> u8 {
        0
    }

    pub const fn x22_max() -> u8 {
        7
    }

    pub const fn x23_min() -> u8 {
        0
    }

    pub const fn x23_max() -> u8 {
        7
    }

    pub const fn x24_min() -> u8 {
        0
    }

    pub const fn x24_max() -> u8 {
        7
    }

    pub const fn x25_min() -> u8 {
        0
    }

    pub const fn x25_max() -> u8 {
        7
    }

    pub const fn x26_min() -> u8 {
        0
    }

    pub const fn x26_max() -> u8 {
        7
    }

    pub const fn x27_min() -> u8 {
        0
    }

    pub const fn x27_max() -> u8 {
        7
    }

    pub const fn x28_min() -> u8 {
        0
    }

    pub const fn x28_max() -> u8 {
        7
    }

    pub const fn x29_min() -> u8 {
        0
    }

    pub const fn x29_max() -> u8 {
        7
    }

    pub const fn x30_min() -> u8 {
        0
    }

    pub const fn x30_max() -> u8 {
        7
    }

    pub const fn x31_min() -> u8 {
        0
    }

    pub const fn x31_max() -> u8 {
        7
    }

    pub const fn x32_min() -> u8 {
        0
    }

    pub const fn x32_max() -> u8 {
        7
    }

    pub const fn x33_min() -> u8 {
        0
    }

    pub const fn x33_max() -> u8 {
        7
    }

    pub const fn x34_min() -> u8 {
        0
    }

    pub const fn x34_max() -> u8 {
        7
    }

    pub const fn x35_min() -> u8 {
        0
    }

    pub const fn x35_max() -> u8 {
        7
    }

    pub const fn x36_min() -> u8 {
        0
    }

    pub const fn x36_max() -> u8 {
        7
    }

    pub const fn x37_min() -> u8 {
        0
    }

    pub const fn x37_max() -> u8 {
        7
    }

    pub const fn x38_min() -> u8 {
        0
    }

    pub const fn x38_max() -> u8 {
        7
    }

    pub const fn x39_min() -> u8 {
        0
    }

    pub const fn x39_max() -> u8 {
        7
    }

    pub const fn x40_min() -> u8 {
        0
    }

    pub const fn x40_max() -> u8 {
        7
    }

    pub const fn x41_min() -> u8 {
        0
    }

    pub const fn x41_max() -> u8 {
        7
    }

    pub const fn x42_min() -> u8 {
        0
    }

    pub const fn x42_max() -> u8 {
        7
    }

    pub const fn x43_min() -> u8 {
        0
    }

    pub const fn x43_max() -> u8 {
        7
    }

    pub const fn x44_min() -> u8 {
        0
    }

    pub const fn x44_max() -> u8 {
        7
    }

    pub const fn x45_min() -> u8 {
        0
    }

    pub const fn x45_max() -> u8 {
        7
    }

    pub const fn x46_min() -> u8 {
        0
    }

    pub const fn x46_max() -> u8 {
        7
    }

    pub const fn x47_min() -> u8 {
        0
    }

    pub const fn x47_max() -> u8 {
        7
    }

    pub const fn x48_min() -> u8 {
        0
    }

    pub const fn x48_max() -> u8 {
        7
    }

    pub const fn x49_min() -> u8 {
        0
    }

    pub const fn x49_max() -> u8 {
        7
    }

    pub const fn x50_min() -> u8 {
        0
    }

    pub const fn x50_max() -> u8 {
        7
    }

    pub const fn x51_min() -> u8 {
        0
    }

    pub const fn x51_max() -> u8 {
        7
    }

    pub const fn x52_min() -> u8 {
        0
    }

    pub const fn x52_max() -> u8 {
        7
    }

    pub const fn x53_min() -> u8 {
        0
    }

    pub const fn x53_max() -> u8 {
        7
    }

    pub const fn x54_min() -> u8 {
        0
    }

    pub const fn x54_max() -> u8 {
        7
    }

    pub const fn x55_min() -> u8 {
        0
    }

    pub const fn x55_max() -> u8 {
        7
    }

    pub const fn x56_min() -> u8 {
        0
    }

    pub const fn x56_max() -> u8 {
        7
    }

    pub const fn x57_min() -> u8 {
        0
    }

    pub const fn x57_max() -> u8 {
        7
    }

    pub const fn x58_min() -> u8 {
        0
    }

    pub const fn x58_max() -> u8 {
        7
    }

    pub const fn x59_min() -> u8 {
        0
    }

    pub const fn x59_max() -> u8 {
        7
    }

    pub const fn x60_min() -> u8 {
        0
    }

    pub const fn x60_max() -> u8 {
        7
    }

    pub const fn x61_min() -> u8 {
        0
    }

    pub const fn x61_max() -> u8 {
        7
    }

    pub const fn x62_min() -> u8 {
        0
    }

    pub const fn x62_max() -> u8 {
        7
    }

    pub const fn x63_min() -> u8 {
        0
    }

    pub const fn x63_max() -> u8 {
        7
    }
}

#[asn(sequence)]

#[derive(Default, Debug, Clone, PartialEq, Hash)]
pub struct Twideo65 {
    #[asn(optional(integer(0..7)))] pub f0: Option<u8>,
    #[asn(optional(integer(0..7)))] pub f1: Option<u8>,
    #[asn(optional(integer(0..7)))] pub f2: Option<u8>,
    #[asn(optional(integer(0..7)))] pub f3: Option<u8>,
    #[asn(optional(integer(0..7)))] pub f4: Option<u8>,
    #[asn(optional(integer(0..7)))] pub f5: Option<u8>,
    #[asn(optional(integer(0..7)))] pub f6: Option<u8>,
    #[asn(optional(integer(0..7)))] pub f7: Option<u8>,
    #[asn(optional(integer(0..7)))] pub f8: Option<u8>,
    #[asn(optional(integer(0..7)))] pub f9: Option<u8>,
    #[asn(optional(integer(0..7)))] pub f10: Option<u8>,
    #[asn(optional(integer(0..7)))] pub f11: Option<u8>,
    #[asn(optional(integer(0..7)))] pub f12: Option<u8>,
    #[asn(optional(integer(0..7)))] pub f13: Option<u8>,
    #[asn(optional(integer(0..7)))] pub f14: Option<u8>,
    #[asn(optional(integer(0..7)))] pub f15: Option<u8>,
    #[asn(optional(integer(0..7)))] pub f16: Option<u8>,
    #[asn(optional(integer(0..7)))] pub f17: Option<u8>,
    #[asn(optional(integer(0..7)))] pub f18: Option<u8>,
    #[asn(optional(integer(0..7)))] pub f19: Option<u8>,
    #[asn(optional(integer(0..7)))] pub f20: Option<u8>,
    #[asn(optional(integer(0..7)))] pub f21: Option<u8>,
    #[asn(optional(integer(0..7)))] pub f22: Option<u8>,
    #[asn(optional(integer(0..7)))] pub f23: Option<u8>,
    #[asn(optional(integer(0..7)))] pub f24: Option<u8>,
    #[asn(optional(integer(0..7)))] pub f25: Option<u8>,
    #[asn(optional(integer(0..7)))] pub f26: Option<u8>,
    #[asn(optional(integer(0..7)))] pub f27: Option<u8>,
    #[asn(optional(integer(0..7)))] pub f28: Option<u8>,
    #[asn(optional(integer(0..7)))] pub f29: Option<u8>,
    #[asn(optional(integer(0..7)))] pub f30: Option<u8>,
    #[asn(optional(integer(0..7)))] pub f31: Option<u8>,
    #[asn(optional(integer(0..7)))] pub f32: Option<u8>,
    #[asn(optional(integer(0..7)))] pub f33: Option<u8>,
    #[asn(optional(integer(0..7)))] pub f34: Option<u8>,
    #[asn(optional(integer(0..7)))] pub f35: Option<u8>,
    #[asn(optional(integer(0..7)))] pub f36: Option<u8>,
    #[asn(optional(integer(0..7)))] pub f37: Option<u8>,
    #[asn(optional(integer(0..7)))] pub f38: Option<u8>,
    #[asn(optional(integer(0..7)))] pub f39: Option<u8>,
    #[asn(optional(integer(0..7)))] pub f40: Option<u8>,
    #[asn(optional(integer(0..7)))] pub f41: Option<u8>,
    #[asn(optional(integer(0..7)))] pub f42: Option<u8>,
    #[asn(optional(integer(0..7)))] pub f43: Option<u8>,
    #[asn(optional(integer(0..7)))] pub f44: Option<u8>,
    #[asn(optional(integer(0..7)))] pub f45: Option<u8>,
    #[asn(optional(integer(0..7)))] pub f46: Option<u8>,
    #[asn(optional(integer(0..7)))] pub f47: Option<u8>,
    #[asn(optional(integer(0..7)))] pub f48: Option<u8>,
    #[asn(optional(integer(0..7)))] pub f49: Option<u8>,
    #[asn(optional(integer(0..7)))] pub f50: Option<u8>,
    #[asn(optional(integer(0..7)))] pub f51: Option<u8>,
    #[asn(optional(integer(0..7)))] pub f52: Option<u8>,
    #[asn(optional(integer(0..7)))] pub f53: Option<u8>,
    #[asn(optional(integer(0..7)))] pub f54: Option<u8>,
    #[asn(optional(integer(0..7)))] pub f55: Option<u8>,
    #[asn(optional(integer(0..7)))] pub f56: Option<u8>,
    #[asn(optional(integer(0..7)))] pub f57: Option<u8>,
    #[asn(optional(integer(0..7)))] pub f58: Option<u8>,
    #[asn(optional(integer(0..7)))] pub f59: Option<u8>,
    #[asn(optional(integer(0..7)))] pub f60: Option<u8>,
    #[asn(optional(integer(0..7)))] pub f61: Option<u8>,
    #[asn(optional(integer(0..7)))] pub f62: Option<u8>,
    #[asn(optional(integer(0..7)))] pub f63: Option<u8>,
    #[asn(optional(integer(0..7)))] pub f64: Option<u8>,
}

impl Twideo65 {
    pub const fn f0_min() -> u8 {
        0
    }

    pub const fn f0_max() -> u8 {
        7
    }

    pub const fn f1_min() -> u8 {
        0
    }

    pub const fn f1_max() -> u8 {
        7
    }

    pub const fn f2_min() -> u8 {
        0
    }

    pub const fn f2_max() -> u8 {
        7
    }

    pub const fn f3_min() -> u8 {
        0
    }

    pub const fn f3_max() -> u8 {
        7
    }

    pub const fn f4_min() -> u8 {
        0
    }

    pub const fn f4_max() -> u8 {
        7
    }

    pub const fn f5_min() -> u8 {
        0
    }

    pub const fn f5_max() -> u8 {
        7
    }

    pub const fn f6_min() -> u8 {
        0
    }

    pub const fn f6_max() -> u8 {
        7
    }

    pub const fn f7_min() -> u8 {
        0
    }

    pub const fn f7_max() -> u8 {
        7
    }

    pub const fn f8_min() -> u8 {
        0
    }

    pub const fn f8_max() -> u8 {
        7
    }

    pub const fn f9_min() -> u8 {
        0
    }

    pub const fn f9_max() -> u8 {
        7
    }

    pub const fn f10_min() -> u8 {
        0
    }

    pub const fn f10_max() -> u8 {
        7
    }

    pub const fn f11_min() -> u8 {
        0
    }

    pub const fn f11_max() -> u8 {
        7
    }

    pub const fn f12_min() -> u8 {
        0
    }

    pub const fn f12_max() -> u8 {
        7
    }

    pub const fn f13_min() -> u8 {
        0
    }

    pub const fn f13_max() -> u8 {
        7
    }

    pub const fn f14_min() -> u8 {
        0
    }

    pub const fn f14_max() -> u8 {
        7
    }

    pub const fn f15_min() -> u8 {
        0
    }

    pub const fn f15_max() -> u8 {
        7
    }

    pub const fn f16_min() -> u8 {
        0
    }

    pub const fn f16_max() -> u8 {
        7
    }

    pub const fn f17_min() -> u8 {
        0
    }

    pub const fn f17_max() -> u8 {
        7
    }

    pub const fn f18_min() -> u8 {
        0
    }

    pub const fn f18_max() -> u8 {
        7
    }

    pub const fn f19_min() -> u8 {
        0
    }

    pub const fn f19_max() -> u8 {
        7
    }

    pub const fn f20_min() -> u8 {
        0
    }

    pub const fn f20_max() -> u8 {
        7
    }

    pub const fn f21_min() -> u8 {
        0
    }

    pub const fn f21_max() -> u8 {
        7
    }

    pub const fn f22_min() -> u8 {
        0
    }

    pub const fn f22_max() -> u8 {
        7
    }

    pub const fn f23_min() -> u8 {
        0
    }

    pub const fn f23_max() -> u8 {
        7
    }

    pub const fn f24_min() -> u8 {
        0
    }

    pub const fn f24_max() -> u8 {
        7
    }

    pub const fn f25_min() -> u8 {
        0
    }

    pub const fn f25_max() -> u8 {
        7
    }

    pub const fn f26_min() -> u8 {
        0
    }

    pub const fn f26_max() -> u8 {
        7
    }

    pub const fn f27_min() -> u8 {
        0
    }

    pub const fn f27_max() -> u8 {
        7
    }

    pub const fn f28_min() -> u8 {
        0
    }

    pub const fn f28_max() -> u8 {
        7
    }

    pub const fn f29_min() -> u8 {
        0
    }

    pub const fn f29_max() -> u8 {
        7
    }

    pub const fn f30_min() -> u8 {
        0
    }

    pub const fn f30_max() -> u8 {
        7
    }

    pub const fn f31_min() -> u8 {
        0
    }

    pub const fn f31_max() -> u8 {
        7
    }

    pub const fn f32_min() -> u8 {
        0
    }

    pub const fn f32_max() -> u8 {
        7
    }

    pub const fn f33_min() -> u8 {
        0
    }

    pub const fn f33_max() -> u8 {
        7
    }

    pub const fn f34_min() -> u8 {
        0
    }

    pub const fn f34_max() -> u8 {
        7
    }

    pub const fn f35_min() -> u8 {
        0
    }

    pub const fn f35_max() -> u8 {
        7
    }

    pub const fn f36_min() -> u8 {
        0
    }

    pub const fn f36_max() -> u8 {
        7
    }

    pub const fn f37_min() -> u8 {
        0
    }

    pub const fn f37_max() -> u8 {
        7
    }

    pub const fn f38_min() -> u8 {
        0
    }

    pub const fn f38_max() -> u8 {
        7
    }

    pub const fn f39_min() -> u8 {
        0
    }

    pub const fn f39_max() -> u8 {
        7
    }

    pub const fn f40_min() -> u8 {
        0
    }

    pub const fn f40_max() -> u8 {
        7
    }

    pub const fn f41_min() -> u8 {
        0
    }

    pub const fn f41_max() -> u8 {
        7
    }

    pub const fn f42_min() -> u8 {
        0
    }

    pub const fn f42_max() -> u8 {
        7
    }

    pub const fn f43_min() -> u8 {
        0
    }

    pub const fn f43_max() -> u8 {
        7
    }

    pub const fn f44_min() -> u8 {
        0
    }

    pub const fn f44_max() -> u8 {
        7
    }

    pub const fn f45_min() -> u8 {
        0
    }

    pub const fn f45_max() -> u8 {
        7
    }

    pub const fn f46_min() -> u8 {
        0
    }

    pub const fn f46_max() -> u8 {
        7
    }

    pub const fn f47_min() -> u8 {
        0
    }

    pub const fn f47_max() -> u8 {
        7
    }

    pub const fn f48_min() -> u8 {
        0
    }

    pub const fn f48_max() -> u8 {
        7
    }

    pub const fn f49_min() -> u8 {
        0
    }

    pub const fn f49_max() -> u8 {
        7
    }

    pub const fn f50_min() -> u8 {
        0
    }

    pub const fn f50_max() -> u8 {
        7
    }

    pub const fn f51_min() -> u8 {
        0
    }

    pub const fn f51_max() -> u8 {
        7
    }

    pub const fn f52_min() -> u8 {
        0
    }

    pub const fn f52_max() -> u8 {
        7
    }

    pub const fn f53_min() -> u8 {
        0
    }

    pub const fn f53_max() -> u8 {
        7
    }

    pub const fn f54_min() -> u8 {
        0
    }

    pub const fn f54_max() -> u8 {
        7
    }

    pub const fn f55_min() -> u8 {
        0
    }

    pub const fn f55_max() -> u8 {
        7
    }

    pub const fn f56_min() -> u8 {
        0
    }

    pub const fn f56_max() -> u8 {
        7
    }

    pub const fn f57_min() -> u8 {
        0
    }

    pub const fn f57_max() -> u8 {
        7
    }

    pub const fn f58_min() -> u8 {
        0
    }

    pub const fn f58_max() -> u8 {
        7
    }

    pub const fn f59_min() -> u8 {
        0
    }

    pub const fn f59_max() -> u8 {
        7
    }

    pub const fn f60_min() -> u8 {
        0
    }

    pub const fn f60_max() -> u8 {
        7
    }

    pub const fn f61_min() -> u8 {
        0
    }

    pub const fn f61_max() -> u8 {
        7
    }

    pub const fn f62_min() -> u8 {
        0
    }

    pub const fn f62_max() -> u8 {
        7
    }

    pub const fn f63_min() -> u8 {
        0
    }

    pub const fn f63_max() -> u8 {
        7
    }

    pub const fn f64_min() -> u8 {
        0
    }

    pub const fn f64_max() -> u8 {
        7
    }
}

#[asn(sequence, extensible_after(r))]

#[derive(Default, Debug, Clone, PartialEq, Hash)]
pub struct Twidex65 {
    #[asn(integer(0..7))] pub r: u8,
    #[asn(optional(integer(0..7)))] pub x0: Option<u8>,
    #[asn(optional(integer(0..7)))] pub x1: Option<u8>,
    #[asn(optional(integer(0..7)))] pub x2: Option<u8>,
    #[asn(optional(integer(0..7)))] pub x3: Option<u8>,
    #[asn(optional(integer(0..7)))] pub x4: Option<u8>,
    #[asn(optional(integer(0..7)))] pub x5: Option<u8>,
    #[asn(optional(integer(0..7)))] pub x6: Option<u8>,
    #[asn(optional(integer(0..7)))] pub x7: Option<u8>,
    #[asn(optional(integer(0..7)))] pub x8: Option<u8>,
    #[asn(optional(integer(0..7)))] pub x9: Option<u8>,
    #[asn(optional(integer(0..7)))] pub x10: Option<u8>,
    #[asn(optional(integer(0..7)))] pub x11: Option<u8>,
    #[asn(optional(integer(0..7)))] pub x12: Option<u8>,
    #[asn(optional(integer(0..7)))] pub x13: Option<u8>,
    #[asn(optional(integer(0..7)))] pub x14: Option<u8>,
    #[asn(optional(integer(0..7)))] pub x15: Option<u8>,
    #[asn(optional(integer(0..7)))] pub x16: Option<u8>,
    #[asn(optional(integer(0..7)))] pub x17: Option<u8>,
    #[asn(optional(integer(0..7)))] pub x18: Option<u8>,
    #[asn(optional(integer(0..7)))] pub x19: Option<u8>,
    #[asn(optional(integer(0..7)))] pub x20: Option<u8>,
    #[asn(optional(integer(0..7)))] pub x21: Option<u8>,
    #[asn(optional(integer(0..7)))] pub x22: Option<u8>,
    #[asn(optional(integer(0..7)))] pub x23: Option<u8>,
    #[asn(optional(integer(0..7)))] pub x24: Option<u8>,
    #[asn(optional(integer(0..7)))] pub x25: Option<u8>,
    #[asn(optional(integer(0..7)))] pub x26: Option<u8>,
    #[asn(optional(integer(0..7)))] pub x27: Option<u8>,
    #[asn(optional(integer(0..7)))] pub x28: Option<u8>,
    #[asn(optional(integer(0..7)))] pub x29: Option<u8>,
    #[asn(optional(integer(0..7)))] pub x30: Option<u8>,
    #[asn(optional(integer(0..7)))] pub x31: Option<u8>,
    #[asn(optional(integer(0..7)))] pub x32: Option<u8>,
    #[asn(optional(integer(0..7)))] pub x33: Option<u8>,
    #[asn(optional(integer(0..7)))] pub x34: Option<u8>,
    #[asn(optional(integer(0..7)))] pub x35: Option<u8>,
    #[asn(optional(integer(0..7)))] pub x36: Option<u8>,
    #[asn(optional(integer(0..7)))] pub x37: Option<u8>,
    #[asn(optional(integer(0..7)))] pub x38: Option<u8>,
    #[asn(optional(integer(0..7)))] pub x39: Option<u8>,
    #[asn(optional(integer(0..7)))] pub x40: Option<u8>,
    #[asn(optional(integer(0..7)))] pub x41: Option<u8>,
    #[asn(optional(integer(0..7)))] pub x42: Option<u8>,
    #[asn(optional(integer(0..7)))] pub x43: Option<u8>,
    #[asn(optional(integer(0..7)))] pub x44: Option<u8>,
    #[asn(optional(integer(0..7)))] pub x45: Option<u8>,
    #[asn(optional(integer(0..7)))] pub x46: Option<u8>,
    #[asn(optional(integer(0..7)))] pub x47: Option<u8>,
    #[asn(optional(integer(0..7)))] pub x48: Option<u8>,
    #[asn(optional(integer(0..7)))] pub x49: Option<u8>,
    #[asn(optional(integer(0..7)))] pub x50: Option<u8>,
    #[asn(optional(integer(0..7)))] pub x51: Option<u8>,
    #[asn(optional(integer(0..7)))] pub x52: Option<u8>,
    #[asn(optional(integer(0..7)))] pub x53: Option<u8>,
    #[asn(optional(integer(0..7)))] pub x54: Option<u8>,
    #[asn(optional(integer(0..7)))] pub x55: Option<u8>,
    #[asn(optional(integer(0..7)))] pub x56: Option<u8>,
    #[asn(optional(integer(0..7)))] pub x57: Option<u8>,
    #[asn(optional(integer(0..7)))] pub x58: Option<u8>,
    #[asn(optional(integer(0..7)))] pub x59: Option<u8>,
    #[asn(optional(integer(0..7)))] pub x60: Option<u8>,
    #[asn(optional(integer(0..7)))] pub x61: Option<u8>,
    #[asn(optional(integer(0..7)))] pub x62: Option<u8>,
    #[asn(optional(integer(0..7)))] pub x63: Option<u8>,
    #[asn(optional(integer(0..7)))] pub x64: Option<u8>,
}

impl Twidex65 {
    pub const fn r_min() -> u8 {
        0
    }

    pub const fn r_max() -> u8 {
        7
    }

    pub const fn x0_min() -> u8 {
        0
    }

    pub const fn x0_max() -> u8 {
        7
    }

    pub const fn x1_min() -> u8 {
        0
    }

    pub const fn x1_max() -> u8 {
        7
    }

    pub const fn x2_min() -> u8 {
        0
    }

    pub const fn x2_max() -> u8 {
        7
    }

    pub const fn x3_min() -> u8 {
        0
    }

    pub const fn x3_max() -> u8 {
        7
    }

    pub const fn x4_min() -> u8 {
        0
    }

    pub const fn x4_max() -> u8 {
        7
    }

    pub const fn x5_min() -> u8 {
        0
    }

    pub const fn x5_max() -> u8 {
        7
    }

    pub const fn x6_min() -> u8 {
        0
    }

    pub const fn x6_max() -> u8 {
        7
    }

    pub const fn x7_min() -> u8 {
        0
    }

    pub const fn x7_max() -> u8 {
        7
    }

    pub const fn x8_min() -> u8 {
        0
    }

    pub const fn x8_max() -> u8 {
        7
    }

    pub const fn x9_min() -> u8 {
        0
    }

    pub const fn x9_max() -> u8 {
        7
    }

    pub const fn x10_min() -> u8 {
        0
    }

    pub const fn x10_max() -> u8 {
        7
    }

    pub const fn x11_min() -> u8 {
        0
    }

    pub const fn x11_max() -> u8 {
        7
    }

    pub const fn x12_min() -> u8 {
        0
    }

    pub const fn x12_max() -> u8 {
        7
    }

    pub const fn x13_min() -> u8 {
        0
    }

    pub const fn x13_max() -> u8 {
        7
    }

    pub const fn x14_min() -> u8 {
        0
    }

    pub const fn x14_max() -> u8 {
        7
    }

    pub const fn x15_min() -> u8 {
        0
    }

    pub const fn x15_max() -> u8 {
        7
    }

    pub const fn x16_min() -> u8 {
        0
    }

    pub const fn x16_max() -> u8 {
        7
    }

    pub const fn x17_min() -> u8 {
        0
    }

    pub const fn x17_max() -> u8 {
        7
    }

    pub const fn x18_min() -> u8 {
        0
    }

    pub const fn x18_max() -> u8 {
        7
    }

    pub const fn x19_min() -> u8 {
        0
    }

    pub const fn x19_max() -> u8 {
        7
    }

    pub const fn x20_min() -> u8 {
        0
    }

    pub const fn x20_max() -> u8 {
        7
    }

    pub const fn x21_min() -> u8 {
        0
    }

    pub const fn x21_max() -> u8 {
        7
    }

    pub const fn x22_min() -> u8 {
        0
    }

    pub const fn x22_max() -> u8 {
        7
    }

    pub const fn x23_min() -> u8 {
        0
    }

    pub const fn x23_max() -> u8 {
        7
    }

    pub const fn x24_min() -> u8 {
        0
    }

    pub const fn x24_max() -> u8 {
        7
    }

    pub const fn x25_min() -> u8 {
        0
    }

    pub const fn x25_max() -> u8 {
        7
    }

    pub const fn x26_min() -> u8 {
        0
    }

    pub const fn x26_max() -> u8 {
        7
    }

    pub const fn x27_min() -> u8 {
        0
    }

    pub const fn x27_max() -> u8 {
        7
    }

    pub const fn x28_min() -> u8 {
        0
    }

    pub const fn x28_max() -> u8 {
        7
    }

    pub const fn x29_min() -> u8 {
        0
    }

    pub const fn x29_max() -> u8 {
        7
    }

    pub const fn x30_min() -> u8 {
        0
    }

    pub const fn x30_max() -> u8 {
        7
    }

    pub const fn x31_min() -> u8 {
        0
    }

    pub const fn x31_max() -> u8 {
        7
    }

    pub const fn x32_min() -> u8 {
        0
    }

    pub const fn x32_max() -> u8 {
        7
    }

    pub const fn x33_min() -> u8 {
        0
    }

    pub const fn x33_max() -> u8 {
        7
    }

    pub const fn x34_min() -> u8 {
        0
    }

    pub const fn x34_max() -> u8 {
        7
    }

    pub const fn x35_min() -> u8 {
        0
    }

    pub const fn x35_max() -> u8 {
        7
    }

    pub const fn x36_min() -> u8 {
        0
    }

    pub const fn x36_max() -> u8 {
        7
    }

    pub const fn x37_min() -> u8 {
        0
    }

    pub const fn x37_max() -> u8 {
        7
    }

    pub const fn x38_min() -> u8 {
        0
    }

    pub const fn x38_max() -> u8 {
        7
    }

    pub const fn x39_min() -> u8 {
        0
    }

    pub const fn x39_max() -> u8 {
        7
    }

    pub const fn x40_min() -> u8 {
        0
    }

    pub const fn x40_max() -> u8 {
        7
    }

    pub const fn x41_min() -> u8 {
        0
    }

    pub const fn x41_max() -> u8 {
        7
    }

    pub const fn x42_min() -> u8 {
        0
    }

    pub const fn x42_max() -> u8 {
        7
    }

    pub const fn x43_min() -> u8 {
        0
    }

    pub const fn x43_max() -> u8 {
        7
    }

    pub const fn x44_min() -> u8 {
        0
    }

    pub const fn x44_max() -> u8 {
        7
    }

    pub const fn x45_min() -> u8 {
        0
    }

    pub const fn x45_max() -> u8 {
        7
    }

    pub const fn x46_min() -> u8 {
        0
    }

    pub const fn x46_max() -> u8 {
        7
    }

    pub const fn x47_min() -> u8 {
        0
    }

    pub const fn x47_max() -> u8 {
        7
    }

    pub const fn x48_min() -> u8 {
        0
    }

    pub const fn x48_max() -> u8 {
        7
    }

    pub const fn x49_min() -> u8 {
        0
    }

    pub const fn x49_max() -> u8 {
        7
    }

    pub const fn x50_min() -> u8 {
        0
    }

    pub const fn x50_max() -> u8 {
        7
    }

    pub const fn x51_min() -> u8 {
        0
    }

    pub const fn x51_max() -> u8 {
        7
    }

    pub const fn x52_min() -> u8 {
        0
    }

    pub const fn x52_max() -> u8 {
        7
    }

    pub const fn x53_min() -> u8 {
        0
    }

    pub const fn x53_max() -> u8 {
        7
    }

    pub const fn x54_min() -> u8 {
        0
    }

    pub const fn x54_max() -> u8 {
        7
    }

    pub const fn x55_min() -> u8 {
        0
    }

    pub const fn x55_max() -> u8 {
        7
    }

    pub const fn x56_min() -> u8 {
        0
    }

    pub const fn x56_max() -> u8 {
        7
    }

    pub const fn x57_min() -> u8 {
        0
    }

    pub const fn x57_max() -> u8 {
        7
    }

    pub const fn x58_min() -> u8 {
        0
    }

    pub const fn x58_max() -> u8 {
        7
    }

    pub const fn x59_min() -> u8 {
        0
    }

    pub const fn x59_max() -> u8 {
        7
    }

    pub const fn x60_min() -> u8 {
        0
    }

    pub const fn x60_max() -> u8 {
        7
    }

    pub const fn x61_min() -> u8 {
        0
    }

    pub const fn x61_max() -> u8 {
        7
    }

    pub const fn x62_min() -> u8 {
        0
    }

    pub const fn x62_max() -> u8 {
        7
    }

    pub const fn x63_min() -> u8 {
        0
    }

    pub const fn x63_max() -> u8 {
        7
    }

    pub const fn x64_min() -> u8 {
        0
    }

    pub const fn x64_max() -> u8 {
        7
    }
}

#[asn(sequence)]

#[derive(Default, Debug, Clone, PartialEq, Hash)]
pub struct Twideo70 {
    #[asn(optional(integer(0..7)))] pub f0: Option<u8>,
    #[asn(optional(integer(0..7)))] pub f1: Option<u8>,
    #[asn(optional(integer(0..7)))] pub f2: Option<u8>,
    #[asn(optional(integer(0..7)))] pub f3: Option<u8>,
    #[asn(optional(integer(0..7)))] pub f4: Option<u8>,
    #[asn(optional(integer(0..7)))] pub f5: Option<u8>,
    #[asn(optional(integer(0..7)))] pub f6: Option<u8>,
    #[asn(optional(integer(0..7)))] pub f7: Option<u8>,
    #[asn(optional(integer(0..7)))] pub f8: Option<u8>,
    #[asn(optional(integer(0..7)))] pub f9: Option<u8>,
    #[asn(optional(integer(0..7)))] pub f10: Option<u8>,
    #[asn(optional(integer(0..7)))] pub f11: Option<u8>,
    #[asn(optional(integer(0..7)))] pub f12: Option<u8>,
    #[asn(optional(integer(0..7)))] pub f13: Option<u8>,
    #[asn(optional(integer(0..7)))] pub f14: Option<u8>,
    #[asn(optional(integer(0..7)))] pub f15: Option<u8>,
    #[asn(optional(integer(0..7)))] pub f16: Option<u8>,
    #[asn(optional(integer(0..7)))] pub f17: Option<u8>,
    #[asn(optional(integer(0..7)))] pub f18: Option<u8>,
    #[asn(optional(integer(0..7)))] pub f19: Option<u8>,
    #[asn(optional(integer(0..7)))] pub f20: Option<u8>,
    #[asn(optional(integer(0..7)))] pub f21: Option<u8>,
    #[asn(optional(integer(0..7)))] pub f22: Option<u8>,
    #[asn(optional(integer(0..7)))] pub f23: Option<u8>,
    #[asn(optional(integer(0..7)))] pub f24: Option<u8>,
    #[asn(optional(integer(0..7)))] pub f25: Option<u8>,
    #[asn(optional(integer(0..7)))] pub f26: Option<u8>,
    #[asn(optional(integer(0..7)))] pub f27: Option<u8>,
    #[asn(optional(integer(0..7)))] pub f28: Option<u8>,
    #[asn(optional(integer(0..7)))] pub f29: Option<u8>,
    #[asn(optional(integer(0..7)))] pub f30: Option<u8>,
    #[asn(optional(integer(0..7)))] pub f31: Option<u8>,
    #[asn(optional(integer(0..7)))] pub f32: Option<u8>,
    #[asn(optional(integer(0..7)))] pub f33: Option<u8>,
    #[asn(optional(integer(0..7)))] pub f34: Option<u8>,
    #[asn(optional(integer(0..7)))] pub f35: Option<u8>,
    #[asn(optional(integer(0..7)))] pub f36: Option<u8>,
    #[asn(optional(integer(0..7)))] pub f37: Option<u8>,
    #[asn(optional(integer(0..7)))] pub f38: Option<u8>,
    #[asn(optional(integer(0..7)))] pub f39: Option<u8>,
    #[asn(optional(integer(0..7)))] pub f40: Option<u8>,
    #[asn(optional(integer(0..7)))] pub f41: Option<u8>,
    #[asn(optional(integer(0..7)))] pub f42: Option<u8>,
    #[asn(optional(integer(0..7)))] pub f43: Option<u8>,
    #[asn(optional(integer(0..7)))] pub f44: Option<u8>,
    #[asn(optional(integer(0..7)))] pub f45: Option<u8>,
    #[asn(optional(integer(0..7)))] pub f46: Option<u8>,
    #[asn(optional(integer(0..7)))] pub f47: Option<u8>,
    #[asn(optional(integer(0..7)))] pub f48: Option<u8>,
    #[asn(optional(integer(0..7)))] pub f49: Option<u8>,
    #[asn(optional(integer(0..7)))] pub f50: Option<u8>,
    #[asn(optional(integer(0..7)))] pub f51: Option<u8>,
    #[asn(optional(integer(0..7)))] pub f52: Option<u8>,
    #[asn(optional(integer(0..7)))] pub f53: Option<u8>,
    #[asn(optional(integer(0..7)))] pub f54: Option<u8>,
    #[asn(optional(integer(0..7)))] pub f55: Option<u8>,
    #[asn(optional(integer(0..7)))] pub f56: Option<u8>,
    #[asn(optional(integer(0..7)))] pub f57: Option<u8>,
    #[asn(optional(integer(0..7)))] pub f58: Option<u8>,
    #[asn(optional(integer(0..7)))] pub f59: Option<u8>,
    #[asn(optional(integer(0..7)))] pub f60: Option<u8>,
    #[asn(optional(integer(0..7)))] pub f61: Option<u8>,
    #[asn(optional(integer(0..7)))] pub f62: Option<u8>,
    #[asn(optional(integer(0..7)))] pub f63: Option<u8>,
    #[asn(optional(integer(0..7)))] pub f64: Option<u8>,
    #[asn(optional(integer(0..7)))] pub f65: Option<u8>,
    #[asn(optional(integer(0..7)))] pub f66: Option<u8>,
    #[asn(optional(integer(0..7)))] pub f67: Option<u8>,
    #[asn(optional(integer(0..7)))] pub f68: Option<u8>,
    #[asn(optional(integer(0..7)))] pub f69: Option<u8>,
}

impl Twideo70 {
    pub const fn f0_min() -> u8 {
        0
    }

    pub const fn f0_max() -> u8 {
        7
    }

    pub const fn f1_min() -> u8 {
        0
    }

    pub const fn f1_max() -> u8 {
        7
    }

    pub const fn f2_min() -> u8 {
        0
    }

    pub const fn f2_max() -> u8 {
        7
    }

    pub const fn f3_min() -> u8 {
        0
    }

    pub const fn f3_max() -> u8 {
        7
    }

    pub const fn f4_min() -> u8 {
        0
    }

    pub const fn f4_max() -> u8 {
        7
    }

    pub const fn f5_min() -> u8 {
        0
    }

    pub const fn f5_max() -> u8 {
        7
    }

    pub const fn f6_min() -> u8 {
        0
    }

    pub const fn f6_max() -> u8 {
        7
    }

    pub const fn f7_min() -> u8 {
        0
    }

    pub const fn f7_max() -> u8 {
        7
    }

    pub const fn f8_min() -> u8 {
        0
    }

    pub const fn f8_max() -> u8 {
        7
    }

    pub const fn f9_min() -> u8 {
        0
    }

    pub const fn f9_max() -> u8 {
        7
    }

    pub const fn f10_min() -> u8 {
        0
    }

    pub const fn f10_max() -> u8 {
        7
    }

    pub const fn f11_min() -> u8 {
        0
    }

    pub const fn f11_max() -> u8 {
        7
    }

    pub const fn f12_min() -> u8 {
        0
    }

    pub const fn f12_max() -> u8 {
        7
    }

    pub const fn f13_min() -> u8 {
        0
    }

    pub const fn f13_max() -> u8 {
        7
    }

    pub const fn f14_min() -> u8 {
        0
    }

    pub const fn f14_max() -> u8 {
        7
    }

    pub const fn f15_min() -> u8 {
        0
    }

    pub const fn f15_max() -> u8 {
        7
    }

    pub const fn f16_min() -> u8 {
        0
    }

    pub const fn f16_max() -> u8 {
        7
    }

    pub const fn f17_min() -> u8 {
        0
    }

    pub const fn f17_max() -> u8 {
        7
    }

    pub const fn f18_min() -> u8 {
        0
    }

    pub const fn f18_max() -> u8 {
        7
    }

    pub const fn f19_min() -> u8 {
        0
    }

    pub const fn f19_max() -> u8 {
        7
    }

    pub const fn f20_min() -> u8 {
        0
    }

    pub const fn f20_max() -> u8 {
        7
    }

    pub const fn f21_min() -> u8 {
        0
    }

    pub const fn f21_max() -> u8 {
        7
    }

    pub const fn f22_min() -> u8 {
        0
    }

    pub const fn f22_max() -> u8 {
        7
    }

    pub const fn f23_min() -> u8 {
        0
    }

    pub const fn f23_max() -> u8 {
        7
    }

    pub const fn f24_min() -> u8 {
        0
    }

    pub const fn f24_max() -> u8 {
        7
    }

    pub const fn f25_min() -> u8 {
        0
    }

    pub const fn f25_max() -> u8 {
        7
    }

    pub const fn f26_min() -> u8 {
        0
    }

    pub const fn f26_max() -> u8 {
        7
    }

    pub const fn f27_min() -> u8 {
        0
    }

    pub const fn f27_max() -> u8 {
        7
    }

    pub const fn f28_min() -> u8 {
        0
    }

    pub const fn f28_max() -> u8 {
        7
    }

    pub const fn f29_min() -> u8 {
        0
    }

    pub const fn f29_max() -> u8 {
        7
    }

    pub const fn f30_min() -> u8 {
        0
    }

    pub const fn f30_max() -> u8 {
        7
    }

    pub const fn f31_min() -> u8 {
        0
    }

    pub const fn f31_max() -> u8 {
        7
    }

    pub const fn f32_min() -> u8 {
        0
    }

    pub const fn f32_max() -> u8 {
        7
    }

    pub const fn f33_min() -> u8 {
        0
    }

    pub const fn f33_max() -> u8 {
        7
    }

    pub const fn f34_min() -> u8 {
        0
    }

    pub const fn f34_max() -> u8 {
        7
    }

    pub const fn f35_min() -> u8 {
        0
    }

    pub const fn f35_max() -> u8 {
        7
    }

    pub const fn f36_min() -> u8 {
        0
    }

    pub const fn f36_max() -> u8 {
        7
    }

    pub const fn f37_min() -> u8 {
        0
    }

    pub const fn f37_max() -> u8 {
        7
    }

    pub const fn f38_min() -> u8 {
        0
    }

    pub const fn f38_max() -> u8 {
        7
    }

    pub const fn f39_min() -> u8 {
        0
    }

    pub const fn f39_max() -> u8 {
        7
    }

    pub const fn f40_min() -> u8 {
        0
    }

    pub const fn f40_max() -> u8 {
        7
    }

    pub const fn f41_min() -> u8 {
        0
    }

    pub const fn f41_max() -> u8 {
        7
    }

    pub const fn f42_min() -> u8 {
        0
    }

    pub const fn f42_max() -> u8 {
        7
    }

    pub const fn f43_min() -> u8 {
        0
    }

    pub const fn f43_max() -> u8 {
        7
    }

    pub const fn f44_min() -> u8 {
        0
    }

    pub const fn f44_max() -> u8 {
        7
    }

    pub const fn f45_min() -> u8 {
        0
    }

    pub const fn f45_max() -> u8 {
        7
    }

    pub const fn f46_min() -> u8 {
        0
    }

    pub const fn f46_max() -> u8 {
        7
    }

    pub const fn f47_min() -> u8 {
        0
    }

    pub const fn f47_max() -> u8 {
        7
    }

    pub const fn f48_min() -> u8 {
        0
    }

    pub const fn f48_max() -> u8 {
        7
    }

    pub const fn f49_min() -> u8 {
        0
    }

    pub const fn f49_max() -> u8 {
        7
    }

    pub const fn f50_min() -> u8 {
        0
    }

    pub const fn f50_max() -> u8 {
        7
    }

    pub const fn f51_min() -> u8 {
        0
    }

    pub const fn f51_max() -> u8 {
        7
    }

    pub const fn f52_min() -> u8 {
        0
    }

    pub const fn f52_max() -> u8 {
        7
    }

    pub const fn f53_min() -> u8 {
        0
    }

    pub const fn f53_max() -> u8 {
        7
    }

    pub const fn f54_min() -> u8 {
        0
    }

    pub const fn f54_max() -> u8 {
        7
    }

    pub const fn f55_min() -> u8 {
        0
    }

    pub const fn f55_max() -> u8 {
        7
    }

    pub const fn f56_min() -> u8 {
        0
    }

    pub const fn f56_max() -> u8 {
        7
    }

    pub const fn f57_min() -> u8 {
        0
    }

    pub const fn f57_max() -> u8 {
        7
    }

    pub const fn f58_min() -> u8 {
        0
    }

    pub const fn f58_max() -> u8 {
        7
    }

    pub const fn f59_min() -> u8 {
        0
    }

    pub const fn f59_max() -> u8 {
        7
    }

    pub const fn f60_min() -> u8 {
        0
    }

    pub const fn f60_max() -> u8 {
        7
    }

    pub const fn f61_min() -> u8 {
        0
    }

    pub const fn f61_max() -> u8 {
        7
    }

    pub const fn f62_min() -> u8 {
        0
    }

    pub const fn f62_max() -> u8 {
        7
    }

    pub const fn f63_min() -> u8 {
        0
    }

    pub const fn f63_max() -> u8 {
        7
    }

    pub const fn f64_min() -> u8 {
        0
    }

    pub const fn f64_max() -> u8 {
        7
    }

    pub const fn f65_min() -> u8 {
        0
    }

    pub const fn f65_max() -> u8 {
        7
    }

    pub const fn f66_min() -> u8 {
        0
    }

    pub const fn f66_max() -> u8 {
        7
    }

    pub const fn f67_min() -> u8 {
        0
    }

    pub const fn f67_max() -> u8 {
        7
    }

    pub const fn f68_min() -> u8 {
        0
    }

    pub const fn f68_max() -> u8 {
        7
    }

    pub const fn f69_min() -> u8 {
        0
    }

    pub const fn f69_max() -> u8 {
        7
    }
}

#[asn(sequence, extensible_after(r))]

#[derive(Default, Debug, Clone, PartialEq, Hash)]
pub struct Twidex70 {
    #[asn(integer(0..7))] pub r: u8,
    #[asn(optional(integer(0..7)))] pub x0: Option<u8>,
    #[asn(optional(integer(0..7)))] pub x1: Option<u8>,
    #[asn(optional(integer(0..7)))] pub x2: Option<u8>,
    #[asn(optional(integer(0..7)))] pub x3: Option<u8>,
    #[asn(optional(integer(0..7)))] pub x4: Option<u8>,
    #[asn(optional(integer(0..7)))] pub x5: Option<u8>,
    #[asn(optional(integer(0..7)))] pub x6: Option<u8>,
    #[asn(optional(integer(0..7)))] pub x7: Option<u8>,
    #[asn(optional(integer(0..7)))] pub x8: Option<u8>,
    #[asn(optional(integer(0..7)))] pub x9: Option<u8>,
    #[asn(optional(integer(0..7)))] pub x10: Option<u8>,
    #[asn(optional(integer(0..7)))] pub x11: Option<u8>,
    #[asn(optional(integer(0..7)))] pub x12: Option<u8>,
    #[asn(optional(integer(0..7)))] pub x13: Option<u8>,
    #[asn(optional(integer(0..7)))] pub x14: Option<u8>,
    #[asn(optional(integer(0..7)))] pub x15: Option<u8>,
    #[asn(optional(integer(0..7)))] pub x16: Option<u8>,
    #[asn(optional(integer(0..7)))] pub x17: Option<u8>,
    #[asn(optional(integer(0..7)))] pub x18: Option<u8>,
    #[asn(optional(integer(0..7)))] pub x19: Option<u8>,
    #[asn(optional(integer(0..7)))] pub x20: Option<u8>,
    #[asn(optional(integer(0..7)))] pub x21: Option<u8>,
    #[asn(optional(integer(0..7)))] pub x22: Option<u8>,
    #[asn(optional(integer(0..7)))] pub x23: Option<u8>,
    #[asn(optional(integer(0..7)))] pub x24: Option<u8>,
    #[asn(optional(integer(0..7)))] pub x25: Option<u8>,
    #[asn(optional(integer(0..7)))] pub x26: Option<u8>,
    #[asn(optional(integer(0..7)))] pub x27: Option<u8>,
    #[asn(optional(integer(0..7)))] pub x28: Option<u8>,
    #[asn(optional(integer(0..7)))] pub x29: Option<u8>,
    #[asn(optional(integer(0..7)))] pub x30: Option<u8>,
    #[asn(optional(integer(0..7)))] pub x31: Option<u8>,
    #[asn(optional(integer(0..7)))] pub x32: Option<u8>,
    #[asn(optional(integer(0..7)))] pub x33: Option<u8>,
    #[asn(optional(integer(0..7)))] pub x34: Option<u8>,
    #[asn(optional(integer(0..7)))] pub x35: Option<u8>,
    #[asn(optional(integer(0..7)))] pub x36: Option<u8>,
    #[asn(optional(integer(0..7)))] pub x37: Option<u8>,
    #[asn(optional(integer(0..7)))] pub x38: Option<u8>,
    #[asn(optional(integer(0..7)))] pub x39: Option<u8>,
    #[asn(optional(integer(0..7)))] pub x40: Option<u8>,
    #[asn(optional(integer(0..7)))] pub x41: Option<u8>,
    #[asn(optional(integer(0..7)))] pub x42: Option<u8>,
    #[asn(optional(integer(0..7)))] pub x43: Option<u8>,
    #[asn(optional(integer(0..7)))] pub x44: Option<u8>,
    #[asn(optional(integer(0..7)))] pub x45: Option<u8>,
    #[asn(optional(integer(0..7)))] pub x46: Option<u8>,
    #[asn(optional(integer(0..7)))] pub x47: Option<u8>,
    #[asn(optional(integer(0..7)))] pub x48: Option<u8>,
    #[asn(optional(integer(0..7)))] pub x49: Option<u8>,
    #[asn(optional(integer(0..7)))] pub x50: Option<u8>,
    #[asn(optional(integer(0..7)))] pub x51: Option<u8>,
    #[asn(optional(integer(0..7)))] pub x52: Option<u8>,
    #[asn(optional(integer(0..7)))] pub x53: Option<u8>,
    #[asn(optional(integer(0..7)))] pub x54: Option<u8>,
    #[asn(optional(integer(0..7)))] pub x55: Option<u8>,
    #[asn(optional(integer(0..7)))] pub x56: Option<u8>,
    #[asn(optional(integer(0..7)))] pub x57: Option<u8>,
    #[asn(optional(integer(0..7)))] pub x58: Option<u8>,
    #[asn(optional(integer(0..7)))] pub x59: Option<u8>,
    #[asn(optional(integer(0..7)))] pub x60: Option<u8>,
    #[asn(optional(integer(0..7)))] pub x61: Option<u8>,
    #[asn(optional(integer(0..7)))] pub x62: Option<u8>,
    #[asn(optional(integer(0..7)))] pub x63: Option<u8>,
    #[asn(optional(integer(0..7)))] pub x64: Option<u8>,
    #[asn(optional(integer(0..7)))] pub x65: Option<u8>,
    #[asn(optional(integer(0..7)))] pub x66: Option<u8>,
    #[asn(optional(integer(0..7)))] pub x67: Option<u8>,
    #[asn(optional(integer(0..7)))] pub x68: Option<u8>,
    #[asn(optional(integer(0..7)))] pub x69: Option<u8>,
}

impl Twidex70 {
    pub const fn r_min() -> u8 {
        0
    }

    pub const fn r_max() -> u8 {
        7
    }

    pub const fn x0_min() -> u8 {
        0
    }

    pub const fn x0_max() -> u8 {
        7
    }

    pub const fn x1_min() -> u8 {
        0
    }

    pub const fn x1_max() -> u8 {
        7
    }

    pub const fn x2_min() -> u8 {
        0
    }

    pub const fn x2_max() -> u8 {
        7
    }

    pub const fn x3_min() -> u8 {
        0
    }

    pub const fn x3_max() -> u8 {
        7
    }

    pub const fn x4_min() -> u8 {
        0
    }

    pub const fn x4_max() -> u8 {
        7
    }

    pub const fn x5_min() -> u8 {
        0
    }

    pub const fn x5_max() -> u8 {
        7
    }

    pub const fn x6_min() -> u8 {
        0
    }

    pub const fn x6_max() -> u8 {
        7
    }

    pub const fn x7_min() -> u8 {
        0
    }

    pub const fn x7_max() -> u8 {
        7
    }

    pub const fn x8_min() -> u8 {
        0
    }

    pub const fn x8_max() -> u8 {
        7
    }

    pub const fn x9_min() -> u8 {
        0
    }

    pub const fn x9_max() -> u8 {
        7
    }

    pub const fn x10_min() -> u8 {
        0
    }

    pub const fn x10_max() -> u8 {
        7
    }

    pub const fn x11_min() -> u8 {
        0
    }

    pub const fn x11_max() -> u8 {
        7
    }

    pub const fn x12_min() -> u8 {
        0
    }

    pub const fn x12_max() -> u8 {
        7
    }

    pub const fn x13_min() -> u8 {
        0
    }

    pub const fn x13_max() -> u8 {
        7
    }

    pub const fn x14_min() -> u8 {
        0
    }

    pub const fn x14_max() -> u8 {
        7
    }

    pub const fn x15_min() -> u8 {
        0
    }

    pub const fn x15_max() -> u8 {
        7
    }

    pub const fn x16_min() -> u8 {
        0
    }

    pub const fn x16_max() -> u8 {
        7
    }

    pub const fn x17_min() -> u8 {
        0
    }

    pub const fn x17_max() -> u8 {
        7
    }

    pub const fn x18_min() -> u8 {
        0
    }

    pub const fn x18_max() -> u8 {
        7
    }

    pub const fn x19_min() -> u8 {
        0
    }

    pub const fn x19_max() -> u8 {
        7
    }

    pub const fn x20_min() -> u8 {
        0
    }

    pub const fn x20_max() -> u8 {
        7
    }

    pub const fn x21_min() -> u8 {
        0
    }

    pub const fn x21_max() -> u8 {
        7
    }

    pub const fn x22_min() -> u8 {
        0
    }

    pub const fn x22_max() -> u8 {
        7
    }

    pub const fn x23_min() -> u8 {
        0
    }

    pub const fn x23_max() -> u8 {
        7
    }

    pub const fn x24_min() -> u8 {
        0
    }

    pub const fn x24_max() -> u8 {
        7
    }

    pub const fn x25_min() -> u8 {
        0
    }

    pub const fn x25_max() -> u8 {
        7
    }

    pub const fn x26_min() -> u8 {
        0
    }

    pub const fn x26_max() -> u8 {
        7
    }

    pub const fn x27_min() -> u8 {
        0
    }

    pub const fn x27_max() -> u8 {
        7
    }

    pub const fn x28_min() -> u8 {
        0
    }

    pub const fn x28_max() -> u8 {
        7
    }

    pub const fn x29_min() -> u8 {
        0
    }

    pub const fn x29_max() -> u8 {
        7
    }

    pub const fn x30_min() -> u8 {
        0
    }

    pub const fn x30_max() -> u8 {
        7
    }

    pub const fn x31_min() -> u8 {
        0
    }

    pub const fn x31_max() -> u8 {
        7
    }

    pub const fn x32_min() -> u8 {
        0
    }

    pub const fn x32_max() -> u8 {
        7
    }

    pub const fn x33_min() -> u8 {
        0
    }

    pub const fn x33_max() -> u8 {
        7
    }

    pub const fn x34_min() -> u8 {
        0
    }

    pub const fn x34_max() -> u8 {
        7
    }

    pub const fn x35_min() -> u8 {
        0
    }

    pub const fn x35_max() -> u8 {
        7
    }

    pub const fn x36_min() -> u8 {
        0
    }

    pub const fn x36_max() -> u8 {
        7
    }

    pub const fn x37_min() -> u8 {
        0
    }

    pub const fn x37_max() -> u8 {
        7
    }

    pub const fn x38_min() -> u8 {
        0
    }

    pub const fn x38_max() -> u8 {
        7
    }

    pub const fn x39_min() -> u8 {
        0
    }

    pub const fn x39_max() -> u8 {
        7
    }

    pub const fn x40_min() -> u8 {
        0
    }

    pub const fn x40_max() -> u8 {
        7
    }

    pub const fn x41_min() -> u8 {
        0
    }

    pub const fn x41_max() -> u8 {
        7
    }

    pub const fn x42_min() -> u8 {
        0
    }

    pub const fn x42_max() -> u8 {
        7
    }

    pub const fn x43_min() -> u8 {
        0
    }

    pub const fn x43_max() -> u8 {
        7
    }

    pub const fn x44_min() -> u8 {
        0
    }

    pub const fn x44_max() -> u8 {
        7
    }

    pub const fn x45_min() -> u8 {
        0
    }

    pub const fn x45_max() -> u8 {
        7
    }

    pub const fn x46_min() -> u8 {
        0
    }

    pub const fn x46_max() -> u8 {
        7
    }

    pub const fn x47_min() -> u8 {
        0
    }

    pub const fn x47_max() -> u8 {
        7
    }

    pub const fn x48_min() -> u8 {
        0
    }

    pub const fn x48_max() -> u8 {
        7
    }

    pub const fn x49_min() -> u8 {
        0
    }

    pub const fn x49_max() -> u8 {
        7
    }

    pub const fn x50_min() -> u8 {
        0
    }

    pub const fn x50_max() -> u8 {
        7
    }

    pub const fn x51_min() -> u8 {
        0
    }

    pub const fn x51_max() -> u8 {
        7
    }

    pub const fn x52_min() -> u8 {
        0
    }

    pub const fn x52_max() -> u8 {
        7
    }

    pub const fn x53_min() -> u8 {
        0
    }

    pub const fn x53_max() -> u8 {
        7
    }

    pub const fn x54_min() -> u8 {
        0
    }

    pub const fn x54_max() -> u8 {
        7
    }

    pub const fn x55_min() -> u8 {
        0
    }

    pub const fn x55_max() -> u8 {
        7
    }

    pub const fn x56_min() -> u8 {
        0
    }

    pub const fn x56_max() -> u8 {
        7
    }

    pub const fn x57_min() -> u8 {
        0
    }

    pub const fn x57_max() -> u8 {
        7
    }

    pub const fn x58_min() -> u8 {
        0
    }

    pub const fn x58_max() -> u8 {
        7
    }

    pub const fn x59_min() -> u8 {
        0
    }

    pub const fn x59_max() -> u8 {
        7
    }

    pub const fn x60_min() -> u8 {
        0
    }

    pub const fn x60_max() -> u8 {
        7
    }

    pub const fn x61_min() -> u8 {
        0
    }

    pub const fn x61_max() -> u8 {
        7
    }

    pub const fn x62_min() -> u8 {
        0
    }

    pub const fn x62_max() -> u8 {
        7
    }

    pub const fn x63_min() -> u8 {
        0
    }

    pub const fn x63_max() -> u8 {
        7
    }

    pub const fn x64_min() -> u8 {
        0
    }

    pub const fn x64_max() -> u8 {
        7
    }

    pub const fn x65_min() -> u8 {
        0
    }

    pub const fn x65_max() -> u8 {
        7
    }

    pub const fn x66_min() -> u8 {
        0
    }

    pub const fn x66_max() -> u8 {
        7
    }

    pub const fn x67_min() -> u8 {
        0
    }

    pub const fn x67_max() -> u8 {
        7
    }

    pub const fn x68_min() -> u8 {
        0
    }

    pub const fn x68_max() -> u8 {
        7
    }

    pub const fn x69_min() -> u8 {
        0
    }

    pub const fn x69_max() -> u8 {
        7
    }
}
// ---- harness conversions (generated by the zoo build script from the items above) ----
impl FromValue for Twideo64 {
    fn from_value(v: &Value) -> Self {
        let s = match v { Value::Seq(s) => s, other => panic!("Twideo64: expected Seq, got {other:?}") };
        assert_eq!(s.len(), 64, "Twideo64: component count");
        let _ = s;
        Twideo64 {
            f0: s[0].as_ref().map(FromValue::from_value),
            f1: s[1].as_ref().map(FromValue::from_value),
            f2: s[2].as_ref().map(FromValue::from_value),
            f3: s[3].as_ref().map(FromValue::from_value),
            f4: s[4].as_ref().map(FromValue::from_value),
            f5: s[5].as_ref().map(FromValue::from_value),
            f6: s[6].as_ref().map(FromValue::from_value),
            f7: s[7].as_ref().map(FromValue::from_value),
            f8: s[8].as_ref().map(FromValue::from_value),
            f9: s[9].as_ref().map(FromValue::from_value),
            f10: s[10].as_ref().map(FromValue::from_value),
            f11: s[11].as_ref().map(FromValue::from_value),
            f12: s[12].as_ref().map(FromValue::from_value),
            f13: s[13].as_ref().map(FromValue::from_value),
            f14: s[14].as_ref().map(FromValue::from_value),
            f15: s[15].as_ref().map(FromValue::from_value),
            f16: s[16].as_ref().map(FromValue::from_value),
            f17: s[17].as_ref().map(FromValue::from_value),
            f18: s[18].as_ref().map(FromValue::from_value),
            f19: s[19].as_ref().map(FromValue::from_value),
            f20: s[20].as_ref().map(FromValue::from_value),
            f21: s[21].as_ref().map(FromValue::from_value),
            f22: s[22].as_ref().map(FromValue::from_value),
            f23: s[23].as_ref().map(FromValue::from_value),
            f24: s[24].as_ref().map(FromValue::from_value),
            f25: s[25].as_ref().map(FromValue::from_value),
            f26: s[26].as_ref().map(FromValue::from_value),
            f27: s[27].as_ref().map(FromValue::from_value),
            f28: s[28].as_ref().map(FromValue::from_value),
            f29: s[29].as_ref().map(FromValue::from_value),
            f30: s[30].as_ref().map(FromValue::from_value),
            f31: s[31].as_ref().map(FromValue::from_value),
            f32: s[32].as_ref().map(FromValue::from_value),
            f33: s[33].as_ref().map(FromValue::from_value),
            f34: s[34].as_ref().map(FromValue::from_value),
            f35: s[35].as_ref().map(FromValue::from_value),
            f36: s[36].as_ref().map(FromValue::from_value),
            f37: s[37].as_ref().map(FromValue::from_value),
            f38: s[38].as_ref().map(FromValue::from_value),
            f39: s[39].as_ref().map(FromValue::from_value),
            f40: s[40].as_ref().map(FromValue::from_value),
            f41: s[41].as_ref().map(FromValue::from_value),
            f42: s[42].as_ref().map(FromValue::from_value),
            f43: s[43].as_ref().map(FromValue::from_value),
            f44: s[44].as_ref().map(FromValue::from_value),
            f45: s[45].as_ref().map(FromValue::from_value),
            f46: s[46].as_ref().map(FromValue::from_value),
            f47: s[47].as_ref().map(FromValue::from_value),
            f48: s[48].as_ref().map(FromValue::from_value),
            f49: s[49].as_ref().map(FromValue::from_value),
            f50: s[50].as_ref().map(FromValue::from_value),
            f51: s[51].as_ref().map(FromValue::from_value),
            f52: s[52].as_ref().map(FromValue::from_value),
            f53: s[53].as_ref().map(FromValue::from_value),
            f54: s[54].as_ref().map(FromValue::from_value),
            f55: s[55].as_ref().map(FromValue::from_value),
            f56: s[56].as_ref().map(FromValue::from_value),
            f57: s[57].as_ref().map(FromValue::from_value),
            f58: s[58].as_ref().map(FromValue::from_value),
            f59: s[59].as_ref().map(FromValue::from_value),
            f60: s[60].as_ref().map(FromValue::from_value),
            f61: s[61].as_ref().map(FromValue::from_value),
            f62: s[62].as_ref().map(FromValue::from_value),
            f63: s[63].as_ref().map(FromValue::from_value),
        }
    }
}
impl ToValue for Twideo64 {
    fn to_value(&self) -> Value {
        Value::Seq(vec![
            self.f0.as_ref().map(|x| x.to_value()),
            self.f1.as_ref().map(|x| x.to_value()),
            self.f2.as_ref().map(|x| x.to_value()),
            self.f3.as_ref().map(|x| x.to_value()),
            self.f4.as_ref().map(|x| x.to_value()),
            self.f5.as_ref().map(|x| x.to_value()),
            self.f6.as_ref().map(|x| x.to_value()),
            self.f7.as_ref().map(|x| x.to_value()),
            self.f8.as_ref().map(|x| x.to_value()),
            self.f9.as_ref().map(|x| x.to_value()),
            self.f10.as_ref().map(|x| x.to_value()),
            self.f11.as_ref().map(|x| x.to_value()),
            self.f12.as_ref().map(|x| x.to_value()),
            self.f13.as_ref().map(|x| x.to_value()),
            self.f14.as_ref().map(|x| x.to_value()),
            self.f15.as_ref().map(|x| x.to_value()),
            self.f16.as_ref().map(|x| x.to_value()),
            self.f17.as_ref().map(|x| x.to_value()),
            self.f18.as_ref().map(|x| x.to_value()),
            self.f19.as_ref().map(|x| x.to_value()),
            self.f20.as_ref().map(|x| x.to_value()),
            self.f21.as_ref().map(|x| x.to_value()),
            self.f22.as_ref().map(|x| x.to_value()),
            self.f23.as_ref().map(|x| x.to_value()),
            self.f24.as_ref().map(|x| x.to_value()),
            self.f25.as_ref().map(|x| x.to_value()),
            self.f26.as_ref().map(|x| x.to_value()),
            self.f27.as_ref().map(|x| x.to_value()),
            self.f28.as_ref().map(|x| x.to_value()),
            self.f29.as_ref().map(|x| x.to_value()),
            self.f30.as_ref().map(|x| x.to_value()),
            self.f31.as_ref().map(|x| x.to_value()),
            self.f32.as_ref().map(|x| x.to_value()),
            self.f33.as_ref().map(|x| x.to_value()),
            self.f34.as_ref().map(|x| x.to_value()),
            self.f35.as_ref().map(|x| x.to_value()),
            self.f36.as_ref().map(|x| x.to_value()),
            self.f37.as_ref().map(|x| x.to_value()),
            self.f38.as_ref().map(|x| x.to_value()),
            self.f39.as_ref().map(|x| x.to_value()),
            self.f40.as_ref().map(|x| x.to_value()),
            self.f41.as_ref().map(|x| x.to_value()),
            self.f42.as_ref().map(|x| x.to_value()),
            self.f43.as_ref().map(|x| x.to_value()),
            self.f44.as_ref().map(|x| x.to_value()),
            self.f45.as_ref().map(|x| x.to_value()),
            self.f46.as_ref().map(|x| x.to_value()),
            self.f47.as_ref().map(|x| x.to_value()),
            self.f48.as_ref().map(|x| x.to_value()),
            self.f49.as_ref().map(|x| x.to_value()),
            self.f50.as_ref().map(|x| x.to_value()),
            self.f51.as_ref().map(|x| x.to_value()),
            self.f52.as_ref().map(|x| x.to_value()),
            self.f53.as_ref().map(|x| x.to_value()),
            self.f54.as_ref().map(|x| x.to_value()),
            self.f55.as_ref().map(|x| x.to_value()),
            self.f56.as_ref().map(|x| x.to_value()),
            self.f57.as_ref().map(|x| x.to_value()),
            self.f58.as_ref().map(|x| x.to_value()),
            self.f59.as_ref().map(|x| x.to_value()),
            self.f60.as_ref().map(|x| x.to_value()),
            self.f61.as_ref().map(|x| x.to_value()),
            self.f62.as_ref().map(|x| x.to_value()),
            self.f63.as_ref().map(|x| x.to_value()),
        ])
    }
}
impl FromValue for Twidex64 {
    fn from_value(v: &Value) -> Self {
        let s = match v { Value::Seq(s) => s, other => panic!("Twidex64: expected Seq, got {other:?}") };
        assert_eq!(s.len(), 65, "Twidex64: component count");
        let _ = s;
        Twidex64 {
            r: FromValue::from_value(s[0].as_ref().expect("component r of Twidex64 must be present")),
            x0: s[1].as_ref().map(FromValue::from_value),
            x1: s[2].as_ref().map(FromValue::from_value),
            x2: s[3].as_ref().map(FromValue::from_value),
            x3: s[4].as_ref().map(FromValue::from_value),
            x4: s[5].as_ref().map(FromValue::from_value),
            x5: s[6].as_ref().map(FromValue::from_value),
            x6: s[7].as_ref().map(FromValue::from_value),
            x7: s[8].as_ref().map(FromValue::from_value),
            x8: s[9].as_ref().map(FromValue::from_value),
            x9: s[10].as_ref().map(FromValue::from_value),
            x10: s[11].as_ref().map(FromValue::from_value),
            x11: s[12].as_ref().map(FromValue::from_value),
            x12: s[13].as_ref().map(FromValue::from_value),
            x13: s[14].as_ref().map(FromValue::from_value),
            x14: s[15].as_ref().map(FromValue::from_value),
            x15: s[16].as_ref().map(FromValue::from_value),
            x16: s[17].as_ref().map(FromValue::from_value),
            x17: s[18].as_ref().map(FromValue::from_value),
            x18: s[19].as_ref().map(FromValue::from_value),
            x19: s[20].as_ref().map(FromValue::from_value),
            x20: s[21].as_ref().map(FromValue::from_value),
            x21: s[22].as_ref().map(FromValue::from_value),
            x22: s[23].as_ref().map(FromValue::from_value),
            x23: s[24].as_ref().map(FromValue::from_value),
            x24: s[25].as_ref().map(FromValue::from_value),
            x25: s[26].as_ref().map(FromValue::from_value),
            x26: s[27].as_ref().map(FromValue::from_value),
            x27: s[28].as_ref().map(FromValue::from_value),
            x28: s[29].as_ref().map(FromValue::from_value),
            x29: s[30].as_ref().map(FromValue::from_value),
            x30: s[31].as_ref().map(FromValue::from_value),
            x31: s[32].as_ref().map(FromValue::from_value),
            x32: s[33].as_ref().map(FromValue::from_value),
            x33: s[34].as_ref().map(FromValue::from_value),
            x34: s[35].as_ref().map(FromValue::from_value),
            x35: s[36].as_ref().map(FromValue::from_value),
            x36: s[37].as_ref().map(FromValue::from_value),
            x37: s[38].as_ref().map(FromValue::from_value),
            x38: s[39].as_ref().map(FromValue::from_value),
            x39: s[40].as_ref().map(FromValue::from_value),
            x40: s[41].as_ref().map(FromValue::from_value),
            x41: s[42].as_ref().map(FromValue::from_value),
            x42: s[43].as_ref().map(FromValue::from_value),
            x43: s[44].as_ref().map(FromValue::from_value),
            x44: s[45].as_ref().map(FromValue::from_value),
            x45: s[46].as_ref().map(FromValue::from_value),
            x46: s[47].as_ref().map(FromValue::from_value),
            x47: s[48].as_ref().map(FromValue::from_value),
            x48: s[49].as_ref().map(FromValue::from_value),
            x49: s[50].as_ref().map(FromValue::from_value),
            x50: s[51].as_ref().map(FromValue::from_value),
            x51: s[52].as_ref().map(FromValue::from_value),
            x52: s[53].as_ref().map(FromValue::from_value),
            x53: s[54].as_ref().map(FromValue::from_value),
            x54: s[55].as_ref().map(FromValue::from_value),
            x55: s[56].as_ref().map(FromValue::from_value),
            x56: s[57].as_ref().map(FromValue::from_value),
            x57: s[58].as_ref().map(FromValue::from_value),
            x58: s[59].as_ref().map(FromValue::from_value),
            x59: s[60].as_ref().map(FromValue::from_value),
            x60: s[61].as_ref().map(FromValue::from_value),
            x61: s[62].as_ref().map(FromValue::from_value),
            x62: s[63].as_ref().map(FromValue::from_value),
            x63: s[64].as_ref().map(FromValue::from_value),
        }
    }
}
impl ToValue for Twidex64 {
    fn to_value(&self) -> Value {
        Value::Seq(vec![
            Some(self.r.to_value()),
            self.x0.as_ref().map(|x| x.to_value()),
            self.x1.as_ref().map(|x| x.to_value()),
            self.x2.as_ref().map(|x| x.to_value()),
            self.x3.as_ref().map(|x| x.to_value()),
            self.x4.as_ref().map(|x| x.to_value()),
            self.x5.as_ref().map(|x| x.to_value()),
            self.x6.as_ref().map(|x| x.to_value()),
            self.x7.as_ref().map(|x| x.to_value()),
            self.x8.as_ref().map(|x| x.to_value()),
            self.x9.as_ref().map(|x| x.to_value()),
            self.x10.as_ref().map(|x| x.to_value()),
            self.x11.as_ref().map(|x| x.to_value()),
            self.x12.as_ref().map(|x| x.to_value()),
            self.x13.as_ref().map(|x| x.to_value()),
            self.x14.as_ref().map(|x| x.to_value()),
            self.x15.as_ref().map(|x| x.to_value()),
            self.x16.as_ref().map(|x| x.to_value()),
            self.x17.as_ref().map(|x| x.to_value()),
            self.x18.as_ref().map(|x| x.to_value()),
            self.x19.as_ref().map(|x| x.to_value()),
            self.x20.as_ref().map(|x| x.to_value()),
            self.x21.as_ref().map(|x| x.to_value()),
            self.x22.as_ref().map(|x| x.to_value()),
            self.x23.as_ref().map(|x| x.to_value()),
            self.x24.as_ref().map(|x| x.to_value()),
            self.x25.as_ref().map(|x| x.to_value()),
            self.x26.as_ref().map(|x| x.to_value()),
            self.x27.as_ref().map(|x| x.to_value()),
            self.x28.as_ref().map(|x| x.to_value()),
            self.x29.as_ref().map(|x| x.to_value()),
            self.x30.as_ref().map(|x| x.to_value()),
            self.x31.as_ref().map(|x| x.to_value()),
            self.x32.as_ref().map(|x| x.to_value()),
            self.x33.as_ref().map(|x| x.to_value()),
            self.x34.as_ref().map(|x| x.to_value()),
            self.x35.as_ref().map(|x| x.to_value()),
            self.x36.as_ref().map(|x| x.to_value()),
            self.x37.as_ref().map(|x| x.to_value()),
            self.x38.as_ref().map(|x| x.to_value()),
            self.x39.as_ref().map(|x| x.to_value()),
            self.x40.as_ref().map(|x| x.to_value()),
            self.x41.as_ref().map(|x| x.to_value()),
            self.x42.as_ref().map(|x| x.to_value()),
            self.x43.as_ref().map(|x| x.to_value()),
            self.x44.as_ref().map(|x| x.to_value()),
            self.x45.as_ref().map(|x| x.to_value()),
            self.x46.as_ref().map(|x| x.to_value()),
            self.x47.as_ref().map(|x| x.to_value()),
            self.x48.as_ref().map(|x| x.to_value()),
            self.x49.as_ref().map(|x| x.to_value()),
            self.x50.as_ref().map(|x| x.to_value()),
            self.x51.as_ref().map(|x| x.to_value()),
            self.x52.as_ref().map(|x| x.to_value()),
            self.x53.as_ref().map(|x| x.to_value()),
            self.x54.as_ref().map(|x| x.to_value()),
            self.x55.as_ref().map(|x| x.to_value()),
            self.x56.as_ref().map(|x| x.to_value()),
            self.x57.as_ref().map(|x| x.to_value()),
            self.x58.as_ref().map(|x| x.to_value()),
            self.x59.as_ref().map(|x| x.to_value()),
            self.x60.as_ref().map(|x| x.to_value()),
            self.x61.as_ref().map(|x| x.to_value()),
            self.x62.as_ref().map(|x| x.to_value()),
            self.x63.as_ref().map(|x| x.to_value()),
        ])
    }
}
impl FromValue for Twideo65 {
    fn from_value(v: &Value) -> Self {
        let s = match v { Value::Seq(s) => s, other => panic!("Twideo65: expected Seq, got {other:?}") };
        assert_eq!(s.len(), 65, "Twideo65: component count");
        let _ = s;
        Twideo65 {
            f0: s[0].as_ref().map(FromValue::from_value),
            f1: s[1].as_ref().map(FromValue::from_value),
            f2: s[2].as_ref().map(FromValue::from_value),
            f3: s[3].as_ref().map(FromValue::from_value),
            f4: s[4].as_ref().map(FromValue::from_value),
            f5: s[5].as_ref().map(FromValue::from_value),
            f6: s[6].as_ref().map(FromValue::from_value),
            f7: s[7].as_ref().map(FromValue::from_value),
            f8: s[8].as_ref().map(FromValue::from_value),
            f9: s[9].as_ref().map(FromValue::from_value),
            f10: s[10].as_ref().map(FromValue::from_value),
            f11: s[11].as_ref().map(FromValue::from_value),
            f12: s[12].as_ref().map(FromValue::from_value),
            f13: s[13].as_ref().map(FromValue::from_value),
            f14: s[14].as_ref().map(FromValue::from_value),
            f15: s[15].as_ref().map(FromValue::from_value),
            f16: s[16].as_ref().map(FromValue::from_value),
            f17: s[17].as_ref().map(FromValue::from_value),
            f18: s[18].as_ref().map(FromValue::from_value),
            f19: s[19].as_ref().map(FromValue::from_value),
            f20: s[20].as_ref().map(FromValue::from_value),
            f21: s[21].as_ref().map(FromValue::from_value),
            f22: s[22].as_ref().map(FromValue::from_value),
            f23: s[23].as_ref().map(FromValue::from_value),
            f24: s[24].as_ref().map(FromValue::from_value),
            f25: s[25].as_ref().map(FromValue::from_value),
            f26: s[26].as_ref().map(FromValue::from_value),
            f27: s[27].as_ref().map(FromValue::from_value),
            f28: s[28].as_ref().map(FromValue::from_value),
            f29: s[29].as_ref().map(FromValue::from_value),
            f30: s[30].as_ref().map(FromValue::from_value),
            f31: s[31].as_ref().map(FromValue::from_value),
            f32: s[32].as_ref().map(FromValue::from_value),
            f33: s[33].as_ref().map(FromValue::from_value),
            f34: s[34].as_ref().map(FromValue::from_value),
            f35: s[35].as_ref().map(FromValue::from_value),
            f36: s[36].as_ref().map(FromValue::from_value),
            f37: s[37].as_ref().map(FromValue::from_value),
            f38: s[38].as_ref().map(FromValue::from_value),
            f39: s[39].as_ref().map(FromValue::from_value),
            f40: s[40].as_ref().map(FromValue::from_value),
            f41: s[41].as_ref().map(FromValue::from_value),
            f42: s[42].as_ref().map(FromValue::from_value),
            f43: s[43].as_ref().map(FromValue::from_value),
            f44: s[44].as_ref().map(FromValue::from_value),
            f45: s[45].as_ref().map(FromValue::from_value),
            f46: s[46].as_ref().map(FromValue::from_value),
            f47: s[47].as_ref().map(FromValue::from_value),
            f48: s[48].as_ref().map(FromValue::from_value),
            f49: s[49].as_ref().map(FromValue::from_value),
            f50: s[50].as_ref().map(FromValue::from_value),
            f51: s[51].as_ref().map(FromValue::from_value),
            f52: s[52].as_ref().map(FromValue::from_value),
            f53: s[53].as_ref().map(FromValue::from_value),
            f54: s[54].as_ref().map(FromValue::from_value),
            f55: s[55].as_ref().map(FromValue::from_value),
            f56: s[56].as_ref().map(FromValue::from_value),
            f57: s[57].as_ref().map(FromValue::from_value),
            f58: s[58].as_ref().map(FromValue::from_value),
            f59: s[59].as_ref().map(FromValue::from_value),
            f60: s[60].as_ref().map(FromValue::from_value),
            f61: s[61].as_ref().map(FromValue::from_value),
            f62: s[62].as_ref().map(FromValue::from_value),
            f63: s[63].as_ref().map(FromValue::from_value),
            f64: s[64].as_ref().map(FromValue::from_value),
        }
    }
}
impl ToValue for Twideo65 {
    fn to_value(&self) -> Value {
        Value::Seq(vec![
            self.f0.as_ref().map(|x| x.to_value()),
            self.f1.as_ref().map(|x| x.to_value()),
            self.f2.as_ref().map(|x| x.to_value()),
            self.f3.as_ref().map(|x| x.to_value()),
            self.f4.as_ref().map(|x| x.to_value()),
            self.f5.as_ref().map(|x| x.to_value()),
            self.f6.as_ref().map(|x| x.to_value()),
            self.f7.as_ref().map(|x| x.to_value()),
            self.f8.as_ref().map(|x| x.to_value()),
            self.f9.as_ref().map(|x| x.to_value()),
            self.f10.as_ref().map(|x| x.to_value()),
            self.f11.as_ref().map(|x| x.to_value()),
            self.f12.as_ref().map(|x| x.to_value()),
            self.f13.as_ref().map(|x| x.to_value()),
            self.f14.as_ref().map(|x| x.to_value()),
            self.f15.as_ref().map(|x| x.to_value()),
            self.f16.as_ref().map(|x| x.to_value()),
            self.f17.as_ref().map(|x| x.to_value()),
            self.f18.as_ref().map(|x| x.to_value()),
            self.f19.as_ref().map(|x| x.to_value()),
            self.f20.as_ref().map(|x| x.to_value()),
            self.f21.as_ref().map(|x| x.to_value()),
            self.f22.as_ref().map(|x| x.to_value()),
            self.f23.as_ref().map(|x| x.to_value()),
            self.f24.as_ref().map(|x| x.to_value()),
            self.f25.as_ref().map(|x| x.to_value()),
            self.f26.as_ref().map(|x| x.to_value()),
            self.f27.as_ref().map(|x| x.to_value()),
            self.f28.as_ref().map(|x| x.to_value()),
            self.f29.as_ref().map(|x| x.to_value()),
            self.f30.as_ref().map(|x| x.to_value()),
            self.f31.as_ref().map(|x| x.to_value()),
            self.f32.as_ref().map(|x| x.to_value()),
            self.f33.as_ref().map(|x| x.to_value()),
            self.f34.as_ref().map(|x| x.to_value()),
            self.f35.as_ref().map(|x| x.to_value()),
            self.f36.as_ref().map(|x| x.to_value()),
            self.f37.as_ref().map(|x| x.to_value()),
            self.f38.as_ref().map(|x| x.to_value()),
            self.f39.as_ref().map(|x| x.to_value()),
            self.f40.as_ref().map(|x| x.to_value()),
            self.f41.as_ref().map(|x| x.to_value()),
            self.f42.as_ref().map(|x| x.to_value()),
            self.f43.as_ref().map(|x| x.to_value()),
            self.f44.as_ref().map(|x| x.to_value()),
            self.f45.as_ref().map(|x| x.to_value()),
            self.f46.as_ref().map(|x| x.to_value()),
            self.f47.as_ref().map(|x| x.to_value()),
            self.f48.as_ref().map(|x| x.to_value()),
            self.f49.as_ref().map(|x| x.to_value()),
            self.f50.as_ref().map(|x| x.to_value()),
            self.f51.as_ref().map(|x| x.to_value()),
            self.f52.as_ref().map(|x| x.to_value()),
            self.f53.as_ref().map(|x| x.to_value()),
            self.f54.as_ref().map(|x| x.to_value()),
            self.f55.as_ref().map(|x| x.to_value()),
            self.f56.as_ref().map(|x| x.to_value()),
            self.f57.as_ref().map(|x| x.to_value()),
            self.f58.as_ref().map(|x| x.to_value()),
            self.f59.as_ref().map(|x| x.to_value()),
            self.f60.as_ref().map(|x| x.to_value()),
            self.f61.as_ref().map(|x| x.to_value()),
            self.f62.as_ref().map(|x| x.to_value()),
            self.f63.as_ref().map(|x| x.to_value()),
            self.f64.as_ref().map(|x| x.to_value()),
        ])
    }
}
impl FromValue for Twidex65 {
    fn from_value(v: &Value) -> Self {
        let s = match v { Value::Seq(s) => s, other => panic!("Twidex65: expected Seq, got {other:?}") };
        assert_eq!(s.len(), 66, "Twidex65: component count");
        let _ = s;
        Twidex65 {
            r: FromValue::from_value(s[0].as_ref().expect("component r of Twidex65 must be present")),
            x0: s[1].as_ref().map(FromValue::from_value),
            x1: s[2].as_ref().map(FromValue::from_value),
            x2: s[3].as_ref().map(FromValue::from_value),
            x3: s[4].as_ref().map(FromValue::from_value),
            x4: s[5].as_ref().map(FromValue::from_value),
            x5: s[6].as_ref().map(FromValue::from_value),
            x6: s[7].as_ref().map(FromValue::from_value),
            x7: s[8].as_ref().map(FromValue::from_value),
            x8: s[9].as_ref().map(FromValue::from_value),
            x9: s[10].as_ref().map(FromValue::from_value),
            x10: s[11].as_ref().map(FromValue::from_value),
            x11: s[12].as_ref().map(FromValue::from_value),
            x12: s[13].as_ref().map(FromValue::from_value),
            x13: s[14].as_ref().map(FromValue::from_value),
            x14: s[15].as_ref().map(FromValue::from_value),
            x15: s[16].as_ref().map(FromValue::from_value),
            x16: s[17].as_ref().map(FromValue::from_value),
            x17: s[18].as_ref().map(FromValue::from_value),
            x18: s[19].as_ref().map(FromValue::from_value),
            x19: s[20].as_ref().map(FromValue::from_value),
            x20: s[21].as_ref().map(FromValue::from_value),
            x21: s[22].as_ref().map(FromValue::from_value),
            x22: s[23].as_ref().map(FromValue::from_value),
            x23: s[24].as_ref().map(FromValue::from_value),
            x24: s[25].as_ref().map(FromValue::from_value),
            x25: s[26].as_ref().map(FromValue::from_value),
            x26: s[27].as_ref().map(FromValue::from_value),
            x27: s[28].as_ref().map(FromValue::from_value),
            x28: s[29].as_ref().map(FromValue::from_value),
            x29: s[30].as_ref().map(FromValue::from_value),
            x30: s[31].as_ref().map(FromValue::from_value),
            x31: s[32].as_ref().map(FromValue::from_value),
            x32: s[33].as_ref().map(FromValue::from_value),
            x33: s[34].as_ref().map(FromValue::from_value),
            x34: s[35].as_ref().map(FromValue::from_value),
            x35: s[36].as_ref().map(FromValue::from_value),
            x36: s[37].as_ref().map(FromValue::from_value),
            x37: s[38].as_ref().map(FromValue::from_value),
            x38: s[39].as_ref().map(FromValue::from_value),
            x39: s[40].as_ref().map(FromValue::from_value),
            x40: s[41].as_ref().map(FromValue::from_value),
            x41: s[42].as_ref().map(FromValue::from_value),
            x42: s[43].as_ref().map(FromValue::from_value),
            x43: s[44].as_ref().map(FromValue::from_value),
            x44: s[45].as_ref().map(FromValue::from_value),
            x45: s[46].as_ref().map(FromValue::from_value),
            x46: s[47].as_ref().map(FromValue::from_value),
            x47: s[48].as_ref().map(FromValue::from_value),
            x48: s[49].as_ref().map(FromValue::from_value),
            x49: s[50].as_ref().map(FromValue::from_value),
            x50: s[51].as_ref().map(FromValue::from_value),
            x51: s[52].as_ref().map(FromValue::from_value),
            x52: s[53].as_ref().map(FromValue::from_value),
            x53: s[54].as_ref().map(FromValue::from_value),
            x54: s[55].as_ref().map(FromValue::from_value),
            x55: s[56].as_ref().map(FromValue::from_value),
            x56: s[57].as_ref().map(FromValue::from_value),
            x57: s[58].as_ref().map(FromValue::from_value),
            x58: s[59].as_ref().map(FromValue::from_value),
            x59: s[60].as_ref().map(FromValue::from_value),
            x60: s[61].as_ref().map(FromValue::from_value),
            x61: s[62].as_ref().map(FromValue::from_value),
            x62: s[63].as_ref().map(FromValue::from_value),
            x63: s[64].as_ref().map(FromValue::from_value),
            x64: s[65].as_ref().map(FromValue::from_value),
        }
    }
}
impl ToValue for Twidex65 {
    fn to_value(&self) -> Value {
        Value::Seq(vec![
            Some(self.r.to_value()),
            self.x0.as_ref().map(|x| x.to_value()),
            self.x1.as_ref().map(|x| x.to_value()),
            self.x2.as_ref().map(|x| x.to_value()),
            self.x3.as_ref().map(|x| x.to_value()),
            self.x4.as_ref().map(|x| x.to_value()),
            self.x5.as_ref().map(|x| x.to_value()),
            self.x6.as_ref().map(|x| x.to_value()),
            self.x7.as_ref().map(|x| x.to_value()),
            self.x8.as_ref().map(|x| x.to_value()),
            self.x9.as_ref().map(|x| x.to_value()),
            self.x10.as_ref().map(|x| x.to_value()),
            self.x11.as_ref().map(|x| x.to_value()),
            self.x12.as_ref().map(|x| x.to_value()),
            self.x13.as_ref().map(|x| x.to_value()),
            self.x14.as_ref().map(|x| x.to_value()),
            self.x15.as_ref().map(|x| x.to_value()),
            self.x16.as_ref().map(|x| x.to_value()),
            self.x17.as_ref().map(|x| x.to_value()),
            self.x18.as_ref().map(|x| x.to_value()),
            self.x19.as_ref().map(|x| x.to_value()),
            self.x20.as_ref().map(|x| x.to_value()),
            self.x21.as_ref().map(|x| x.to_value()),
            self.x22.as_ref().map(|x| x.to_value()),
            self.x23.as_ref().map(|x| x.to_value()),
            self.x24.as_ref().map(|x| x.to_value()),
            self.x25.as_ref().map(|x| x.to_value()),
            self.x26.as_ref().map(|x| x.to_value()),
            self.x27.as_ref().map(|x| x.to_value()),
            self.x28.as_ref().map(|x| x.to_value()),
            self.x29.as_ref().map(|x| x.to_value()),
            self.x30.as_ref().map(|x| x.to_value()),
            self.x31.as_ref().map(|x| x.to_value()),
            self.x32.as_ref().map(|x| x.to_value()),
            self.x33.as_ref().map(|x| x.to_value()),
            self.x34.as_ref().map(|x| x.to_value()),
            self.x35.as_ref().map(|x| x.to_value()),
            self.x36.as_ref().map(|x| x.to_value()),
            self.x37.as_ref().map(|x| x.to_value()),
            self.x38.as_ref().map(|x| x.to_value()),
            self.x39.as_ref().map(|x| x.to_value()),
            self.x40.as_ref().map(|x| x.to_value()),
            self.x41.as_ref().map(|x| x.to_value()),
            self.x42.as_ref().map(|x| x.to_value()),
            self.x43.as_ref().map(|x| x.to_value()),
            self.x44.as_ref().map(|x| x.to_value()),
            self.x45.as_ref().map(|x| x.to_value()),
            self.x46.as_ref().map(|x| x.to_value()),
            self.x47.as_ref().map(|x| x.to_value()),
            self.x48.as_ref().map(|x| x.to_value()),
            self.x49.as_ref().map(|x| x.to_value()),
            self.x50.as_ref().map(|x| x.to_value()),
            self.x51.as_ref().map(|x| x.to_value()),
            self.x52.as_ref().map(|x| x.to_value()),
            self.x53.as_ref().map(|x| x.to_value()),
            self.x54.as_ref().map(|x| x.to_value()),
            self.x55.as_ref().map(|x| x.to_value()),
            self.x56.as_ref().map(|x| x.to_value()),
            self.x57.as_ref().map(|x| x.to_value()),
            self.x58.as_ref().map(|x| x.to_value()),
            self.x59.as_ref().map(|x| x.to_value()),
            self.x60.as_ref().map(|x| x.to_value()),
            self.x61.as_ref().map(|x| x.to_value()),
            self.x62.as_ref().map(|x| x.to_value()),
            self.x63.as_ref().map(|x| x.to_value()),
            self.x64.as_ref().map(|x| x.to_value()),
        ])
    }
}
impl FromValue for Twideo70 {
    fn from_value(v: &Value) -> Self {
        let s = match v { Value::Seq(s) => s, other => panic!("Twideo70: expected Seq, got {other:?}") };
        assert_eq!(s.len(), 70, "Twideo70: component count");
        let _ = s;
        Twideo70 {
            f0: s[0].as_ref().map(FromValue::from_value),
            f1: s[1].as_ref().map(FromValue::from_value),
            f2: s[2].as_ref().map(FromValue::from_value),
            f3: s[3].as_ref().map(FromValue::from_value),
            f4: s[4].as_ref().map(FromValue::from_value),
            f5: s[5].as_ref().map(FromValue::from_value),
            f6: s[6].as_ref().map(FromValue::from_value),
            f7: s[7].as_ref().map(FromValue::from_value),
            f8: s[8].as_ref().map(FromValue::from_value),
            f9: s[9].as_ref().map(FromValue::from_value),
            f10: s[10].as_ref().map(FromValue::from_value),
            f11: s[11].as_ref().map(FromValue::from_value),
            f12: s[12].as_ref().map(FromValue::from_value),
            f13: s[13].as_ref().map(FromValue::from_value),
            f14: s[14].as_ref().map(FromValue::from_value),
            f15: s[15].as_ref().map(FromValue::from_value),
            f16: s[16].as_ref().map(FromValue::from_value),
            f17: s[17].as_ref().map(FromValue::from_value),
            f18: s[18].as_ref().map(FromValue::from_value),
            f19: s[19].as_ref().map(FromValue::from_value),
            f20: s[20].as_ref().map(FromValue::from_value),
            f21: s[21].as_ref().map(FromValue::from_value),
            f22: s[22].as_ref().map(FromValue::from_value),
            f23: s[23].as_ref().map(FromValue::from_value),
            f24: s[24].as_ref().map(FromValue::from_value),
            f25: s[25].as_ref().map(FromValue::from_value),
            f26: s[26].as_ref().map(FromValue::from_value),
            f27: s[27].as_ref().map(FromValue::from_value),
            f28: s[28].as_ref().map(FromValue::from_value),
            f29: s[29].as_ref().map(FromValue::from_value),
            f30: s[30].as_ref().map(FromValue::from_value),
            f31: s[31].as_ref().map(FromValue::from_value),
            f32: s[32].as_ref().map(FromValue::from_value),
            f33: s[33].as_ref().map(FromValue::from_value),
            f34: s[34].as_ref().map(FromValue::from_value),
            f35: s[35].as_ref().map(FromValue::from_value),
            f36: s[36].as_ref().map(FromValue::from_value),
            f37: s[37].as_ref().map(FromValue::from_value),
            f38: s[38].as_ref().map(FromValue::from_value),
            f39: s[39].as_ref().map(FromValue::from_value),
            f40: s[40].as_ref().map(FromValue::from_value),
            f41: s[41].as_ref().map(FromValue::from_value),
            f42: s[42].as_ref().map(FromValue::from_value),
            f43: s[43].as_ref().map(FromValue::from_value),
            f44: s[44].as_ref().map(FromValue::from_value),
            f45: s[45].as_ref().map(FromValue::from_value),
            f46: s[46].as_ref().map(FromValue::from_value),
            f47: s[47].as_ref().map(FromValue::from_value),
            f48: s[48].as_ref().map(FromValue::from_value),
            f49: s[49].as_ref().map(FromValue::from_value),
            f50: s[50].as_ref().map(FromValue::from_value),
            f51: s[51].as_ref().map(FromValue::from_value),
            f52: s[52].as_ref().map(FromValue::from_value),
            f53: s[53].as_ref().map(FromValue::from_value),
            f54: s[54].as_ref().map(FromValue::from_value),
            f55: s[55].as_ref().map(FromValue::from_value),
            f56: s[56].as_ref().map(FromValue::from_value),
            f57: s[57].as_ref().map(FromValue::from_value),
            f58: s[58].as_ref().map(FromValue::from_value),
            f59: s[59].as_ref().map(FromValue::from_value),
            f60: s[60].as_ref().map(FromValue::from_value),
            f61: s[61].as_ref().map(FromValue::from_value),
            f62: s[62].as_ref().map(FromValue::from_value),
            f63: s[63].as_ref().map(FromValue::from_value),
            f64: s[64].as_ref().map(FromValue::from_value),
            f65: s[65].as_ref().map(FromValue::from_value),
            f66: s[66].as_ref().map(FromValue::from_value),
            f67: s[67].as_ref().map(FromValue::from_value),
            f68: s[68].as_ref().map(FromValue::from_value),
            f69: s[69].as_ref().map(FromValue::from_value),
        }
    }
}
impl ToValue for Twideo70 {
    fn to_value(&self) -> Value {
        Value::Seq(vec![
            self.f0.as_ref().map(|x| x.to_value()),
            self.f1.as_ref().map(|x| x.to_value()),
            self.f2.as_ref().map(|x| x.to_value()),
            self.f3.as_ref().map(|x| x.to_value()),
            self.f4.as_ref().map(|x| x.to_value()),
            self.f5.as_ref().map(|x| x.to_value()),
            self.f6.as_ref().map(|x| x.to_value()),
            self.f7.as_ref().map(|x| x.to_value()),
            self.f8.as_ref().map(|x| x.to_value()),
            self.f9.as_ref().map(|x| x.to_value()),
            self.f10.as_ref().map(|x| x.to_value()),
            self.f11.as_ref().map(|x| x.to_value()),
            self.f12.as_ref().map(|x| x.to_value()),
            self.f13.as_ref().map(|x| x.to_value()),
            self.f14.as_ref().map(|x| x.to_value()),
            self.f15.as_ref().map(|x| x.to_value()),
            self.f16.as_ref().map(|x| x.to_value()),
            self.f17.as_ref().map(|x| x.to_value()),
            self.f18.as_ref().map(|x| x.to_value()),
            self.f19.as_ref().map(|x| x.to_value()),
            self.f20.as_ref().map(|x| x.to_value()),
            self.f21.as_ref().map(|x| x.to_value()),
            self.f22.as_ref().map(|x| x.to_value()),
            self.f23.as_ref().map(|x| x.to_value()),
            self.f24.as_ref().map(|x| x.to_value()),
            self.f25.as_ref().map(|x| x.to_value()),
            self.f26.as_ref().map(|x| x.to_value()),
            self.f27.as_ref().map(|x| x.to_value()),
            self.f28.as_ref().map(|x| x.to_value()),
            self.f29.as_ref().map(|x| x.to_value()),
            self.f30.as_ref().map(|x| x.to_value()),
            self.f31.as_ref().map(|x| x.to_value()),
            self.f32.as_ref().map(|x| x.to_value()),
            self.f33.as_ref().map(|x| x.to_value()),
            self.f34.as_ref().map(|x| x.to_value()),
            self.f35.as_ref().map(|x| x.to_value()),
            self.f36.as_ref().map(|x| x.to_value()),
            self.f37.as_ref().map(|x| x.to_value()),
            self.f38.as_ref().map(|x| x.to_value()),
            self.f39.as_ref().map(|x| x.to_value()),
            self.f40.as_ref().map(|x| x.to_value()),
            self.f41.as_ref().map(|x| x.to_value()),
            self.f42.as_ref().map(|x| x.to_value()),
            self.f43.as_ref().map(|x| x.to_value()),
            self.f44.as_ref().map(|x| x.to_value()),
            self.f45.as_ref().map(|x| x.to_value()),
            self.f46.as_ref().map(|x| x.to_value()),
            self.f47.as_ref().map(|x| x.to_value()),
            self.f48.as_ref().map(|x| x.to_value()),
            self.f49.as_ref().map(|x| x.to_value()),
            self.f50.as_ref().map(|x| x.to_value()),
            self.f51.as_ref().map(|x| x.to_value()),
            self.f52.as_ref().map(|x| x.to_value()),
            self.f53.as_ref().map(|x| x.to_value()),
            self.f54.as_ref().map(|x| x.to_value()),
            self.f55.as_ref().map(|x| x.to_value()),
            self.f56.as_ref().map(|x| x.to_value()),
            self.f57.as_ref().map(|x| x.to_value()),
            self.f58.as_ref().map(|x| x.to_value()),
            self.f59.as_ref().map(|x| x.to_value()),
            self.f60.as_ref().map(|x| x.to_value()),
            self.f61.as_ref().map(|x| x.to_value()),
            self.f62.as_ref().map(|x| x.to_value()),
            self.f63.as_ref().map(|x| x.to_value()),
            self.f64.as_ref().map(|x| x.to_value()),
            self.f65.as_ref().map(|x| x.to_value()),
            self.f66.as_ref().map(|x| x.to_value()),
            self.f67.as_ref().map(|x| x.to_value()),
            self.f68.as_ref().map(|x| x.to_value()),
            self.f69.as_ref().map(|x| x.to_value()),
        ])
    }
}
impl FromValue for Twidex70 {
    fn from_value(v: &Value) -> Self {
        let s = match v { Value::Seq(s) => s, other => panic!("Twidex70: expected Seq, got {other:?}") };
        assert_eq!(s.len(), 71, "Twidex70: component count");
        let _ = s;
        Twidex70 {
            r: FromValue::from_value(s[0].as_ref().expect("component r of Twidex70 must be present")),
            x0: s[1].as_ref().map(FromValue::from_value),
            x1: s[2].as_ref().map(FromValue::from_value),
            x2: s[3].as_ref().map(FromValue::from_value),
            x3: s[4].as_ref().map(FromValue::from_value),
            x4: s[5].as_ref().map(FromValue::from_value),
            x5: s[6].as_ref().map(FromValue::from_value),
            x6: s[7].as_ref().map(FromValue::from_value),
            x7: s[8].as_ref().map(FromValue::from_value),
            x8: s[9].as_ref().map(FromValue::from_value),
            x9: s[10].as_ref().map(FromValue::from_value),
            x10: s[11].as_ref().map(FromValue::from_value),
            x11: s[12].as_ref().map(FromValue::from_value),
            x12: s[13].as_ref().map(FromValue::from_value),
            x13: s[14].as_ref().map(FromValue::from_value),
            x14: s[15].as_ref().map(FromValue::from_value),
            x15: s[16].as_ref().map(FromValue::from_value),
            x16: s[17].as_ref().map(FromValue::from_value),
            x17: s[18].as_ref().map(FromValue::from_value),
            x18: s[19].as_ref().map(FromValue::from_value),
            x19: s[20].as_ref().map(FromValue::from_value),
            x20: s[21].as_ref().map(FromValue::from_value),
            x21: s[22].as_ref().map(FromValue::from_value),
            x22: s[23].as_ref().map(FromValue::from_value),
            x23: s[24].as_ref().map(FromValue::from_value),
            x24: s[25].as_ref().map(FromValue::from_value),
            x25: s[26].as_ref().map(FromValue::from_value),
            x26: s[27].as_ref().map(FromValue::from_value),
            x27: s[28].as_ref().map(FromValue::from_value),
            x28: s[29].as_ref().map(FromValue::from_value),
            x29: s[30].as_ref().map(FromValue::from_value),
            x30: s[31].as_ref().map(FromValue::from_value),
            x31: s[32].as_ref().map(FromValue::from_value),
            x32: s[33].as_ref().map(FromValue::from_value),
            x33: s[34].as_ref().map(FromValue::from_value),
            x34: s[35].as_ref().map(FromValue::from_value),
            x35: s[36].as_ref().map(FromValue::from_value),
            x36: s[37].as_ref().map(FromValue::from_value),
            x37: s[38].as_ref().map(FromValue::from_value),
            x38: s[39].as_ref().map(FromValue::from_value),
            x39: s[40].as_ref().map(FromValue::from_value),
            x40: s[41].as_ref().map(FromValue::from_value),
            x41: s[42].as_ref().map(FromValue::from_value),
            x42: s[43].as_ref().map(FromValue::from_value),
            x43: s[44].as_ref().map(FromValue::from_value),
            x44: s[45].as_ref().map(FromValue::from_value),
            x45: s[46].as_ref().map(FromValue::from_value),
            x46: s[47].as_ref().map(FromValue::from_value),
            x47: s[48].as_ref().map(FromValue::from_value),
            x48: s[49].as_ref().map(FromValue::from_value),
            x49: s[50].as_ref().map(FromValue::from_value),
            x50: s[51].as_ref().map(FromValue::from_value),
            x51: s[52].as_ref().map(FromValue::from_value),
            x52: s[53].as_ref().map(FromValue::from_value),
            x53: s[54].as_ref().map(FromValue::from_value),
            x54: s[55].as_ref().map(FromValue::from_value),
            x55: s[56].as_ref().map(FromValue::from_value),
            x56: s[57].as_ref().map(FromValue::from_value),
            x57: s[58].as_ref().map(FromValue::from_value),
            x58: s[59].as_ref().map(FromValue::from_value),
            x59: s[60].as_ref().map(FromValue::from_value),
            x60: s[61].as_ref().map(FromValue::from_value),
            x61: s[62].as_ref().map(FromValue::from_value),
            x62: s[63].as_ref().map(FromValue::from_value),
            x63: s[64].as_ref().map(FromValue::from_value),
            x64: s[65].as_ref().map(FromValue::from_value),
            x65: s[66].as_ref().map(FromValue::from_value),
            x66: s[67].as_ref().map(FromValue::from_value),
            x67: s[68].as_ref().map(FromValue::from_value),
            x68: s[69].as_ref().map(FromValue::from_value),
            x69: s[70].as_ref().map(FromValue::from_value),
        }
    }
}
impl ToValue for Twidex70 {
    fn to_value(&self) -> Value {
        Value::Seq(vec![
            Some(self.r.to_value()),
            self.x0.as_ref().map(|x| x.to_value()),
            self.x1.as_ref().map(|x| x.to_value()),
            self.x2.as_ref().map(|x| x.to_value()),
            self.x3.as_ref().map(|x| x.to_value()),
            self.x4.as_ref().map(|x| x.to_value()),
            self.x5.as_ref().map(|x| x.to_value()),
            self.x6.as_ref().map(|x| x.to_value()),
            self.x7.as_ref().map(|x| x.to_value()),
            self.x8.as_ref().map(|x| x.to_value()),
            self.x9.as_ref().map(|x| x.to_value()),
            self.x10.as_ref().map(|x| x.to_value()),
            self.x11.as_ref().map(|x| x.to_value()),
            self.x12.as_ref().map(|x| x.to_value()),
            self.x13.as_ref().map(|x| x.to_value()),
            self.x14.as_ref().map(|x| x.to_value()),
            self.x15.as_ref().map(|x| x.to_value()),
            self.x16.as_ref().map(|x| x.to_value()),
            self.x17.as_ref().map(|x| x.to_value()),
            self.x18.as_ref().map(|x| x.to_value()),
            self.x19.as_ref().map(|x| x.to_value()),
            self.x20.as_ref().map(|x| x.to_value()),
            self.x21.as_ref().map(|x| x.to_value()),
            self.x22.as_ref().map(|x| x.to_value()),
            self.x23.as_ref().map(|x| x.to_value()),
            self.x24.as_ref().map(|x| x.to_value()),
            self.x25.as_ref().map(|x| x.to_value()),
            self.x26.as_ref().map(|x| x.to_value()),
            self.x27.as_ref().map(|x| x.to_value()),
            self.x28.as_ref().map(|x| x.to_value()),
            self.x29.as_ref().map(|x| x.to_value()),
            self.x30.as_ref().map(|x| x.to_value()),
            self.x31.as_ref().map(|x| x.to_value()),
            self.x32.as_ref().map(|x| x.to_value()),
            self.x33.as_ref().map(|x| x.to_value()),
            self.x34.as_ref().map(|x| x.to_value()),
            self.x35.as_ref().map(|x| x.to_value()),
            self.x36.as_ref().map(|x| x.to_value()),
            self.x37.as_ref().map(|x| x.to_value()),
            self.x38.as_ref().map(|x| x.to_value()),
            self.x39.as_ref().map(|x| x.to_value()),
            self.x40.as_ref().map(|x| x.to_value()),
            self.x41.as_ref().map(|x| x.to_value()),
            self.x42.as_ref().map(|x| x.to_value()),
            self.x43.as_ref().map(|x| x.to_value()),
            self.x44.as_ref().map(|x| x.to_value()),
            self.x45.as_ref().map(|x| x.to_value()),
            self.x46.as_ref().map(|x| x.to_value()),
            self.x47.as_ref().map(|x| x.to_value()),
            self.x48.as_ref().map(|x| x.to_value()),
            self.x49.as_ref().map(|x| x.to_value()),
            self.x50.as_ref().map(|x| x.to_value()),
            self.x51.as_ref().map(|x| x.to_value()),
            self.x52.as_ref().map(|x| x.to_value()),
            self.x53.as_ref().map(|x| x.to_value()),
            self.x54.as_ref().map(|x| x.to_value()),
            self.x55.as_ref().map(|x| x.to_value()),
            self.x56.as_ref().map(|x| x.to_value()),
            self.x57.as_ref().map(|x| x.to_value()),
            self.x58.as_ref().map(|x| x.to_value()),
            self.x59.as_ref().map(|x| x.to_value()),
            self.x60.as_ref().map(|x| x.to_value()),
            self.x61.as_ref().map(|x| x.to_value()),
            self.x62.as_ref().map(|x| x.to_value()),
            self.x63.as_ref().map(|x| x.to_value()),
            self.x64.as_ref().map(|x| x.to_value()),
            self.x65.as_ref().map(|x| x.to_value()),
            self.x66.as_ref().map(|x| x.to_value()),
            self.x67.as_ref().map(|x| x.to_value()),
            self.x68.as_ref().map(|x| x.to_value()),
            self.x69.as_ref().map(|x| x.to_value()),
        ])
    }
}
